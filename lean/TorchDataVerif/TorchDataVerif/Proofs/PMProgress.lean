import TorchDataVerif.Proofs.PMSafety
/-! Progress: while the consumer is inside `next()`, some non-timeout action is enabled (outside the two known
hang states), and `next()` after the end of the stream returns at once. -/
namespace TDV.PM
variable {c : Cfg} {s : State}

/-- No worker process has died. -/
def NoDead (s : State) : Prop := ∀ p ∈ s.wk, p ≠ WPc.dead

/-- The source's exception has already been raised to the consumer. -/
def SourceErrorRaised (c : Cfg) (s : State) : Prop := c.term = .error ∧ c.src.length ∈ s.got

/-- Some action other than a timeout is enabled. -/
def CanMove (c : Cfg) (s : State) : Prop := ∃ a : Action, a.isTimeout = false ∧ (step c s a).isSome = true

theorem reader_cases (c : Cfg) (s : State) : CanMove c s ∨ s.rpc = .exited ∨ (s.rpc = .acq ∧ s.sem = 0) := by
  cases hr : s.rpc with
  | init => exact Or.inl ⟨.rInit, rfl, by simp [step, stepR, hr]⟩
  | top => exact Or.inl ⟨.rIsSet, rfl, by simp [step, stepR, hr]⟩
  | acq =>
    by_cases hs : 0 < s.sem
    · exact Or.inl ⟨.rAcq, rfl, by simp [step, stepR, hr, hs]⟩
    · exact Or.inr (Or.inr ⟨rfl, by omega⟩)
  | next => exact Or.inl ⟨.rEnter, rfl, by simp [step, stepR, hr]⟩
  | insrc =>
    refine Or.inl ⟨.rLeave, rfl, ?_⟩
    simp only [step, stepR, hr]
    cases c.src[s.pulled]? <;> simp
  | app v i => exact Or.inl ⟨.rAppend, rfl, by simp [step, stepR, hr]⟩
  | put m => exact Or.inl ⟨.rPut, rfl, by simp [step, stepR, hr]⟩
  | ret => exact Or.inl ⟨.rRet, rfl, by simp [step, stepR, hr]⟩
  | exited => exact Or.inr (Or.inl rfl)

theorem worker_cases (c : Cfg) (s : State) (i : Nat) (p : WPc) (hi : s.wk[i]? = some p) :
    CanMove c s ∨ p = .exited ∨ p = .dead ∨ (p = .get ∧ s.inq = []) := by
  cases p with
  | top => exact Or.inl ⟨.wIsSet i, rfl, by simp [step, stepW, hi]⟩
  | chk => exact Or.inl ⟨.wEmpty i, rfl, by simp [step, stepW, hi]⟩
  | get =>
    cases hq : s.inq with
    | nil => exact Or.inr (Or.inr (Or.inr ⟨rfl, rfl⟩))
    | cons m rest => exact Or.inl ⟨.wGet i, rfl, by simp [step, stepW, hi, hq]⟩
  | «have» m => exact Or.inl ⟨.wPut i, rfl, by simp [step, stepW, hi]⟩
  | exited => exact Or.inr (Or.inl rfl)
  | dead => exact Or.inr (Or.inr (Or.inl rfl))

theorem workers_cases (c : Cfg) (s : State) :
    CanMove c s ∨ ∀ p ∈ s.wk, p = .exited ∨ p = .dead ∨ (p = .get ∧ s.inq = []) := by
  by_cases hm : CanMove c s
  · exact Or.inl hm
  · right
    intro p hp
    obtain ⟨i, hi⟩ := List.getElem?_of_mem hp
    rcases worker_cases c s i p hi with h | h
    · exact absurd h hm
    · exact h

theorem sorter_cases (c : Cfg) (s : State) :
    CanMove c s ∨ s.spc = .off ∨ s.spc = .exited ∨ (s.spc = .get ∧ s.mid = []) := by
  cases hr : s.spc with
  | off => exact Or.inr (Or.inl rfl)
  | top => exact Or.inl ⟨.sIsSet, rfl, by simp [step, stepS, hr]⟩
  | get =>
    cases hq : s.mid with
    | nil => exact Or.inr (Or.inr (Or.inr ⟨rfl, rfl⟩))
    | cons m rest => exact Or.inl ⟨.sGet, rfl, by simp [step, stepS, hr, hq]⟩
  | «have» m =>
    refine Or.inl ⟨.sHave, rfl, ?_⟩
    simp only [step, stepS, hr]
    split
    · simp
    · split <;> simp
  | drain =>
    refine Or.inl ⟨.sDrain, rfl, ?_⟩
    simp only [step, stepS, hr]
    cases bufTake s.cur s.buf <;> simp
  | exited => exact Or.inr (Or.inr (Or.inl rfl))

theorem count_zero_of_ne (b : List Msg) (k : Nat) (h : ∀ m ∈ b, m.idx ≠ k) : (idxs b).count k = 0 := by
  rw [List.count_eq_zero]
  intro hk
  obtain ⟨m, hm, he⟩ := mem_idxs.mp hk
  exact h m hm he

/-- The quiescent case: the consumer polls an empty queue and no other thread can move.  Then the reader has returned
with nothing in flight, or a worker is not alive — exactly the two situations `__next__` tests for after `queue.Empty`. -/
theorem progress_get (h : Inv c s) (hpc : s.cpc = .get) (hq : outq c s = []) (hN : 0 < c.N) (hmax : 0 < c.max) :
    CanMove c s ∨ afterEmpty c s = .set1 ∨ afterEmpty c s = .dchk1 := by
  have hstop := stop_false_of h (by simp [hpc])
  have hmp := mpstop_false_of h hstop
  have hflag : (if c.proc = true then s.mpstop else s.stop) = false := by cases c.proc <;> simp [hstop, hmp]
  rcases reader_cases c s with hm | hr
  · exact Or.inl hm
  rcases workers_cases c s with hm | hw
  · exact Or.inl hm
  rcases sorter_cases c s with hm | hsp
  · exact Or.inl hm
  right
  by_cases hany : s.wk.any WPc.gone = true
  · unfold afterEmpty
    split
    · exact Or.inl rfl
    · simp [hany]
  left
  -- workers: all alive, hence all blocked on an empty in-queue
  have hw' : ∀ p ∈ s.wk, p = .get ∧ s.inq = [] := by
    intro p hp
    have hg : p.gone = false := by
      cases hgg : p.gone
      · rfl
      · exact absurd (List.any_eq_true.mpr ⟨p, hp, hgg⟩) hany
    rcases hw p hp with h1 | h1 | h1
    · simp [h1, WPc.gone] at hg
    · simp [h1, WPc.gone] at hg
    · exact h1
  have hwne : s.wk ≠ [] := by
    intro he
    have := h.wkLen
    rw [he] at this
    simp at this
    omega
  obtain ⟨p0, hp0⟩ := List.exists_mem_of_ne_nil _ hwne
  have hinq : s.inq = [] := (hw' p0 hp0).2
  have hwh : (s.wk.map WPc.holds).sum = 0 :=
    sum_all_zero _ _ (fun p hp => by rw [(hw' p hp).1]; rfl)
  have hwc : ∀ k, (s.wk.map (WPc.cnt k)).sum = 0 := fun k =>
    sum_all_zero _ _ (fun p hp => by rw [(hw' p hp).1]; rfl)
  have hdead : deadCount s = 0 := by
    unfold deadCount
    apply sum_all_zero
    intro p hp
    rw [(hw' p hp).1]; rfl
  have hlost : s.lost = [] := List.eq_nil_of_length_eq_zero (by have := h.lostLe; omega)
  have hrh : s.rpc.hand = none ∧ s.rpc.holds = 0 ∧ s.rpc.inCall = 0 := by
    rcases hr with h1 | ⟨h1, _⟩ <;> simp [h1, RPc.hand, RPc.holds, RPc.inCall]
  -- sorter
  have hrest : s.mid = [] ∧ s.sq = [] ∧ s.buf = [] ∧ s.spc.hand = none ∧ s.spc.holds = 0 := by
    rcases hsp with h1 | h1 | ⟨h1, h2⟩
    · have hio := h.sOff.mp h1
      have := h.offEmpty hio
      simp only [outq, hio, Bool.false_eq_true, if_false] at hq
      exact ⟨hq, this.1, this.2.1, by simp [h1, SPc.hand], by simp [h1, SPc.holds]⟩
    · have := h.sExit h1; rw [hstop] at this; simp at this
    · have hio := inOrder_of_spc h (by simp [h1])
      simp only [outq, hio, if_true] at hq
      refine ⟨h2, hq, ?_, by simp [h1, SPc.hand], by simp [h1, SPc.holds]⟩
      -- the buffer is empty: otherwise index `cur` would be nowhere
      cases hb : s.buf with
      | nil => rfl
      | cons m rest =>
        exfalso
        have hm : m ∈ s.buf := by simp [hb]
        have h1' := buf_ge_cur h hio m hm
        have h2' := h.bufNe (by simp [h1]) m hm
        have h3 : m.idx < s.pulled := by
          have hc := h.cnt m.idx
          have : 0 < (idxs s.buf).count m.idx := List.count_pos_iff.mpr (mem_idxs.mpr ⟨m, hm, rfl⟩)
          simp only [cnt] at hc
          split at hc <;> omega
        have hc := h.cnt s.cur
        have ho := congrArg (List.count s.cur) (h.order hio)
        rw [count_range] at ho
        simp only [List.count_append, hpc, CPc.hand, Option.toList, hq, idxs_nil, List.count_nil] at ho
        have hbz := count_zero_of_ne s.buf s.cur (h.bufNe (by simp [h1]))
        simp only [cnt, hpc, CPc.hand, hq, h2, hinq, idxs_nil, List.count_nil, hbz, h1, SPc.hand, hwc, hrh.1, hlost,
          optCount_none] at hc
        simp at ho
        split at hc <;> omega
  obtain ⟨hmid, hsq, hbuf, hsh, hsho⟩ := hrest
  have hheld : held s = 0 := by
    simp only [held, hinq, hmid, hsq, hbuf, hwh, hsho, hrh.2.1, List.length_nil]
  have hpend : pending s = 0 := by
    simp only [pending, hpc, CPc.permit, hrh.2.2]
  have hsem : s.sem = c.max := by
    have := h.permits
    rw [hheld, hpend, hlost] at this
    simpa using this
  have hrex : s.rpc = .exited := by
    rcases hr with h1 | ⟨_, h2⟩
    · exact h1
    · omega
  simp [afterEmpty, hrex, hsem]

/-- **Progress.** With the consumer inside `next()`: some non-timeout action is enabled, or the consumer's own timeout
step (`queue.Empty`) takes it to the StopIteration exit (`set1`) or to the dead-worker exit (`dchk1`). -/
theorem progress_of_inv (h : Inv c s) (hin : s.cpc.inNext = true) (hN : 0 < c.N) (hmax : 0 < c.max) :
    CanMove c s ∨ ∃ s', step c s .cGetT = some s' ∧ (s'.cpc = .set1 ∨ s'.cpc = .dchk1) := by
  cases hpc : s.cpc with
  | boot => simp [hpc, CPc.inNext] at hin
  | idle => simp [hpc, CPc.inNext] at hin
  | shut1 => simp [hpc, CPc.inNext] at hin
  | closed => simp [hpc, CPc.inNext] at hin
  | top =>
    refine Or.inl ⟨.cIsSet, rfl, ?_⟩
    simp only [step, stepC, hpc]
    split <;> simp
  | mp =>
    refine Or.inl ⟨.cMpIsSet, rfl, ?_⟩
    simp only [step, stepC, hpc]
    split <;> simp
  | chk => exact Or.inl ⟨.cChk, rfl, by simp [step, stepC, hpc]⟩
  | set1 => exact Or.inl ⟨.cSet, rfl, by simp [step, stepC, hpc]⟩
  | set2 => exact Or.inl ⟨.cMpSet, rfl, by simp [step, stepC, hpc]⟩
  | dchk1 => exact Or.inl ⟨.cDeadIsSet, rfl, by simp [step, stepC, hpc]⟩
  | dchk2 => exact Or.inl ⟨.cDeadMpIsSet, rfl, by simp [step, stepC, hpc]⟩
  | dset1 => exact Or.inl ⟨.cDeadSet, rfl, by simp [step, stepC, hpc]⟩
  | dset2 => exact Or.inl ⟨.cDeadMpSet, rfl, by simp [step, stepC, hpc]⟩
  | get =>
    cases hq : outq c s with
    | nil =>
      rcases progress_get h hpc hq hN hmax with hm | hm
      · exact Or.inl hm
      · right
        refine ⟨{ s with cpc := afterEmpty c s }, ?_, hm⟩
        simp [step, stepC, hpc, hq]
    | cons m rest =>
      refine Or.inl ⟨.cGet, rfl, ?_⟩
      simp only [step, stepC, hpc, hq]
      cases m.pay <;> simp
  | rel m =>
    have hlt : s.sem < c.max := by
      have := h.permits
      simp only [pending, hpc, CPc.permit] at this
      omega
    refine Or.inl ⟨.cRel, rfl, ?_⟩
    simp only [step, stepC, hpc, hlt, if_true]
    cases m.pay <;> simp
  | pop m =>
    have := h.popItem m hpc
    refine Or.inl ⟨.cPop, rfl, ?_⟩
    simp only [step, stepC, hpc]
    cases hp : m.pay <;> simp [Msg.isItem, hp] at this ⊢

/-- The release of a permit by the consumer can never overflow the bounded semaphore. -/
theorem rel_enabled (h : Inv c s) (m : Msg) (hpc : s.cpc = .rel m) : s.sem < c.max := by
  have := h.permits
  simp only [pending, hpc, CPc.permit] at this
  omega

end TDV.PM
