import TorchDataVerif.Proofs.MPRIRecv
/-!
# MPRI — every action keeps the joint invariant `J`; whole runs
-/
namespace TDV.MPRI
open TDV.MP TDV.MPU

/-- What a worker attaches to the result of a task (read off `handle`). -/
theorem handle_st (c : Cfg) (w : Nat) (k : Worker) (idx p : Nat) (sn : Bool) (k' : Worker) (r : Res)
    (h : handle c false w k (.task idx p sn) = (k', some r)) :
    (∀ b, r.kind = .data b → r.st = if sn then some ⟨k.pos + 1, false⟩ else none) ∧
    (r.kind = .notice → r.st = some ⟨k.pos, true⟩) := by
  simp only [handle, Bool.false_or] at h
  split at h
  · cases h
  · split at h
    · cases h; simp
    · cases h; simp
    · cases h; simp

/-- A worker handling a message keeps the delta invariant: the result carries what its task's flag asks for. -/
theorem work_KF (c : Cfg) (s s' : State) (g : Ghost) (dl : List Nat) (ex : Option Nat) (w : Nat)
    (hit : c.iterable = true) (hm : MidI c s g ex) (hF : KF c s g.h dl) (hsd : s.shutdown = false)
    (hst : step c s (.work w) = some s') : KF c s' g.h dl := by
  rw [MPU.step_work_eq] at hst
  cases hk : s.workers[w]? with
  | none => simp [hk] at hst
  | some k =>
    simp only [hk] at hst
    split at hst
    · cases hst
    · cases hq : k.q with
      | nil => simp [hq] at hst
      | cons m rest =>
        simp only [hq, hsd] at hst
        cases hst
        have hwl : w < s.workers.length := (List.getElem?_eq_some_iff.mp hk).1
        obtain ⟨q1, q2, q3, q4, q5⟩ := hm.wk w k hk
        -- the queue of every worker only shrinks
        have hqf : ∀ (w' : Nat) (k' : Worker),
            (s.workers.set w (handle c false w { k with q := rest } m).1)[w']? = some k' →
            ∃ k0, s.workers[w']? = some k0 ∧ ∀ i p sn, Msg.task i p sn ∈ k'.q → Msg.task i p sn ∈ k0.q := by
          intro w' k' hk'
          simp only [List.getElem?_set] at hk'
          by_cases hw : w = w'
          · subst hw
            simp only [if_true, hwl] at hk'
            cases hk'
            refine ⟨k, hk, fun i p sn hmem => ?_⟩
            rw [MPU.handle_q'] at hmem
            rw [hq]; exact List.mem_cons_of_mem _ hmem
          · simp only [hw, if_false] at hk'
            exact ⟨k', hk', fun _ _ _ hmem => hmem⟩
        refine ⟨fun w' k' hk' i p sn hmem => ?_, ?_, hF.inf⟩
        · obtain ⟨k0, hk0, hsub⟩ := hqf w' k' hk'
          exact hF.qf w' k0 hk0 i p sn (hsub i p sn hmem)
        · intro r hr
          cases hout : (handle c false w { k with q := rest } m).2 with
          | none => simp only [hout] at hr; exact hF.rf r hr
          | some r0 =>
            simp only [hout] at hr
            rcases List.mem_append.mp hr with h1 | h1
            · exact hF.rf r h1
            · simp only [List.mem_singleton] at h1
              subst h1
              cases m with
              | stop => simp [handle] at hout
              | resume => exact absurd (by rw [hq]; exact List.mem_cons_self ..) q5
              | task idx p sn =>
                rw [hq] at q1 q2
                simp only [taskIdxs, List.length_cons] at q1 q2
                obtain ⟨c1, c2, _⟩ := q1
                have hh := handle_task_iter c w idx p (g.tk w) sn
                  { q := rest, pos := k.pos, iterEnd := k.iterEnd, alive := k.alive } hit q3 q4
                simp only at hh
                obtain ⟨_, _, _, _, a5, a6⟩ := hh
                have hlive : g.tk w ≤ bOf c w := by
                  rcases Nat.lt_or_ge (bOf c w) (g.tk w) with hd | hd
                  · rw [a5 hd] at hout; cases hout
                  · exact hd
                obtain ⟨r1, hr1, hri, hrw, hkind⟩ := a6 hlive
                rw [hout] at hr1
                cases hr1
                obtain ⟨hfq1, hfq2⟩ := hF.qf w k hk idx p sn (by rw [hq]; exact List.mem_cons_self ..)
                have hpair : handle c false w { q := rest, pos := k.pos, iterEnd := k.iterEnd, alive := k.alive }
                    (.task idx p sn) = ((handle c false w { k with q := rest } (.task idx p sn)).1, some r) := by
                  rw [← hout]
                obtain ⟨s1, s2⟩ := handle_st c w _ idx p sn _ r hpair
                refine ⟨by rw [hri]; exact hfq1, ?_⟩
                unfold StOk
                cases hkd : r.kind with
                | data b =>
                  simp only
                  rw [hkd] at hkind
                  obtain ⟨_, _, _, hjlt⟩ := kindAt_data c _ _ _ hkind (by simp)
                  rw [s1 b hkd, hri, hrw, c2, hfq2]
                  simp only [deltaOf]
                  have : k.pos = g.tk w := by rw [q3]; exact Nat.min_eq_left (Nat.le_of_lt hjlt)
                  rw [this]
                | notice =>
                  simp only
                  rw [hkd] at hkind
                  have hj := kindAt_notice c _ _ hkind
                  rw [s2 hkd, hrw]
                  have : k.pos = bOf c w := by rw [q3, hj]; exact Nat.min_self _
                  rw [this]
                | error => trivial
                | ack => trivial

/-- The joint invariant of an iterable, in-order epoch.  `e0` / `δ`: parameters of a restored iterator
(workers that had ended before the checkpoint; virtual yields of the past), `fun _ => false` / `0` for a
fresh one. -/
def J (c : Cfg) (e0 : Nat → Bool) (δ : Nat) (s : State) : Prop :=
  InvI c s ∧ Obs.assertion ∉ s.obs ∧ FS c e0 δ s ∧ (s.shutdown = false → ∃ g dl, JX c e0 δ s g dl)

theorem JX_obs_frame (c : Cfg) (e0 : Nat → Bool) (δ : Nat) (s s' : State) (g : Ghost) (dl : List Nat) (t : List Obs)
    (h : JX c e0 δ s g dl) (ht : taskObs t = []) (hts : Obs.stop ∉ t) (e0' : s'.obs = s.obs ++ t)
    (e1 : s'.sendIdx = s.sendIdx) (e2 : s'.cyc = s.cyc) (e3 : s'.status = s.status) (e4 : s'.rcvdIdx = s.rcvdIdx)
    (e5 : s'.info = s.info) (e6 : s'.workers = s.workers) (e7 : s'.resQ = s.resQ)
    (e9 : s'.numYielded = s.numYielded) (e10 : s'.mainSnaps = s.mainSnaps) (e11 : s'.wsnaps = s.wsnaps)
    (e12 : s'.snap = s.snap) : JX c e0 δ s' g dl := by
  obtain ⟨hm, ho, hl, hf⟩ := h.wi
  refine ⟨⟨MidI_of_eq c s s' g none hm e1 e2 e3 e4 e5 e6 e7, ?_, LiveI_of_eq c s s' g hl e3 e4,
    FinI_of_eq c s s' g t hf hts e0' e1 e4⟩, by rw [e5]; exact SWk_of_eq c s s' _ none 0 h.sw e5 e4 e1 e9 e10,
    by rw [e1]; exact h.dlen, KF_of_eq c s s' _ _ h.kf e6 e7 e5, by rw [e11, e12, e9, e4]; exact h.ks⟩
  rw [e4, e0', taskObs_append, ht, List.append_nil]; exact ho

theorem work_J (c : Cfg) (e0 : Nat → Bool) (δ : Nat) (s s' : State) (w : Nat) (hit : c.iterable = true)
    (hna : Obs.assertion ∉ s.obs) (hfs : FS c e0 δ s) (hx : s.shutdown = false → ∃ g dl, JX c e0 δ s g dl)
    (hst : step c s (.work w) = some s') : Obs.assertion ∉ s'.obs ∧ Post c e0 δ s' := by
  have hshape : s'.obs = s.obs ∧ s'.snap = s.snap ∧ s'.numYielded = s.numYielded ∧ s'.shutdown = s.shutdown ∧
      s'.sendIdx = s.sendIdx ∧ s'.rcvdIdx = s.rcvdIdx ∧ s'.info = s.info ∧ s'.mainSnaps = s.mainSnaps ∧
      s'.wsnaps = s.wsnaps ∧ s'.status = s.status := by
    rw [MPU.step_work_eq] at hst
    split at hst
    · cases hst
    · split at hst
      · cases hst
      · split at hst
        · cases hst
        · cases hst; exact ⟨rfl, rfl, rfl, rfl, rfl, rfl, rfl, rfl, rfl, rfl⟩
  obtain ⟨e1, e2, e3, e4, e5, e6, e7, e8, e9, e10⟩ := hshape
  refine ⟨by rw [e1]; exact hna, FS_of_eq c e0 δ s s' hfs e2 e3, fun hsd' => ?_⟩
  have hsd : s.shutdown = false := by rw [← e4]; exact hsd'
  obtain ⟨g, dl, hJ⟩ := hx hsd
  obtain ⟨hm, ho, hl, hf⟩ := hJ.wi
  obtain ⟨g', hm', hh, har, _⟩ := work_midI c s s' g none w hit hm hsd hst
  have hkf := work_KF c s s' g dl none w hit hm hJ.kf hsd hst
  refine ⟨g', dl, ⟨hm', ?_, ?_, ?_⟩, by rw [e7]; exact SWk_of_eq c s s' _ none 0 hJ.sw e7 e6 e5 e3 e8,
    by rw [e5]; exact hJ.dlen, by rw [hh]; exact hkf, by rw [e9, e2, e3, e6, hh]; exact hJ.ks⟩
  · rw [hh, e6, e1]; exact ho
  · rintro ⟨v, hv', hvu⟩
    have hvu' : up s v = true := by simpa [up, e10] using hvu
    obtain ⟨i, hi, w', hw', hc⟩ := hl ⟨v, hv', hvu'⟩
    exact ⟨i, by rw [e6]; exact hi, w', by rw [hh]; exact hw', by rw [hh, har]; exact hc⟩
  · unfold FinI; rw [hh, e1, e6, e5]; exact hf

theorem kill_J (c : Cfg) (e0 : Nat → Bool) (δ : Nat) (s s' : State) (w : Nat)
    (hna : Obs.assertion ∉ s.obs) (hfs : FS c e0 δ s) (hx : s.shutdown = false → ∃ g dl, JX c e0 δ s g dl)
    (hst : step c s (.kill w) = some s') : Obs.assertion ∉ s'.obs ∧ Post c e0 δ s' := by
  simp only [step] at hst
  split at hst
  · cases hst
  · rename_i k hk
    split at hst
    · cases hst
    · cases hst
      refine ⟨hna, FS_of_eq c e0 δ s _ hfs rfl rfl, fun hsd => ?_⟩
      obtain ⟨g, dl, hJ⟩ := hx hsd
      obtain ⟨hm0, ho, hl, hf⟩ := hJ.wi
      have hwl : w < s.workers.length := (List.getElem?_eq_some_iff.mp hk).1
      have hget : ∀ (w' : Nat) (k' : Worker), (s.workers.set w { k with alive := false })[w']? = some k' →
          ∃ k0, s.workers[w']? = some k0 ∧ k'.q = k0.q ∧ k'.pos = k0.pos ∧ k'.iterEnd = k0.iterEnd := by
        intro w' k' hk'
        simp only [List.getElem?_set] at hk'
        by_cases hw : w = w'
        · subst hw
          simp only [if_true, hwl] at hk'
          cases hk'
          exact ⟨k, hk, rfl, rfl, rfl⟩
        · simp only [hw, if_false] at hk'
          exact ⟨k', hk', rfl, rfl, rfl⟩
      have hmid := MidI_worker_frame c s { s with workers := s.workers.set w { k with alive := false } } g none g.tk hm0
        rfl rfl rfl rfl rfl (by simp [hm0.wlen]) (fun w' k' hk' => by
          obtain ⟨k0, hk0, a1, a2, a3⟩ := hget w' k' hk'
          rw [a1, a2, a3]; exact hm0.wk w' k0 hk0) hm0.rq hm0.rqw
      refine ⟨g, dl, ⟨hmid, ho, LiveI_of_eq c s _ g hl rfl rfl, hf⟩, SWk_of_eq c s _ _ none 0 hJ.sw rfl rfl rfl rfl rfl,
        hJ.dlen, ?_, hJ.ks⟩
      apply KF_weak c s _ g.h dl hJ.kf
      · intro w' k' hk'
        obtain ⟨k0, hk0, a1, _, _⟩ := hget w' k' hk'
        exact ⟨k0, hk0, fun i p sn hmem => by rw [← a1]; exact hmem⟩
      · intro r hr; exact hr
      · intro e he; exact he

/-- One action (not `reset`). -/
theorem step_J (c : Cfg) (e0 : Nat → Bool) (δ : Nat) (s s' : State) (a : Action) (hv : c.shards.length = c.W)
    (hit : c.iterable = true) (hio : c.inOrder = true) (hok : ShardsOk c) (ha : a ≠ .reset) (h : J c e0 δ s)
    (hst : step c s a = some s') : J c e0 δ s' ∨ died s' := by
  obtain ⟨hI, hna, hfs, hx⟩ := h
  by_cases hdd : died s'
  · exact Or.inr hdd
  have hI' : InvI c s' := by
    rcases step_invI c s s' a hv hit hio ha hI hst with hI' | hd
    · exact hI'
    · exact absurd hd hdd
  left
  suffices hsuf : Obs.assertion ∉ s'.obs ∧ Post c e0 δ s' from ⟨hI', hsuf.1, hsuf.2.1, hsuf.2.2⟩
  cases a with
  | reset => exact absurd rfl ha
  | work w => exact work_J c e0 δ s s' w hit hna hfs hx hst
  | kill w => exact kill_J c e0 δ s s' w hna hfs hx hst
  | stateDict =>
    simp only [step] at hst
    split at hst
    · cases hst
    · cases hst
      refine ⟨?_, FS_of_eq c e0 δ s _ hfs rfl rfl, fun hsd => ?_⟩
      · intro hm
        rcases List.mem_append.mp hm with h1 | h1
        · exact hna h1
        · simp at h1
      · obtain ⟨g, dl, hJ⟩ := hx hsd
        exact ⟨g, dl, JX_obs_frame c e0 δ s _ g dl [_] hJ (by simp [taskObs]) (by simp) rfl rfl rfl rfl rfl rfl rfl rfl
          rfl rfl rfl rfl⟩
  | pollTimeout =>
    simp only [step] at hst
    split at hst
    · cases hst
    · split at hst
      · cases hst; exact ⟨hna, hfs, hx⟩
      · cases hst
        exact absurd (by unfold died; simp) hdd
  | next =>
    simp only [step] at hst
    split at hst
    · cases hst
    · cases hst
      rcases Bool.eq_false_or_eq_true s.shutdown with hsd | hsd
      · obtain ⟨hrs, _, _⟩ := hI.down hsd
        have hsw : shutdownWorkers c s = s := by simp [shutdownWorkers, hsd]
        have hif : (if c.persistent = true then s else shutdownWorkers c s) = s := by split <;> simp [hsw]
        unfold loopFuel
        rw [loop_done c _ s (by omega), hif]
        simp only [finish]
        refine ⟨?_, FS_of_eq c e0 δ s _ hfs rfl rfl, fun hh => ?_⟩
        · intro hm
          rcases List.mem_append.mp hm with h1 | h1
          · exact hna h1
          · simp at h1
        · simp only [hsd] at hh; cases hh
      · obtain ⟨g, dl, hJ⟩ := hx hsd
        obtain ⟨b1, b2⟩ := loop_J c e0 δ (loopFuel s) s g dl hv hit hio hok hJ hsd (by unfold loopFuel; omega)
        exact ⟨fin_loop_J c _ _ b1 hna, b2⟩
  | recv =>
    simp only [step] at hst
    split at hst
    · cases hst
    · rename_i r rest hq
      split at hst
      · cases hst
      · rename_i hph
        have hsd : s.shutdown = false := by
          rcases Bool.eq_false_or_eq_true s.shutdown with hsd | hsd
          · have := (hI.down hsd).2.1; rw [hph] at this; cases this
          · exact hsd
        split at hst
        · cases hst
        · cases hst
          obtain ⟨g, dl, hJ⟩ := hx hsd
          exact recv_J c e0 δ s g dl r rest hv hit hio hok hJ hsd hq hna
      · rename_i k hph
        exact absurd hph (hI.ph k)

end TDV.MPRI
