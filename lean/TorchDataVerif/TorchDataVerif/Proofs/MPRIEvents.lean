import TorchDataVerif.Proofs.MPRIWs
/-!
# MPRI — the event stream of `Model/MPRestore.lean` is the live sequence, and `idealAt` is `idealE`
-/
namespace TDV.MPRI
open TDV.MP TDV.MPR

/-- The event of a live pair. -/
def evOf (c : Cfg) (p : Nat × Nat) : Ev := (p.1, (c.shards.getD p.1 [])[p.2]?)

theorem roundEvents_eq (c : Cfg) (k w0 : Nat) (l : List (List Item)) (hl : c.shards.drop w0 = l) :
    roundEvents k w0 l =
      ((List.range' w0 l.length).filter (fun w => decide (k ≤ bOf c w))).map (fun w => evOf c (w, k)) := by
  induction l generalizing w0 with
  | nil => rfl
  | cons sh r ih =>
    have hlt : w0 < c.shards.length := by
      rcases Nat.lt_or_ge w0 c.shards.length with h | h
      · exact h
      · rw [List.drop_eq_nil_of_le h] at hl; cases hl
    have hget : c.shards.getD w0 [] = sh := by
      rw [List.getD_eq_getElem?_getD, List.getElem?_eq_getElem hlt]
      have := List.drop_eq_getElem_cons hlt
      rw [hl] at this
      simp only [Option.getD_some]
      exact (List.cons.inj this).1.symm
    have hdrop : c.shards.drop (w0 + 1) = r := by
      have := List.drop_eq_getElem_cons hlt
      rw [hl] at this
      exact (List.cons.inj this).2.symm
    have hb : bOf c w0 = sh.length := by unfold bOf; rw [hget]
    rw [roundEvents, ih (w0 + 1) hdrop]
    simp only [List.length_cons, List.range'_succ, List.filter_cons]
    cases hk : sh[k]? with
    | some it =>
      have hlt' : k < sh.length := (List.getElem?_eq_some_iff.mp hk).1
      have : decide (k ≤ bOf c w0) = true := by simp; omega
      simp only [this, if_true, List.map_cons, evOf, hget, hk]
      rfl
    | none =>
      have hge : sh.length ≤ k := List.getElem?_eq_none_iff.mp hk
      by_cases he : sh.length = k
      · have : decide (k ≤ bOf c w0) = true := by simp; omega
        simp only [he, if_true, this, List.map_cons, evOf, hget, hk]
        rfl
      · have : decide (k ≤ bOf c w0) = false := by simp; omega
        simp only [he, if_false, this, List.nil_append]
        simp

theorem roundEvents_roundFrom (c : Cfg) (k : Nat) (hW : c.shards.length = c.W) :
    roundEvents k 0 c.shards = (roundFrom c k 0).map (evOf c) := by
  rw [roundEvents_eq c k 0 c.shards (by simp), hW]
  unfold roundFrom
  simp [List.map_map, Function.comp_def]

theorem iterEvents_eq (c : Cfg) (n : Nat) (hW : c.shards.length = c.W) :
    iterEvents c.shards n = (laterRounds c 0 n).map (evOf c) := by
  induction n with
  | zero => rfl
  | succ n ih =>
    rw [iterEvents, ih, laterRounds_snoc, Nat.zero_add, List.map_append, roundEvents_roundFrom c n hW]

/-- The event stream is the live sequence. -/
theorem events_eq (c : Cfg) (hit : c.iterable = true) (hW : c.shards.length = c.W) :
    events c = (liveFrom c 0 0).map (evOf c) := by
  have h1 : liveFrom c 0 0 = laterRounds c 0 (maxB c + 1) := by
    unfold liveFrom; rw [laterRounds]; rfl
  simp only [events, hit, if_true]
  rw [h1, iterEvents_eq c _ hW]
  rfl

/-- `cut` on pair lists. -/
def cutP (c : Cfg) : List (Nat × Nat) → Nat → List (Nat × Nat)
  | [], _ => []
  | p :: r, n => if n = 0 then [] else if isD c p then p :: cutP c r (n - 1) else p :: cutP c r n

theorem evOf_data (c : Cfg) (hok : ShardsOk c) (p : Nat × Nat) (h : isD c p = true) :
    ∃ b, (evOf c p).2 = some (.ok b) := by
  have h : p.2 < (c.shards.getD p.1 []).length := by simpa [isD, bOf] using h
  have hs : (c.shards.getD p.1 [])[p.2]? = some (c.shards.getD p.1 [])[p.2] := List.getElem?_eq_getElem h
  cases hit : (c.shards.getD p.1 [])[p.2] with
  | ok b => exact ⟨b, by simp only [evOf]; rw [hs, hit]⟩
  | err => rw [hit] at hs; exact absurd hs (hok _ _)

theorem evOf_nodata (c : Cfg) (p : Nat × Nat) (h : isD c p = false) : (evOf c p).2 = none := by
  have h : (c.shards.getD p.1 []).length ≤ p.2 := by simpa [isD, bOf] using h
  simp only [evOf]
  exact List.getElem?_eq_none h

theorem cut_map (c : Cfg) (hok : ShardsOk c) (L : List (Nat × Nat)) (n : Nat) :
    cut (L.map (evOf c)) n = (cutP c L n).map (evOf c) := by
  induction L generalizing n with
  | nil => rfl
  | cons p r ih =>
    simp only [List.map_cons, cut, cutP]
    by_cases hn : n = 0
    · simp [hn]
    · simp only [hn, if_false]
      by_cases hd : isD c p = true
      · obtain ⟨b, hb⟩ := evOf_data c hok p hd
        simp only [hd, if_true, hb, List.map_cons, ih]
      · have hd' : isD c p = false := by simpa using hd
        have := evOf_nodata c p hd'
        simp only [hd', Bool.false_eq_true, if_false, this, List.map_cons, ih]

/-- A prefix that ends with its `n`-th data pair is what `cut` returns. -/
theorem cutP_unique (c : Cfg) (E R : List (Nat × Nat)) (n : Nat) (hn : ndE c E = n)
    (hlast : E = [] ∨ ∃ E0 p, E = E0 ++ [p] ∧ isD c p = true) : cutP c (E ++ R) n = E := by
  induction E generalizing n with
  | nil =>
    have : n = 0 := by rw [← hn]; rfl
    subst this
    cases R <;> simp [cutP]
  | cons p E' ih =>
    have hlast' : ∃ E0 q, p :: E' = E0 ++ [q] ∧ isD c q = true := by
      rcases hlast with h | h
      · cases h
      · exact h
    obtain ⟨E0, q, hE, hq⟩ := hlast'
    simp only [List.cons_append, cutP]
    have hnd : ndE c (p :: E') = (if isD c p then 1 else 0) + ndE c E' := by
      simp only [ndE, List.countP_cons]; omega
    rw [hnd] at hn
    have hqcount : 1 ≤ ndE c (p :: E') := by
      rw [hE, ndE_snoc, hq]; simp
    rw [hnd] at hqcount
    have hn0 : n ≠ 0 := by omega
    simp only [hn0, if_false]
    -- the tail still ends with a data pair, or is empty
    have htail : E' = [] ∨ ∃ E1 q', E' = E1 ++ [q'] ∧ isD c q' = true := by
      cases E0 with
      | nil => simp at hE; left; exact hE.2
      | cons x E1 =>
        right
        simp only [List.cons_append, List.cons.injEq] at hE
        exact ⟨E1, q, hE.2, hq⟩
    by_cases hd : isD c p = true
    · simp only [hd, if_true] at hn ⊢
      rw [ih (n - 1) (by omega) htail]
    · have hd' : isD c p = false := by simpa using hd
      simp only [hd', Bool.false_eq_true, if_false] at hn ⊢
      rw [ih n (by omega) htail]

theorem idealE_nil (c : Cfg) (e0 : Nat → Bool) (w : Nat) : idealE c e0 [] w = ⟨0, e0 w⟩ := by
  simp [idealE, posE, endE]

/-- Folding `applyEv` over the events of consumed pairs gives the ideal worker states. -/
theorem fold_applyEv (c : Cfg) (E : List (Nat × Nat)) (hE : ∀ p ∈ E, p.2 ≤ bOf c p.1) :
    (E.map (evOf c)).foldl applyEv (List.replicate c.W ⟨0, false⟩) =
      (List.range c.W).map (idealE c (fun _ => false) E) := by
  induction E using snoc_induction with
  | nil =>
    apply List.ext_getElem?
    intro w
    by_cases hw : w < c.W
    · simp [hw, idealE_nil]
    · simp [hw]
  | snoc E p ih =>
    rw [List.map_append, List.foldl_append, ih (fun q hq => hE q (List.mem_append_left _ hq))]
    simp only [List.map_cons, List.map_nil, List.foldl_cons, List.foldl_nil]
    have hp := hE p (List.mem_append_right _ (List.mem_singleton.mpr rfl))
    apply List.ext_getElem?
    intro w
    simp only [applyEv, List.getElem?_modify, List.getElem?_map]
    by_cases hw : w < c.W
    · rw [List.getElem?_range hw]
      simp only [Option.map_some]
      by_cases hpw : p.1 = w
      · have hpw' : (evOf c p).1 = w := hpw
        simp only [hpw', if_true]
        congr 1
        by_cases hd : isD c p = true
        · have hlt : p.2 < bOf c p.1 := by simpa [isD] using hd
          have hsome : ∃ it, (evOf c p).2 = some it := by
            simp only [evOf]
            exact ⟨_, List.getElem?_eq_getElem (by unfold bOf at hlt; exact hlt)⟩
          obtain ⟨it, hit⟩ := hsome
          have hne : (p.2 == bOf c w) = false := by rw [← hpw]; simp; omega
          simp only [hit, idealE, posE_snoc, endE_snoc, hpw, hd, hne]
          simp
        · have hd' : isD c p = false := by simpa using hd
          have hnone := evOf_nodata c p hd'
          have heq : p.2 = bOf c w := by
            rw [← hpw]
            have : ¬ p.2 < bOf c p.1 := by simpa [isD] using hd'
            omega
          simp only [hnone, idealE, posE_snoc, endE_snoc, hpw, hd', heq]
          simp
      · have hpw' : ¬ (evOf c p).1 = w := hpw
        simp only [hpw', if_false]
        congr 1
        have h1 : (p.1 == w) = false := by simp [hpw]
        simp only [idealE, posE_snoc, endE_snoc, h1]
        simp [hpw]
    · simp [hw]

theorem lastOwner_map (c : Cfg) (E : List (Nat × Nat)) (lw : Nat) (h : LastIs c E lw) :
    lastOwner c.W (E.map (evOf c)) = lw := by
  rcases h with ⟨rfl, rfl⟩ | ⟨E0, j, rfl, _⟩
  · rfl
  · simp [lastOwner, evOf]

theorem LastIs_data (c : Cfg) (E : List (Nat × Nat)) (lw : Nat) (h : LastIs c E lw) :
    E = [] ∨ ∃ E0 p, E = E0 ++ [p] ∧ isD c p = true := by
  rcases h with ⟨h1, _⟩ | ⟨E0, j, h1, h2⟩
  · exact Or.inl h1
  · exact Or.inr ⟨E0, (lw, j), h1, isD_data c lw j h2⟩

/-- The ideal state of `Model/MPRestore.lean` at step `n`, in terms of the consumed prefix that ends with the
`n`-th data pair. -/
theorem idealAt_eq (c : Cfg) (hit : c.iterable = true) (hW : c.shards.length = c.W) (hok : ShardsOk c)
    (E R : List (Nat × Nat)) (lw : Nat) (hE : E ++ R = liveFrom c 0 0) (hl : LastIs c E lw) :
    idealAt c (ndE c E) = ⟨ndE c E, lw, 0, (List.range c.W).map (idealE c (fun _ => false) E)⟩ := by
  have hcut : cut (events c) (ndE c E) = E.map (evOf c) := by
    rw [events_eq c hit hW, cut_map c hok, ← hE, cutP_unique c E R _ rfl (LastIs_data c E lw hl)]
  have hmem : ∀ p ∈ E, p.2 ≤ bOf c p.1 := by
    intro p hp
    have : p ∈ liveFrom c 0 0 := by rw [← hE]; exact List.mem_append_left _ hp
    exact ((mem_live0 c p).mp this).2
  simp only [idealAt, hcut, hit, if_true, lastOwner_map c E lw hl, fold_applyEv c E hmem]

/-- A stored snapshot that is the ideal state after a consumed prefix is `idealAt` of its step. -/
theorem snapAt_ideal (c : Cfg) (hit : c.iterable = true) (hW : c.shards.length = c.W) (hok : ShardsOk c)
    (E R : List (Nat × Nat)) (sn : Snap) (hE : E ++ R = liveFrom c 0 0) (h : SnapAt c (fun _ => false) 0 E sn) :
    SnapEq c sn (idealAt c sn.step) := by
  obtain ⟨h1, h2, h3⟩ := h
  have hs : sn.step = ndE c E := by omega
  rw [hs, idealAt_eq c hit hW hok E R sn.lastW hE h3]
  exact ⟨hs, rfl, h1, fun hf => by rw [hit] at hf; cases hf⟩

end TDV.MPRI
