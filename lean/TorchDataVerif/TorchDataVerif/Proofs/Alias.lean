import TorchDataVerif.Model.Alias
/-! Invariant of the reference-level model `TDV.Alias` under a safe policy. -/
namespace TDV.Alias

/-- well-formed addresses, user dicts unchanged, and — when updates are in place — no user dict is the live object -/
structure Inv (p : Policy) (s : St) : Prop where
  cur_lt : s.cur < s.next
  user_lt : ∀ e ∈ s.user, e.1 < s.next
  imm : ∀ e ∈ s.user, s.heap e.1 = e.2
  sep : p.inPlace = true → ∀ e ∈ s.user, e.1 ≠ s.cur

theorem inv_init (p : Policy) (v : Val) : Inv p (init v) := by
  constructor <;> simp [init]

theorem inv_step (p : Policy) (hs : p.Safe = true) (s : St) (o : Op) (h : Inv p s) : Inv p (step p s o) := by
  obtain ⟨h1, h2, h3, h4⟩ := h
  obtain ⟨heap, next, cur, user⟩ := s
  obtain ⟨ci, co, ip⟩ := p
  simp only [Policy.Safe] at hs
  cases o with
  | step v =>
    cases ip <;> simp only [step] <;> constructor <;> simp_all [write] <;> grind
  | get =>
    cases co <;> cases ip <;> simp only [step] <;> constructor <;> simp_all [write] <;> grind
  | userNew v =>
    simp only [step]; constructor <;> simp_all [write] <;> grind
  | rebind v =>
    simp only [step]; constructor <;> simp_all [write] <;> grind
  | load k =>
    simp only [step]
    cases hk : user[k]? with
    | none => exact ⟨h1, h2, h3, h4⟩
    | some e =>
      have hmem := List.mem_of_getElem? hk
      have ha := h2 _ hmem
      obtain ⟨a, w⟩ := e
      cases ci <;> cases ip <;> constructor <;> simp_all [write] <;> grind

theorem inv_run (p : Policy) (hs : p.Safe = true) (ops : List Op) (s : St) (h : Inv p s) : Inv p (run p s ops) := by
  induction ops generalizing s with
  | nil => exact h
  | cons o ops ih => exact ih _ (inv_step p hs s o h)

theorem immutableB_iff (s : St) : immutableB s = true ↔ Immutable s := by
  simp [immutableB, Immutable]

end TDV.Alias
