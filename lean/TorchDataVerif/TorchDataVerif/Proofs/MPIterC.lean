import TorchDataVerif.Proofs.MPIterB
/-!
# MP, iterable: the worker actions preserve the invariant
-/
namespace TDV.MP

def bump (f : Nat → Nat) (w : Nat) : Nat → Nat := fun x => if x = w then f x + 1 else f x

theorem bump_self (f : Nat → Nat) (w : Nat) : bump f w w = f w + 1 := by simp [bump]
theorem bump_ne (f : Nat → Nat) (w x : Nat) (h : x ≠ w) : bump f w x = f x := by simp [bump, h]

theorem filter_snoc_w (l : List Res) (r : Res) (w : Nat) :
    (l ++ [r]).filter (fun x => x.w == w) = l.filter (fun x => x.w == w) ++ (if r.w == w then [r] else []) := by
  rw [List.filter_append]
  by_cases h : (r.w == w) = true
  · simp [List.filter, h]
  · simp [List.filter, h]

/-- A worker handling a task message in an active iterable state. -/
theorem handle_task_iter (c : Cfg) (w idx p t : Nat) (sn : Bool) (k : Worker) (hit : c.iterable = true)
    (hpos : k.pos = min t (bOf c w)) (hie : k.iterEnd = true ↔ bOf c w < t) :
    let res := handle c false w k (.task idx p sn)
    res.1.q = k.q ∧ res.1.alive = k.alive ∧ res.1.pos = min (t + 1) (bOf c w) ∧
    (res.1.iterEnd = true ↔ bOf c w < t + 1) ∧
    (bOf c w < t → res.2 = none) ∧
    (t ≤ bOf c w → ∃ r, res.2 = some r ∧ r.idx = idx ∧ r.w = w ∧ kindAt c w t = some r.kind) := by
  intro res
  by_cases hdead : bOf c w < t
  · have hie' : k.iterEnd = true := hie.mpr hdead
    have hres : res = (k, none) := by
      show handle c false w k (.task idx p sn) = _
      simp [handle, hie']
    rw [hres]
    refine ⟨rfl, rfl, ?_, ?_, fun _ => rfl, fun h => by omega⟩
    · rw [hpos]; omega
    · simp only [hie']; simp; omega
  · have hle : t ≤ bOf c w := by omega
    have hie' : k.iterEnd = false := by
      cases h : k.iterEnd with
      | false => rfl
      | true => exact absurd (hie.mp h) hdead
    have hpos' : k.pos = t := by rw [hpos]; omega
    cases hf : (c.shards.getD w [])[t]? with
    | none =>
      have hf' := hf
      rw [List.getD_eq_getElem?_getD] at hf' 
      have ht : t = bOf c w := by
        have := List.getElem?_eq_none_iff.mp hf
        unfold bOf at *; omega
      have hres : res = ({ k with iterEnd := true }, some ⟨idx, w, .notice, some ⟨k.pos, true⟩⟩) := by
        show handle c false w k (.task idx p sn) = _
        simp [handle, hie', fetch, hit, hpos', hf']
      rw [hres]
      refine ⟨rfl, rfl, ?_, ?_, fun h => by omega, fun _ => ⟨_, rfl, rfl, rfl, ?_⟩⟩
      · simp only [hpos']; omega
      · simp; omega
      · subst ht; simp [kindAt, hf']
    | some it =>
      have hf' := hf
      rw [List.getD_eq_getElem?_getD] at hf'
      have ht : t < bOf c w := by
        have := (List.getElem?_eq_some_iff.mp hf).1
        unfold bOf; exact this
      cases it with
      | ok b0 =>
        have hres : res = ({ k with pos := k.pos + 1 },
            some ⟨idx, w, .data b0, if sn then some ⟨k.pos + 1, false⟩ else none⟩) := by
          show handle c false w k (.task idx p sn) = _
          simp [handle, hie', fetch, hit, hpos', hf']
        rw [hres]
        refine ⟨rfl, rfl, ?_, ?_, fun h => by omega, fun _ => ⟨_, rfl, rfl, rfl, ?_⟩⟩
        · simp only [hpos']; omega
        · simp only [hie']; simp; omega
        · simp [kindAt, hf', kindOf]
      | err =>
        have hres : res = ({ k with pos := k.pos + 1 }, some ⟨idx, w, .error, none⟩) := by
          show handle c false w k (.task idx p sn) = _
          simp [handle, hie', fetch, hit, hpos', hf']
        rw [hres]
        refine ⟨rfl, rfl, ?_, ?_, fun h => by omega, fun _ => ⟨_, rfl, rfl, rfl, ?_⟩⟩
        · simp only [hpos']; omega
        · simp only [hie']; simp; omega
        · simp [kindAt, hf', kindOf]

/-- Rebuild the invariant after a change confined to workers, result queue and `tk`. -/
theorem MidI_worker_frame (c : Cfg) (s s' : State) (g : Ghost) (ex : Option Nat) (tk' : Nat → Nat) (h : MidI c s g ex)
    (e1 : s'.sendIdx = s.sendIdx) (e2 : s'.cyc = s.cyc) (e3 : s'.status = s.status) (e4 : s'.rcvdIdx = s.rcvdIdx)
    (e5 : s'.info = s.info)
    (hwlen : s'.workers.length = c.W)
    (hwk : ∀ (w : Nat) (k : Worker), s'.workers[w]? = some k →
      QChain g.h w (tk' w) (taskIdxs k.q) ∧ tk' w + (taskIdxs k.q).length = g.h.count w ∧
      k.pos = min (tk' w) (bOf c w) ∧ (k.iterEnd = true ↔ bOf c w < tk' w) ∧ Msg.resume ∉ k.q)
    (hrq : ∀ w, w < c.W → RChain c g.h w (g.arr w) (s'.resQ.filter (fun r => r.w == w)) ∧
      g.arr w + (s'.resQ.filter (fun r => r.w == w)).length = min (tk' w) (bOf c w + 1))
    (hrqw : ∀ r ∈ s'.resQ, r.w < c.W) : MidI c s' { g with tk := tk' } ex := by
  have hup : ∀ w, up s' w = up s w := by intro w; simp [up, e3]
  constructor
  · rw [e1]; exact h.hlen
  · rw [e2]; exact h.cyc
  · exact h.own
  · intro w hw hu; rw [hup] at hu; rw [e2]; exact h.ptrUp w hw hu
  · intro w hw hu; rw [hup] at hu; rw [e2]; exact h.ptrDn w hw hu
  · rw [e2]; exact h.live
  · rw [e4, e5, e1]; exact h.len
  · rw [e4, e5]; exact InfoI_of_eq c g _ _ _ _ h.info rfl rfl
  · rw [e4]; exact h.cons
  · intro w hw; rw [hup]; exact h.st w hw
  · exact h.arrle
  · rw [e3]; exact h.slen
  · exact hwlen
  · exact hwk
  · exact hrq
  · exact hrqw

theorem taskIdxs_sub (q : List Msg) (m : Msg) (h : m ∈ q) (hm : m = .resume) : Msg.resume ∈ q := hm ▸ h

theorem work_midI (c : Cfg) (s s' : State) (g : Ghost) (ex : Option Nat) (w : Nat) (hit : c.iterable = true)
    (h : MidI c s g ex) (hsd : s.shutdown = false) (hst : step c s (.work w) = some s') :
    ∃ g', MidI c s' g' ex ∧ g'.h = g.h ∧ g'.arr = g.arr ∧ g'.rho = g.rho := by
  simp only [step] at hst
  split at hst
  · cases hst
  · rename_i k hk
    split at hst
    · cases hst
    · split at hst
      · cases hst
      · rename_i m rest hq
        cases hst
        have hwW : w < c.W := by rw [← h.wlen]; exact (List.getElem?_eq_some_iff.mp hk).1
        have hwl : w < s.workers.length := (List.getElem?_eq_some_iff.mp hk).1
        obtain ⟨q1, q2, q3, q4, q5⟩ := h.wk w k hk
        rw [hsd]
        cases m with
        | resume => exact absurd (by rw [hq]; exact List.mem_cons_self ..) q5
        | stop =>
          refine ⟨{ g with tk := g.tk }, ?_, rfl, rfl, rfl⟩
          refine MidI_worker_frame c s _ g ex g.tk h rfl rfl rfl rfl rfl (by simp [h.wlen]) ?_ ?_ ?_
          · intro w' k' hk'
            simp only [List.getElem?_set] at hk'
            by_cases hw : w = w'
            · subst hw
              simp only [if_true, hwl] at hk'
              cases hk'
              simp only [handle]
              rw [hq] at q1 q2 q5
              simp only [taskIdxs] at q1 q2
              exact ⟨q1, q2, q3, q4, fun hm => q5 (List.mem_cons_of_mem _ hm)⟩
            · simp only [hw, if_false] at hk'
              exact h.wk w' k' hk'
          · intro w' hw'; simpa [handle] using h.rq w' hw'
          · simpa [handle] using h.rqw
        | task idx p sn =>
          rw [hq] at q1 q2 q5
          simp only [taskIdxs, List.length_cons] at q1 q2
          obtain ⟨c1, c2, c3⟩ := q1
          have hh := handle_task_iter c w idx p (g.tk w) sn
            { q := rest, pos := k.pos, iterEnd := k.iterEnd, alive := k.alive } hit q3 q4
          simp only at hh
          obtain ⟨a1, a2, a3, a4, a5, a6⟩ := hh
          refine ⟨{ g with tk := bump g.tk w }, ?_, rfl, rfl, rfl⟩
          refine MidI_worker_frame c s _ g ex (bump g.tk w) h rfl rfl rfl rfl rfl (by simp [h.wlen]) ?_ ?_ ?_
          · intro w' k' hk'
            simp only [List.getElem?_set] at hk'
            by_cases hw : w = w'
            · subst hw
              simp only [if_true, hwl] at hk'
              cases hk'
              rw [bump_self, a1]
              exact ⟨c3, by omega, a3, a4, fun hm => q5 (List.mem_cons_of_mem _ hm)⟩
            · simp only [hw, if_false] at hk'
              rw [bump_ne _ _ _ (fun hh => hw hh.symm)]
              exact h.wk w' k' hk'
          · intro w' hw'
            obtain ⟨r1, r2⟩ := h.rq w' hw'
            simp only
            by_cases hdead : bOf c w < g.tk w
            · rw [a5 hdead]
              clear a5 a6
              simp only
              by_cases hw : w' = w
              · subst hw; rw [bump_self]; exact ⟨r1, by omega⟩
              · rw [bump_ne _ _ _ hw]; exact ⟨r1, r2⟩
            · obtain ⟨r, hr, hr1, hr2, hr3⟩ := a6 (Nat.le_of_not_lt hdead)
              rw [hr]
              clear a5 a6 hr
              simp only [filter_snoc_w]
              by_cases hw : w' = w
              · subst hw
                have : (r.w == w') = true := by simp [hr2]
                simp only [this, if_true, bump_self, List.length_append, List.length_singleton]
                refine ⟨RChain_snoc c g.h w' _ _ r r1 ?_, by omega⟩
                have hj : g.arr w' + (List.filter (fun r => r.w == w') s.resQ).length = g.tk w' := by omega
                rw [hj]
                exact ⟨hr2, by rw [hr1]; exact c1, by rw [hr1]; exact c2, hr3⟩
              · have : (r.w == w') = false := by simp [hr2]; exact fun hh => hw hh.symm
                simp only [this, Bool.false_eq_true, if_false, List.append_nil]
                rw [bump_ne _ _ _ hw]; exact ⟨r1, r2⟩
          · intro r hr
            simp only at hr
            by_cases hdead : bOf c w < g.tk w
            · rw [a5 hdead] at hr; exact h.rqw r hr
            · obtain ⟨r0, hr0, _, hr2, _⟩ := a6 (Nat.le_of_not_lt hdead)
              rw [hr0] at hr
              simp only [List.mem_append, List.mem_singleton] at hr
              rcases hr with hr | hr
              · exact h.rqw r hr
              · subst hr; rw [hr2]; exact hwW

end TDV.MP
