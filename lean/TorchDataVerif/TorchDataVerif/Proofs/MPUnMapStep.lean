import TorchDataVerif.Proofs.MPUnMap
/-!
# MPU, `in_order = False`, map-style: the actions keep the invariant
-/
namespace TDV.MPU
open TDV.MP

/-- A result is taken from the queue, its task is removed from `_task_info` (`X`), `_process_data` runs. -/
theorem MidUM0_process (c : Cfg) (s X : State) (D : List Nat) (r : Res) (rest : List Res) (hv : c.Valid)
    (hm : c.iterable = false) (hio : c.inOrder = false) (h : MidUM0 c s D) (hq : s.resQ = r :: rest)
    (e1 : X.status = s.status) (e2 : X.numTasks = s.numTasks) (e3 : X.workers = s.workers) (e4 : X.cyc = s.cyc)
    (e5 : X.info = eraseInfo s.info r.idx)
    (e6 : X.rcvdIdx = s.rcvdIdx ∨ (X.rcvdIdx = s.rcvdIdx + 1 ∧ r.idx = s.rcvdIdx))
    (e7 : X.sendIdx = s.sendIdx) (e8 : X.resQ = rest) (e9 : X.samplerPos = s.samplerPos) :
    MidUM0 c (processData c X r).1 (D ++ [r.idx]) ∧ LiveM c (processData c X r).1 := by
  have hrm : r ∈ s.resQ := by rw [hq]; exact List.mem_cons_self ..
  have hrw : r.w < c.W := (h.core.rw r hrm).1
  have hupr : up s r.w = true := upM c s h.status r.w hrw
  have hE : (⟨r.idx, r.w, none⟩ : Info) ∈ s.info := h.core.fr r hrm hupr
  have hridx : r.idx < s.sendIdx := by
    apply h.core.flt; simp [flight, hq]
  -- the state after the decrement of `_workers_num_tasks`
  obtain ⟨hc2, hg2⟩ := UCore_consume c s { X with numTasks := X.numTasks.modify r.w (· - 1) } r rest h.core hq hupr
    e1 (by simp [e2]) e3 e4 e5 e6 e7 e8
  have h2 : MidUM0 c { X with numTasks := X.numTasks.modify r.w (· - 1) } (D ++ [r.idx]) := by
    refine ⟨hc2, by simp [e1, h.status], by simp [e9, e7, h.sp], by simp [e7, h.le], ?_, by simp only [e3]; exact h.qtask, ?_,
      ?_, ?_, ?_⟩
    · show sumL (X.numTasks.modify r.w (· - 1)) = X.info.length
      have hpos : 0 < s.numTasks.getD r.w 0 := by
        rw [h.core.cnt r.w hrw hupr]
        have := entriesOf_erase s.info ⟨r.idx, r.w, none⟩ r.w hE h.core.ind
        simp at this; omega
      have h1 := sumL_modify_pred s.numTasks r.w (by rw [h.core.ntl]; exact hrw) hpos
      have h3 := erase_length s.info ⟨r.idx, r.w, none⟩ hE h.core.ind
      simp only at h3
      rw [e2, e5]
      have := h.sum
      omega
    · intro r' hr'
      simp only [e8] at hr'
      exact h.rkind r' (by rw [hq]; exact List.mem_cons_of_mem _ hr')
    · rw [List.nodup_append]
      refine ⟨h.dnd, by simp, ?_⟩
      intro a ha b hb
      simp at hb; subst hb
      intro heq
      exact (h.ddis a ha).2 _ hE heq.symm
    · intro i hi
      simp only [e7, e5]
      rcases List.mem_append.mp hi with h1 | h1
      · exact ⟨(h.ddis i h1).1, fun e he => (h.ddis i h1).2 e ((mem_erase _ _ _).mp he).1⟩
      · simp at h1; subst h1
        exact ⟨hridx, fun e he => ((mem_erase _ _ _).mp he).2⟩
    · intro i hi
      simp only [e7] at hi
      simp only [e5]
      by_cases hir : i = r.idx
      · left; rw [hir]; simp
      · rcases h.dcov i hi with h1 | ⟨e, he, hei⟩
        · exact Or.inl (List.mem_append_left _ h1)
        · exact Or.inr ⟨e, (mem_erase _ _ _).mpr ⟨he, by rw [hei]; exact hir⟩, hei⟩
  obtain ⟨h3, h4, h5, _⟩ := MidUM0_tryPut c _ (D ++ [r.idx]) hv hm hio h2 (fun _ => ⟨r.w, hrw, hg2⟩)
  rw [processData_eq]
  generalize tryPut c { X with numTasks := X.numTasks.modify r.w (· - 1) } = T at h3 h4 h5
  cases r.kind with
  | data b =>
    simp only
    have hp := yieldItem_sameProto c T r b
    have hc := UCore_of_eq c T _ h3.core hp.status hp.numTasks hp.workers (by rw [hp.cyc]; exact h3.core.cyc) hp.info
      hp.rcvdIdx hp.sendIdx hp.resQ
    refine ⟨MidUM0_of_eq c T _ _ h3 hc hp.status hp.samplerPos hp.sendIdx hp.numTasks hp.info hp.workers hp.resQ, ?_⟩
    intro hlt
    rw [hp.sendIdx] at hlt
    rw [hp.info]
    exact h4 hlt
  | notice => exact ⟨h3, h4⟩
  | error => exact ⟨h3, h4⟩
  | ack => exact ⟨h3, h4⟩

theorem handle_map_kind (c : Cfg) (sh : Bool) (w : Nat) (k : Worker) (i p : Nat) (sn : Bool) (r : Res)
    (hm : c.iterable = false) (h : (handle c sh w k (.task i p sn)).2 = some r) :
    r.kind = kindOf (c.batches.getD p .err) := by
  simp only [handle, fetch, hm] at h
  split at h
  · cases h
  · simp only [Bool.false_eq_true, if_false] at h
    cases hb : c.batches.getD p .err with
    | ok b => simp only [hb] at h; cases h; rfl
    | err => simp only [hb] at h; cases h; rfl

theorem UCore_kill (c : Cfg) (s s' : State) (w : Nat) (h : UCore c s) (hst : step c s (.kill w) = some s') :
    UCore c s' ∧ ∃ k : Worker, s.workers[w]? = some k ∧ s' = { s with workers := s.workers.set w { k with alive := false } } := by
  simp only [step] at hst
  split at hst
  · cases hst
  · rename_i k hk
    split at hst
    · cases hst
    · cases hst
      refine ⟨?_, k, hk, rfl⟩
      have hwl : w < s.workers.length := (List.getElem?_eq_some_iff.mp hk).1
      have hget : ∀ v, (s.workers.set w { k with alive := false })[v]? =
          if w = v then some { k with alive := false } else s.workers[v]? := by
        intro v
        rw [List.getElem?_set]
        split
        · simp [hwl]
        · rfl
      have hperm := qIdxs_set s.workers w k { k with alive := false } hk [] rfl
      have hfl : (flight s).Perm (flight { s with workers := s.workers.set w { k with alive := false } }) := by
        simp only [flight]
        exact List.Perm.append_right _ (by simpa using hperm)
      constructor
      · exact h.stl
      · exact h.ntl
      · simp [h.wl]
      · exact h.cyc
      · exact h.rs
      · exact h.rnone
      · exact h.ind
      · exact h.irng
      · exact h.cnt
      · exact h.cap
      · exact (hfl.nodup_iff).mp h.fnd
      · intro i hi; exact h.flt i (hfl.symm.subset hi)
      · intro v kv hkv hu i hi
        simp only [hget] at hkv
        split at hkv
        · rename_i hwv; cases hkv; subst hwv
          exact h.fq w k hk hu i hi
        · exact h.fq v kv hkv hu i hi
      · exact h.fr
      · intro v kv hkv
        simp only [hget] at hkv
        split at hkv
        · cases hkv; exact h.nores w k hk
        · exact h.nores v kv hkv
      · exact h.rw

theorem MidUM0_work (c : Cfg) (s s' : State) (D : List Nat) (w : Nat) (hm : c.iterable = false)
    (h : MidUM0 c s D) (hst : step c s (.work w) = some s') :
    MidUM0 c s' D ∧ s'.info = s.info ∧ s'.sendIdx = s.sendIdx ∧ s'.obs = s.obs ∧ s'.phase = s.phase ∧
    s'.shutdown = s.shutdown := by
  have hcore := UCore_work c s s' w h.core hst
  obtain ⟨k, m, rest, hk, _, hq, eW, eQ, e1, e2, e4, e5, e6, e7, e8, e9, e10, e11⟩ := work_shape c s s' w hst
  have hq' := handle_q' c s.shutdown w { k with q := rest } m
  refine ⟨⟨hcore, by rw [e1]; exact h.status, by rw [e11, e7]; exact h.sp, by rw [e7]; exact h.le,
    by rw [e2, e5]; exact h.sum, ?_, ?_, h.dnd, by rw [e7, e5]; exact h.ddis, by rw [e7, e5]; exact h.dcov⟩,
    e5, e7, e8, e9, e10⟩
  · intro v kv hkv i p sn hmem
    rw [eW, List.getElem?_set] at hkv
    split at hkv
    · split at hkv
      · cases hkv
        rw [hq'] at hmem
        exact h.qtask w k hk i p sn (by rw [hq]; exact List.mem_cons_of_mem _ hmem)
      · cases hkv
    · exact h.qtask v kv hkv i p sn hmem
  · intro r hr
    rw [eQ] at hr
    rcases List.mem_append.mp hr with h1 | h1
    · exact h.rkind r h1
    · cases ho : (handle c s.shutdown w { k with q := rest } m).2 with
      | none => simp [ho] at h1
      | some r0 =>
        simp [ho] at h1; subst h1
        cases m with
        | stop => simp [handle] at ho
        | resume => exact absurd (by rw [hq]; exact List.mem_cons_self ..) (h.core.nores w k hk)
        | task i p sn =>
          have hp : p = i := h.qtask w k hk i p sn (by rw [hq]; exact List.mem_cons_self ..)
          have hidx := handle_task_idx c _ w _ i p sn r ho
          have hkind := handle_map_kind c _ w _ i p sn r hm ho
          have hilt : i < s.sendIdx := by
            apply h.core.flt
            simp only [flight]
            apply List.mem_append_left
            exact (mem_qIdxs _ _).mpr ⟨w, k, hk, by rw [hq]; simp [taskIdxs]⟩
          have hlt : i < c.batches.length := Nat.lt_of_lt_of_le hilt h.le
          refine ⟨c.batches[i], by rw [hidx]; exact List.getElem?_eq_getElem hlt, ?_⟩
          rw [hkind, hp]
          simp [List.getD_eq_getElem?_getD, List.getElem?_eq_getElem hlt]

end TDV.MPU
