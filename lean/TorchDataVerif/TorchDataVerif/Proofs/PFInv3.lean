import TorchDataVerif.Proofs.PFInv2
/-! Consequences of `Inv` (delivered items, closed form of the snapshot position) and the end-of-stream invariant `Inv2`. -/
namespace TDV.PF

theorem prefix_of_eq {f : Nat → Msg} {n : Nat} {a b : List Msg}
    (h : a ++ b = (List.range n).map f) : a = (List.range a.length).map f ∧ a.length ≤ n := by
  have hl := congrArg List.length h
  simp at hl
  have hle : a.length ≤ n := by omega
  have := congrArg (List.take a.length) h
  simp [← List.map_take, List.take_range, Nat.min_eq_left hle] at this
  exact ⟨this, hle⟩

theorem msgAt_item? (c : Cfg) (g : Nat) : (msgAt c g).pay.item? = c.src[g]? := by
  unfold msgAt
  split
  · rename_i v hv; rw [hv]; rfl
  · rename_i hv; rw [hv]; cases c.term <;> rfl

theorem items_of_range (c : Cfg) (g : Nat) :
    ((List.range g).map (msgAt c)).filterMap (·.pay.item?) = c.src.take g := by
  induction g with
  | zero => simp
  | succ g ih =>
    rw [List.range_succ, List.map_append, List.filterMap_append, ih, List.take_add_one]
    congr 1
    cases hv : c.src[g]? <;> simp [msgAt_item?, hv]

theorem got_eq {c s} (h : Inv c s) : s.got = (List.range s.got.length).map (msgAt c) ∧ s.got.length ≤ npro s := by
  have e := h.hist_eq
  simp only [hist, List.append_assoc] at e
  exact prefix_of_eq e

theorem delivered_eq {c s} (h : Inv c s) : delivered s = c.src.take s.got.length := by
  unfold delivered
  rw [(got_eq h).1, items_of_range]
  simp

theorem jstar_closed (f m : Nat) (hf : 0 < f) : jstar f m = f * (m / f) := by
  induction m with
  | zero => simp [jstar]
  | succ m ih =>
    simp only [jstar, hf, true_and]
    split
    · rename_i hm
      have := Nat.div_add_mod (m + 1) f
      omega
    · rename_i hm
      rw [ih, Nat.succ_div]
      simp [Nat.dvd_iff_mod_eq_zero, hm]

theorem jstar_zero (m : Nat) : jstar 0 m = 0 := by
  induction m with
  | zero => simp [jstar]
  | succ m ih => simp [jstar, ih]

structure Inv2 (c : Cfg) (s : State) : Prop where
  stop_cons : s.stop = true → (s.cpc = .idle ∨ s.cpc = .top) → s.got.length = c.src.length + 1
  ended : 0 < s.nstop + s.errs → s.got.length = c.src.length + 1
  errs_le : s.errs ≤ 1
  errs_term : 0 < s.errs → c.term = .error
  surfaced : s.got.length = c.src.length + 1 →
    (c.term = .error → s.errs = 1) ∧ (c.term = .stop → 0 < s.nstop) ∧ s.stop = true
  got_le : s.got.length ≤ c.src.length + 1
  boot_stop : s.cpc = .boot → s.stop = false

theorem inv2_init (c : Cfg) : Inv2 c (init c) := by
  constructor <;> simp [init]

theorem inv2_easyR {c s s'} (a : Action) (ha : a.isReader = true) (h2 : Inv2 c s) (hs : step c s a = some s') :
    Inv2 c s' := by
  have key : s'.stop = s.stop ∧ s'.cpc = s.cpc ∧ s'.got = s.got ∧ s'.nstop = s.nstop ∧ s'.errs = s.errs := by
    cases a <;> simp [Action.isReader] at ha <;>
      simp only [step, Action.isReader, stepR, if_true] at hs <;>
      (repeat' split at hs) <;> cases hs <;> simp
  obtain ⟨k1, k2, k3, k4, k5⟩ := key
  obtain ⟨q1, q2, q3, q4, q5, q6, q7⟩ := h2
  constructor <;> simp_all
macro "inv2_simple" h:ident h2:ident hs:ident : tactic =>
  `(tactic| (simp only [step, Action.isReader, stepC, Bool.false_eq_true, if_false] at $hs:ident
             (repeat' split at $hs:ident) <;> cases $hs:ident <;>
             (obtain ⟨q1, q2, q3, q4, q5, q6, q7⟩ := $h2
              have c1 := Inv.cons_stop $h
              have c2 := Inv.boot_got $h
              constructor <;> simp_all [cMsg] <;> try omega)))

theorem inv2_cBoot {c s s'} (h : Inv c s) (h2 : Inv2 c s) (hs : step c s .cBoot = some s') : Inv2 c s' := by
  inv2_simple h h2 hs
theorem inv2_cBootT {c s s'} (h : Inv c s) (h2 : Inv2 c s) (hs : step c s .cBootT = some s') : Inv2 c s' := by
  inv2_simple h h2 hs
theorem inv2_cCall {c s s'} (h : Inv c s) (h2 : Inv2 c s) (hs : step c s .cCall = some s') : Inv2 c s' := by
  inv2_simple h h2 hs
theorem inv2_cIsSet {c s s'} (h : Inv c s) (h2 : Inv2 c s) (hs : step c s .cIsSet = some s') : Inv2 c s' := by
  inv2_simple h h2 hs
theorem inv2_cGet {c s s'} (h : Inv c s) (h2 : Inv2 c s) (hs : step c s .cGet = some s') : Inv2 c s' := by
  inv2_simple h h2 hs
theorem inv2_cGetT {c s s'} (h : Inv c s) (h2 : Inv2 c s) (hs : step c s .cGetT = some s') : Inv2 c s' := by
  inv2_simple h h2 hs
theorem inv2_cRel {c s s'} (h : Inv c s) (h2 : Inv2 c s) (hs : step c s .cRel = some s') : Inv2 c s' := by
  inv2_simple h h2 hs
theorem inv2_cShut {c s s'} (h : Inv c s) (h2 : Inv2 c s) (hs : step c s .cShut = some s') : Inv2 c s' := by
  inv2_simple h h2 hs
theorem inv2_cJoin {c s s'} (h : Inv c s) (h2 : Inv2 c s) (hs : step c s .cJoin = some s') : Inv2 c s' := by
  inv2_simple h h2 hs
theorem inv2_cJoinT {c s s'} (h : Inv c s) (h2 : Inv2 c s) (hs : step c s .cJoinT = some s') : Inv2 c s' := by
  inv2_simple h h2 hs

theorem inv2_cPop {c s s'} (h : Inv c s) (h2 : Inv2 c s) (hs : step c s .cPop = some s') : Inv2 c s' := by
  simp only [step, Action.isReader, stepC, Bool.false_eq_true, if_false] at hs
  split at hs
  · rename_i m hpc
    have hit := h.pop_item m hpc
    have hm : cMsg s.cpc = [m] := by simp [cMsg, hpc]
    obtain ⟨hL, _⟩ := hand_item h hm hit
    have c1 := h.cons_stop (Or.inr (by simp [hm]))
    obtain ⟨q1, q2, q3, q4, q5, q6, q7⟩ := h2
    split at hs <;> cases hs <;> constructor <;> simp_all <;> omega
  · cases hs

theorem inv2_cSet {c s s'} (h : Inv c s) (h2 : Inv2 c s) (hs : step c s .cSet = some s') : Inv2 c s' := by
  simp only [step, Action.isReader, stepC, Bool.false_eq_true, if_false] at hs
  split at hs
  · rename_i m hpc
    cases hs
    have hni := h.set_nitem m hpc
    have hm : cMsg s.cpc = [m] := by simp [cMsg, hpc]
    have hL := hand_nitem h hm hni
    obtain ⟨e1, e2⟩ := hand_eq h hm
    have hp := h.pulled_le
    have hn : npro s ≤ c.src.length + 1 := by unfold npro; split <;> omega
    have hg : s.got.length = c.src.length := by omega
    have hpay : m.pay = c.term.pay := by
      rw [e1, hg]; unfold msgAt; simp
    obtain ⟨q1, q2, q3, q4, q5, q6, q7⟩ := h2
    cases ht : c.term <;> constructor <;> simp_all [Term.pay] <;> omega
  · cases hs

theorem inv2_step {c s s'} (a : Action) (h : Inv c s) (h2 : Inv2 c s) (hs : step c s a = some s') : Inv2 c s' := by
  cases hr : a.isReader
  · cases a <;> simp [Action.isReader] at hr
    · exact inv2_cBoot h h2 hs
    · exact inv2_cBootT h h2 hs
    · exact inv2_cCall h h2 hs
    · exact inv2_cIsSet h h2 hs
    · exact inv2_cGet h h2 hs
    · exact inv2_cGetT h h2 hs
    · exact inv2_cRel h h2 hs
    · exact inv2_cSet h h2 hs
    · exact inv2_cPop h h2 hs
    · exact inv2_cShut h h2 hs
    · exact inv2_cJoin h h2 hs
    · exact inv2_cJoinT h h2 hs
  · exact inv2_easyR a hr h2 hs

theorem inv12_run {c s s'} (as : List Action) (h : Inv c s) (h2 : Inv2 c s) (hr : run c s as = some s') :
    Inv c s' ∧ Inv2 c s' := by
  induction as generalizing s with
  | nil => simp [run] at hr; exact hr ▸ ⟨h, h2⟩
  | cons a as ih =>
    simp only [run] at hr
    split at hr
    · rename_i s1 h1
      exact ih (inv_step a h h1) (inv2_step a h h2 h1) hr
    · cases hr

theorem inv2_reachable {c s} (h : Reachable c s) : Inv2 c s := by
  obtain ⟨as, hr⟩ := h
  exact (inv12_run as (inv_init c) (inv2_init c) hr).2

end TDV.PF
