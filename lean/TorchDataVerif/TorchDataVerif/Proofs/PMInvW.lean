import TorchDataVerif.Proofs.PMInv
/-! `Inv` is preserved by the workers' actions. -/
namespace TDV.PM
variable {c : Cfg} {s s' : State}

theorem have_mem_set {wk : List WPc} {i : Nat} {x : WPc} {m : Msg} (hx : x.hand = none)
    (hm : WPc.have m ∈ wk.set i x) : WPc.have m ∈ wk := by
  rcases mem_set_of hm with h | h
  · subst h; simp [WPc.hand] at hx
  · exact h

theorem deadCount_set_ge (s s2 : State) (i : Nat) (p x : WPc) (hi : s.wk[i]? = some p) (hp : p.deadN = 0)
    (hwk : s2.wk = s.wk.set i x) : deadCount s ≤ deadCount s2 := by
  have h2 := sum_map_set WPc.deadN s.wk i p x hi
  simp only [deadCount, hwk]
  omega

/-- A worker changes its program counter between two states in which it holds nothing. -/
theorem inv_wk_nohand (h : Inv c s) (i : Nat) (p x : WPc) (hi : s.wk[i]? = some p) (hp : p.hand = none)
    (hpd : p ≠ .dead) (hx : x.hand = none)
    (hx3 : (x = .exited ∨ x = .chk) → (if c.proc then s.mpstop else s.stop) = true) :
    Inv c { s with wk := s.wk.set i x } := by
  constructor <;> (try (dsimp only; same h))
  case wkLen => simp [h.wkLen]
  case wExit =>
    intro q hq hq2
    rcases mem_set_of hq with rfl | hq
    · exact hx3 hq2
    · exact h.wExit q hq hq2
  case cnt =>
    intro k
    have h1 := h.cnt k
    have h2 := sum_map_set (WPc.cnt k) s.wk i p x hi
    simp only [cnt] at h1 ⊢
    simp only [WPc.cnt, hp, hx, Option.map_none, optCount_none] at h2
    omega
  case permits =>
    have h1 := h.permits
    have h2 := sum_map_set WPc.holds s.wk i p x hi
    have h3 : p.holds = 0 := by cases p <;> simp [WPc.holds, WPc.hand] at hp ⊢
    have h4 : x.holds = 0 := by cases x <;> simp [WPc.holds, WPc.hand] at hx ⊢
    simp only [held, pending] at h1 ⊢
    omega
  case lostLe =>
    have h1 := h.lostLe
    have h2 := sum_map_set WPc.deadN s.wk i p x hi
    have h3 : p.deadN = 0 := by cases p <;> simp [WPc.deadN] at hpd ⊢
    simp only [deadCount] at h1 ⊢
    omega
  case fin =>
    intro hp
    rcases h.fin hp with hd | hd
    · exact Or.inl (Nat.lt_of_lt_of_le hd (deadCount_set_ge s _ i _ _ hi (by cases p <;> simp [WPc.deadN] at hpd ⊢) rfl))
    · exact Or.inr hd
  case rtDead => intro hp; exact Nat.lt_of_lt_of_le (h.rtDead hp) (deadCount_set_ge s _ i _ _ hi (by cases p <;> simp [WPc.deadN] at hpd ⊢) rfl)
  case deadSeen => intro hp; exact Nat.lt_of_lt_of_le (h.deadSeen hp) (deadCount_set_ge s _ i _ _ hi (by cases p <;> simp [WPc.deadN] at hpd ⊢) rfl)
  case rawWk => intro m hm; exact h.rawWk m (have_mem_set hx hm)

theorem inv_wGet (h : Inv c s) (i : Nat) (m : Msg) (rest : List Msg) (hi : s.wk[i]? = some .get)
    (hq : s.inq = m :: rest) : Inv c { s with inq := rest, wk := s.wk.set i (.have m) } := by
  constructor <;> (try (dsimp only; same h))
  case wkLen => simp [h.wkLen]
  case wExit =>
    intro q hq' hq2
    rcases mem_set_of hq' with rfl | hq'
    · simp at hq2
    · exact h.wExit q hq' hq2
  case cnt =>
    intro k
    have h1 := h.cnt k
    have h2 := sum_map_set (WPc.cnt k) s.wk i _ (.have m) hi
    simp only [cnt, hq, idxs_cons, List.count_cons] at h1 ⊢
    simp only [WPc.cnt, WPc.hand, Option.map_none, Option.map_some, optCount_none, optCount_some] at h2
    simp only [beq_iff_eq] at h1
    omega
  case permits =>
    have h1 := h.permits
    have h2 := sum_map_set WPc.holds s.wk i _ (.have m) hi
    simp only [held, pending, hq, List.length_cons] at h1 ⊢
    simp only [WPc.holds] at h2
    omega
  case lostLe =>
    have h1 := h.lostLe
    have h2 := sum_map_set WPc.deadN s.wk i _ (.have m) hi
    simp only [deadCount] at h1 ⊢
    simp only [WPc.deadN] at h2
    omega
  case rawInq => intro x hx; exact h.rawInq x (by simp [hq, hx])
  case rawWk =>
    intro x hx
    rcases mem_set_of hx with hx | hx
    · have : x = m := by simpa using hx
      subst this; exact h.rawInq _ (by simp [hq])
    · exact h.rawWk x hx
  case inqSorted =>
    have := h.inqSorted
    simp only [hq, idxs_cons, List.pairwise_cons] at this
    exact this.2
  case fin =>
    intro hp
    rcases h.fin hp with hd | hd
    · exact Or.inl (Nat.lt_of_lt_of_le hd (deadCount_set_ge s _ i _ _ hi rfl rfl))
    · exact Or.inr hd
  case rtDead => intro hp; exact Nat.lt_of_lt_of_le (h.rtDead hp) (deadCount_set_ge s _ i _ _ hi rfl rfl)
  case deadSeen => intro hp; exact Nat.lt_of_lt_of_le (h.deadSeen hp) (deadCount_set_ge s _ i _ _ hi rfl rfl)

theorem inv_wPut (h : Inv c s) (i : Nat) (m : Msg) (hi : s.wk[i]? = some (.have m)) :
    Inv c { s with mid := s.mid ++ [⟨apply c m.pay, m.idx⟩], wk := s.wk.set i .top } := by
  have hraw := h.rawWk m (mem_of_getElem? hi)
  constructor <;> (try (dsimp only; same h))
  case wkLen => simp [h.wkLen]
  case wExit =>
    intro q hq' hq2
    rcases mem_set_of hq' with rfl | hq'
    · simp at hq2
    · exact h.wExit q hq' hq2
  case cnt =>
    intro k
    have h1 := h.cnt k
    have h2 := sum_map_set (WPc.cnt k) s.wk i _ .top hi
    simp only [cnt, idxs_append, idxs_cons, idxs_nil, List.count_append, List.count_cons, List.count_nil] at h1 ⊢
    simp only [WPc.cnt, WPc.hand, Option.map_none, Option.map_some, optCount_none, optCount_some] at h2
    simp only [beq_iff_eq] at h1 ⊢
    omega
  case permits =>
    have h1 := h.permits
    have h2 := sum_map_set WPc.holds s.wk i _ .top hi
    simp only [held, pending, List.length_append, List.length_cons, List.length_nil] at h1 ⊢
    simp only [WPc.holds] at h2
    omega
  case lostLe =>
    have h1 := h.lostLe
    have h2 := sum_map_set WPc.deadN s.wk i _ .top hi
    simp only [deadCount] at h1 ⊢
    simp only [WPc.deadN] at h2
    omega
  case rawWk => intro x hx; exact h.rawWk x (have_mem_set (by simp [WPc.hand]) hx)
  case outMid =>
    intro x hx
    rcases List.mem_append.mp hx with hx | hx
    · exact h.outMid x hx
    · simp at hx; subst hx; simp [outAt, hraw]
  case fin =>
    intro hp
    rcases h.fin hp with hd | hd
    · exact Or.inl (Nat.lt_of_lt_of_le hd (deadCount_set_ge s _ i _ _ hi rfl rfl))
    · exact Or.inr hd
  case rtDead => intro hp; exact Nat.lt_of_lt_of_le (h.rtDead hp) (deadCount_set_ge s _ i _ _ hi rfl rfl)
  case deadSeen => intro hp; exact Nat.lt_of_lt_of_le (h.deadSeen hp) (deadCount_set_ge s _ i _ _ hi rfl rfl)

theorem inv_wDie_have (h : Inv c s) (i : Nat) (m : Msg) (hi : s.wk[i]? = some (.have m)) :
    Inv c { s with wk := s.wk.set i .dead, lost := m.idx :: s.lost } := by
  constructor <;> (try (dsimp only; same h))
  case wkLen => simp [h.wkLen]
  case wExit =>
    intro q hq' hq2
    rcases mem_set_of hq' with rfl | hq'
    · simp at hq2
    · exact h.wExit q hq' hq2
  case cnt =>
    intro k
    have h1 := h.cnt k
    have h2 := sum_map_set (WPc.cnt k) s.wk i _ .dead hi
    simp only [cnt, List.count_cons] at h1 ⊢
    simp only [WPc.cnt, WPc.hand, Option.map_none, Option.map_some, optCount_none, optCount_some] at h2
    simp only [beq_iff_eq] at h1 ⊢
    omega
  case permits =>
    have h1 := h.permits
    have h2 := sum_map_set WPc.holds s.wk i _ .dead hi
    simp only [held, pending, List.length_cons] at h1 ⊢
    simp only [WPc.holds] at h2
    omega
  case lostLe =>
    have h1 := h.lostLe
    have h2 := sum_map_set WPc.deadN s.wk i _ .dead hi
    simp only [deadCount, List.length_cons] at h1 ⊢
    simp only [WPc.deadN] at h2
    omega
  case rawWk => intro x hx; exact h.rawWk x (have_mem_set (by simp [WPc.hand]) hx)
  case fin =>
    intro hp
    rcases h.fin hp with hd | hd
    · exact Or.inl (Nat.lt_of_lt_of_le hd (deadCount_set_ge s _ i _ _ hi rfl rfl))
    · exact Or.inr hd
  case rtDead => intro hp; exact Nat.lt_of_lt_of_le (h.rtDead hp) (deadCount_set_ge s _ i _ _ hi rfl rfl)
  case deadSeen => intro hp; exact Nat.lt_of_lt_of_le (h.deadSeen hp) (deadCount_set_ge s _ i _ _ hi rfl rfl)

theorem inv_stepW (h : Inv c s) {a : Action} (hs : stepW c s a = some s') : Inv c s' := by
  cases a <;> try (simp [stepW] at hs; done)
  case wIsSet i =>
    obtain ⟨h1, rfl⟩ := (spec_wIsSet i).mp hs
    apply inv_wk_nohand h i _ _ h1 (by simp [WPc.hand]) (by simp)
    · generalize (if c.proc = true then s.mpstop else s.stop) = b
      cases b <;> simp [WPc.hand]
    · intro hx
      cases hf : (if c.proc = true then s.mpstop else s.stop)
      · simp [hf] at hx
      · rfl
  case wEmpty i =>
    obtain ⟨h1, rfl⟩ := (spec_wEmpty i).mp hs
    apply inv_wk_nohand h i _ _ h1 (by simp [WPc.hand]) (by simp)
    · cases s.inq.isEmpty <;> simp [WPc.hand]
    · intro _
      exact h.wExit _ (mem_of_getElem? h1) (Or.inr rfl)
  case wGet i =>
    obtain ⟨m, rest, h1, h2, rfl⟩ := (spec_wGet i).mp hs
    exact inv_wGet h i m rest h1 h2
  case wGetT i =>
    obtain ⟨h1, _, rfl⟩ := (spec_wGetT i).mp hs
    exact inv_wk_nohand h i _ _ h1 (by simp [WPc.hand]) (by simp) (by simp [WPc.hand]) (by simp)
  case wPut i =>
    obtain ⟨m, h1, rfl⟩ := (spec_wPut i).mp hs
    exact inv_wPut h i m h1
  case wDie i =>
    obtain ⟨_, hh⟩ := (spec_wDie i).mp hs
    rcases hh with ⟨m, h1, rfl⟩ | ⟨h1, rfl⟩
    · exact inv_wDie_have h i m h1
    · rcases h1 with h1 | h1 | h1 <;>
        exact inv_wk_nohand h i _ _ h1 (by simp [WPc.hand]) (by simp) (by simp [WPc.hand]) (by simp)

end TDV.PM
