import TorchDataVerif.Proofs.MPMapLive
import TorchDataVerif.Proofs.MPIterF
import TorchDataVerif.Proofs.MPStep
import TorchDataVerif.Proofs.MPIterLive
import TorchDataVerif.Proofs.MPMapDelta
/-!
# MP, map-style: consequences of the invariants, in the form the property theorems use
-/
namespace TDV.MP

/-- What the consumer must see for a fetch result. -/
def expected : Item → Obs
  | .ok b => .item b
  | .err => .error


section Map

variable (c : Cfg) (hv : c.Valid) (hm : c.iterable = false) (hio : c.inOrder = true)
include hv hm hio

theorem reach_map_all (as : List Action) (s : State) (hnr : NoReset as) (hr : run c (init c) as = some s)
    (hd : ¬ died s) : InvM c s ∧ SnapM c s ∧ (s.shutdown = false → AcctM c s) := by
  rcases run_map_all c as (init c) s hv hm hio hnr
    (Or.inl ⟨init_invM c hv hm hio, init_snapM c hv hm hio, fun _ => init_acctM c hv hm hio⟩) hr with h | h
  · exact h
  · exact absurd h hd

theorem reach_map (as : List Action) (s : State) (hnr : NoReset as) (hr : run c (init c) as = some s)
    (hd : ¬ died s) : InvM c s ∧ SnapM c s :=
  let h := reach_map_all c hv hm hio as s hnr hr hd
  ⟨h.1, h.2.1⟩

end Map

theorem ObsRel_noassert (a : List Item) (b : List Obs) (h : ObsRel a b) (hn : Obs.assertion ∉ b) :
    b = a.map expected := by
  induction a generalizing b with
  | nil => cases b with
    | nil => rfl
    | cons _ _ => exact h.elim
  | cons x a ih => cases b with
    | nil => exact h.elim
    | cons y b =>
      obtain ⟨h1, h2⟩ := h
      have hb := ih b h2 (fun hm => hn (List.mem_cons_of_mem _ hm))
      have hy : y = expected x := by
        cases x with
        | ok v =>
          rcases h1 with h1 | h1
          · exact h1
          · exfalso; apply hn; rw [h1]; exact List.mem_cons_self ..
        | err => exact h1
      rw [hy, hb]; rfl

theorem yields_map_expected (a : List Item) : yields (a.map expected) = oks a := by
  induction a with
  | nil => rfl
  | cons x a ih => cases x <;> simp [expected, yields, oks, ih]

theorem mem_taskObs (o : Obs) (l : List Obs) (h : o ∈ taskObs l) : o ∈ l := by
  induction l with
  | nil => exact h
  | cons x l ih =>
    cases x <;> simp only [taskObs, List.mem_cons] at h ⊢
    all_goals first
      | (rcases h with h | h
         · exact Or.inl h
         · exact Or.inr (ih h))
      | exact Or.inr (ih h)


section Map2

variable (c : Cfg) (hv : c.Valid) (hm : c.iterable = false) (hio : c.inOrder = true)
include hv hm hio

/-- The observations answering tasks are exactly the expected ones for the first `rcvd_idx` tasks. -/
theorem taskObs_eq_map (as : List Action) (s : State) (hnr : NoReset as) (hr : run c (init c) as = some s)
    (hd : ¬ died s) (ha : Obs.assertion ∉ s.obs) :
    taskObs s.obs = (c.batches.take s.rcvdIdx).map expected := by
  obtain ⟨hi, _⟩ := reach_map c hv hm hio as s hnr hr hd
  exact ObsRel_noassert _ _ hi.obs (fun h => ha (mem_taskObs _ _ h))

theorem yields_eq_map (as : List Action) (s : State) (hnr : NoReset as) (hr : run c (init c) as = some s)
    (hd : ¬ died s) (ha : Obs.assertion ∉ s.obs) :
    yields s.obs = oks (c.batches.take s.rcvdIdx) := by
  rw [← yields_taskObs, taskObs_eq_map c hv hm hio as s hnr hr hd ha, yields_map_expected]

end Map2

theorem assertion_not_mem_map_expected (l : List Item) : Obs.assertion ∉ l.map expected := by
  induction l with
  | nil => simp
  | cons x l ih => cases x <;> simp [expected, ih]

theorem oks_take_prefix (l : List Item) (n : Nat) : oks (l.take n) <+: oks l := by
  refine ⟨oks (l.drop n), ?_⟩
  rw [← oks_append, List.take_append_drop]

theorem prefix_eq_of_length {α : Type} (a b l : List α) (ha : a <+: l) (hb : b <+: l) (h : a.length = b.length) :
    a = b := by
  obtain ⟨x, hx⟩ := ha
  obtain ⟨y, hy⟩ := hb
  have := hx.trans hy.symm
  exact List.append_inj_left this h

section Iter

variable (c : Cfg) (hv : c.ValidI) (hit : c.iterable = true) (hio : c.inOrder = true)
include hv hit hio

theorem reach_iter (as : List Action) (s : State) (hnr : NoReset as) (hr : run c (init c) as = some s)
    (hd : ¬ died s) : InvI c s := by
  rcases run_invI c as (init c) s hv.2 hit hio hnr (Or.inl (init_invI c hv hit hio)) hr with h | h
  · exact h
  · exact absurd h hd

/-- The observations answering tasks are the expected ones for a prefix of the reference stream. -/
theorem taskObs_eq_iter (as : List Action) (s : State) (hnr : NoReset as) (hr : run c (init c) as = some s)
    (hd : ¬ died s) (ha : Obs.assertion ∉ s.obs) :
    ∃ D : List Item, D <+: Ref.interleave c.shards ∧ taskObs s.obs = D.map expected ∧
      (Obs.stop ∈ s.obs → D = Ref.interleave c.shards) := by
  obtain ⟨D, ho, hp, hf⟩ := InvI_obs c s hv (reach_iter c hv hit hio as s hnr hr hd)
  exact ⟨D, hp, ObsRel_noassert _ _ ho (fun h => ha (mem_taskObs _ _ h)), hf⟩

end Iter

/-! ## `snapshot_step` bookkeeping along runs -/

theorem init_gs (c : Cfg) (hv : c.Valid) : GS c (init c) := by
  unfold init resetTail
  generalize hs0 : ({ resetHead c _ with mainSnaps := [], lastW := c.W - 1, snap := _ } : State) = s0
  have hc := prime_sameCore c (c.P * c.W) s0
  have e2 : s0.obs = [] := by subst hs0; rfl
  have e3 : s0.numYielded = 0 := by subst hs0; rfl
  have e4 : s0.snap.step = 0 := by subst hs0; rfl
  constructor
  · rw [hc.numYielded, hc.obs, e2, e3]; rfl
  · intro _; rw [hc.snap, e4]
  · intro h0 _; rw [hc.snap, hc.numYielded, e3, e4]; exact ⟨Nat.dvd_zero _, Nat.le_refl _, by have := Nat.pos_of_ne_zero h0; omega⟩

theorem run_gs_map (c : Cfg) (as : List Action) (s s' : State) (hv : c.Valid) (hm : c.iterable = false)
    (hio : c.inOrder = true) (hnr : NoReset as) (h : (InvM c s ∧ GS c s) ∨ died s) (hr : run c s as = some s') :
    (InvM c s' ∧ GS c s') ∨ died s' := by
  induction as generalizing s with
  | nil => simp only [run] at hr; cases hr; exact h
  | cons a as ih =>
    simp only [run] at hr
    split at hr
    · cases hr
    · rename_i s1 hs1
      refine ih s1 hnr.2 ?_ hr
      rcases h with ⟨h1, h2⟩ | h
      · rcases step_invM c s s1 a hv hm hio hnr.1 h1 hs1 with h3 | h3
        · exact Or.inl ⟨h3, GS_step c s s1 a hio hnr.1 h2 h1.ph hs1⟩
        · exact Or.inr h3
      · exact Or.inr (died_step c s s1 a hs1 h)

theorem run_gs_iter (c : Cfg) (as : List Action) (s s' : State) (hv : c.shards.length = c.W)
    (hit : c.iterable = true) (hio : c.inOrder = true) (hnr : NoReset as) (h : (InvI c s ∧ GS c s) ∨ died s)
    (hr : run c s as = some s') : (InvI c s' ∧ GS c s') ∨ died s' := by
  induction as generalizing s with
  | nil => simp only [run] at hr; cases hr; exact h
  | cons a as ih =>
    simp only [run] at hr
    split at hr
    · cases hr
    · rename_i s1 hs1
      refine ih s1 hnr.2 ?_ hr
      rcases h with ⟨h1, h2⟩ | h
      · rcases step_invI c s s1 a hv hit hio hnr.1 h1 hs1 with h3 | h3
        · exact Or.inl ⟨h3, GS_step c s s1 a hio hnr.1 h2 h1.ph hs1⟩
        · exact Or.inr h3
      · exact Or.inr (died_step c s s1 a hs1 h)

end TDV.MP
