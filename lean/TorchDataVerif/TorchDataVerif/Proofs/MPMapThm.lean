import TorchDataVerif.Proofs.MPMapLive
/-!
# MP, map-style: consequences of the invariants, in the form the property theorems use
-/
namespace TDV.MP

/-- What the consumer must see for a fetch result. -/
def expected : Item → Obs
  | .ok b => .item b
  | .err => .error


section Map

variable (c : Cfg) (hv : c.Valid) (hm : c.iterable = false) (hio : c.inOrder = true)
include hv hm hio

theorem reach_map_all (as : List Action) (s : State) (hnr : NoReset as) (hr : run c (init c) as = some s)
    (hd : ¬ died s) : InvM c s ∧ SnapM c s ∧ (s.shutdown = false → AcctM c s) := by
  rcases run_map_all c as (init c) s hv hm hio hnr
    (Or.inl ⟨init_invM c hv hm hio, init_snapM c hv hm hio, fun _ => init_acctM c hv hm hio⟩) hr with h | h
  · exact h
  · exact absurd h hd

theorem reach_map (as : List Action) (s : State) (hnr : NoReset as) (hr : run c (init c) as = some s)
    (hd : ¬ died s) : InvM c s ∧ SnapM c s :=
  let h := reach_map_all c hv hm hio as s hnr hr hd
  ⟨h.1, h.2.1⟩

end Map

theorem ObsRel_noassert (a : List Item) (b : List Obs) (h : ObsRel a b) (hn : Obs.assertion ∉ b) :
    b = a.map expected := by
  induction a generalizing b with
  | nil => cases b with
    | nil => rfl
    | cons _ _ => exact h.elim
  | cons x a ih => cases b with
    | nil => exact h.elim
    | cons y b =>
      obtain ⟨h1, h2⟩ := h
      have hb := ih b h2 (fun hm => hn (List.mem_cons_of_mem _ hm))
      have hy : y = expected x := by
        cases x with
        | ok v =>
          rcases h1 with h1 | h1
          · exact h1
          · exfalso; apply hn; rw [h1]; exact List.mem_cons_self ..
        | err => exact h1
      rw [hy, hb]; rfl

theorem yields_map_expected (a : List Item) : yields (a.map expected) = oks a := by
  induction a with
  | nil => rfl
  | cons x a ih => cases x <;> simp [expected, yields, oks, ih]

theorem mem_taskObs (o : Obs) (l : List Obs) (h : o ∈ taskObs l) : o ∈ l := by
  induction l with
  | nil => exact h
  | cons x l ih =>
    cases x <;> simp only [taskObs, List.mem_cons] at h ⊢
    all_goals first
      | (rcases h with h | h
         · exact Or.inl h
         · exact Or.inr (ih h))
      | exact Or.inr (ih h)


section Map2

variable (c : Cfg) (hv : c.Valid) (hm : c.iterable = false) (hio : c.inOrder = true)
include hv hm hio

/-- The observations answering tasks are exactly the expected ones for the first `rcvd_idx` tasks. -/
theorem taskObs_eq_map (as : List Action) (s : State) (hnr : NoReset as) (hr : run c (init c) as = some s)
    (hd : ¬ died s) (ha : Obs.assertion ∉ s.obs) :
    taskObs s.obs = (c.batches.take s.rcvdIdx).map expected := by
  obtain ⟨hi, _⟩ := reach_map c hv hm hio as s hnr hr hd
  exact ObsRel_noassert _ _ hi.obs (fun h => ha (mem_taskObs _ _ h))

theorem yields_eq_map (as : List Action) (s : State) (hnr : NoReset as) (hr : run c (init c) as = some s)
    (hd : ¬ died s) (ha : Obs.assertion ∉ s.obs) :
    yields s.obs = oks (c.batches.take s.rcvdIdx) := by
  rw [← yields_taskObs, taskObs_eq_map c hv hm hio as s hnr hr hd ha, yields_map_expected]

end Map2

theorem assertion_not_mem_map_expected (l : List Item) : Obs.assertion ∉ l.map expected := by
  induction l with
  | nil => simp
  | cons x l ih => cases x <;> simp [expected, ih]

theorem oks_take_prefix (l : List Item) (n : Nat) : oks (l.take n) <+: oks l := by
  refine ⟨oks (l.drop n), ?_⟩
  rw [← oks_append, List.take_append_drop]

theorem prefix_eq_of_length {α : Type} (a b l : List α) (ha : a <+: l) (hb : b <+: l) (h : a.length = b.length) :
    a = b := by
  obtain ⟨x, hx⟩ := ha
  obtain ⟨y, hy⟩ := hb
  have := hx.trans hy.symm
  exact List.append_inj_left this h

end TDV.MP
