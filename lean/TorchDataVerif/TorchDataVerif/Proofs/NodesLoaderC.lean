import TorchDataVerif.Proofs.NodesLoaderB
/-!
# Part C — `Del` for `Filter`; `Unbatcher` and `Prefetcher`/`ParallelMapper` (`buffered`) over sources whose
epochs are all alike.

`Unbatcher.reset(state)` and the fast-forward of `buffered` pull from the source, so after loading a state the
source has seen a `next()` while the operator has not: over an epoch-counting source (`SamplerWrapper`) a plain
`reset()` right after then starts the *next* epoch, which `DeliversEpochs` excludes (see
`unbatcher_over_sampler_not_delivers` in Props/C02E2E.lean).  Over sources whose epochs are all alike there is
nothing to count.
-/
namespace TDV.E2EN
open TDV.Node TDV.Loader

/-- Every plain `reset()` epoch of `n` yields `l` (from reachable states and from the fresh object). -/
def Const (n : Node) (l : List Item) : Prop := ∀ r, V n r → Yields n (n.rreset r none) l

theorem Const.del {n : Node} {l : List Item} (h : Const n l) : Del n (fun _ => l) (fun _ _ => True) :=
  Del.const h

theorem Del.toConst {n : Node} {ep : Nat → List Item} {l : List Item} (d : Del n ep (fun _ _ => True))
    (hc : ∀ e, ep e = l) : Const n l := by
  intro r hr
  have := d.yields r 0 hr trivial
  rw [hc] at this
  exact this

theorem V_resetNone {n : Node} {r : Run n} (h : V n r) : n.Reach (n.rreset r none) := by
  rcases h with h | h
  · exact Node.Reach.resetNone h
  · subst h; exact Node.Reach.initNone

/-! ## `Filter` -/

theorem filLoop_pres {src : Node} (p : Item → Bool) (P : Run src → Prop)
    (hP : ∀ r, src.Reach r → P r → P (src.rnext r).2) (k : Nat) :
    ∀ st : FilSt src, src.Reach st.inner → P st.inner → P (filLoop src p k st).2.inner := by
  induction k with
  | zero => intro st _ h; exact h
  | succ k ih =>
    intro st hr h
    have hn := Node.Reach.next hr
    have hp := hP _ hr h
    rcases hx : src.rnext st.inner with ⟨o, r'⟩
    rw [hx] at hn hp
    cases o with
    | item v =>
      by_cases hq : p v = true
      · simp only [filLoop, hx, hq, if_true]; exact hp
      · simp only [filLoop, hx, hq]; exact ih _ hn hp
    | stop => simp only [filLoop, hx]; exact hp
    | error e => simp only [filLoop, hx]; exact hp

theorem filter_sync (fuel : Nat) (hf : 0 < fuel) (p : Item → Bool) (src : Node) (R : Run (filter fuel p src))
    (h : (filter fuel p src).Reach R) : (R.st : FilSt src).inner.nexted = R.nexted := by
  have h2 : (R.st : FilSt src).inner.nexted = true → R.nexted = true := by
    induction h with
    | initNone => intro h; cases h
    | initSome _ _ => intro h; cases h
    | next _ _ => intro _; rfl
    | get _ ih => exact ih
    | resetNone _ _ => intro h; cases h
    | resetSome _ _ _ _ => intro h; cases h
  have h1 := filter_nexted fuel hf p src R h
  cases hb : R.nexted with
  | true => exact h1 hb
  | false =>
    cases hi : (R.st : FilSt src).inner.nexted with
    | false => rfl
    | true => rw [h2 hi] at hb; cases hb

theorem filter_V (fuel : Nat) (hf : 0 < fuel) (p : Item → Bool) (src : Node) (R : Run (filter fuel p src))
    (h : V (filter fuel p src) R) :
    V src (R.st : FilSt src).inner ∧ (R.st : FilSt src).inner.nexted = R.nexted := by
  rcases h with h | h
  · exact ⟨Or.inl (filter_reach fuel p src R h), filter_sync fuel hf p src R h⟩
  · subst h; exact ⟨Or.inr rfl, rfl⟩

theorem filter_del (fuel : Nat) (hf : 0 < fuel) (p : Item → Bool) {src : Node} {ep : Nat → List Item}
    {At : Run src → Nat → Prop} (hl : ∀ e, (ep e).length < fuel) (d : Del src ep At) :
    Del (filter fuel p src) (fun e => (ep e).filter p) (fun R e => At (R.st : FilSt src).inner e) where
  fresh := d.fresh
  next := by
    intro R e hR h
    rw [filter_rnext]
    exact filLoop_pres p (fun r => At r e) (fun r hr => d.next r e hr) fuel _ (filter_reach fuel p src R hR) h
  get := fun R e hR h => d.get _ e (filter_reach fuel p src R hR) h
  resetNone := by
    intro R e hR h
    have hv := filter_V fuel hf p src R hR
    have := d.resetNone _ e hv.1 h
    rw [hv.2] at this
    exact this
  resetSome := by
    intro R S e hR hS h
    exact d.resetSome _ _ e (filter_V fuel hf p src R hR).1 (filter_reach fuel p src S hS) h
  yields := by
    intro R e hR h
    have hv := filter_V fuel hf p src R hR
    have hy := d.yields _ e hv.1 h
    rw [hv.2] at hy
    exact filter_denote fuel p src _ (hl _) R hy

/-! ## `Unbatcher`, `buffered` over a source whose epochs are all alike -/

theorem unbatcher_V (fuel : Nat) (src : Node) (R : Run (unbatcher fuel src)) (h : V (unbatcher fuel src) R) :
    V src (R.st : UnbSt src).inner := by
  rcases h with h | h
  · exact Or.inl (unbatcher_reach fuel src R h).1
  · subst h; exact Or.inr rfl

theorem unbatcher_const (fuel : Nat) {src : Node} (hg : GetTransparent src) (bs : List (List Item))
    (hf : bs.length < fuel) (h : Const src (bs.map Item.list)) : Const (unbatcher fuel src) bs.flatten := by
  intro R hR
  have hv := unbatcher_V fuel src R hR
  have := unbatcher_yields fuel src hg bs [] ((unbatcher fuel src).rreset R none) rfl rfl (V_resetNone hv) (h _ hv) hf
  simpa using this

theorem buffered_V (sf : Nat) (src : Node) (R : Run (buffered sf src)) (h : V (buffered sf src) R) :
    V src (R.st : BufSt src).inner := by
  rcases h with h | h
  · exact Or.inl (buffered_reach sf src R h).1
  · subst h; exact Or.inr rfl

theorem buffered_const (sf : Nat) {src : Node} (hg : GetTransparent src) (xs : List Item)
    (h : Const src xs) : Const (buffered sf src) xs := by
  intro R hR
  have hv := buffered_V sf src R hR
  have hr := V_resetNone hv
  exact buffered_yields sf src hg xs ((buffered sf src).rreset R none) rfl rfl
    (Node.Reach.get hr) (Yields.congr (hg _ hr).symm (h _ hv))

end TDV.E2EN
