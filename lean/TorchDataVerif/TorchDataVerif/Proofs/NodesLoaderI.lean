import TorchDataVerif.Proofs.NodesLoaderH
/-!
# Part I — `built_delivers`: an `Ok`, `Aligned` pipeline delivers `Pipe.epochs`
-/
namespace TDV.E2EN
open TDV.Node TDV.Loader

theorem Del.congr {n : Node} {ep ep' : Nat → List Item} {At : Run n → Nat → Prop} (h : ∀ e, ep e = ep' e)
    (d : Del n ep At) : Del n ep' At := by
  have : ep = ep' := funext h
  subst this
  exact d

/-- `f` where it is defined. -/
def optGet (f : Item → Option Item) (x : Item) : Item :=
  match f x with
  | some y => y
  | none => x

theorem optGet_spec (f : Item → Option Item) (x : Item) (h : (f x).isSome = true) : f x = some (optGet f x) := by
  unfold optGet
  cases hx : f x with
  | some y => rfl
  | none => rw [hx] at h; cases h

theorem filterMap_total (f : Item → Option Item) (xs : List Item) (h : ∀ x ∈ xs, (f x).isSome = true) :
    xs.filterMap f = xs.map (optGet f) := by
  induction xs with
  | nil => rfl
  | cons x xs ih =>
    have hx := optGet_spec f x (h x List.mem_cons_self)
    rw [List.filterMap_cons, hx, List.map_cons, ih (fun y hy => h y (List.mem_cons_of_mem _ hy))]

theorem unlist_all (xs : List Item) (h : ∀ x ∈ xs, IsNeList x) : xs = (xs.map Pipe.unlist).map Item.list := by
  induction xs with
  | nil => rfl
  | cons x xs ih =>
    obtain ⟨y, ys, rfl⟩ := h x List.mem_cons_self
    rw [List.map_cons, List.map_cons, ← ih (fun z hz => h z (List.mem_cons_of_mem _ hz))]
    rfl

namespace Pipe

theorem map_step {f : Item → Option Item} {p : Pipe} (ok : (Pipe.map f p).Ok) {At : Run p.node → Nat → Prop}
    (d : Del p.node p.epochs At) :
    Del (Pipe.map f p).node (Pipe.map f p).epochs (fun R e => At (R.st : Run p.node) e) := by
  have hs : ∀ e, ∀ x ∈ p.epochs e, (f x).isSome = true := fun e x hx => ok.2 x (epochs_items ok.1 e x hx)
  exact (mapper_del f (optGet f) (fun e x hx => optGet_spec f x (hs e x hx)) d).congr
    (fun e => (filterMap_total f _ (hs e)).symm)

theorem batch_step {bs : Nat} {dl : Bool} {p : Pipe} (ok : (Pipe.batch bs dl p).Ok) {At : Run p.node → Nat → Prop}
    (d : Del p.node p.epochs At) :
    Del (Pipe.batch bs dl p).node (Pipe.batch bs dl p).epochs (fun R e => At (R.st : Run p.node) e) :=
  batcher_del bs dl ok.2 d

theorem filter_step {fuel : Nat} {q : Item → Bool} {p : Pipe} (ok : (Pipe.filter fuel q p).Ok)
    {At : Run p.node → Nat → Prop} (d : Del p.node p.epochs At) :
    Del (Pipe.filter fuel q p).node (Pipe.filter fuel q p).epochs
      (fun R e => At (R.st : FilSt p.node).inner e) := by
  obtain ⟨B, hlt, hb⟩ := ok.2
  exact filter_del fuel (by omega) q (fun e => Nat.lt_of_le_of_lt (epochs_len ok.1 hb e) hlt) d

theorem unbatch_step {fuel : Nat} {p : Pipe} (ok : (Pipe.unbatch fuel p).Ok) (hn : p.NoSampler)
    (d : Del p.node p.epochs (fun _ _ => True)) :
    Del (Pipe.unbatch fuel p).node (Pipe.unbatch fuel p).epochs (fun _ _ => True) := by
  have hc : Const p.node (p.epochs 0) := d.toConst (epochs_const hn)
  have hall : ∀ x ∈ p.epochs 0, IsNeList x := fun x hx => ok.2.1 x (epochs_items ok.1 0 x hx)
  have e0 := unlist_all (p.epochs 0) hall
  rw [e0] at hc
  have hg : GetTransparent p.node := (lawful ok.1).getTransparent
  have hlen : ((p.epochs 0).map unlist).length < fuel := by
    have := ok.2.2.2 0
    simpa using this
  have hU := (unbatcher_const fuel hg _ hlen hc).del
  refine hU.congr ?_
  intro e
  show ((p.epochs 0).map unlist).flatten = (p.epochs e).flatMap unlist
  rw [epochs_const hn e, List.flatMap_def]

theorem buffered_step {sf : Nat} {p : Pipe} (ok : (Pipe.buffered sf p).Ok) (hn : p.NoSampler)
    (d : Del p.node p.epochs (fun _ _ => True)) :
    Del (Pipe.buffered sf p).node (Pipe.buffered sf p).epochs (fun _ _ => True) := by
  have hc : Const p.node (p.epochs 0) := d.toConst (epochs_const hn)
  have okp : p.Ok := ok
  have hg : GetTransparent p.node := (lawful okp).getTransparent
  refine (buffered_const sf hg _ hc).del.congr ?_
  intro e
  exact (epochs_const hn e).symm

/-- Pipelines without an epoch-counting source: every epoch is `p.epochs 0`. -/
theorem del_noSampler {p : Pipe} (ok : p.Ok) (hn : p.NoSampler) : Del p.node p.epochs (fun _ _ => True) := by
  induction p with
  | list l => exact list_del l
  | sampler _ _ _ => exact hn.elim
  | stateful it xs => exact StOk.del ok
  | map f p ih => exact map_step ok (ih ok.1 hn)
  | batch bs dl p ih => exact batch_step ok (ih ok.1 hn)
  | unbatch fuel p ih => exact unbatch_step ok hn (ih ok.1 hn)
  | filter fuel q p ih => exact filter_step ok (ih ok.1 hn)
  | buffered sf p ih => exact buffered_step ok hn (ih ok hn)

theorem del {p : Pipe} (ok : p.Ok) (ha : p.Aligned) : ∃ At, Del p.node p.epochs At := by
  induction p with
  | list l => exact ⟨_, list_del l⟩
  | sampler idx upd e0 => exact ⟨_, sampler_del idx upd e0⟩
  | stateful it xs => exact ⟨_, StOk.del ok⟩
  | map f p ih => obtain ⟨At, d⟩ := ih ok.1 ha; exact ⟨_, map_step ok d⟩
  | batch bs dl p ih => obtain ⟨At, d⟩ := ih ok.1 ha; exact ⟨_, batch_step ok d⟩
  | unbatch fuel p _ => exact ⟨_, del_noSampler ok ha⟩
  | filter fuel q p ih => obtain ⟨At, d⟩ := ih ok.1 ha; exact ⟨_, filter_step ok d⟩
  | buffered sf p _ => exact ⟨_, del_noSampler ok ha⟩

/-- **`built_delivers`**: the epochs of the pipeline are `Pipe.epochs`, in the sense of the Loader development. -/
theorem delivers {p : Pipe} (ok : p.Ok) (ha : p.Aligned) : DeliversEpochs p.node p.epochs := by
  obtain ⟨At, d⟩ := del ok ha
  exact d.delivers

end Pipe
end TDV.E2EN
