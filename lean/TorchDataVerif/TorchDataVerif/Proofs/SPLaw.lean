import TorchDataVerif.Proofs.SPIter
/-! Iterable datasets, part 2: the law of a (stateful) iterable dataset, what one `next()` does at a known
position, similarity of iterators. -/
namespace TDV.SP
open TDV.Sampler

/-- The dataset part of `state_dict()`: (`dataset_state`, `dataset_iter_state`). -/
def dSave {D Ds Dt : Type} (Da : Data D Ds Dt) (d : D) : Option Ds × Option Dt :=
  (if Da.selfIter then none else Da.dsState.map (· d), Da.itState.map (· d))

/-- The dataset part of `load_state_dict()` when the dataset or its iterator is `Stateful`: dataset state
first, then `iter(dataset)`, then the iterator state. -/
def dRestore {D Ds Dt : Type} (Da : Data D Ds Dt) (d' : D) (s : Option Ds × Option Dt) : D :=
  let d1 := match s.1, Da.dsState with
    | some s, some _ => Da.dsLoad d' s
    | _, _ => d'
  let d2 := Da.iter d1
  match s.2 with
  | some t => Da.itLoad d2 t
  | none => d2

/-- **What is assumed of an iterable dataset that yields `items`.**  `Good d`: the dataset object is between
epochs (newly constructed, or its iterator has raised `StopIteration`); `Pos d j`: its current iterator has
yielded `j` items of the epoch.  Nothing is said about calling `next` again after `StopIteration`, nor
about what an exhausted object's state looks like — only that `iter()` on it starts the next epoch. -/
structure IterLaw {D Ds Dt : Type} (Da : Data D Ds Dt) (items : List Nat) where
  Good : D → Prop
  Pos : D → Nat → Prop
  start : ∀ d, Good d → Pos (Da.iter d) 0
  step : ∀ d j (h : j < items.length), Pos d j → (Da.next d).1 = .item items[j] ∧ Pos (Da.next d).2 (j + 1)
  stop : ∀ d, Pos d items.length → (Da.next d).1 = .stop ∧ Good (Da.next d).2

/-- The additional law of a dataset with state (`state_dict`/`load_state_dict` on the dataset, on its
iterator, or both): the state taken after `j` items (`j ≤ length`), restored into another object built with
the same arguments, continues after item `j`; a state taken between epochs restores to between epochs. -/
structure StateLaw {D Ds Dt : Type} (Da : Data D Ds Dt) (items : List Nat) (L : IterLaw Da items) : Prop where
  stateful : (Da.dsState.isSome || Da.itState.isSome) = true
  resume : ∀ d d' j, L.Pos d j → L.Good d' → L.Pos (dRestore Da d' (dSave Da d)) j
  between : ∀ d d', L.Good d → L.Good d' → L.Good (dRestore Da d' (dSave Da d))

/-- Shape of what the index sampler of an iterable dataset returns. -/
inductive Shape where
  | one
  | many (bs : Nat)
  deriving DecidableEq, Repr

def Idx.shape : Idx → Shape
  | .one _ => .one
  | .many l => .many l.length

/-- One call at position `j` of a lawful dataset: observation, `ended` afterwards, new position (`none`:
the dataset iterator has raised `StopIteration`). -/
def stepRef (items : List Nat) (dropLast : Bool) : Shape → Nat → Obs × Bool × Option Nat
  | .many bs, j =>
    if j + bs ≤ items.length then (.batch ((items.drop j).take bs), false, some (j + bs))
    else if (items.drop j).isEmpty || dropLast then (.stop, true, none)
    else (.batch (items.drop j), true, none)
  | .one, j =>
    match items[j]? with
    | some v => (.single v, false, some (j + 1))
    | none => (.stop, false, none)

section
variable {W SSt D Ds Dt : Type} (S : IdxSrc W SSt) (Da : Data D Ds Dt) (c : Cfg)
variable {items : List Nat} (L : IterLaw Da items)

theorem gather_pos : ∀ (k : Nat) (d : D) (j : Nat), L.Pos d j → j ≤ items.length →
    ∃ d1, (if j + k ≤ items.length then
        gather Da k d = ((items.drop j).take k, .full, d1) ∧ L.Pos d1 (j + k)
      else gather Da k d = (items.drop j, .stopped, d1) ∧ L.Good d1)
  | 0, d, j, h, hj => ⟨d, by simp [hj, gather, h]⟩
  | k + 1, d, j, h, hj => by
    by_cases hlt : j < items.length
    · obtain ⟨h1, h2⟩ := L.step d j hlt h
      obtain ⟨d1, ih⟩ := gather_pos k (Da.next d).2 (j + 1) h2 (by omega)
      have hw : Da.next d = (.item items[j], (Da.next d).2) := by rw [← h1]
      refine ⟨d1, ?_⟩
      rw [gather, hw]
      have hdrop : items.drop j = items[j] :: items.drop (j + 1) := List.drop_eq_getElem_cons hlt
      by_cases hk : j + (k + 1) ≤ items.length
      · have hk' : j + 1 + k ≤ items.length := by omega
        simp only [hk, hk', if_true] at ih ⊢
        rw [ih.1]
        exact ⟨by rw [hdrop, List.take_succ_cons], by rw [← Nat.add_assoc, Nat.add_right_comm]; exact ih.2⟩
      · have hk' : ¬ j + 1 + k ≤ items.length := by omega
        simp only [hk, hk', if_false] at ih ⊢
        rw [ih.1, hdrop]
        exact ⟨rfl, ih.2⟩
    · have hje : j = items.length := by omega
      subst hje
      obtain ⟨h1, h2⟩ := L.stop d h
      have hw : Da.next d = (.stop, (Da.next d).2) := by rw [← h1]
      refine ⟨(Da.next d).2, ?_⟩
      have hk : ¬ items.length + (k + 1) ≤ items.length := by omega
      simp only [hk, if_false]
      rw [gather, hw]
      exact ⟨by simp, h2⟩

/-- **The fetcher at a known position** (no failing `collate_fn`): result and `ended` are those of
`stepRef`; the dataset world moves to the new position, or to between-epochs. -/
theorem fetch_pos (hit : Da.iterable = true) (hcf : ∀ v, c.collateFail v = false) (d : D) (j : Nat)
    (h : L.Pos d j) (hj : j ≤ items.length) (ix : Idx) (hbs : ix.shape ≠ .many 0) :
    ∃ d1, fetch Da c d false ix = ((stepRef items c.dropLast ix.shape j).1, d1, (stepRef items c.dropLast ix.shape j).2.1) ∧
      (match (stepRef items c.dropLast ix.shape j).2.2 with
        | some j' => j' ≤ items.length ∧ L.Pos d1 j'
        | none => L.Good d1) := by
  have hcol : ∀ l, collate c l = .batch l := by
    intro l
    have : l.any c.collateFail = false := by simp [hcf]
    simp [collate, this]
  cases ix with
  | one i =>
    simp only [fetch, hit, if_true, Bool.false_eq_true, if_false, Idx.shape, stepRef]
    by_cases hlt : j < items.length
    · obtain ⟨h1, h2⟩ := L.step d j hlt h
      have hw : Da.next d = (.item items[j], (Da.next d).2) := by rw [← h1]
      refine ⟨(Da.next d).2, ?_⟩
      rw [hw]
      simp only [List.getElem?_eq_getElem hlt, collate1, hcf, Bool.false_eq_true, if_false]
      exact ⟨trivial, by omega, h2⟩
    · have hje : j = items.length := by omega
      subst hje
      obtain ⟨h1, h2⟩ := L.stop d h
      have hw : Da.next d = (.stop, (Da.next d).2) := by rw [← h1]
      refine ⟨(Da.next d).2, ?_⟩
      rw [hw]
      simp only [List.getElem?_eq_none (Nat.le_refl _)]
      exact ⟨trivial, h2⟩
  | many l =>
    have hl : 0 < l.length := by
      cases l with
      | nil => simp [Idx.shape] at hbs
      | cons a r => simp
    obtain ⟨d1, hg⟩ := gather_pos Da L l.length d j h hj
    refine ⟨d1, ?_⟩
    simp only [fetch, hit, if_true, Bool.false_eq_true, if_false, Idx.shape, stepRef]
    by_cases hk : j + l.length ≤ items.length
    · simp only [hk, if_true] at hg ⊢
      rw [hg.1]
      have hne : ((items.drop j).take l.length).isEmpty = false := by
        have : ((items.drop j).take l.length).length = l.length := by
          rw [List.length_take, List.length_drop]; omega
        cases hx : (items.drop j).take l.length with
        | nil => rw [hx] at this; simp at this; omega
        | cons a r => rfl
      simp only [hne, Bool.false_eq_true, if_false, hcol]
      exact ⟨trivial, trivial, hg.2⟩
    · simp only [hk, if_false] at hg ⊢
      rw [hg.1]
      by_cases hd : ((items.drop j).isEmpty || c.dropLast) = true
      · simp only [hd, if_true]
        exact ⟨trivial, hg.2⟩
      · simp only [hd, Bool.false_eq_true, if_false, hcol]
        exact ⟨trivial, hg.2⟩

end

end TDV.SP
