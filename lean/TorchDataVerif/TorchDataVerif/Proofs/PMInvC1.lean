import TorchDataVerif.Proofs.PMInv
/-! `Inv` is preserved by the consumer's control actions (boot, call, stop tests, flag sets, shutdown). -/
namespace TDV.PM
variable {c : Cfg} {s s' : State}

theorem stop_false_of (h : Inv c s)
    (hc : s.cpc ≠ .set2 ∧ s.cpc ≠ .idle ∧ s.cpc ≠ .top ∧ s.cpc ≠ .shut1 ∧ s.cpc ≠ .closed ∧ s.cpc ≠ .dset2) :
    s.stop = false := by
  cases hs : s.stop
  · rfl
  · rcases h.stopC hs with h1 | h1 | h1 | h1 | h1 | h1 <;> simp_all

theorem nstop_zero_of (h : Inv c s) (hs : s.stop = false) : s.nstop = 0 := by
  rcases Nat.eq_zero_or_pos s.nstop with h0 | h0
  · exact h0
  · have := h.nstopStop h0; simp [hs] at this

theorem mpstop_false_of (h : Inv c s) (hs : s.stop = false) : s.mpstop = false := by
  cases hm : s.mpstop
  · rfl
  · have := (h.mpStop hm).1; simp [hs] at this

theorem inv_cBoot (h : Inv c s) (hpc : s.cpc = .boot) :
    Inv c { s with sinit := false, snap := c.base, cpc := .idle } := by
  have hst := stop_false_of h (by simp [hpc])
  have hmp := mpstop_false_of h hst
  have hns := nstop_zero_of h hst
  obtain ⟨ho, hsteps⟩ := h.bootI hpc
  constructor <;> (try (dsimp only; same h))
  case stopC => simp [hst]
  case mpStop => simp [hmp]
  case cnt => fr [hpc] h.cnt
  case permits => fr [hpc] h.permits
  case outC => simp
  case popItem => simp
  case order => fr [hpc] h.order
  case doneI => fr [hpc] h.doneI
  case doneC => fr [hpc] h.doneC
  case fin => simp [hst, hns]
  case getNotFin => simp
  case closed => intro _ _ _; simp [ho, hsteps, CPc.bump]
  case stopOf => simp
  case bootI => simp
  case deadSeen => simp

theorem inv_cCall (h : Inv c s) (hpc : s.cpc = .idle) : Inv c { s with cpc := .top } := by
  constructor <;> (try (dsimp only; same h))
  case stopC => simp
  case mpStop => intro hm; exact ⟨(h.mpStop hm).1, by simp⟩
  case cnt => fr [hpc] h.cnt
  case permits => fr [hpc] h.permits
  case outC => simp
  case popItem => simp
  case order => fr [hpc] h.order
  case doneI => fr [hpc] h.doneI
  case doneC => fr [hpc] h.doneC
  case fin =>
    intro hp
    apply h.fin
    simp at hp
    rcases hp with hp | hp
    · exact Or.inr (Or.inr (Or.inl hp))
    · exact Or.inr (Or.inr (Or.inr ⟨hp, Or.inl hpc⟩))
  case getNotFin => simp
  case closed => intro h1 h2 _; have := h.closed h1 h2 (by simp [hpc]); simpa [hpc, CPc.bump] using this
  case stopOf => simp
  case bootI => simp
  case deadSeen => simp

/-- The consumer moves between two program counters that hold nothing, while no stop flag is set. -/
theorem inv_cMove (h : Inv c s) (p q : CPc) (hpc : s.cpc = p) (hp : p.hand = none) (hq : q.hand = none)
    (hpp : p.permit = 0) (hqp : q.permit = 0) (hpb : p.bump = 0) (hqb : q.bump = 0) (hpboot : p ≠ .boot) (hqboot : q ≠ .boot)
    (hst : s.stop = false)
    (hq1 : q ≠ .set2 ∧ q ≠ .shut1 ∧ q ≠ .closed ∧ q ≠ .dset2)
    (hfin : q = .set1 → 0 < deadCount s ∨ (s.sem = c.max ∧ (s.done = true ∨ (c.term = .error ∧ c.src.length ∈ s.got))))
    (hqd : (q = .dchk1 ∨ q = .dchk2 ∨ q = .dset1 ∨ q = .dset2) → 0 < deadCount s)
    (hget : q = .get → ¬(s.done = true ∧ s.sem = c.max)) :
    Inv c { s with cpc := q } := by
  have hmp := mpstop_false_of h hst
  have hns := nstop_zero_of h hst
  constructor <;> (try (dsimp only; same h))
  case stopC => simp [hst]
  case mpStop => simp [hmp]
  case cnt => intro k; have := h.cnt k; simp only [cnt, hpc, hp, hq] at this ⊢; exact this
  case permits => have := h.permits; simp only [held, pending, hpc, hpp, hqp] at this ⊢; exact this
  case outC =>
    intro m hm
    rcases hm with hm | hm <;> (subst hm; simp [CPc.hand] at hq)
  case popItem => intro m hm; subst hm; simp [CPc.hand] at hq
  case order => intro hio; have := h.order hio; simp only [hpc, hp, hq] at this ⊢; exact this
  case doneI => intro hd; have := h.doneI hd; simp only [hpc, hp, hq] at this ⊢; exact this
  case doneC => intro ht hd; apply h.doneC ht; simp only [hpc, hp, hq] at hd ⊢; exact hd
  case fin =>
    intro hpr
    simp only [hst, hns] at hpr
    rcases hpr with hpr | hpr | hpr | hpr
    · exact hfin hpr
    · exact absurd hpr hq1.1
    · omega
    · simp at hpr
  case getNotFin => exact hget
  case closed =>
    intro h1 h2 _
    have := h.closed h1 h2 (by rw [hpc]; exact hpboot)
    simp only [hpc, hpb, hqb] at this ⊢
    exact this
  case stopOf => intro hh; rcases hh with hh | hh | hh | hh <;> simp_all
  case bootI => intro hh; exact absurd hh hqboot
  case deadSeen => intro hh; exact hqd hh

theorem inv_cIsSet_stop (h : Inv c s) (hpc : s.cpc = .top) (hst : s.stop = true) :
    Inv c { s with cpc := .idle, nstop := s.nstop + 1 } := by
  have hf := h.fin (Or.inr (Or.inr (Or.inr ⟨hst, Or.inr hpc⟩)))
  constructor <;> (try (dsimp only; same h))
  case stopC => simp
  case mpStop => intro hm; exact ⟨hst, by simp⟩
  case cnt => fr [hpc] h.cnt
  case permits => fr [hpc] h.permits
  case outC => simp
  case popItem => simp
  case order => fr [hpc] h.order
  case doneI => fr [hpc] h.doneI
  case doneC => fr [hpc] h.doneC
  case fin => intro _; exact hf
  case getNotFin => simp
  case nstopStop => intro _; exact hst
  case closed => intro h1 h2 _; have := h.closed h1 h2 (by simp [hpc]); simpa [hpc, CPc.bump] using this
  case stopOf => simp
  case bootI => simp
  case deadSeen => simp

theorem inv_cSet (h : Inv c s) (hpc : s.cpc = .set1) : Inv c { s with stop := true, cpc := .set2 } := by
  have hst := stop_false_of h (by simp [hpc])
  have hmp := mpstop_false_of h hst
  have hf := h.fin (Or.inl hpc)
  constructor <;> (try (dsimp only; same h))
  case rExit => simp
  case stopC => simp
  case mpStop => simp [hmp]
  case wExit =>
    intro p hp hp2
    have := h.wExit p hp hp2
    cases hpr : c.proc <;> simp_all
  case sExit => simp
  case cnt => fr [hpc] h.cnt
  case permits => fr [hpc] h.permits
  case outC => simp
  case popItem => simp
  case order => fr [hpc] h.order
  case doneI => fr [hpc] h.doneI
  case doneC => fr [hpc] h.doneC
  case fin => intro _; exact hf
  case getNotFin => simp
  case nstopStop => simp
  case closed => intro h1 h2 _; have := h.closed h1 h2 (by simp [hpc]); simpa [hpc, CPc.bump] using this
  case stopOf => simp
  case bootI => simp
  case deadSeen => simp

theorem inv_cMpSet (h : Inv c s) (hpc : s.cpc = .set2) :
    Inv c { s with mpstop := true, cpc := .idle, nstop := s.nstop + 1 } := by
  have hst := h.stopOf (Or.inl hpc)
  have hf := h.fin (Or.inr (Or.inl hpc))
  constructor <;> (try (dsimp only; same h))
  case stopC => simp
  case mpStop => simp [hst]
  case wExit =>
    intro p hp hp2
    have := h.wExit p hp hp2
    cases hpr : c.proc <;> simp_all
  case cnt => fr [hpc] h.cnt
  case permits => fr [hpc] h.permits
  case outC => simp
  case popItem => simp
  case order => fr [hpc] h.order
  case doneI => fr [hpc] h.doneI
  case doneC => fr [hpc] h.doneC
  case fin => intro _; exact hf
  case getNotFin => simp
  case nstopStop => intro _; exact hst
  case closed => intro h1 h2 _; have := h.closed h1 h2 (by simp [hpc]); simpa [hpc, CPc.bump] using this
  case stopOf => simp
  case bootI => simp
  case deadSeen => simp

theorem inv_cShutSet (h : Inv c s) (hpc : s.cpc = .idle) : Inv c { s with stop := true, cpc := .shut1 } := by
  constructor <;> (try (dsimp only; same h))
  case rExit => simp
  case stopC => simp
  case mpStop => intro hm; simp
  case wExit =>
    intro p hp hp2
    have := h.wExit p hp hp2
    cases hpr : c.proc <;> simp_all
  case sExit => simp
  case cnt => fr [hpc] h.cnt
  case permits => fr [hpc] h.permits
  case outC => simp
  case popItem => simp
  case order => fr [hpc] h.order
  case doneI => fr [hpc] h.doneI
  case doneC => fr [hpc] h.doneC
  case fin =>
    intro hp
    simp at hp
    exact h.fin (Or.inr (Or.inr (Or.inl hp)))
  case getNotFin => simp
  case nstopStop => simp
  case closed => intro h1 h2 _; have := h.closed h1 h2 (by simp [hpc]); simpa [hpc, CPc.bump] using this
  case stopOf => simp
  case bootI => simp
  case deadSeen => simp

theorem inv_cShutMpSet (h : Inv c s) (hpc : s.cpc = .shut1) : Inv c { s with mpstop := true, cpc := .closed } := by
  have hst := h.stopOf (Or.inr (Or.inl hpc))
  constructor <;> (try (dsimp only; same h))
  case stopC => simp
  case mpStop => simp [hst]
  case wExit =>
    intro p hp hp2
    have := h.wExit p hp hp2
    cases hpr : c.proc <;> simp_all
  case cnt => fr [hpc] h.cnt
  case permits => fr [hpc] h.permits
  case outC => simp
  case popItem => simp
  case order => fr [hpc] h.order
  case doneI => fr [hpc] h.doneI
  case doneC => fr [hpc] h.doneC
  case fin =>
    intro hp
    simp at hp
    exact h.fin (Or.inr (Or.inr (Or.inl hp)))
  case getNotFin => simp
  case closed => intro h1 h2 _; have := h.closed h1 h2 (by simp [hpc]); simpa [hpc, CPc.bump] using this
  case stopOf => simp [hst]
  case bootI => simp
  case deadSeen => simp

theorem inv_cDeadSet (h : Inv c s) (hpc : s.cpc = .dset1) : Inv c { s with stop := true, cpc := .dset2 } := by
  have hst := stop_false_of h (by simp [hpc])
  have hmp := mpstop_false_of h hst
  have hns := nstop_zero_of h hst
  have hd := h.deadSeen (Or.inr (Or.inr (Or.inl hpc)))
  constructor <;> (try (dsimp only; same h))
  case rExit => simp
  case stopC => simp
  case mpStop => simp [hmp]
  case wExit =>
    intro p hp hp2
    have := h.wExit p hp hp2
    cases hpr : c.proc <;> simp_all
  case sExit => simp
  case cnt => fr [hpc] h.cnt
  case permits => fr [hpc] h.permits
  case outC => simp
  case popItem => simp
  case order => fr [hpc] h.order
  case doneI => fr [hpc] h.doneI
  case doneC => fr [hpc] h.doneC
  case fin => simp [hns]
  case getNotFin => simp
  case nstopStop => simp
  case closed => intro h1 h2 _; have := h.closed h1 h2 (by simp [hpc]); simpa [hpc, CPc.bump] using this
  case stopOf => simp
  case bootI => simp
  case deadSeen => intro _; exact hd

theorem inv_cDeadMpSet (h : Inv c s) (hpc : s.cpc = .dset2) :
    Inv c { s with mpstop := true, rterr := s.rterr + 1, cpc := .idle } := by
  have hst := h.stopOf (Or.inr (Or.inr (Or.inr hpc)))
  have hd := h.deadSeen (Or.inr (Or.inr (Or.inr hpc)))
  constructor <;> (try (dsimp only; same h))
  case stopC => simp
  case mpStop => simp [hst]
  case wExit =>
    intro p hp hp2
    have := h.wExit p hp hp2
    cases hpr : c.proc <;> simp_all
  case cnt => fr [hpc] h.cnt
  case permits => fr [hpc] h.permits
  case outC => simp
  case popItem => simp
  case order => fr [hpc] h.order
  case doneI => fr [hpc] h.doneI
  case doneC => fr [hpc] h.doneC
  case fin => intro _; exact Or.inl hd
  case getNotFin => simp
  case closed => intro h1 h2 _; have := h.closed h1 h2 (by simp [hpc]); simpa [hpc, CPc.bump] using this
  case stopOf => simp
  case bootI => simp
  case deadSeen => simp
  case rtDead => intro _; exact hd

end TDV.PM
