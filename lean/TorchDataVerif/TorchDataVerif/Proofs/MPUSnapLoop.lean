import TorchDataVerif.Proofs.MPUSnapYield
/-!
# MPU — `take_snapshot_assertion_holds`, iterable: `skip` and the `_next_data` loop
-/
namespace TDV.MPU
open TDV.MP

theorem Z_head (Z : List (Info × Nat)) (e : Info) (l : List Info) (h : Z.map Prod.fst = e :: l) :
    ∃ d Z1, Z = (e, d) :: Z1 ∧ Z1.map Prod.fst = l := by
  cases Z with
  | nil => cases h
  | cons z Z1 =>
    simp only [List.map_cons, List.cons.injEq] at h
    obtain ⟨h1, h2⟩ := h
    exact ⟨z.2, Z1, by rw [← h1], h2⟩

/-- The head entry leaves `_task_info` (without becoming a pending yield). -/
theorem SWk_dropHead (c : Cfg) (s s' : State) (e : Info) (d : Nat) (Z1 : List (Info × Nat)) (l : List Info)
    (h : SWk c s ((e, d) :: Z1) none 0) (hi : s.info = e :: l) (e1 : s'.info = l) (e2 : s'.rcvdIdx = s.rcvdIdx + 1)
    (e3 : s'.sendIdx = s.sendIdx) (e4 : s'.numYielded = s.numYielded) (e5 : s'.mainSnaps = s.mainSnaps) :
    SWk c s' Z1 none 0 := by
  have hzi := h.zi
  rw [hi] at hzi
  simp only [List.map_cons, List.cons.injEq] at hzi
  have hidx := h.idx
  rw [hi] at hidx
  have hlen := h.len
  rw [hi] at hlen
  simp only [List.length_cons] at hlen
  have hnn := h.nn
  rw [cntZ_cons] at hnn
  refine ⟨by rw [e1]; exact hzi.2, by rw [e1, e2]; exact hidx.2, by rw [e1, e2, e3]; omega, ?_, by omega,
    Nat.zero_le _, by rw [e5]; exact h.ms, by rw [e5, e3]; exact h.mlt,
    fun z hz hf => by rw [e5]; exact h.mfl z (List.mem_cons_of_mem _ hz) hf⟩
  rw [e4]
  exact WinOk_le none _ _ _ 0 Z1 (Nat.zero_le _) h.win.2

theorem SW_skip (c : Cfg) (s : State) (Z : List (Info × Nat)) (n : Nat) (h : SWk c s Z none 0) :
    ∃ Z', SWk c (skip s n) Z' none 0 := by
  induction n generalizing s Z with
  | zero => exact ⟨Z, h⟩
  | succ n ih =>
    unfold skip
    split
    · rename_i hlt
      have hlen := h.len
      cases hi : s.info with
      | nil => rw [hi] at hlen; simp at hlen; omega
      | cons e l =>
        have hidx := h.idx
        rw [hi] at hidx
        rw [lookupInfo_headX _ e l hidx]
        simp only
        split
        · exact ⟨Z, h⟩
        · obtain ⟨d, Z1, hZ, _⟩ := Z_head Z e l (by rw [h.zi, hi])
          subst hZ
          refine ih _ Z1 (SWk_dropHead c s _ e d Z1 l h hi ?_ rfl rfl rfl rfl)
          show eraseInfo (e :: l) s.rcvdIdx = l
          exact eraseInfo_headX _ e l hidx
    · exact ⟨Z, h⟩

/-- The `_next_data` loop: whatever it returns is not the AssertionError. -/
theorem SW_loop (c : Cfg) (hit : c.iterable = true) (n : Nat) (s : State) (Z : List (Info × Nat))
    (h : SWk c s Z none 0) :
    (∀ o, (loop c n s).2 = some o → o ≠ .assertion) ∧ ∃ Z', SWk c (loop c n s).1 Z' none 0 := by
  induction n generalizing s Z with
  | zero => exact ⟨fun o ho => by simp [loop] at ho, Z, h⟩
  | succ n ih =>
    rw [loop_succ_eq]
    obtain ⟨Zt, ht⟩ := SW_skip c s Z (s.sendIdx - s.rcvdIdx) h
    generalize skip s (s.sendIdx - s.rcvdIdx) = t at ht
    unfold loopBody
    split
    · refine ⟨fun o ho => by simp at ho; subst ho; simp, Zt, ?_⟩
      split
      · exact ht
      · have hsm := shutdownWorkers_sameMain c t
        exact SWk_of_eq c t _ Zt none 0 ht hsm.info hsm.rcvdIdx hsm.sendIdx hsm.numYielded hsm.mainSnaps
    · split
      · exact ⟨fun o ho => by simp at ho, Zt, ht⟩
      · rename_i e hlk
        split
        · rename_i r hres
          -- the entry at `rcvd_idx` has a stored result: it is the head of `_task_info`
          have hem : e ∈ t.info ∧ e.idx = t.rcvdIdx := by
            simp only [lookupInfo] at hlk
            exact ⟨List.mem_of_find?_eq_some hlk, by have := List.find?_some hlk; simpa using this⟩
          cases hi : t.info with
          | nil => rw [hi] at hem; cases hem.1
          | cons e0 l =>
            have hidx := ht.idx
            rw [hi] at hidx
            have he0 : e0 = e := by
              have := lookupInfo_headX _ e0 l hidx
              rw [← hi, hlk] at this
              exact (Option.some.inj this).symm
            subst he0
            obtain ⟨d, Z1, hZ, _⟩ := Z_head Zt e0 l (by rw [ht.zi, hi])
            subst hZ
            have herase : eraseInfo (e0 :: l) t.rcvdIdx = l := eraseInfo_headX _ e0 l hidx
            dsimp only
            split
            · -- a stored end-of-shard notice: not counted, the loop goes on
              exact ih _ Z1 (SWk_dropHead c t _ e0 d Z1 l ht hi herase rfl rfl rfl rfl)
            · rename_i hnn
              -- a stored batch / error: it was counted; `_process_data`
              have hc1 : cOne none e0 = 1 := by
                simp [cOne, cf, isNote, hres, hnn]
              have hwin := ht.win
              simp only [WinOk, hc1] at hwin
              have hnn' := ht.nn
              rw [cntZ_cons, hc1] at hnn'
              have hzi := ht.zi
              rw [hi] at hzi
              simp only [List.map_cons, List.cons.injEq] at hzi
              have hlen := ht.len
              rw [hi] at hlen
              simp only [List.length_cons] at hlen
              have hS : SWk c { t with info := eraseInfo (e0 :: l) t.rcvdIdx, rcvdIdx := t.rcvdIdx + 1 } Z1 none 1 :=
                ⟨by rw [herase]; exact hzi.2, by rw [herase]; exact hidx.2, by rw [herase]; simp only; omega, hwin.2,
                  by omega, Nat.le_refl _, ht.ms, ht.mlt, fun z hz hf => ht.mfl z (List.mem_cons_of_mem _ hz) hf⟩
              have hP : Pend c { t with info := eraseInfo (e0 :: l) t.rcvdIdx, rcvdIdx := t.rcvdIdx + 1 } d := by
                refine ⟨by have := hwin.1.1; simp only at this ⊢; omega, hwin.1.2, by simp, fun hf => ?_⟩
                obtain ⟨x, hx⟩ := ht.mfl (e0, d) (List.mem_cons_self ..) hf
                exact ⟨x, by simpa [hidx.1] using hx⟩
              obtain ⟨a1, Z', a2⟩ := SW_process c _ Z1 r d hit hS hP (by omega)
              exact ⟨fun o ho => by simp at ho; subst ho; exact a1, Z', a2⟩
        · exact ⟨fun o ho => by simp at ho, Zt, SWk_of_eq c t _ Zt none 0 ht rfl rfl rfl rfl rfl⟩

end TDV.MPU
