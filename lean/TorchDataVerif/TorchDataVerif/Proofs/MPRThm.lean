import TorchDataVerif.Proofs.MPRRestore
/-!
# MPR, map-style: consequences of the invariants for saving runs and resumed runs
-/
namespace TDV.MPR

open TDV.MP

/-- `snapshot_step` after `n` yields. -/
def stepOf (c : Cfg) (n : Nat) : Nat := if c.interval = 0 then 0 else c.interval * (n / c.interval)

theorem stepOf_le (c : Cfg) (n : Nat) : stepOf c n ≤ n := by
  unfold stepOf
  split
  · exact Nat.zero_le _
  · exact Nat.mul_div_le n c.interval

theorem stepOf_snapStep (c : Cfg) (n : Nat) : SnapStep c (stepOf c n) := by
  unfold stepOf
  refine ⟨fun h => by simp [h], fun h => ?_⟩
  simp only [h, if_false]
  exact Nat.dvd_mul_right _ _

/-- What the invariants of the shifted state say about the resumed run itself. -/
theorem lifted_facts (c : Cfg) (he : errFree c) (m : Nat) (hle : m ≤ c.batches.length) (s' : State)
    (h : AllM c (lift m (preObs c m) s')) :
    yields s'.obs = oks ((c.batches.drop m).take s'.rcvdIdx) ∧ Obs.assertion ∉ s'.obs ∧
    s'.numYielded = m + (yields s'.obs).length ∧ s'.numYielded = m + s'.rcvdIdx ∧
    (Obs.stop ∈ s'.obs → s'.rcvdIdx + m = c.batches.length) := by
  have hna : Obs.assertion ∉ preObs c m ++ s'.obs := h.sn.noas
  have hobs : ObsRel (c.batches.take (s'.rcvdIdx + m)) (taskObs (preObs c m ++ s'.obs)) := h.inv.obs
  have hto := ObsRel_noassert _ _ hobs (fun hh => hna (mem_taskObs _ _ hh))
  have hy : yields (preObs c m ++ s'.obs) = oks (c.batches.take (s'.rcvdIdx + m)) := by
    rw [← yields_taskObs, hto, yields_map_expected]
  have hpre : yields (preObs c m) = oks (c.batches.take m) := by
    unfold preObs; rw [yields_map_expected]
  have hny : s'.numYielded = (yields (preObs c m ++ s'.obs)).length := h.sn.ny
  have hal : s'.numYielded = s'.rcvdIdx + m := h.sn.al he
  rw [yields_append, hpre, Nat.add_comm, List.take_add, oks_append] at hy
  have hy' := List.append_cancel_left hy
  refine ⟨hy', fun hh => hna (List.mem_append_right _ hh), ?_, by omega, ?_⟩
  · rw [hny, yields_append, List.length_append, preObs_yields c m he hle]
  · intro hst
    exact h.inv.fin (List.mem_append_right _ hst)

section Map

variable (c : Cfg) (hv : c.Valid) (hm : c.iterable = false) (hio : c.inOrder = true)
include hv hm hio

/-- Every state of a fresh run satisfies all invariants. -/
theorem fresh_allM (as : List Action) (s : State) (hnr : NoReset as) (hr : run c (init c) as = some s)
    (hd : ¬ died s) : AllM c s := by
  rcases run_allM c as (init c) s hv hm hio hnr (Or.inl (init_allM c hv hm hio)) hr with h | h
  · exact h
  · exact absurd h hd

/-- Every state of a resumed run, with absolute task indices, satisfies all invariants. -/
theorem resumed_allM (he : errFree c) (m : Nat) (hle : m ≤ c.batches.length) (hs : SnapStep c m)
    (as : List Action) (s' : State) (hnr : NoReset as) (hr : run c (restore c (idealAt c m)) as = some s')
    (hd : ¬ died s') : AllM c (lift m (preObs c m) s') := by
  rw [idealAt_map c hm he m hle] at hr
  have hl := run_lift c m (preObs c m) as (restore c (idealMap c m)) hnr
  have hr' : run c (restore c (idealMap c m)) as = some s' := hr
  rw [hr', Option.map_some] at hl
  rcases run_allM c as _ _ hv hm hio hnr (Or.inl (lifted_allM c m hv hm hio he hle hs)) hl with h | h
  · exact h
  · exfalso
    apply hd
    have h' : Obs.workerDied ∈ preObs c m ++ s'.obs := h
    rcases List.mem_append.mp h' with h1 | h1
    · exact absurd h1 (not_mem_map_expected _ _ (fun it => by cases it <;> simp [expected]))
    · exact h1

end Map

end TDV.MPR
