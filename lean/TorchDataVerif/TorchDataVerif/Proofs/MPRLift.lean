import TorchDataVerif.Model.MPRestore
import TorchDataVerif.Proofs.MPBase
/-!
# MPR — task indices are relative: shifting every task index of a state by `m` commutes with every action

`lift m pre s` adds `m` to `send_idx`, `rcvd_idx` and to the index of every task message, `_task_info`
entry, `_main_snapshots` entry and result in flight, and puts the observations `pre` in front of what the
consumer has seen.  No action except `reset` (which sets `send_idx = 0`) can tell the difference.  This is a
purely syntactic fact about `Model/MP.lean` (no invariant involved); it lets the invariants of the original
development, which are phrased with absolute task indices, be used for a restored iterator, whose task
indices start again at 0 while its sampler position starts at `snapshot_step`.
-/
namespace TDV.MPR

open TDV.MP

def liftRes (m : Nat) (r : Res) : Res := if r.kind = .ack then r else { r with idx := r.idx + m }

def liftMsg (m : Nat) : Msg → Msg
  | .task idx p sn => .task (idx + m) p sn
  | .stop => .stop
  | .resume => .resume

def liftInfo (m : Nat) (e : Info) : Info := ⟨e.idx + m, e.w, e.res.map (liftRes m)⟩

def liftWorker (m : Nat) (k : Worker) : Worker := { k with q := k.q.map (liftMsg m) }

def liftSnapE (m : Nat) (e : Nat × Nat) : Nat × Nat := (e.1 + m, e.2)

def lift (m : Nat) (pre : List Obs) (s : State) : State :=
  { s with
    sendIdx := s.sendIdx + m
    rcvdIdx := s.rcvdIdx + m
    info := s.info.map (liftInfo m)
    mainSnaps := s.mainSnaps.map (liftSnapE m)
    workers := s.workers.map (liftWorker m)
    resQ := s.resQ.map (liftRes m)
    obs := pre ++ s.obs }

@[simp] theorem liftRes_w (m : Nat) (r : Res) : (liftRes m r).w = r.w := by unfold liftRes; split <;> rfl
@[simp] theorem liftRes_kind (m : Nat) (r : Res) : (liftRes m r).kind = r.kind := by unfold liftRes; split <;> rfl
@[simp] theorem liftRes_st (m : Nat) (r : Res) : (liftRes m r).st = r.st := by unfold liftRes; split <;> rfl
theorem liftRes_idx (m : Nat) (r : Res) (h : r.kind ≠ .ack) : (liftRes m r).idx = r.idx + m := by
  unfold liftRes; simp [h]

@[simp] theorem up_lift (m : Nat) (pre : List Obs) (s : State) (w : Nat) : up (lift m pre s) w = up s w := rfl

/-! ## dispatch -/

theorem findWorker_lift (c : Cfg) (m : Nat) (pre : List Obs) (s : State) (n cyc : Nat) :
    findWorker c (lift m pre s) n cyc = findWorker c s n cyc := by
  induction n generalizing cyc with
  | zero => rfl
  | succ n ih =>
    unfold findWorker
    rw [ih]
    rfl

theorem pushMsg_lift (m : Nat) (ws : List Worker) (w : Nat) (msg : Msg) :
    pushMsg (ws.map (liftWorker m)) w (liftMsg m msg) = (pushMsg ws w msg).map (liftWorker m) := by
  unfold pushMsg
  induction ws generalizing w with
  | nil => simp
  | cons k r ih =>
    cases w with
    | zero => simp [liftWorker]
    | succ w => simp [List.modify_succ_cons, ih]

theorem dispatchTo_lift (c : Cfg) (m : Nat) (pre : List Obs) (s : State) (w cyc : Nat) :
    dispatchTo c (lift m pre s) w cyc = lift m pre (dispatchTo c s w cyc) := by
  unfold dispatchTo
  simp only [lift]
  have hp := pushMsg_lift m s.workers w (.task s.sendIdx (s.samplerPos + 1 - 1) (flags c (s.samplerPos + 1) s.numYielded).2)
  simp only [liftMsg] at hp
  rw [hp]
  split <;> simp [liftInfo, liftSnapE, *] <;> exact ⟨by omega, rfl⟩

theorem tryPut_lift (c : Cfg) (m : Nat) (pre : List Obs) (s : State) :
    tryPut c (lift m pre s) = lift m pre (tryPut c s) := by
  unfold tryPut
  rw [findWorker_lift]
  have h1 : (lift m pre s).samplerPos = s.samplerPos := rfl
  have h2 : (lift m pre s).cyc = s.cyc := rfl
  rw [h1, h2]
  split
  · rfl
  · split
    · rfl
    · exact dispatchTo_lift c m pre s _ _

theorem prime_lift (c : Cfg) (m : Nat) (pre : List Obs) (n : Nat) (s : State) :
    prime c n (lift m pre s) = lift m pre (prime c n s) := by
  induction n generalizing s with
  | zero => rfl
  | succ n ih => unfold prime; rw [tryPut_lift, ih]

/-! ## yielding -/

theorem popSnaps_lift (m rcvd : Nat) (l : List (Nat × Nat)) (last : Option (Nat × Nat)) :
    popSnaps (rcvd + m) (l.map (liftSnapE m)) (last.map (liftSnapE m)) =
      ((popSnaps rcvd l last).1.map (liftSnapE m), (popSnaps rcvd l last).2.map (liftSnapE m)) := by
  induction l generalizing last with
  | nil => rfl
  | cons e r ih =>
    simp only [List.map_cons, popSnaps, liftSnapE]
    by_cases h : e.1 + 1 ≤ rcvd
    · have h' : e.1 + m + 1 ≤ rcvd + m := by omega
      simp only [h, h', if_true]
      exact ih (some e)
    · have h' : ¬ e.1 + m + 1 ≤ rcvd + m := by omega
      simp only [h, h', if_false, List.map_cons, liftSnapE]

theorem takeSnapshot_lift (c : Cfg) (m : Nat) (pre : List Obs) (s : State) :
    takeSnapshot c (lift m pre s) = (takeSnapshot c s).map (lift m pre) := by
  unfold takeSnapshot
  have hp := popSnaps_lift m s.rcvdIdx s.mainSnaps none
  simp only [Option.map_none] at hp
  have e1 : (lift m pre s).rcvdIdx = s.rcvdIdx + m := rfl
  have e2 : (lift m pre s).mainSnaps = s.mainSnaps.map (liftSnapE m) := rfl
  rw [e1, e2, hp]
  rcases hq : popSnaps s.rcvdIdx s.mainSnaps none with ⟨o, rest⟩
  cases o with
  | none =>
    simp only [Option.map_none]
    split <;> rfl
  | some e =>
    simp only [Option.map_some, liftSnapE]
    by_cases h : e.1 + 1 = s.rcvdIdx
    · have h' : e.1 + m + 1 = s.rcvdIdx + m := by omega
      simp only [h, h', if_true, Option.map_some]
      rfl
    · have h' : ¬ e.1 + m + 1 = s.rcvdIdx + m := by omega
      simp only [h, h', if_false]
      split <;> rfl

theorem dropStale_lift (m rcvd : Nat) (l : List (Nat × Nat)) :
    dropStale (rcvd + m) (l.map (liftSnapE m)) = (dropStale rcvd l).map (liftSnapE m) := by
  induction l with
  | nil => rfl
  | cons e r ih =>
    simp only [List.map_cons, dropStale, liftSnapE]
    by_cases h : e.1 + 1 < rcvd
    · have h' : e.1 + m + 1 < rcvd + m := by omega
      simp only [h, h', if_true]
      exact ih
    · have h' : ¬ e.1 + m + 1 < rcvd + m := by omega
      simp only [h, h', if_false, List.map_cons, liftSnapE]

theorem snapshotDue_lift (c : Cfg) (m : Nat) (pre : List Obs) (s : State) :
    snapshotDue c (lift m pre s) = (lift m pre (snapshotDue c s).1, (snapshotDue c s).2) := by
  unfold snapshotDue
  split
  · rfl
  · have e1 : (lift m pre s).rcvdIdx = s.rcvdIdx + m := rfl
    have e2 : (lift m pre s).mainSnaps = s.mainSnaps.map (liftSnapE m) := rfl
    simp only [e1, e2, dropStale_lift]
    cases dropStale s.rcvdIdx s.mainSnaps with
    | nil => rfl
    | cons e r =>
      simp only [List.map_cons, liftSnapE]
      by_cases h : e.1 + 1 = s.rcvdIdx
      · have h' : e.1 + m + 1 = s.rcvdIdx + m := by omega
        simp only [h, h', decide_true]
        rfl
      · have h' : ¬ e.1 + m + 1 = s.rcvdIdx + m := by omega
        simp only [h, h', decide_false]
        rfl

/-- `yieldItem` after its first assignment. -/
def yieldCore (c : Cfg) (s : State) (b : Nat) : State × Obs :=
  if c.interval = 0 then ({ s with numYielded := s.numYielded + 1 }, .item b)
  else
    let d := snapshotDue c s
    if d.2 then
      match takeSnapshot c d.1 with
      | some s' => ({ s' with numYielded := s'.numYielded + 1 }, .item b)
      | none => ({ d.1 with mainSnaps := (popSnaps d.1.rcvdIdx d.1.mainSnaps none).2 }, .assertion)
    else ({ d.1 with numYielded := d.1.numYielded + 1 }, .item b)

theorem yieldItem_eq (c : Cfg) (s : State) (r : Res) (b : Nat) :
    yieldItem c s r b = yieldCore c { s with lastW := r.w, wsnaps := applyDelta s.wsnaps r.w r.st } b := rfl

theorem yieldCore_lift (c : Cfg) (m : Nat) (pre : List Obs) (s : State) (b : Nat) :
    yieldCore c (lift m pre s) b = (lift m pre (yieldCore c s b).1, (yieldCore c s b).2) := by
  unfold yieldCore
  split
  · rfl
  · dsimp only
    rw [snapshotDue_lift]
    generalize snapshotDue c s = d
    obtain ⟨d1, d2⟩ := d
    cases d2
    · rfl
    · simp only [if_true]
      rw [takeSnapshot_lift]
      cases takeSnapshot c d1 with
      | some s' => rfl
      | none =>
        simp only [Option.map_none]
        have hp := popSnaps_lift m d1.rcvdIdx d1.mainSnaps none
        simp only [Option.map_none] at hp
        have e2 : (lift m pre d1).rcvdIdx = d1.rcvdIdx + m := rfl
        have e3 : (lift m pre d1).mainSnaps = d1.mainSnaps.map (liftSnapE m) := rfl
        rw [e2, e3, hp]
        rfl

theorem yieldItem_lift (c : Cfg) (m : Nat) (pre : List Obs) (s : State) (r : Res) (b : Nat) :
    yieldItem c (lift m pre s) (liftRes m r) b = (lift m pre (yieldItem c s r b).1, (yieldItem c s r b).2) := by
  rw [yieldItem_eq, yieldItem_eq, ← yieldCore_lift]
  simp only [liftRes_w, liftRes_st]
  rfl

theorem processData_lift (c : Cfg) (m : Nat) (pre : List Obs) (s : State) (r : Res) :
    processData c (lift m pre s) (liftRes m r) = (lift m pre (processData c s r).1, (processData c s r).2) := by
  unfold processData
  simp only [liftRes_w, liftRes_kind]
  have e0 : ({ lift m pre s with numTasks := (lift m pre s).numTasks.modify r.w (· - 1) } : State) =
      lift m pre { s with numTasks := s.numTasks.modify r.w (· - 1) } := rfl
  rw [e0, tryPut_lift]
  cases r.kind with
  | data b => exact yieldItem_lift c m pre _ r b
  | notice => rfl
  | error => rfl
  | ack => rfl

/-! ## `_task_info` -/

theorem lookupInfo_lift (m : Nat) (l : List Info) (i : Nat) :
    lookupInfo (l.map (liftInfo m)) (i + m) = (lookupInfo l i).map (liftInfo m) := by
  unfold lookupInfo
  induction l with
  | nil => rfl
  | cons e r ih =>
    simp only [List.map_cons, List.find?_cons, liftInfo]
    by_cases h : e.idx = i
    · simp [h, liftInfo]
    · have h' : (e.idx + m == i + m) = false := by simp; omega
      have h'' : (e.idx == i) = false := by simp [h]
      simp only [h', h'']
      exact ih

theorem eraseInfo_lift (m : Nat) (l : List Info) (i : Nat) :
    eraseInfo (l.map (liftInfo m)) (i + m) = (eraseInfo l i).map (liftInfo m) := by
  unfold eraseInfo
  induction l with
  | nil => rfl
  | cons e r ih =>
    simp only [List.map_cons, List.filter_cons, liftInfo]
    by_cases h : e.idx = i
    · simp only [h, bne_self_eq_false, Bool.false_eq_true, if_false]
      exact ih
    · have h' : ¬ e.idx + m = i + m := by omega
      simp only [bne_iff_ne, ne_eq, h, h', not_false_eq_true, if_true, List.map_cons, liftInfo]
      rw [← ih]

theorem setRes_lift (m : Nat) (l : List Info) (i : Nat) (r : Res) :
    setRes (l.map (liftInfo m)) (i + m) (liftRes m r) = (setRes l i r).map (liftInfo m) := by
  unfold setRes
  simp only [List.map_map]
  apply List.map_congr_left
  intro e _
  simp only [Function.comp, liftInfo]
  by_cases h : e.idx = i
  · simp [h]
  · simp [h]

/-! ## `_next_data` -/

theorem lift_pop (m : Nat) (pre : List Obs) (s : State) (l : List Info) :
    ({ lift m pre s with info := l.map (liftInfo m), rcvdIdx := s.rcvdIdx + m + 1 } : State) =
      lift m pre { s with info := l, rcvdIdx := s.rcvdIdx + 1 } := by
  simp only [lift, Nat.add_right_comm]

theorem lift_adv (m : Nat) (pre : List Obs) (s : State) :
    ({ lift m pre s with rcvdIdx := s.rcvdIdx + m + 1 } : State) =
      lift m pre { s with rcvdIdx := s.rcvdIdx + 1 } := by
  simp only [lift, Nat.add_right_comm]

theorem skip_lift (m : Nat) (pre : List Obs) (s : State) (n : Nat) :
    skip (lift m pre s) n = lift m pre (skip s n) := by
  induction n generalizing s with
  | zero => rfl
  | succ n ih =>
    unfold skip
    have e1 : (lift m pre s).rcvdIdx = s.rcvdIdx + m := rfl
    have e2 : (lift m pre s).sendIdx = s.sendIdx + m := rfl
    have e3 : (lift m pre s).info = s.info.map (liftInfo m) := rfl
    rw [e1, e2, e3, lookupInfo_lift]
    by_cases hlt : s.rcvdIdx < s.sendIdx
    · have hlt' : s.rcvdIdx + m < s.sendIdx + m := by omega
      simp only [hlt, hlt', if_true]
      cases lookupInfo s.info s.rcvdIdx with
      | none =>
        simp only [Option.map_none]
        rw [← ih, ← lift_adv]; rfl
      | some e =>
        simp only [Option.map_some]
        have e4 : (liftInfo m e).res.isSome = e.res.isSome := by simp [liftInfo]
        have e5 : (liftInfo m e).w = e.w := rfl
        rw [e4, e5, up_lift]
        split
        · rfl
        · rw [eraseInfo_lift, ← ih, ← lift_pop]; rfl
    · have hlt' : ¬ s.rcvdIdx + m < s.sendIdx + m := by omega
      simp only [hlt, hlt', if_false]

theorem pushMsg_stop_lift (m : Nat) (ws : List Worker) (w : Nat) :
    pushMsg (ws.map (liftWorker m)) w .stop = (pushMsg ws w .stop).map (liftWorker m) :=
  pushMsg_lift m ws w .stop

theorem markUnavailable_lift (c : Cfg) (m : Nat) (pre : List Obs) (s : State) (w : Nat) (b : Bool) :
    markUnavailable c (lift m pre s) w b = lift m pre (markUnavailable c s w b) := by
  unfold markUnavailable
  simp only [lift, up]
  rw [pushMsg_stop_lift]

theorem shutdownLoop_lift (c : Cfg) (m : Nat) (pre : List Obs) (n : Nat) (s : State) :
    shutdownLoop c n (lift m pre s) = lift m pre (shutdownLoop c n s) := by
  induction n with
  | zero => rfl
  | succ n ih =>
    unfold shutdownLoop
    simp only [ih, up_lift]
    split
    · exact markUnavailable_lift c m pre _ n true
    · rfl

theorem shutdownWorkers_lift (c : Cfg) (m : Nat) (pre : List Obs) (s : State) :
    shutdownWorkers c (lift m pre s) = lift m pre (shutdownWorkers c s) := by
  unfold shutdownWorkers
  have e1 : (lift m pre s).shutdown = s.shutdown := rfl
  rw [e1]
  split
  · rfl
  · exact shutdownLoop_lift c m pre c.W { s with shutdown := true }

theorem finish_lift (m : Nat) (pre : List Obs) (s : State) (o : Option Obs) :
    finish (lift m pre s, o) = lift m pre (finish (s, o)) := by
  unfold finish
  cases o with
  | none => rfl
  | some o => simp only [lift, List.append_assoc]

theorem loop_lift (c : Cfg) (m : Nat) (pre : List Obs) (n : Nat) (s : State) :
    loop c n (lift m pre s) = (lift m pre (loop c n s).1, (loop c n s).2) := by
  induction n generalizing s with
  | zero => rfl
  | succ n ih =>
    unfold loop
    have e0 : (lift m pre s).sendIdx - (lift m pre s).rcvdIdx = s.sendIdx - s.rcvdIdx := by
      show s.sendIdx + m - (s.rcvdIdx + m) = _
      omega
    simp only [e0, skip_lift]
    generalize skip s (s.sendIdx - s.rcvdIdx) = s1
    have e1 : (lift m pre s1).rcvdIdx = s1.rcvdIdx + m := rfl
    have e2 : (lift m pre s1).sendIdx = s1.sendIdx + m := rfl
    have e3 : (lift m pre s1).info = s1.info.map (liftInfo m) := rfl
    by_cases hle : s1.sendIdx ≤ s1.rcvdIdx
    · have hle' : (lift m pre s1).sendIdx ≤ (lift m pre s1).rcvdIdx := by rw [e1, e2]; omega
      simp only [hle, hle', if_true]
      split
      · rfl
      · rw [shutdownWorkers_lift]
    · have hle' : ¬ (lift m pre s1).sendIdx ≤ (lift m pre s1).rcvdIdx := by rw [e1, e2]; omega
      simp only [hle, hle', if_false]
      rw [e1, e3, lookupInfo_lift]
      cases lookupInfo s1.info s1.rcvdIdx with
      | none => rfl
      | some e =>
        simp only [Option.map_some]
        have e4 : (liftInfo m e).res = e.res.map (liftRes m) := rfl
        rw [e4]
        cases e.res with
        | none => rfl
        | some r =>
          simp only [Option.map_some, liftRes_kind, liftRes_w, liftRes_st]
          rw [eraseInfo_lift]
          split
          · refine (congrArg (loop c n) ?_).trans (ih _)
            simp only [lift, Nat.add_right_comm]
          · rw [lift_pop, processData_lift]

theorem loopFuel_lift (m : Nat) (pre : List Obs) (s : State) : loopFuel (lift m pre s) = loopFuel s := by
  show s.sendIdx + m - (s.rcvdIdx + m) + 1 = s.sendIdx - s.rcvdIdx + 1
  omega

theorem finish_loop_lift (c : Cfg) (m : Nat) (pre : List Obs) (n : Nat) (s : State) :
    finish (loop c n (lift m pre s)) = lift m pre (finish (loop c n s)) := by
  rw [loop_lift, finish_lift]

theorem finish_processData_lift (c : Cfg) (m : Nat) (pre : List Obs) (s : State) (r : Res) :
    finish ((processData c (lift m pre s) (liftRes m r)).1, some (processData c (lift m pre s) (liftRes m r)).2) =
      lift m pre (finish ((processData c s r).1, some (processData c s r).2)) := by
  rw [processData_lift, finish_lift]

theorem onArrival_lift (c : Cfg) (m : Nat) (pre : List Obs) (s : State) (r : Res) :
    onArrival c (lift m pre s) (liftRes m r) = lift m pre (onArrival c s r) := by
  unfold onArrival
  simp only [liftRes_kind, liftRes_w, liftRes_st]
  split
  · rw [← tryPut_lift]
    split
    · rfl
    · rw [markUnavailable_lift]; rfl
  · rfl

theorem recvData_lift (c : Cfg) (m : Nat) (pre : List Obs) (s : State) (r : Res) (hk : r.kind ≠ .ack) :
    recvData c (lift m pre s) (liftRes m r) = lift m pre (recvData c s r) := by
  unfold recvData
  have e0 : ({ lift m pre s with outstanding := (lift m pre s).outstanding - 1 } : State) =
      lift m pre { s with outstanding := s.outstanding - 1 } := rfl
  simp only [e0, onArrival_lift, liftRes_kind, liftRes_w, liftRes_st, liftRes_idx m r hk, loopFuel_lift]
  generalize onArrival c { s with outstanding := s.outstanding - 1 } r = s1
  have e1 : (lift m pre s1).rcvdIdx = s1.rcvdIdx + m := rfl
  have e3 : (lift m pre s1).info = s1.info.map (liftInfo m) := rfl
  by_cases hne : r.idx = s1.rcvdIdx
  · have c1 : ¬ (r.idx + m ≠ (lift m pre s1).rcvdIdx) := by rw [e1, hne]; simp
    have c2 : ¬ (r.idx ≠ s1.rcvdIdx) := by simp [hne]
    rw [if_neg c1, if_neg c2]
    rw [e1, e3, eraseInfo_lift, lift_pop]
    split
    · rw [loopFuel_lift, ← finish_loop_lift]
      congr 2
      simp only [lift, Nat.add_right_comm]
    · exact finish_processData_lift c m pre _ r
  · have c1 : r.idx + m ≠ (lift m pre s1).rcvdIdx := by rw [e1]; omega
    rw [if_pos c1, if_pos hne]
    split
    · split
      · rw [← finish_loop_lift]; rfl
      · rw [e3, eraseInfo_lift]
        exact finish_processData_lift c m pre { s1 with info := eraseInfo s1.info r.idx } r
    · rw [e3, setRes_lift, ← finish_loop_lift]; rfl

/-! ## workers, liveness poll, `_reset` tail -/

theorem handle_lift (c : Cfg) (m : Nat) (sh : Bool) (w : Nat) (k : Worker) (msg : Msg) :
    handle c sh w (liftWorker m k) (liftMsg m msg) =
      (liftWorker m (handle c sh w k msg).1, (handle c sh w k msg).2.map (liftRes m)) := by
  cases msg with
  | stop => rfl
  | resume => rfl
  | task idx p sn =>
    simp only [liftMsg, handle]
    have e1 : (liftWorker m k).iterEnd = k.iterEnd := rfl
    have e2 : (liftWorker m k).pos = k.pos := rfl
    rw [e1, e2]
    split
    · rfl
    · cases fetch c w k.pos p with
      | none => simp [liftWorker, liftRes]
      | some it =>
        cases it with
        | ok b => simp [liftWorker, liftRes]
        | err => simp [liftWorker, liftRes]

theorem failedWorkers_lift (m : Nat) (pre : List Obs) (s : State) (n : Nat) :
    failedWorkers (lift m pre s) n = failedWorkers s n := by
  induction n with
  | zero => rfl
  | succ n ih =>
    unfold failedWorkers
    rw [ih, up_lift]
    have : ((lift m pre s).workers[n]?).map (·.alive) = (s.workers[n]?).map (·.alive) := by
      simp only [lift, List.getElem?_map, Option.map_map]
      rfl
    rw [this]

theorem markAll_lift (c : Cfg) (m : Nat) (pre : List Obs) (l : List Nat) (s : State) :
    markAll c (lift m pre s) l = lift m pre (markAll c s l) := by
  induction l generalizing s with
  | nil => rfl
  | cons w r ih => unfold markAll; rw [markUnavailable_lift, ih]

theorem resetTail_lift (c : Cfg) (m : Nat) (pre : List Obs) (s : State) :
    resetTail c (lift m pre s) = lift m pre (resetTail c s) := by
  unfold resetTail
  rw [← prime_lift]
  rfl

/-! ## the transition system -/

/-- The body of the `work w` action once the worker record is known. -/
def workBody (c : Cfg) (s : State) (w : Nat) (k : Worker) : Option State :=
  if !k.alive then none else
  match k.q with
  | [] => none
  | msg :: rest =>
    some { s with workers := s.workers.set w (handle c s.shutdown w { k with q := rest } msg).1
                  resQ := match (handle c s.shutdown w { k with q := rest } msg).2 with
                    | some r => s.resQ ++ [r] | none => s.resQ }

theorem step_work_eq (c : Cfg) (s : State) (w : Nat) :
    step c s (.work w) = match s.workers[w]? with | none => none | some k => workBody c s w k := by
  simp only [step, workBody]
  cases s.workers[w]? with
  | none => rfl
  | some k =>
    simp only
    split
    · rfl
    · cases k.q <;> rfl

theorem workBody_lift (c : Cfg) (m : Nat) (pre : List Obs) (s : State) (w : Nat) (k : Worker) :
    workBody c (lift m pre s) w (liftWorker m k) = (workBody c s w k).map (lift m pre) := by
  obtain ⟨q, pos, ie, al⟩ := k
  unfold workBody
  simp only [liftWorker]
  cases al with
  | false => rfl
  | true =>
    cases q with
    | nil => rfl
    | cons msg rest =>
      simp only [List.map_cons, Option.map_some, Bool.not_true, Bool.false_eq_true, if_false]
      have e4 : (⟨rest.map (liftMsg m), pos, ie, true⟩ : Worker) = liftWorker m ⟨rest, pos, ie, true⟩ := rfl
      have e5 : (lift m pre s).shutdown = s.shutdown := rfl
      rw [e4, e5, handle_lift]
      congr 1
      cases (handle c s.shutdown w ⟨rest, pos, ie, true⟩ msg).2 with
      | none => simp [lift, List.map_set]
      | some r => simp [lift, List.map_set]

theorem step_work_lift (c : Cfg) (m : Nat) (pre : List Obs) (s : State) (w : Nat) :
    step c (lift m pre s) (.work w) = (step c s (.work w)).map (lift m pre) := by
  rw [step_work_eq, step_work_eq]
  have e1 : (lift m pre s).workers[w]? = (s.workers[w]?).map (liftWorker m) := by simp [lift]
  rw [e1]
  cases s.workers[w]? with
  | none => rfl
  | some k => exact workBody_lift c m pre s w k

/-- The body of the `recv` action: `ph` = the consumer phase, `s` = the state after the result was taken
from the queue. -/
def recvBody (c : Cfg) (ph : Phase) (s : State) (r : Res) : Option State :=
  match ph with
  | .idle => none
  | .waiting => if r.kind = .ack then none else some (recvData c s r)
  | .resuming k =>
    if r.kind = .ack then
      if k ≤ 1 then
        some { resetTail c { s with wsnaps := applyDelta s.wsnaps r.w r.st } with
               phase := .idle
               obs := (resetTail c { s with wsnaps := applyDelta s.wsnaps r.w r.st }).obs ++ [.resetDone] }
      else some { s with wsnaps := applyDelta s.wsnaps r.w r.st, phase := .resuming (k - 1) }
    else some s

theorem step_recv_eq (c : Cfg) (s : State) :
    step c s .recv = match s.resQ with
      | [] => none
      | r :: rest => recvBody c s.phase { s with resQ := rest } r := by
  simp only [step, recvBody]
  cases s.resQ with
  | nil => rfl
  | cons r rest =>
    simp only
    cases s.phase <;> rfl

theorem recvBody_lift (c : Cfg) (m : Nat) (pre : List Obs) (ph : Phase) (s : State) (r : Res) :
    recvBody c ph (lift m pre s) (liftRes m r) = (recvBody c ph s r).map (lift m pre) := by
  cases ph with
  | idle => rfl
  | waiting =>
    simp only [recvBody, liftRes_kind]
    split
    · rfl
    · rename_i hk
      rw [recvData_lift c m pre s r hk]; rfl
  | resuming k =>
    simp only [recvBody, liftRes_kind, liftRes_w, liftRes_st]
    have e4 : ({ lift m pre s with wsnaps := applyDelta (lift m pre s).wsnaps r.w r.st } : State) =
        lift m pre { s with wsnaps := applyDelta s.wsnaps r.w r.st } := rfl
    split
    · split
      · rw [e4, resetTail_lift]
        simp only [Option.map_some, lift, List.append_assoc]
      · rfl
    · rfl

theorem step_lift (c : Cfg) (m : Nat) (pre : List Obs) (s : State) (a : Action) (ha : a ≠ .reset) :
    step c (lift m pre s) a = (step c s a).map (lift m pre) := by
  cases a with
  | reset => exact absurd rfl ha
  | work w => exact step_work_lift c m pre s w
  | next =>
    simp only [step]
    have e1 : (lift m pre s).phase = s.phase := rfl
    rw [e1]
    split
    · rfl
    · rw [loopFuel_lift, finish_loop_lift]; rfl
  | stateDict =>
    simp only [step]
    have e1 : (lift m pre s).phase = s.phase := rfl
    rw [e1]
    split
    · rfl
    · simp only [Option.map_some, lift, List.append_assoc]
  | kill w =>
    simp only [step]
    have e1 : (lift m pre s).workers[w]? = (s.workers[w]?).map (liftWorker m) := by simp [lift]
    rw [e1]
    cases hk : s.workers[w]? with
    | none => rfl
    | some k =>
      simp only [Option.map_some]
      have e2 : (liftWorker m k).alive = k.alive := rfl
      rw [e2]
      split
      · rfl
      · simp [lift, List.map_set, liftWorker]
  | pollTimeout =>
    simp only [step]
    have e1 : (lift m pre s).phase = s.phase := rfl
    have e2 : ((lift m pre s).resQ ≠ []) ↔ (s.resQ ≠ []) := by simp [lift]
    rw [e1, failedWorkers_lift]
    by_cases hc : s.phase = .idle ∨ s.resQ ≠ []
    · have hc' : s.phase = .idle ∨ (lift m pre s).resQ ≠ [] := hc.imp id e2.mpr
      rw [if_pos hc, if_pos hc']; rfl
    · have hc' : ¬ (s.phase = .idle ∨ (lift m pre s).resQ ≠ []) := fun h => hc (h.imp id e2.mp)
      rw [if_neg hc, if_neg hc']
      cases failedWorkers s c.W with
      | nil => rfl
      | cons f fs =>
        simp only [markAll_lift, Option.map_some]
        simp only [lift, List.append_assoc]
  | recv =>
    rw [step_recv_eq, step_recv_eq]
    have e1 : (lift m pre s).resQ = s.resQ.map (liftRes m) := rfl
    have e2 : (lift m pre s).phase = s.phase := rfl
    rw [e1, e2]
    cases s.resQ with
    | nil => rfl
    | cons r rest => exact recvBody_lift c m pre s.phase { s with resQ := rest } r

/-- **Index-shift invariance.**  A reset-free schedule runs from the shifted state exactly as from the
original one, and ends in the shifted end state. -/
theorem run_lift (c : Cfg) (m : Nat) (pre : List Obs) (as : List Action) (s : State) (hnr : NoReset as) :
    run c (lift m pre s) as = (run c s as).map (lift m pre) := by
  induction as generalizing s with
  | nil => rfl
  | cons a as ih =>
    simp only [run]
    rw [step_lift c m pre s a hnr.1]
    cases step c s a with
    | none => rfl
    | some s' => exact ih s' hnr.2

end TDV.MPR
