import TorchDataVerif.Proofs.MPUnFinal
/-!
# MPU, `in_order = False`, iterable datasets: list lemmas (per-worker multisets, `Ref.interleave`)
-/
namespace TDV.MPU
open TDV.MP

theorem flatMap_congr' {α β : Type} (l : List α) (f g : α → List β) (h : ∀ a ∈ l, f a = g a) :
    l.flatMap f = l.flatMap g := by
  induction l with
  | nil => rfl
  | cons a l ih =>
    simp only [List.flatMap_cons]
    rw [h a (List.mem_cons_self ..), ih (fun b hb => h b (List.mem_cons_of_mem _ hb))]

/-- One component of a `flatMap` over a duplicate-free index list grows by one element at its end. -/
theorem flatMap_update_perm {β : Type} (l : List Nat) (w : Nat) (f f' : Nat → List β) (x : β) (hnd : l.Nodup)
    (hw : w ∈ l) (h1 : f' w = f w ++ [x]) (h2 : ∀ v, v ≠ w → f' v = f v) :
    (l.flatMap f').Perm (l.flatMap f ++ [x]) := by
  induction l with
  | nil => cases hw
  | cons a l ih =>
    rw [List.nodup_cons] at hnd
    simp only [List.flatMap_cons]
    by_cases haw : a = w
    · subst haw
      have : l.flatMap f' = l.flatMap f :=
        flatMap_congr' l f' f (fun v hv => h2 v (fun e => hnd.1 (e ▸ hv)))
      rw [this, h1, List.append_assoc, List.append_assoc]
      exact List.Perm.append_left _ List.perm_append_comm
    · have hwl : w ∈ l := by
        rcases List.mem_cons.mp hw with h | h
        · exact absurd h.symm haw
        · exact h
      rw [h2 a haw, List.append_assoc]
      exact List.Perm.append_left _ (ih hnd.2 hwl)

theorem flatMap_append_perm {α β : Type} (l : List α) (f g : α → List β) :
    (l.flatMap (fun a => f a ++ g a)).Perm (l.flatMap f ++ l.flatMap g) := by
  induction l with
  | nil => exact List.Perm.refl _
  | cons a l ih =>
    simp only [List.flatMap_cons]
    refine (List.Perm.append_left _ ih).trans ?_
    rw [List.append_assoc, List.append_assoc]
    refine List.Perm.append_left _ ?_
    rw [← List.append_assoc, ← List.append_assoc]
    exact List.Perm.append_right _ List.perm_append_comm

theorem filterMap_eq_flatMap {α β : Type} (l : List α) (f : α → Option β) :
    l.filterMap f = l.flatMap (fun a => (f a).toList) := by
  induction l with
  | nil => rfl
  | cons a l ih =>
    simp only [List.filterMap_cons, List.flatMap_cons]
    cases f a <;> simp [ih]

theorem rounds_perm {α : Type} (shards : List (List α)) (n : Nat) :
    (Ref.rounds shards n).Perm (shards.flatMap (fun sh => sh.take n)) := by
  induction n with
  | zero => simp [Ref.rounds]
  | succ n ih =>
    simp only [Ref.rounds, Ref.round]
    rw [filterMap_eq_flatMap]
    have h1 : shards.flatMap (fun sh => sh.take (n + 1)) =
        shards.flatMap (fun sh => sh.take n ++ (sh[n]?).toList) :=
      flatMap_congr' _ _ _ (fun sh _ => List.take_add_one)
    rw [h1]
    exact (List.Perm.append_right _ ih).trans (flatMap_append_perm shards _ _).symm

theorem le_maxLen {α : Type} (shards : List (List α)) (sh : List α) (h : sh ∈ shards) :
    sh.length ≤ Ref.maxLen shards := by
  induction shards with
  | nil => cases h
  | cons a l ih =>
    simp only [Ref.maxLen]
    rcases List.mem_cons.mp h with rfl | h'
    · exact Nat.le_max_left _ _
    · exact Nat.le_trans (ih h') (Nat.le_max_right _ _)

/-- torch's round-robin order is a permutation of the concatenation of the shards. -/
theorem interleave_perm {α : Type} (shards : List (List α)) : (Ref.interleave shards).Perm shards.flatten := by
  unfold Ref.interleave
  refine (rounds_perm shards _).trans ?_
  have : shards.flatMap (fun sh => sh.take (Ref.maxLen shards)) = shards.flatMap id :=
    flatMap_congr' _ _ _ (fun sh hsh => List.take_of_length_le (le_maxLen shards sh hsh))
  rw [this]
  simp [List.flatMap_id]


theorem range_flatMap_getD {α : Type} (l : List (List α)) :
    (List.range l.length).flatMap (fun w => l.getD w []) = l.flatten := by
  rw [List.flatMap_def, map_getD_range l []]

end TDV.MPU
