import TorchDataVerif.Proofs.MPUSnapList
/-!
# MPU — `take_snapshot_assertion_holds`, iterable, `in_order = True`: the window invariant and dispatch
-/
namespace TDV.MPU
open TDV.MP

/-- The window invariant; `k` = counted entries already taken from the head of `_task_info` and not yet
yielded (1 inside `_process_data`, else 0); `ex` = the task whose end-of-shard notice is being received. -/
structure SWk (c : Cfg) (s : State) (Z : List (Info × Nat)) (ex : Option Nat) (k : Nat) : Prop where
  zi : Z.map Prod.fst = s.info
  idx : IdxFrom s.rcvdIdx s.info
  len : s.rcvdIdx + s.info.length = s.sendIdx
  win : WinOk ex s.numYielded (c.W * c.P) k Z
  nn : cntZ ex Z ≤ c.W * c.P
  kk : k ≤ 1
  ms : Incr s.mainSnaps
  mlt : ∀ a ∈ s.mainSnaps, a.1 < s.sendIdx
  mfl : ∀ z ∈ Z, flagM c z.2 = true → ∃ x, (z.1.idx, x) ∈ s.mainSnaps

theorem SWk_of_eq (c : Cfg) (s s' : State) (Z : List (Info × Nat)) (ex : Option Nat) (k : Nat) (h : SWk c s Z ex k)
    (e1 : s'.info = s.info) (e2 : s'.rcvdIdx = s.rcvdIdx) (e3 : s'.sendIdx = s.sendIdx)
    (e4 : s'.numYielded = s.numYielded) (e5 : s'.mainSnaps = s.mainSnaps) : SWk c s' Z ex k :=
  ⟨by rw [e1]; exact h.zi, by rw [e1, e2]; exact h.idx, by rw [e1, e2, e3]; exact h.len, by rw [e4]; exact h.win,
    h.nn, h.kk, by rw [e5]; exact h.ms, by rw [e5, e3]; exact h.mlt, by rw [e5]; exact h.mfl⟩

theorem IdxFrom_append (i : Nat) (l : List Info) (e : Info) (h : IdxFrom i l) (he : e.idx = i + l.length) :
    IdxFrom i (l ++ [e]) := by
  induction l generalizing i with
  | nil => exact ⟨by simpa using he, trivial⟩
  | cons x l ih =>
    refine ⟨h.1, ih (i + 1) h.2 ?_⟩
    simp only [List.length_cons] at he
    omega

theorem IdxFrom_ge (i : Nat) (l : List Info) (h : IdxFrom i l) : ∀ e ∈ l, i ≤ e.idx := by
  induction l generalizing i with
  | nil => intro e he; cases he
  | cons x l ih =>
    intro e he
    rcases List.mem_cons.mp he with rfl | he'
    · exact Nat.le_of_eq h.1.symm
    · have := ih (i + 1) h.2 e he'; omega

theorem cntZ_le_length (ex : Option Nat) (Z : List (Info × Nat)) : cntZ ex Z ≤ Z.length :=
  List.length_filter_le _ _

/-- A dispatch (iterable: the flag depends on `_num_yielded` only). -/
theorem SWk_dispatch (c : Cfg) (s : State) (Z : List (Info × Nat)) (ex : Option Nat) (k w cyc : Nat)
    (hit : c.iterable = true) (h : SWk c s Z ex k) (hfree : cntZ ex Z + 1 ≤ c.W * c.P) :
    SWk c (dispatchTo c s w cyc) (Z ++ [(⟨s.sendIdx, w, none⟩, s.numYielded)]) ex k := by
  have hfl : (flags c (s.samplerPos + 1) s.numYielded).1 = flagM c s.numYielded := flags_iter c _ _ hit
  have hone : cOne ex (⟨s.sendIdx, w, none⟩ : Info) ≤ 1 := by simp only [cOne]; split <;> omega
  have hlen := h.len
  constructor
  · simp [dispatchTo, h.zi]
  · show IdxFrom s.rcvdIdx (s.info ++ [⟨s.sendIdx, w, none⟩])
    exact IdxFrom_append _ _ _ h.idx (by simp; omega)
  · simp only [dispatchTo, List.length_append, List.length_singleton]; omega
  · show WinOk ex s.numYielded (c.W * c.P) k (Z ++ [(⟨s.sendIdx, w, none⟩, s.numYielded)])
    exact WinOk_snoc ex _ _ k Z _ h.win (by have := h.kk; omega)
  · rw [cntZ_append]
    have : cntZ ex [((⟨s.sendIdx, w, none⟩ : Info), s.numYielded)] = cOne ex ⟨s.sendIdx, w, none⟩ := by
      rw [cntZ_cons]; simp [cntZ]
    omega
  · exact h.kk
  · show Incr (if (flags c (s.samplerPos + 1) s.numYielded).1 then s.mainSnaps ++ [(s.sendIdx, s.samplerPos + 1)]
      else s.mainSnaps)
    split
    · rw [Incr, List.pairwise_append]
      refine ⟨h.ms, by simp, ?_⟩
      intro a ha b hb
      simp at hb; subst hb
      exact h.mlt a ha
    · exact h.ms
  · intro a ha
    have ha' : a ∈ (if (flags c (s.samplerPos + 1) s.numYielded).1 then s.mainSnaps ++ [(s.sendIdx, s.samplerPos + 1)]
      else s.mainSnaps) := ha
    show a.1 < s.sendIdx + 1
    split at ha'
    · rcases List.mem_append.mp ha' with h1 | h1
      · have := h.mlt a h1; omega
      · simp at h1; subst h1; simp
    · have := h.mlt a ha'; omega
  · intro z hz hf
    show ∃ x, (z.1.idx, x) ∈ (if (flags c (s.samplerPos + 1) s.numYielded).1 then
      s.mainSnaps ++ [(s.sendIdx, s.samplerPos + 1)] else s.mainSnaps)
    rcases List.mem_append.mp hz with h1 | h1
    · obtain ⟨x, hx⟩ := h.mfl z h1 hf
      refine ⟨x, ?_⟩
      split
      · exact List.mem_append_left _ hx
      · exact hx
    · simp at h1; subst h1
      simp only at hf
      rw [hfl, hf]
      exact ⟨s.samplerPos + 1, by simp⟩

/-- `_try_put_index` (iterable): at most one new entry, the deque of main snapshots only grows. -/
theorem SWk_tryPut (c : Cfg) (s : State) (Z : List (Info × Nat)) (ex : Option Nat) (k : Nat)
    (hit : c.iterable = true) (h : SWk c s Z ex k) (hfree : cntZ ex Z + 1 ≤ c.W * c.P) :
    ∃ Z', SWk c (tryPut c s) Z' ex k ∧ (∀ a ∈ s.mainSnaps, a ∈ (tryPut c s).mainSnaps) ∧
      (∀ e ∈ (tryPut c s).info, e ∈ s.info ∨ e.res = none) ∧ (∀ e ∈ s.info, e ∈ (tryPut c s).info) := by
  unfold tryPut
  simp only [hit, Bool.not_true, Bool.false_and, Bool.false_eq_true, if_false]
  split
  · exact ⟨Z, SWk_of_eq c s _ Z ex k h rfl rfl rfl rfl rfl, fun a ha => ha, fun e he => Or.inl he, fun e he => he⟩
  · refine ⟨_, SWk_dispatch c s Z ex k _ _ hit h hfree, fun a ha => ?_, fun e he => ?_, fun e he => ?_⟩
    · show a ∈ (if (flags c (s.samplerPos + 1) s.numYielded).1 then s.mainSnaps ++ [(s.sendIdx, s.samplerPos + 1)]
        else s.mainSnaps)
      split
      · exact List.mem_append_left _ ha
      · exact ha
    · have he' : e ∈ s.info ++ [⟨s.sendIdx, _, none⟩] := he
      rcases List.mem_append.mp he' with h1 | h1
      · exact Or.inl h1
      · simp at h1; subst h1; exact Or.inr rfl
    · show e ∈ s.info ++ [⟨s.sendIdx, _, none⟩]
      exact List.mem_append_left _ he

end TDV.MPU
