import TorchDataVerif.Proofs.MPUSnapStep
/-!
# MPU — `take_snapshot_assertion_holds`, iterable, `in_order = True`: `init` and whole runs
-/
namespace TDV.MPU
open TDV.MP

theorem tryPut_sendIdx_le (c : Cfg) (s : State) : (tryPut c s).sendIdx ≤ s.sendIdx + 1 := by
  unfold tryPut
  split
  · simp
  · split
    · simp
    · simp [dispatchTo]

theorem SW_prime (c : Cfg) (hit : c.iterable = true) (n : Nat) (s : State) (Z : List (Info × Nat))
    (h : SWk c s Z none 0) (hroom : s.sendIdx - s.rcvdIdx + n ≤ c.W * c.P) :
    ∃ Z', SWk c (prime c n s) Z' none 0 := by
  induction n generalizing s Z with
  | zero => exact ⟨Z, h⟩
  | succ n ih =>
    unfold prime
    have hcnt : cntZ none Z ≤ s.sendIdx - s.rcvdIdx := by
      have h1 := cntZ_le_length none Z
      have h2 : Z.length = s.info.length := by rw [← h.zi]; simp
      have := h.len
      omega
    obtain ⟨Z', h1, _, _, _⟩ := SWk_tryPut c s Z none 0 hit h (by omega)
    have hs := tryPut_sendIdx_le c s
    have hr := (tryPut_sameCore c s).rcvdIdx
    exact ih (tryPut c s) Z' h1 (by rw [hr]; omega)

theorem init_SW (c : Cfg) (hit : c.iterable = true) : ∃ Z, SWk c (init c) Z none 0 := by
  have hinit : init c = prime c (c.P * c.W)
      (tailArg c (resetHead c (baseState c (List.replicate c.W ⟨[], 0, false, true⟩)))) := rfl
  rw [hinit]
  apply SW_prime c hit _ _ []
  · refine ⟨rfl, trivial, rfl, trivial, by simp [cntZ], Nat.zero_le _, List.Pairwise.nil, ?_, ?_⟩
    · intro a ha; cases ha
    · intro z hz; cases hz
  · simp [tailArg, resetHead, baseState, Nat.mul_comm]

/-- Along every schedule of one epoch: the window invariant holds and the assertion has not fired. -/
theorem run_SW (c : Cfg) (hv : c.shards.length = c.W) (hit : c.iterable = true) (hio : c.inOrder = true)
    (as : List Action) (s s' : State) (hnr : NoReset as)
    (h : (InvI c s ∧ Obs.assertion ∉ s.obs ∧ ∃ Z, SWk c s Z none 0) ∨ died s) (hr : run c s as = some s') :
    (InvI c s' ∧ Obs.assertion ∉ s'.obs ∧ ∃ Z, SWk c s' Z none 0) ∨ died s' := by
  induction as generalizing s with
  | nil => simp only [run] at hr; cases hr; exact h
  | cons a as ih =>
    simp only [run] at hr
    split at hr
    · cases hr
    · rename_i s1 hs1
      refine ih s1 hnr.2 ?_ hr
      rcases h with ⟨hI, hna, Z, hZ⟩ | h
      · rcases step_invI c s s1 a hv hit hio hnr.1 hI hs1 with h1 | h1
        · rcases step_SW c hit hio s s1 a Z hnr.1 hI hZ hna hs1 with ⟨h2, h3⟩ | h2
          · exact Or.inl ⟨h1, h2, h3⟩
          · exact Or.inr h2
        · exact Or.inr h1
      · exact Or.inr (died_step c s s1 a hs1 h)

end TDV.MPU
