import TorchDataVerif.Proofs.MPRFFModel
import TorchDataVerif.Proofs.MPStep
/-!
# MPRFF — the stored snapshot is dead data until `_take_snapshot` overwrites it

The fast-forward branch starts the protocol with a stored snapshot (`_update_snapshot(saved …)`) that is not the
initial one.  Nothing but `state_dict()` reads `_snapshot`, and (with `in_order = True`) `_take_snapshot` either
fails or overwrites it completely.  So two runs of one schedule without `state_dict` calls that start in states
differing in `snap` only stay equal in every other field, and become equal as soon as a snapshot is taken.
-/
namespace TDV.MPRFF

open TDV.MP

def setSnap (x : Snap) (s : State) : State := { s with snap := x }

theorem findWorker_setSnap (c : Cfg) (x : Snap) (s : State) (n cyc : Nat) :
    findWorker c (setSnap x s) n cyc = findWorker c s n cyc := by
  induction n generalizing cyc with
  | zero => rfl
  | succ n ih =>
    unfold findWorker
    rw [ih]
    rfl

theorem tryPut_setSnap (c : Cfg) (x : Snap) (s : State) : tryPut c (setSnap x s) = setSnap x (tryPut c s) := by
  unfold tryPut
  rw [findWorker_setSnap]
  simp only [show (setSnap x s).cyc = s.cyc from rfl, show (setSnap x s).samplerPos = s.samplerPos from rfl]
  generalize findWorker c s c.W s.cyc = p
  obtain ⟨o, cyc⟩ := p
  split
  · rfl
  · cases o <;> rfl

theorem prime_setSnap (c : Cfg) (x : Snap) (n : Nat) (s : State) :
    prime c n (setSnap x s) = setSnap x (prime c n s) := by
  induction n generalizing s with
  | zero => rfl
  | succ n ih => simp only [prime, tryPut_setSnap, ih]

theorem skip_setSnap (x : Snap) (s : State) (n : Nat) : skip (setSnap x s) n = setSnap x (skip s n) := by
  induction n generalizing s with
  | zero => rfl
  | succ n ih =>
    rw [skip]
    by_cases h : s.rcvdIdx < s.sendIdx
    · have h' : (setSnap x s).rcvdIdx < (setSnap x s).sendIdx := h
      rw [if_pos h']
      conv => rhs; rw [skip, if_pos h]
      simp only [show (setSnap x s).info = s.info from rfl, show (setSnap x s).rcvdIdx = s.rcvdIdx from rfl]
      cases hl : lookupInfo s.info s.rcvdIdx with
      | none => exact ih { s with rcvdIdx := s.rcvdIdx + 1 }
      | some e =>
        simp only
        by_cases hc : (e.res.isSome || up s e.w) = true
        · have hc' : (e.res.isSome || up (setSnap x s) e.w) = true := hc
          rw [if_pos hc, if_pos hc']
        · have hc' : ¬ (e.res.isSome || up (setSnap x s) e.w) = true := hc
          rw [if_neg hc, if_neg hc']
          exact ih { s with info := eraseInfo s.info s.rcvdIdx, rcvdIdx := s.rcvdIdx + 1 }
    · have h' : ¬ (setSnap x s).rcvdIdx < (setSnap x s).sendIdx := h
      rw [if_neg h']
      conv => rhs; rw [skip, if_neg h]

theorem shutdownLoop_setSnap (c : Cfg) (x : Snap) (n : Nat) (s : State) :
    shutdownLoop c n (setSnap x s) = setSnap x (shutdownLoop c n s) := by
  induction n with
  | zero => rfl
  | succ n ih =>
    unfold shutdownLoop
    simp only [ih]
    by_cases h : (c.persistent || up (shutdownLoop c n s) n) = true
    · have h' : (c.persistent || up (setSnap x (shutdownLoop c n s)) n) = true := h
      rw [if_pos h, if_pos h']; rfl
    · have h' : ¬ (c.persistent || up (setSnap x (shutdownLoop c n s)) n) = true := h
      rw [if_neg h, if_neg h']

theorem shutdownWorkers_setSnap (c : Cfg) (x : Snap) (s : State) :
    shutdownWorkers c (setSnap x s) = setSnap x (shutdownWorkers c s) := by
  unfold shutdownWorkers
  by_cases h : s.shutdown = true
  · have h' : (setSnap x s).shutdown = true := h
    rw [if_pos h, if_pos h']
  · have h' : ¬ (setSnap x s).shutdown = true := h
    rw [if_neg h, if_neg h']
    exact shutdownLoop_setSnap c x c.W { s with shutdown := true }

theorem onArrival_setSnap (c : Cfg) (x : Snap) (s : State) (r : Res) :
    onArrival c (setSnap x s) r = setSnap x (onArrival c s r) := by
  unfold onArrival
  split
  · split
    · exact tryPut_setSnap c x { s with status := s.status.set r.w false, bad := s.bad || r.st.isNone }
    · exact tryPut_setSnap c x
        { markUnavailable c s r.w false with bad := (markUnavailable c s r.w false).bad || r.st.isNone }
  · rfl

theorem markAll_setSnap (c : Cfg) (x : Snap) (l : List Nat) (s : State) :
    markAll c (setSnap x s) l = setSnap x (markAll c s l) := by
  induction l generalizing s with
  | nil => rfl
  | cons w l ih => exact ih (markUnavailable c s w false)

theorem failedWorkers_setSnap (x : Snap) (s : State) (n : Nat) :
    failedWorkers (setSnap x s) n = failedWorkers s n := by
  induction n with
  | zero => rfl
  | succ n ih => unfold failedWorkers; rw [ih]; rfl

theorem finish_setSnap (x : Snap) (p : State × Option Obs) :
    finish (setSnap x p.1, p.2) = setSnap x (finish p) := by
  unfold finish
  cases p.2 <;> rfl

/-! ## the functions that may write the snapshot -/

/-- With `in_order = True`, `_take_snapshot` fails or overwrites the stored snapshot: its outcome does not
depend on the old one. -/
theorem takeSnapshot_setSnap (c : Cfg) (hio : c.inOrder = true) (x : Snap) (s : State) :
    takeSnapshot c (setSnap x s) = takeSnapshot c s := by
  unfold takeSnapshot
  simp only [show (setSnap x s).rcvdIdx = s.rcvdIdx from rfl, show (setSnap x s).mainSnaps = s.mainSnaps from rfl]
  generalize popSnaps s.rcvdIdx s.mainSnaps none = p
  obtain ⟨o, rest⟩ := p
  cases o with
  | none => simp [hio]
  | some e =>
    simp only
    split
    · rfl
    · simp [hio]

theorem snapshotDue_setSnap (c : Cfg) (x : Snap) (s : State) :
    snapshotDue c (setSnap x s) = (setSnap x (snapshotDue c s).1, (snapshotDue c s).2) := by
  unfold snapshotDue
  split <;> rfl

/-- Outcome `t'` of a function run on `setSnap x s`, compared with its outcome `t` on `s`: the same state, or
`t` with the foreign snapshot still in place and the snapshot of `s` untouched. -/
def Fr (x : Snap) (s t t' : State) : Prop := t' = t ∨ (t' = setSnap x t ∧ t.snap = s.snap)

theorem Fr.keep {x : Snap} {s t : State} (h : t.snap = s.snap) : Fr x s t (setSnap x t) := Or.inr ⟨rfl, h⟩

/-- The part of `yieldItem` after `lastW` / `wsnaps` were updated. -/
def yTail (c : Cfg) (s : State) (b : Nat) : State × Obs :=
  if c.interval = 0 then ({ s with numYielded := s.numYielded + 1 }, .item b)
  else
    let d := snapshotDue c s
    if d.2 then
      match takeSnapshot c d.1 with
      | some s' => ({ s' with numYielded := s'.numYielded + 1 }, .item b)
      | none => ({ d.1 with mainSnaps := (popSnaps d.1.rcvdIdx d.1.mainSnaps none).2 }, .assertion)
    else ({ d.1 with numYielded := d.1.numYielded + 1 }, .item b)

theorem yieldItem_yTail (c : Cfg) (s : State) (r : Res) (b : Nat) :
    yieldItem c s r b = yTail c { s with lastW := r.w, wsnaps := applyDelta s.wsnaps r.w r.st } b := rfl

theorem yTail_fr (c : Cfg) (hio : c.inOrder = true) (x : Snap) (s : State) (b : Nat) :
    (yTail c (setSnap x s) b).2 = (yTail c s b).2 ∧ Fr x s (yTail c s b).1 (yTail c (setSnap x s) b).1 := by
  unfold yTail
  by_cases h0 : c.interval = 0
  · rw [if_pos h0, if_pos h0]
    exact ⟨rfl, Fr.keep rfl⟩
  · rw [if_neg h0, if_neg h0]
    simp only [snapshotDue_setSnap, takeSnapshot_setSnap c hio]
    have hd : (snapshotDue c s).1.snap = s.snap := by rw [snapshotDue_eq]
    generalize snapshotDue c s = d at hd
    cases d.2 with
    | false => exact ⟨rfl, Fr.keep hd⟩
    | true =>
      simp only [if_true]
      cases takeSnapshot c d.1 with
      | none => exact ⟨rfl, Fr.keep hd⟩
      | some s' => exact ⟨rfl, Or.inl rfl⟩

theorem yieldItem_fr (c : Cfg) (hio : c.inOrder = true) (x : Snap) (s : State) (r : Res) (b : Nat) :
    (yieldItem c (setSnap x s) r b).2 = (yieldItem c s r b).2 ∧
      Fr x s (yieldItem c s r b).1 (yieldItem c (setSnap x s) r b).1 := by
  rw [yieldItem_yTail, yieldItem_yTail]
  exact yTail_fr c hio x { s with lastW := r.w, wsnaps := applyDelta s.wsnaps r.w r.st } b

theorem processData_fr (c : Cfg) (hio : c.inOrder = true) (x : Snap) (s : State) (r : Res) :
    (processData c (setSnap x s) r).2 = (processData c s r).2 ∧
      Fr x s (processData c s r).1 (processData c (setSnap x s) r).1 := by
  have hs := (tryPut_sameCore c { s with numTasks := s.numTasks.modify r.w (· - 1) }).snap
  have ht := tryPut_setSnap c x { s with numTasks := s.numTasks.modify r.w (· - 1) }
  unfold processData
  simp only
  have e : ({ setSnap x s with numTasks := (setSnap x s).numTasks.modify r.w (· - 1) } : State) =
      setSnap x { s with numTasks := s.numTasks.modify r.w (· - 1) } := rfl
  rw [e, ht]
  generalize tryPut c { s with numTasks := s.numTasks.modify r.w (· - 1) } = s2 at hs
  have hs' : s2.snap = s.snap := hs
  cases r.kind with
  | data b =>
    simp only
    obtain ⟨h1, h2⟩ := yieldItem_fr c hio x s2 r b
    refine ⟨h1, ?_⟩
    rcases h2 with h2 | ⟨h2, h3⟩
    · exact Or.inl h2
    · exact Or.inr ⟨h2, h3.trans hs'⟩
  | notice => exact ⟨rfl, Fr.keep hs'⟩
  | error => exact ⟨rfl, Fr.keep hs'⟩
  | ack => exact ⟨rfl, Fr.keep hs'⟩

theorem Fr.mono {x : Snap} {s s0 t t' : State} (h : Fr x s0 t t') (e : s0.snap = s.snap) : Fr x s t t' := by
  rcases h with h | ⟨h1, h2⟩
  · exact Or.inl h
  · exact Or.inr ⟨h1, h2.trans e⟩

theorem loop_fr (c : Cfg) (hio : c.inOrder = true) (x : Snap) (n : Nat) (s : State) :
    (loop c n (setSnap x s)).2 = (loop c n s).2 ∧ Fr x s (loop c n s).1 (loop c n (setSnap x s)).1 := by
  induction n generalizing s with
  | zero => exact ⟨rfl, Fr.keep rfl⟩
  | succ n ih =>
    unfold loop
    simp only [show (setSnap x s).sendIdx = s.sendIdx from rfl, show (setSnap x s).rcvdIdx = s.rcvdIdx from rfl,
      skip_setSnap]
    obtain ⟨_, hs2, _⟩ := skip_sameSkipFields s (s.sendIdx - s.rcvdIdx)
    generalize skip s (s.sendIdx - s.rcvdIdx) = s2 at hs2
    simp only [show (setSnap x s2).sendIdx = s2.sendIdx from rfl, show (setSnap x s2).rcvdIdx = s2.rcvdIdx from rfl,
      show (setSnap x s2).info = s2.info from rfl]
    by_cases h1 : s2.sendIdx ≤ s2.rcvdIdx
    · simp only [if_pos h1]
      cases c.persistent with
      | true => exact ⟨by trivial, Fr.keep hs2⟩
      | false =>
        simp only [Bool.false_eq_true, if_false, shutdownWorkers_setSnap]
        exact ⟨by trivial, Fr.keep ((shutdownWorkers_sameMain c s2).snap.trans hs2)⟩
    · simp only [if_neg h1]
      cases lookupInfo s2.info s2.rcvdIdx with
      | none => exact ⟨rfl, Fr.keep hs2⟩
      | some e =>
        simp only
        cases e.res with
        | none => exact ⟨rfl, Fr.keep hs2⟩
        | some r =>
          simp only
          by_cases hk : r.kind = .notice
          · simp only [if_pos hk]
            obtain ⟨a1, a2⟩ := ih
              { s2 with
                info := eraseInfo s2.info s2.rcvdIdx
                rcvdIdx := s2.rcvdIdx + 1
                wsnaps := applyDelta s2.wsnaps r.w r.st }
            exact ⟨a1, a2.mono hs2⟩
          · simp only [if_neg hk]
            obtain ⟨a1, a2⟩ := processData_fr c hio x
              { s2 with info := eraseInfo s2.info s2.rcvdIdx, rcvdIdx := s2.rcvdIdx + 1 } r
            exact ⟨congrArg some a1, a2.mono hs2⟩

theorem finish_snap' (p : State × Option Obs) : (finish p).snap = p.1.snap := by
  unfold finish
  split <;> rfl

theorem finish_fr {x : Snap} {s : State} {p p' : State × Option Obs} (h2 : p'.2 = p.2) (h1 : Fr x s p.1 p'.1) :
    Fr x s (finish p) (finish p') := by
  obtain ⟨a, o⟩ := p
  obtain ⟨a', o'⟩ := p'
  simp only at h1 h2
  subst h2
  rcases h1 with h1 | ⟨h1, h3⟩
  · subst h1; exact Or.inl rfl
  · subst h1
    exact Or.inr ⟨finish_setSnap x (a, o'), (finish_snap' (a, o')).trans h3⟩

theorem recvData_fr (c : Cfg) (hio : c.inOrder = true) (x : Snap) (s : State) (r : Res) :
    Fr x s (recvData c s r) (recvData c (setSnap x s) r) := by
  have ht := (onArrival_gsFields c { s with outstanding := s.outstanding - 1 } r).2.1
  have ha := onArrival_setSnap c x { s with outstanding := s.outstanding - 1 } r
  unfold recvData
  have e : ({ setSnap x s with outstanding := (setSnap x s).outstanding - 1 } : State) =
      setSnap x { s with outstanding := s.outstanding - 1 } := rfl
  simp only [e, ha, hio, Bool.not_true, Bool.false_eq_true, if_false]
  generalize onArrival c { s with outstanding := s.outstanding - 1 } r = t at ht
  have ht' : t.snap = s.snap := ht
  simp only [show (setSnap x t).rcvdIdx = t.rcvdIdx from rfl, show (setSnap x t).info = t.info from rfl]
  by_cases h1 : r.idx ≠ t.rcvdIdx
  · simp only [if_pos h1]
    obtain ⟨a1, a2⟩ := loop_fr c hio x (loopFuel t) { t with info := setRes t.info r.idx r }
    exact finish_fr a1 (a2.mono ht')
  · simp only [if_neg h1]
    by_cases hk : r.kind = .notice
    · simp only [if_pos hk]
      obtain ⟨a1, a2⟩ := loop_fr c hio x
        (loopFuel { t with info := eraseInfo t.info r.idx, rcvdIdx := t.rcvdIdx + 1 })
        { t with
          info := eraseInfo t.info r.idx
          rcvdIdx := t.rcvdIdx + 1
          wsnaps := applyDelta t.wsnaps r.w r.st }
      exact finish_fr a1 (a2.mono ht')
    · simp only [if_neg hk]
      obtain ⟨a1, a2⟩ := processData_fr c hio x { t with info := eraseInfo t.info r.idx, rcvdIdx := t.rcvdIdx + 1 } r
      exact finish_fr (p := ((processData c _ r).1, some (processData c _ r).2))
        (p' := ((processData c _ r).1, some (processData c _ r).2)) (congrArg some a1) (a2.mono ht')

theorem markAll_snap' (c : Cfg) (l : List Nat) (s : State) : (markAll c s l).snap = s.snap := by
  induction l generalizing s with
  | nil => rfl
  | cons w l ih => exact ih (markUnavailable c s w false)

/-- `Fr` for the partial transition function. -/
def OFr (x : Snap) (s : State) : Option State → Option State → Prop
  | none, none => True
  | some t, some t' => Fr x s t t'
  | _, _ => False

theorem OFr.of {x : Snap} {s t t' : State} (h : Fr x s t t') : OFr x s (some t) (some t') := h

theorem OFr.keep {x : Snap} {s t t' : State} (h : t' = setSnap x t) (hs : t.snap = s.snap) :
    OFr x s (some t) (some t') := Or.inr ⟨h, hs⟩

theorem OFr.same {x : Snap} {s t t' : State} (h : t' = t) : OFr x s (some t) (some t') := Or.inl h

/-- One action other than `state_dict()` on two states that differ in the stored snapshot only. -/
theorem step_fr (c : Cfg) (hio : c.inOrder = true) (x : Snap) (s : State) (a : Action) (ha : a ≠ .stateDict) :
    OFr x s (step c s a) (step c (setSnap x s) a) := by
  cases a with
  | stateDict => exact absurd rfl ha
  | work w =>
    simp only [step, show (setSnap x s).workers = s.workers from rfl,
      show (setSnap x s).shutdown = s.shutdown from rfl]
    cases s.workers[w]? with
    | none => trivial
    | some k =>
      simp only
      split
      · trivial
      · cases k.q with
        | nil => trivial
        | cons m rest => simp only; exact OFr.keep rfl rfl
  | kill w =>
    simp only [step, show (setSnap x s).workers = s.workers from rfl]
    cases s.workers[w]? with
    | none => trivial
    | some k =>
      simp only
      split
      · trivial
      · exact OFr.keep rfl rfl
  | reset =>
    simp only [step, show (setSnap x s).phase = s.phase from rfl, show (setSnap x s).shutdown = s.shutdown from rfl]
    split
    · trivial
    · exact OFr.keep rfl rfl
  | pollTimeout =>
    simp only [step, show (setSnap x s).phase = s.phase from rfl, show (setSnap x s).resQ = s.resQ from rfl,
      failedWorkers_setSnap]
    split
    · trivial
    · cases failedWorkers s c.W with
      | nil => exact OFr.keep rfl rfl
      | cons f fs =>
        simp only [markAll_setSnap]
        exact OFr.keep rfl (markAll_snap' c (f :: fs) s)
  | next =>
    simp only [step, show (setSnap x s).phase = s.phase from rfl]
    split
    · trivial
    · obtain ⟨a1, a2⟩ := loop_fr c hio x (loopFuel s) s
      exact OFr.of (finish_fr a1 a2)
  | recv =>
    simp only [step, show (setSnap x s).phase = s.phase from rfl, show (setSnap x s).resQ = s.resQ from rfl]
    cases s.resQ with
    | nil => trivial
    | cons r rest =>
      simp only
      cases s.phase with
      | idle => trivial
      | waiting =>
        simp only
        split
        · trivial
        · exact OFr.of ((recvData_fr c hio x { s with resQ := rest, phase := .waiting } r).mono rfl)
      | resuming k =>
        simp only
        split
        · split
          · exact OFr.same rfl
          · exact OFr.keep rfl rfl
        · exact OFr.keep rfl rfl

/-- The two runs: equal, or the first still has its start snapshot `y` and the second the foreign one `x`. -/
def Rel (x y : Snap) (s s' : State) : Prop := s' = s ∨ (s.snap = y ∧ s' = setSnap x s)

theorem step_rel (c : Cfg) (hio : c.inOrder = true) (x y : Snap) (s s' t' : State) (a : Action)
    (ha : a ≠ .stateDict) (h : Rel x y s s') (hs : step c s' a = some t') :
    ∃ t, step c s a = some t ∧ Rel x y t t' := by
  rcases h with rfl | ⟨hy, rfl⟩
  · exact ⟨t', hs, Or.inl rfl⟩
  · have := step_fr c hio x s a ha
    rw [hs] at this
    cases hst : step c s a with
    | none => rw [hst] at this; exact this.elim
    | some t =>
      rw [hst] at this
      refine ⟨t, rfl, ?_⟩
      rcases this with h1 | ⟨h1, h2⟩
      · exact Or.inl h1
      · exact Or.inr ⟨h2.trans hy, h1⟩

/-- **Snapshot-blind simulation.**  A schedule without `state_dict` calls run from `s'`, which differs from `s`
at most in the stored snapshot, is also a run from `s`, and the two end states are equal as soon as a snapshot
was taken. -/
theorem run_rel (c : Cfg) (hio : c.inOrder = true) (x y : Snap) (as : List Action) (s s' t' : State)
    (hsd : Action.stateDict ∉ as) (h : Rel x y s s') (hr : run c s' as = some t') :
    ∃ t, run c s as = some t ∧ Rel x y t t' := by
  induction as generalizing s s' with
  | nil => simp only [run] at hr; cases hr; exact ⟨s, rfl, h⟩
  | cons a as ih =>
    simp only [run] at hr ⊢
    cases hs : step c s' a with
    | none => rw [hs] at hr; cases hr
    | some u' =>
      rw [hs] at hr
      obtain ⟨u, hu, hrel⟩ := step_rel c hio x y s s' u' a
        (fun e => hsd (by rw [e]; exact List.mem_cons_self)) h hs
      rw [hu]
      exact ih u u' (fun e => hsd (List.mem_cons_of_mem _ e)) hrel hr

end TDV.MPRFF
