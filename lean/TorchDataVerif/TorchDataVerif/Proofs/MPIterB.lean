import TorchDataVerif.Proofs.MPIterA
/-!
# MP, iterable datasets, in-order: the invariant (with ghost history) and the dispatch step
-/
namespace TDV.MP

/-- `findWorker` with the round counter made explicit: `(found, ρ', a')`. -/
def scan (c : Cfg) (s : State) : Nat → Nat → Nat → Option Nat × Nat × Nat
  | 0, ρ, a => (none, ρ, a)
  | n + 1, ρ, a =>
    if up s a then (some a, (adv c ρ a).1, (adv c ρ a).2)
    else scan c s n (adv c ρ a).1 (adv c ρ a).2

theorem findWorker_scan (c : Cfg) (s : State) (n ρ a : Nat) (hio : c.inOrder = true) (ha : a < c.W) :
    findWorker c s n a = ((scan c s n ρ a).1, (scan c s n ρ a).2.2) := by
  induction n generalizing ρ a with
  | zero => rfl
  | succ n ih =>
    unfold findWorker scan
    by_cases hu : up s a = true
    · simp [hu, hio, adv_cyc c ρ a ha]
    · simp only [hu, Bool.false_and, Bool.false_eq_true, if_false]
      rw [← adv_cyc c ρ a ha]
      exact ih (adv c ρ a).1 (adv c ρ a).2 (adv_lt c ρ a ha)

/-- What a scan of the worker cycle does to the pointer, the turn counts and the remaining live sequence. -/
structure ScanSpec (c : Cfg) (s : State) (ρ a : Nat) (res : Option Nat × Nat × Nat) : Prop where
  lt : res.2.2 < c.W
  mono : ∀ w, w < c.W → turns ρ a w ≤ turns res.2.1 res.2.2 w
  upSame : ∀ w, w < c.W → up s w = true → res.1 ≠ some w → turns res.2.1 res.2.2 w = turns ρ a w
  found : ∀ v, res.1 = some v → v < c.W ∧ up s v = true ∧ turns res.2.1 res.2.2 v = turns ρ a v + 1 ∧
    liveFrom c ρ a = (if turns ρ a v ≤ bOf c v then [(v, turns ρ a v)] else []) ++ liveFrom c res.2.1 res.2.2
  notFound : res.1 = none → liveFrom c ρ a = liveFrom c res.2.1 res.2.2

theorem turns_self (ρ a : Nat) : turns ρ a a = ρ := by simp [turns]

theorem scan_spec (c : Cfg) (s : State) (n ρ a : Nat) (ha : a < c.W)
    (hdn : ∀ u, u < c.W → up s u = false → bOf c u < turns ρ a u) :
    ScanSpec c s ρ a (scan c s n ρ a) := by
  induction n generalizing ρ a with
  | zero =>
    exact ⟨ha, fun _ _ => Nat.le_refl _, fun _ _ _ _ => rfl, fun v hv => (by cases hv), fun _ => rfl⟩
  | succ n ih =>
    unfold scan
    by_cases hu : up s a = true
    · simp only [hu, if_true]
      refine ⟨adv_lt c ρ a ha, ?_, ?_, ?_, fun h => (by cases h)⟩
      · intro w hw; rw [turns_adv c ρ a w ha hw]; omega
      · intro w hw _ hne
        have : w ≠ a := fun h => hne (by rw [h])
        rw [turns_adv c ρ a w ha hw]; simp [this]
      · intro v hv
        simp only [Option.some.injEq] at hv
        subst hv
        refine ⟨ha, hu, by rw [turns_adv c ρ a a ha ha]; simp, ?_⟩
        rw [turns_self]
        exact liveFrom_adv c ρ a ha
    · have hu' : up s a = false := by simpa using hu
      simp only [hu', Bool.false_eq_true, if_false]
      have hdead : ¬ ρ ≤ bOf c a := by
        have := hdn a ha hu'; rw [turns_self] at this; omega
      have hlf : liveFrom c ρ a = liveFrom c (adv c ρ a).1 (adv c ρ a).2 := by
        rw [liveFrom_adv c ρ a ha]; simp [hdead]
      have hdn' : ∀ u, u < c.W → up s u = false → bOf c u < turns (adv c ρ a).1 (adv c ρ a).2 u := by
        intro u hu1 hu2
        have := hdn u hu1 hu2
        rw [turns_adv c ρ a u ha hu1]; omega
      have hs := ih (adv c ρ a).1 (adv c ρ a).2 (adv_lt c ρ a ha) hdn'
      refine ⟨hs.lt, ?_, ?_, ?_, ?_⟩
      · intro w hw
        have := hs.mono w hw
        rw [turns_adv c ρ a w ha hw] at this; omega
      · intro w hw hup hne
        rw [hs.upSame w hw hup hne, turns_adv c ρ a w ha hw]
        have : w ≠ a := fun h => by rw [h] at hup; rw [hup] at hu'; cases hu'
        simp [this]
      · intro v hv
        obtain ⟨h1, h2, h3, h4⟩ := hs.found v hv
        have hva : v ≠ a := fun h => by rw [h] at h2; rw [h2] at hu'; cases hu'
        have ht : turns (adv c ρ a).1 (adv c ρ a).2 v = turns ρ a v := by
          rw [turns_adv c ρ a v ha h1]; simp [hva]
        refine ⟨h1, h2, by rw [h3, ht], ?_⟩
        rw [hlf, h4, ht]
      · intro hnone
        rw [hlf, hs.notFound hnone]

theorem scan_none_down (c : Cfg) (s : State) (n ρ a : Nat) (ha : a < c.W)
    (h : (scan c s n ρ a).1 = none) : ∀ m, m < n → up s ((a + m) % c.W) = false := by
  induction n generalizing ρ a with
  | zero => intro m hm; omega
  | succ n ih =>
    unfold scan at h
    by_cases hu : up s a = true
    · simp [hu] at h
    · have hu' : up s a = false := by simpa using hu
      simp only [hu', Bool.false_eq_true, if_false] at h
      intro m hm
      cases m with
      | zero => simpa [Nat.mod_eq_of_lt ha] using hu'
      | succ m =>
        have := ih (adv c ρ a).1 (adv c ρ a).2 (adv_lt c ρ a ha) h m (by omega)
        rw [adv_cyc c ρ a ha, Nat.mod_add_mod] at this
        rw [show a + (m + 1) = a + 1 + m by omega]
        exact this

theorem scan_none_all_down (c : Cfg) (s : State) (ρ a : Nat) (ha : a < c.W)
    (h : (scan c s c.W ρ a).1 = none) : ∀ w, w < c.W → up s w = false := by
  intro w hw
  have key := scan_none_down c s c.W ρ a ha h
  by_cases hge : a ≤ w
  · have := key (w - a) (by omega)
    rwa [show a + (w - a) = w by omega, Nat.mod_eq_of_lt hw] at this
  · have := key (w + c.W - a) (by omega)
    rwa [show a + (w + c.W - a) = w + c.W by omega, Nat.add_mod_right, Nat.mod_eq_of_lt hw] at this

/-! ## the invariant -/

/-- Ghost state: dispatch history (owner of every task index), round counter of the dispatch pointer,
per worker the number of its results that have arrived in the main process (`arr`) and the number of its
task messages it has taken from its index queue (`tk`). -/
structure Ghost where
  h : List Nat
  rho : Nat
  arr : Nat → Nat
  tk : Nat → Nat

/-- `_task_info`: consecutive task indices from `i`; a stored result answers that very task and has
arrived (`seq < arr`); a task without result has not arrived (`arr ≤ seq`) — except the task `ex` whose
result is being received right now. -/
def InfoI (c : Cfg) (g : Ghost) (ex : Option Nat) : Nat → List Info → Prop
  | _, [] => True
  | i, e :: l => e.idx = i ∧ g.h[i]? = some e.w ∧
      (∀ r, e.res = some r → ResOk c g.h e.w ((g.h.take i).count e.w) r ∧ r.idx = i ∧
        (g.h.take i).count e.w < g.arr e.w) ∧
      (e.res = none → ex ≠ some i → g.arr e.w ≤ (g.h.take i).count e.w) ∧ InfoI c g ex (i + 1) l

structure MidI (c : Cfg) (s : State) (g : Ghost) (ex : Option Nat) : Prop where
  hlen : g.h.length = s.sendIdx
  cyc : s.cyc < c.W
  own : ∀ (i w : Nat), g.h[i]? = some w → w < c.W
  ptrUp : ∀ w, w < c.W → up s w = true → g.h.count w = turns g.rho s.cyc w
  ptrDn : ∀ w, w < c.W → up s w = false → bOf c w + 1 ≤ g.h.count w ∧ g.h.count w ≤ turns g.rho s.cyc w
  live : livePairs c g.h ++ liveFrom c g.rho s.cyc = liveFrom c 0 0
  len : s.rcvdIdx + s.info.length = s.sendIdx
  info : InfoI c g ex s.rcvdIdx s.info
  cons : ∀ (i w : Nat), i < s.rcvdIdx → g.h[i]? = some w →
    (g.h.take i).count w < g.arr w ∨ bOf c w < (g.h.take i).count w
  st : ∀ w, w < c.W → (up s w = true ↔ g.arr w ≤ bOf c w)
  arrle : ∀ w, w < c.W → g.arr w ≤ bOf c w + 1
  slen : s.status.length = c.W
  wlen : s.workers.length = c.W
  wk : ∀ (w : Nat) (k : Worker), s.workers[w]? = some k →
    QChain g.h w (g.tk w) (taskIdxs k.q) ∧ g.tk w + (taskIdxs k.q).length = g.h.count w ∧
    k.pos = min (g.tk w) (bOf c w) ∧ (k.iterEnd = true ↔ bOf c w < g.tk w) ∧ Msg.resume ∉ k.q
  rq : ∀ w, w < c.W → RChain c g.h w (g.arr w) (s.resQ.filter (fun r => r.w == w)) ∧
    g.arr w + (s.resQ.filter (fun r => r.w == w)).length = min (g.tk w) (bOf c w + 1)
  rqw : ∀ r ∈ s.resQ, r.w < c.W

/-- Task `i` is a *witness*: not yet consumed, live, and either a data task or an end-of-shard task whose
notice has not arrived — i.e. it will still trigger a `_try_put_index`. -/
def Wit (c : Cfg) (s : State) (g : Ghost) (i : Nat) : Prop :=
  s.rcvdIdx ≤ i ∧ ∃ w, g.h[i]? = some w ∧
    ((g.h.take i).count w < bOf c w ∨ ((g.h.take i).count w = bOf c w ∧ g.arr w ≤ bOf c w))

/-- While some worker is still expected to work there is a witness (so the epoch cannot end early). -/
def LiveI (c : Cfg) (s : State) (g : Ghost) : Prop :=
  (∃ v, v < c.W ∧ up s v = true) → ∃ i, Wit c s g i

theorem exists_seq (h : List Nat) (w j : Nat) (hj : j < h.count w) :
    ∃ i, h[i]? = some w ∧ (h.take i).count w = j := by
  induction h using snoc_induction with
  | nil => simp at hj
  | snoc h v ih =>
    rw [List.count_append, List.count_singleton] at hj
    by_cases hlt : j < h.count w
    · obtain ⟨i, h1, h2⟩ := ih hlt
      exact ⟨i, getElem?_snoc_of_some h v w i h1, by rw [take_snoc_of_some h v w i h1]; exact h2⟩
    · have hvw : (v == w) = true := by
        by_cases hh : (v == w) = true
        · exact hh
        · simp only [hh, Bool.false_eq_true, if_false] at hj; omega
      have hv : v = w := by simpa using hvw
      simp only [hvw, if_true] at hj
      refine ⟨h.length, by simp [hv], ?_⟩
      rw [List.take_left' rfl]
      omega

theorem taskIdxs_append (a b : List Msg) : taskIdxs (a ++ b) = taskIdxs a ++ taskIdxs b := by
  induction a with
  | nil => rfl
  | cons m a ih => cases m <;> simp [taskIdxs, ih]

theorem InfoI_snoc_hist (c : Cfg) (g : Ghost) (ex : Option Nat) (v i : Nat) (l : List Info) (h : InfoI c g ex i l) :
    InfoI c { g with h := g.h ++ [v] } ex i l := by
  induction l generalizing i with
  | nil => trivial
  | cons e l ih =>
    obtain ⟨h1, h2, h3, h4, h5⟩ := h
    have ht : (g.h ++ [v]).take i = g.h.take i := take_snoc_of_some g.h v e.w i h2
    refine ⟨h1, getElem?_snoc_of_some g.h v e.w i h2, ?_, ?_, ih _ h5⟩
    · intro r hr
      obtain ⟨a1, a2, a3⟩ := h3 r hr
      simp only [ht]
      exact ⟨ResOk_snoc c g.h v e.w _ r a1, a2, a3⟩
    · intro hn hx; simp only [ht]; exact h4 hn hx

theorem InfoI_append (c : Cfg) (g : Ghost) (ex : Option Nat) (i : Nat) (l : List Info) (e : Info) (h : InfoI c g ex i l)
    (he : InfoI c g ex (i + l.length) [e]) : InfoI c g ex i (l ++ [e]) := by
  induction l generalizing i with
  | nil => simpa using he
  | cons x l ih =>
    obtain ⟨h1, h2, h3, h4, h5⟩ := h
    refine ⟨h1, h2, h3, h4, ih _ h5 ?_⟩
    simp only [List.length_cons] at he
    rw [Nat.add_assoc, Nat.add_comm 1]; exact he

theorem InfoI_of_eq (c : Cfg) (g g' : Ghost) (ex : Option Nat) (i : Nat) (l : List Info) (h : InfoI c g ex i l)
    (e1 : g'.h = g.h) (e2 : g'.arr = g.arr) : InfoI c g' ex i l := by
  induction l generalizing i with
  | nil => trivial
  | cons e l ih =>
    obtain ⟨h1, h2, h3, h4, h5⟩ := h
    exact ⟨h1, by rw [e1]; exact h2, by rw [e1, e2]; exact h3, by rw [e1, e2]; exact h4, ih _ h5⟩

theorem tryPut_iter (c : Cfg) (s : State) (ρ : Nat) (hit : c.iterable = true) (hio : c.inOrder = true)
    (hc : s.cyc < c.W) :
    tryPut c s = (match (scan c s c.W ρ s.cyc).1 with
      | none => { s with samplerPos := s.samplerPos + 1, cyc := (scan c s c.W ρ s.cyc).2.2,
                         bad := s.bad || decide (c.P * c.W ≤ s.outstanding) }
      | some w => dispatchTo c s w (scan c s c.W ρ s.cyc).2.2) := by
  unfold tryPut
  simp only [hit, Bool.not_true, Bool.false_and, Bool.false_eq_true, if_false]
  rw [findWorker_scan c s c.W ρ s.cyc hio hc]
  cases (scan c s c.W ρ s.cyc).1 <;> rfl

/-- `_try_put_index` preserves the invariant; the ghost history grows by at most the new task's owner,
`arr` and `tk` are untouched. -/
theorem MidI_tryPut (c : Cfg) (s : State) (g : Ghost) (ex : Option Nat) (hit : c.iterable = true)
    (hio : c.inOrder = true) (h : MidI c s g ex) :
    ∃ g', MidI c (tryPut c s) g' ex ∧ g'.arr = g.arr ∧ g'.tk = g.tk ∧
      (g'.h = g.h ∨ ∃ v, g'.h = g.h ++ [v]) ∧ LiveI c (tryPut c s) g' := by
  have hdn : ∀ u, u < c.W → up s u = false → bOf c u < turns g.rho s.cyc u := by
    intro u hu hd; have := h.ptrDn u hu hd; omega
  have hs := scan_spec c s c.W g.rho s.cyc h.cyc hdn
  rw [tryPut_iter c s g.rho hit hio h.cyc]
  generalize hres : scan c s c.W g.rho s.cyc = res at hs
  obtain ⟨f, ρ', a'⟩ := res
  cases f with
  | none =>
    simp only
    have hall := scan_none_all_down c s g.rho s.cyc h.cyc (by rw [hres])
    refine ⟨{ g with rho := ρ' }, ?_, rfl, rfl, Or.inl rfl, ?_⟩
    rotate_left
    · rintro ⟨v, hv, hvu⟩
      have hvu' : up s v = true := hvu
      rw [hall v hv] at hvu'; cases hvu'
    constructor
    · exact h.hlen
    · exact hs.lt
    · exact h.own
    · intro w hw hu
      have hu' : up s w = true := hu
      simp only
      rw [hs.upSame w hw hu' (by simp)]
      exact h.ptrUp w hw hu'
    · intro w hw hu
      have hu' : up s w = false := hu
      have := h.ptrDn w hw hu'
      have := hs.mono w hw
      simp only at *
      omega
    · simp only; rw [← hs.notFound rfl]; exact h.live
    · exact h.len
    · exact InfoI_of_eq c g _ _ _ _ h.info rfl rfl
    · exact h.cons
    · exact h.st
    · exact h.arrle
    · exact h.slen
    · exact h.wlen
    · exact h.wk
    · exact h.rq
    · exact h.rqw
  | some v =>
    obtain ⟨hv, hvu, hvt, hvl⟩ := hs.found v rfl
    simp only at hvt hvl ⊢
    refine ⟨{ g with h := g.h ++ [v], rho := ρ' }, ?_, rfl, rfl, Or.inr ⟨v, rfl⟩, ?_⟩
    rotate_left
    · intro _
      have harr : g.arr v ≤ bOf c v := (h.st v hv).mp hvu
      have hrs : s.rcvdIdx ≤ g.h.length := by rw [h.hlen]; have := h.len; omega
      by_cases hlive : g.h.count v ≤ bOf c v
      · refine ⟨g.h.length, by simp [dispatchTo]; exact hrs, v, by simp, ?_⟩
        simp only [List.take_left' rfl]
        rcases Nat.lt_or_ge (g.h.count v) (bOf c v) with hh | hh
        · exact Or.inl hh
        · exact Or.inr ⟨by omega, harr⟩
      · obtain ⟨i, hi1, hi2⟩ := exists_seq g.h v (bOf c v) (by omega)
        have hge : s.rcvdIdx ≤ i := by
          rcases Nat.lt_or_ge i s.rcvdIdx with hh | hh
          · rcases h.cons i v hh hi1 with h1 | h1 <;> omega
          · exact hh
        refine ⟨i, by simp [dispatchTo]; exact hge, v, getElem?_snoc_of_some _ _ _ _ hi1, Or.inr ⟨?_, harr⟩⟩
        simp only
        rw [take_snoc_of_some _ _ _ _ hi1]; exact hi2
    have hup : ∀ w, up (dispatchTo c s v a') w = up s w := fun _ => rfl
    have hcv : g.h.count v = turns g.rho s.cyc v := h.ptrUp v hv hvu
    obtain ⟨kv, hkv⟩ : ∃ kv, s.workers[v]? = some kv :=
      ⟨_, List.getElem?_eq_getElem (by rw [h.wlen]; exact hv)⟩
    have harrv : g.arr v ≤ g.h.count v := by
      have h1 := (h.rq v hv).2
      have h2 := (h.wk v kv hkv).2.1
      omega
    constructor
    · simp [dispatchTo, h.hlen]
    · exact hs.lt
    · intro i w hi
      simp only at hi
      by_cases hlt : i < g.h.length
      · rw [List.getElem?_append_left hlt] at hi; exact h.own i w hi
      · have : i = g.h.length := by
          have := (List.getElem?_eq_some_iff.mp hi).1; simp at this; omega
        subst this
        simp at hi; subst hi; exact hv
    · intro w hw hu
      rw [hup] at hu
      simp only [dispatchTo, List.count_append]
      by_cases hwv : w = v
      · subst hwv; simp [hvt, hcv]
      · have hne : (scan c s c.W g.rho s.cyc).1 = (scan c s c.W g.rho s.cyc).1 := rfl
        have := hs.upSame w hw hu (by simp; exact fun h => hwv h.symm)
        simp only at this
        rw [this, List.count_singleton]
        have : (v == w) = false := by simp; exact fun h => hwv h.symm
        simp [this, h.ptrUp w hw hu]
    · intro w hw hu
      rw [hup] at hu
      have hwv : w ≠ v := fun hh => by rw [hh, hvu] at hu; cases hu
      have := h.ptrDn w hw hu
      have hm := hs.mono w hw
      simp only [dispatchTo, List.count_append, List.count_singleton] at *
      have : (v == w) = false := by simp; exact fun h => hwv h.symm
      simp only [this]
      simp
      omega
    · simp only [dispatchTo]
      rw [livePairs_snoc, hcv, List.append_assoc, ← hvl]
      exact h.live
    · simp [dispatchTo]; have := h.len; omega
    · simp only [dispatchTo]
      have hold := InfoI_snoc_hist c g ex v _ _ h.info
      have hold' : InfoI c { g with h := g.h ++ [v], rho := ρ' } ex s.rcvdIdx s.info :=
        InfoI_of_eq c _ _ _ _ _ hold rfl rfl
      refine InfoI_append c _ _ _ _ _ hold' ?_
      have hidx : s.rcvdIdx + s.info.length = g.h.length := by rw [h.len, h.hlen]
      refine ⟨by rw [h.len], ?_, ?_, ?_, trivial⟩
      · simp only [hidx]; simp
      · intro r hr; cases hr
      · intro _ _
        simp only [hidx, List.take_left']
        exact harrv
    · intro i w hi hw
      simp only [dispatchTo] at hi hw ⊢
      have hlt : i < g.h.length := by have := h.len; rw [h.hlen]; omega
      rw [List.getElem?_append_left hlt] at hw
      rw [List.take_append_of_le_length (by omega)]
      exact h.cons i w hi hw
    · intro w hw; rw [hup]; exact h.st w hw
    · exact h.arrle
    · exact h.slen
    · simp [dispatchTo, pushMsg, h.wlen]
    · intro w k hk
      simp only [dispatchTo] at hk
      obtain ⟨k0, hk0, e1, e2, _, e4⟩ := pushMsg_get _ _ _ _ _ hk
      obtain ⟨q1, q2, q3, q4, q5⟩ := h.wk w k0 hk0
      simp only
      by_cases hwv : v = w
      · subst hwv
        simp only [if_true] at e4
        rw [e4, taskIdxs_append]
        simp only [taskIdxs, List.length_append, List.length_singleton, List.count_append, List.count_singleton,
          beq_self_eq_true, if_true]
        refine ⟨?_, by omega, by rw [e1]; exact q3, by rw [e2]; exact q4, ?_⟩
        · apply QChain_snoc _ _ _ _ _ (QChain_snoc_hist g.h v v _ _ q1)
          · rw [← h.hlen]; simp
          · rw [← h.hlen]; simp; omega
        · simp [q5]
      · simp only [hwv, if_false] at e4
        rw [e4]
        have : (v == w) = false := by simp [hwv]
        simp only [List.count_append, List.count_singleton, this]
        exact ⟨QChain_snoc_hist g.h v w _ _ q1, by simpa using q2, by rw [e1]; exact q3, by rw [e2]; exact q4, q5⟩
    · intro w hw
      obtain ⟨r1, r2⟩ := h.rq w hw
      exact ⟨RChain_snoc_hist c g.h v w _ _ r1, r2⟩
    · exact h.rqw

end TDV.MP
