import TorchDataVerif.Proofs.PMProgress
/-! The two situations in which `next()` used to poll forever (C11-a, C11-b; repaired in f3c1516 / ac1bf0c), as concrete
reachable states of the model: only timeouts are enabled there, and ONE timeout step of the consumer now leads out. -/
namespace TDV.PM

/-- Boolean form of `CanMove` over the finite action list. -/
def canMoveB (c : Cfg) (s : State) : Bool :=
  (allActions c).any (fun a => !a.isTimeout && (step c s a).isSome)

theorem mem_allActions_of_enabled {c : Cfg} {s : State} (hlen : s.wk.length = c.N) {a : Action}
    (h : (step c s a).isSome = true) : a ∈ allActions c := by
  have hw : ∀ i, (s.wk[i]?).isSome = true → i < c.N := by
    intro i hi
    rw [← hlen]
    rcases Option.isSome_iff_exists.mp hi with ⟨p, hp⟩
    exact (List.getElem?_eq_some_iff.mp hp).1
  have hmem : ∀ i, i < c.N → ∀ b, b ∈ [Action.wIsSet i, .wEmpty i, .wGet i, .wGetT i, .wPut i, .wDie i] → b ∈ allActions c := by
    intro i hi b hb
    simp only [allActions, List.mem_append, List.mem_flatMap, List.mem_range]
    exact Or.inr ⟨i, hi, hb⟩
  cases a
  case wIsSet i =>
    apply hmem i (hw i ?_) _ (by simp)
    simp only [step, stepW] at h
    split at h <;> simp_all
  case wEmpty i =>
    apply hmem i (hw i ?_) _ (by simp)
    simp only [step, stepW] at h
    split at h <;> simp_all
  case wGet i =>
    apply hmem i (hw i ?_) _ (by simp)
    simp only [step, stepW] at h
    split at h <;> simp_all
  case wGetT i =>
    apply hmem i (hw i ?_) _ (by simp)
    simp only [step, stepW] at h
    split at h <;> simp_all
  case wPut i =>
    apply hmem i (hw i ?_) _ (by simp)
    simp only [step, stepW] at h
    split at h <;> simp_all
  case wDie i =>
    apply hmem i (hw i ?_) _ (by simp)
    simp only [step, stepW] at h
    split at h
    · split at h <;> simp_all
    · simp at h
  all_goals simp [allActions]

theorem canMove_iff {c : Cfg} {s : State} (hlen : s.wk.length = c.N) : CanMove c s ↔ canMoveB c s = true := by
  unfold CanMove canMoveB
  rw [List.any_eq_true]
  constructor
  · rintro ⟨a, h1, h2⟩
    exact ⟨a, mem_allActions_of_enabled hlen h2, by simp [h1, h2]⟩
  · rintro ⟨a, _, h⟩
    simp at h
    exact ⟨a, h.1, h.2⟩

/-! ### closed sets of states: "forever" -/

def succs (c : Cfg) (s : State) : List State := (allActions c).filterMap (step c s)

def isClosed (c : Cfg) (l : List State) : Bool :=
  l.all (fun s => decide (s.wk.length = c.N) && (succs c s).all (fun s' => l.contains s'))

/-- Saturation of a set of states under all actions (bounded number of rounds). -/
def saturate (c : Cfg) : Nat → List State → List State
  | 0, l => l
  | k + 1, l =>
    let new := ((l.flatMap (succs c)).filter (fun s => !l.contains s)).eraseDups
    if new.isEmpty then l else saturate c k (l ++ new)

theorem closed_step {c : Cfg} {l : List State} (hcl : isClosed c l = true) {s s' : State} {a : Action}
    (hs : s ∈ l) (h : step c s a = some s') : s' ∈ l := by
  unfold isClosed at hcl
  rw [List.all_eq_true] at hcl
  have h1 := hcl s hs
  simp only [Bool.and_eq_true, decide_eq_true_eq, List.all_eq_true] at h1
  have ha : a ∈ allActions c := mem_allActions_of_enabled h1.1 (by simp [h])
  have : s' ∈ succs c s := by
    unfold succs
    rw [List.mem_filterMap]
    exact ⟨a, ha, h⟩
  have := h1.2 s' this
  simpa using this

theorem closed_run {c : Cfg} {l : List State} (hcl : isClosed c l = true) :
    ∀ (tr : List Action) {s s' : State}, s ∈ l → run c s tr = some s' → s' ∈ l
  | [], s, s', hs, hr => by simp [run] at hr; subst hr; exact hs
  | a :: tr, s, s', hs, hr => by
    simp only [run] at hr
    cases h : step c s a with
    | none => simp [h] at hr
    | some s1 =>
      simp only [h] at hr
      exact closed_run hcl tr (closed_step hcl hs h) hr

/-! ### C11-a: `next()` after a source error -/

/-- One worker, in order, empty source whose first `next()` raises. -/
def cfgA : Cfg :=
  { N := 1, max := 2, f := 1, inOrder := true, proc := false, src := [], term := .error,
    fn := fun v => some v, base := 0 }

/-- The error travels reader → worker → sorter → consumer, is raised by the first `next()`; the second `next()`
reaches its `get`, and every background thread sits in its blocking wait (the reader has exited). -/
def trA : List Action :=
  [.rInit, .cBoot, .rIsSet, .rAcq, .rEnter, .rLeave, .rPut, .rRet,
   .wIsSet 0, .wGet 0, .wPut 0, .sIsSet, .sGet, .sHave,
   .cCall, .cIsSet, .cMpIsSet, .cChk, .cGet, .cRel,
   .wIsSet 0, .sDrain, .sIsSet,
   .cCall, .cIsSet, .cMpIsSet, .cChk]

def stuckA : Option State := run cfgA (init cfgA) trA

/-! ### C11-b: a worker process dies holding an item -/

def cfgB : Cfg :=
  { N := 1, max := 2, f := 0, inOrder := true, proc := true, src := [5], term := .stop,
    fn := fun v => some v, base := 0 }

def trB : List Action :=
  [.rInit, .cBoot, .rIsSet, .rAcq, .rEnter, .rLeave, .rPut,
   .wIsSet 0, .wGet 0, .wDie 0,
   .rIsSet, .rAcq, .rEnter, .rLeave, .rPut, .rRet,
   .sIsSet,
   .cCall, .cIsSet, .cMpIsSet, .cChk]

def stuckB : Option State := run cfgB (init cfgB) trB

theorem stuckA_isSome : stuckA.isSome = true := by decide
theorem stuckB_isSome : stuckB.isSome = true := by decide

def sA : State := stuckA.get stuckA_isSome
def sB : State := stuckB.get stuckB_isSome

theorem sA_reachable : Reachable cfgA sA := ⟨trA, by unfold sA; exact (Option.some_get _).symm⟩
theorem sB_reachable : Reachable cfgB sB := ⟨trB, by unfold sB; exact (Option.some_get _).symm⟩

theorem sA_facts : sA.cpc = .get ∧ sA.rpc = .exited ∧ sA.errs = 1 ∧ sA.got = [0] ∧ sA.wk = [.get] ∧ sA.spc = .get ∧
    sA.done = false ∧ sA.stop = false ∧ sA.sem = 2 ∧ canMoveB cfgA sA = false := by decide

theorem sB_facts : sB.cpc = .get ∧ sB.rpc = .exited ∧ sB.wk = [.dead] ∧ sB.lost = [0] ∧ sB.spc = .get ∧
    sB.sem = 0 ∧ sB.outs = [] ∧ sB.errs = 0 ∧ canMoveB cfgB sB = false := by decide

/-- After the source error: the consumer's timeout step finds the reader gone and the semaphore full, sets both stop
events and raises StopIteration. -/
theorem sA_returns : (run cfgA sA [.cGetT, .cSet, .cMpSet]).map (fun s => (s.cpc, s.nstop, s.errs, s.rterr, s.stop, s.mpstop)) =
    some (.idle, 1, 1, 0, true, true) := by decide

/-- After the worker's death: the consumer's timeout step finds a worker that is not alive, tests and sets both stop
events and raises RuntimeError. -/
theorem sB_returns :
    (run cfgB sB [.cGetT, .cDeadIsSet, .cDeadMpIsSet, .cDeadSet, .cDeadMpSet]).map
      (fun s => (s.cpc, s.nstop, s.errs, s.rterr, s.stop, s.mpstop)) = some (.idle, 0, 0, 1, true, true) := by decide

end TDV.PM
