import TorchDataVerif.Proofs.MPUSnapLoop
import TorchDataVerif.Proofs.MPUnIterRecv
/-!
# MPU — `take_snapshot_assertion_holds`, iterable: receiving a result (`in_order = True`)
-/
namespace TDV.MPU
open TDV.MP

theorem cOne_some_le (i : Nat) (e : Info) : cOne (some i) e ≤ cOne none e := by
  simp only [cOne, cf]
  by_cases hn : isNote e = true
  · simp [hn]
  · have hn' : isNote e = false := by simpa using hn
    simp only [hn', Bool.not_false, Bool.true_and]
    split <;> simp

theorem cOne_some_ne (i : Nat) (e : Info) (h : e.idx ≠ i) : cOne (some i) e = cOne none e := by
  have : ¬ i = e.idx := fun x => h x.symm
  simp [cOne, cf, this]

theorem cnt_map_le (ex ex' : Option Nat) (f : Info × Nat → Info × Nat) (Z : List (Info × Nat))
    (hf : ∀ z ∈ Z, cOne ex' (f z).1 ≤ cOne ex z.1) : cntZ ex' (Z.map f) ≤ cntZ ex Z := by
  induction Z with
  | nil => simp [cntZ]
  | cons z l ih =>
    rw [List.map_cons, cntZ_cons, cntZ_cons]
    have := hf z (List.mem_cons_self ..)
    have := ih (fun z' hz' => hf z' (List.mem_cons_of_mem _ hz'))
    omega

theorem cnt_some_le (i : Nat) (Z : List (Info × Nat)) : cntZ (some i) Z ≤ cntZ none Z := by
  have := cnt_map_le none (some i) id Z (fun z _ => cOne_some_le i z.1)
  simpa using this

/-- Excluding a counting entry lowers the count. -/
theorem cnt_exclude (i : Nat) (Z : List (Info × Nat)) (h : ∃ z ∈ Z, z.1.idx = i ∧ isNote z.1 = false) :
    cntZ (some i) Z + 1 ≤ cntZ none Z := by
  induction Z with
  | nil => obtain ⟨z, hz, _⟩ := h; cases hz
  | cons z l ih =>
    rw [cntZ_cons, cntZ_cons]
    obtain ⟨z0, hz0, h1, h2⟩ := h
    rcases List.mem_cons.mp hz0 with rfl | hz0'
    · have a1 : cOne (some i) z0.1 = 0 := by simp [cOne, cf, h1]
      have a2 : cOne none z0.1 = 1 := by simp [cOne, cf, h2]
      have := cnt_some_le i l
      omega
    · have := ih ⟨z0, hz0', h1, h2⟩
      have := cOne_some_le i z.1
      omega

/-- Storing the result `r` in the entry of task `i`. -/
def storeZ (i : Nat) (r : Res) (z : Info × Nat) : Info × Nat :=
  (if z.1.idx == i then { z.1 with res := some r } else z.1, z.2)

theorem storeZ_fst (i : Nat) (r : Res) (Z : List (Info × Nat)) :
    (Z.map (storeZ i r)).map Prod.fst = setRes (Z.map Prod.fst) i r := by
  simp only [setRes, List.map_map]
  apply List.map_congr_left
  intro z _
  simp [storeZ]

theorem IdxFrom_setRes (j i : Nat) (r : Res) (l : List Info) (h : IdxFrom j l) : IdxFrom j (setRes l i r) := by
  induction l generalizing j with
  | nil => trivial
  | cons e l ih =>
    simp only [setRes, List.map_cons] at ih ⊢
    refine ⟨?_, ih (j + 1) h.2⟩
    split
    · exact h.1
    · exact h.1

theorem storeZ_idx (i : Nat) (r : Res) (z : Info × Nat) : (storeZ i r z).1.idx = z.1.idx ∧ (storeZ i r z).2 = z.2 := by
  simp only [storeZ]
  split <;> simp

theorem retire_sw_fields (c : Cfg) (s : State) (r : Res) :
    (retireState c s r).info = s.info ∧ (retireState c s r).rcvdIdx = s.rcvdIdx ∧
    (retireState c s r).sendIdx = s.sendIdx ∧ (retireState c s r).numYielded = s.numYielded ∧
    (retireState c s r).mainSnaps = s.mainSnaps := by
  unfold retireState
  by_cases hp : c.persistent = true
  · rw [if_pos hp]; exact ⟨rfl, rfl, rfl, rfl, rfl⟩
  · rw [if_neg hp]; exact ⟨rfl, rfl, rfl, rfl, rfl⟩

/-- Switching the exception on: the task whose notice is being received stops counting. -/
theorem SWk_except (c : Cfg) (s : State) (Z : List (Info × Nat)) (i : Nat) (h : SWk c s Z none 0) :
    SWk c s Z (some i) 0 := by
  refine ⟨h.zi, h.idx, h.len, ?_, Nat.le_trans (cnt_some_le i Z) h.nn, h.kk, h.ms, h.mlt, h.mfl⟩
  have := WinOk_map none (some i) s.numYielded (c.W * c.P) id 0 0 Z (Nat.le_refl _)
    (fun z _ => ⟨rfl, cOne_some_le i z.1⟩) h.win
  simpa using this

theorem SWk_finish (c : Cfg) (p : State × Option Obs) (Z : List (Info × Nat)) (ex : Option Nat) (k : Nat)
    (h : SWk c p.1 Z ex k) : SWk c (finish p) Z ex k := by
  unfold finish
  split <;> exact SWk_of_eq c p.1 _ Z ex k h rfl rfl rfl rfl rfl

theorem fin_loop (c : Cfg) (hit : c.iterable = true) (n : Nat) (t : State) (Z : List (Info × Nat))
    (h : SWk c t Z none 0) (hna : Obs.assertion ∉ t.obs) :
    Obs.assertion ∉ (finish (loop c n t)).obs ∧ ∃ Z', SWk c (finish (loop c n t)) Z' none 0 := by
  obtain ⟨h1, Z', h2⟩ := SW_loop c hit n t Z h
  refine ⟨?_, Z', SWk_finish c _ Z' none 0 h2⟩
  rw [finish_obs, loop_obs]
  intro hm
  rcases List.mem_append.mp hm with h3 | h3
  · exact hna h3
  · cases ho : (loop c n t).2 with
    | none => simp [ho] at h3
    | some o => simp [ho] at h3; exact h1 o ho h3.symm

theorem fin_proc (c : Cfg) (hit : c.iterable = true) (t : State) (Z : List (Info × Nat)) (r : Res) (d : Nat)
    (h : SWk c t Z none 1) (hp : Pend c t d) (hroom : cntZ none Z + 1 ≤ c.W * c.P) (hna : Obs.assertion ∉ t.obs) :
    Obs.assertion ∉ (finish ((processData c t r).1, some (processData c t r).2)).obs ∧
    ∃ Z', SWk c (finish ((processData c t r).1, some (processData c t r).2)) Z' none 0 := by
  obtain ⟨h1, Z', h2⟩ := SW_process c t Z r d hit h hp hroom
  refine ⟨?_, Z', SWk_finish c ((processData c t r).1, some (processData c t r).2) Z' none 0 h2⟩
  rw [finish_obs, processData_obs]
  intro hm
  rcases List.mem_append.mp hm with h3 | h3
  · exact hna h3
  · simp at h3; exact h1 h3.symm

/-- `recvTail` from a state `A` in which the entry of task `r.idx` exists and has no result yet;
`ex = some r.idx` exactly when `r` is an end-of-shard notice. -/
theorem SW_recvTail (c : Cfg) (hit : c.iterable = true) (hio : c.inOrder = true) (A : State) (Z : List (Info × Nat))
    (r : Res) (ex : Option Nat) (h : SWk c A Z ex 0)
    (hex : (r.kind = .notice → ex = some r.idx) ∧ (r.kind ≠ .notice → ex = none))
    (hF1 : ∃ e ∈ A.info, e.idx = r.idx) (hF2 : ∀ e ∈ A.info, e.idx = r.idx → e.res = none)
    (hna : Obs.assertion ∉ A.obs) :
    Obs.assertion ∉ (recvTail c A r).obs ∧ ∃ Z', SWk c (recvTail c A r) Z' none 0 := by
  have hmemZ : ∀ z ∈ Z, z.1 ∈ A.info := fun z hz => by rw [← h.zi]; exact List.mem_map_of_mem hz
  unfold recvTail
  simp only [hio, Bool.not_true, Bool.false_eq_true, if_false]
  split
  · -- out of order: the result is stored
    have hS : SWk c { A with info := setRes A.info r.idx r } (Z.map (storeZ r.idx r)) none 0 := by
      have hpt : ∀ z ∈ Z, ((storeZ r.idx r z).2 = z.2 ∧ cOne none (storeZ r.idx r z).1 ≤ cOne ex z.1) := by
        intro z hz
        refine ⟨(storeZ_idx _ _ z).2, ?_⟩
        by_cases hzi : z.1.idx = r.idx
        · have hres : z.1.res = none := hF2 z.1 (hmemZ z hz) hzi
          by_cases hk : r.kind = .notice
          · have : cOne none (storeZ r.idx r z).1 = 0 := by simp [storeZ, hzi, cOne, cf, isNote, hk]
            omega
          · rw [hex.2 hk]
            have h1 : cOne none z.1 = 1 := by simp [cOne, cf, isNote, hres]
            have h2 : cOne none (storeZ r.idx r z).1 ≤ 1 := by simp only [cOne]; split <;> omega
            omega
        · have hst : (storeZ r.idx r z).1 = z.1 := by simp [storeZ, hzi]
          rw [hst]
          by_cases hk : r.kind = .notice
          · rw [hex.1 hk, cOne_some_ne _ _ hzi]; exact Nat.le_refl _
          · rw [hex.2 hk]; exact Nat.le_refl _
      refine ⟨by rw [storeZ_fst, h.zi], IdxFrom_setRes _ _ _ _ h.idx, by simp only [setRes_length]; exact h.len,
        WinOk_map ex none _ _ _ 0 0 Z (Nat.le_refl _) hpt h.win,
        Nat.le_trans (cnt_map_le ex none _ Z (fun z hz => (hpt z hz).2)) h.nn, Nat.zero_le _, h.ms, h.mlt, ?_⟩
      intro z hz hf
      obtain ⟨z0, hz0, rfl⟩ := List.mem_map.mp hz
      rw [(storeZ_idx _ _ z0).1]
      rw [(storeZ_idx _ _ z0).2] at hf
      exact h.mfl z0 hz0 hf
    exact fin_loop c hit _ _ _ hS hna
  · rename_i heq
    have heq' : r.idx = A.rcvdIdx := by simpa using heq
    -- in place: the head entry is task `r.idx`
    obtain ⟨e, he, hei⟩ := hF1
    cases hi : A.info with
    | nil => rw [hi] at he; cases he
    | cons e0 l =>
      have hidx := h.idx
      rw [hi] at hidx
      obtain ⟨d, Z1, hZ, hZ1⟩ := Z_head Z e0 l (by rw [h.zi, hi])
      subst hZ
      have he0 : e0.res = none := hF2 e0 (by rw [hi]; exact List.mem_cons_self ..) (by rw [hidx.1, heq'])
      have herase : eraseInfo (e0 :: l) r.idx = l := by rw [heq']; exact eraseInfo_headX _ e0 l hidx
      have hlen := h.len
      rw [hi] at hlen
      simp only [List.length_cons] at hlen
      have hgt : ∀ z ∈ Z1, z.1.idx ≠ r.idx := by
        intro z hz
        have : z.1 ∈ l := by rw [← hZ1]; exact List.mem_map_of_mem hz
        have := IdxFrom_ge _ _ hidx.2 z.1 this
        omega
      by_cases hk : r.kind = .notice
      · simp only [hk, if_true]
        have hexs := hex.1 hk
        subst hexs
        have hw := h.win
        have hc0 : cOne (some r.idx) e0 = 0 := by simp [cOne, cf, hidx.1, heq']
        simp only [WinOk, hc0] at hw
        have hnn := h.nn
        rw [cntZ_cons, hc0] at hnn
        have hS : SWk c { A with info := eraseInfo (e0 :: l) r.idx, rcvdIdx := A.rcvdIdx + 1, wsnaps := applyDelta A.wsnaps r.w r.st } Z1 none 0 := by
          refine ⟨by rw [herase]; exact hZ1, by rw [herase]; exact hidx.2, by rw [herase]; simp only; omega, ?_, ?_,
            Nat.zero_le _, h.ms, h.mlt, fun z hz hf => h.mfl z (List.mem_cons_of_mem _ hz) hf⟩
          · have := WinOk_map (some r.idx) none A.numYielded (c.W * c.P) id 0 0 Z1 (Nat.le_refl _)
              (fun z hz => ⟨rfl, by rw [cOne_some_ne _ _ (hgt z hz)]; exact Nat.le_refl _⟩) hw.2
            simpa using this
          · have := cnt_map_le (some r.idx) none id Z1
              (fun z hz => by rw [cOne_some_ne _ _ (hgt z hz)]; exact Nat.le_refl _)
            simp only [List.map_id] at this
            omega
        exact fin_loop c hit _ _ _ hS hna
      · simp only [hk, if_false]
        have hexn := hex.2 hk
        subst hexn
        have hc1 : cOne none e0 = 1 := by simp [cOne, cf, isNote, he0]
        have hw := h.win
        simp only [WinOk, hc1] at hw
        have hnn := h.nn
        rw [cntZ_cons, hc1] at hnn
        have hS : SWk c { A with info := eraseInfo (e0 :: l) r.idx, rcvdIdx := A.rcvdIdx + 1 } Z1 none 1 :=
          ⟨by rw [herase]; exact hZ1, by rw [herase]; exact hidx.2, by rw [herase]; simp only; omega, hw.2,
            by omega, Nat.le_refl _, h.ms, h.mlt, fun z hz hf => h.mfl z (List.mem_cons_of_mem _ hz) hf⟩
        have hP : Pend c { A with info := eraseInfo (e0 :: l) r.idx, rcvdIdx := A.rcvdIdx + 1 } d := by
          refine ⟨by have := hw.1.1; simp only at this ⊢; omega, hw.1.2, by simp, fun hf => ?_⟩
          obtain ⟨x, hx⟩ := h.mfl (e0, d) (List.mem_cons_self ..) hf
          exact ⟨x, by simpa [hidx.1] using hx⟩
        exact fin_proc c hit _ Z1 r d hS hP (by omega) hna

end TDV.MPU
