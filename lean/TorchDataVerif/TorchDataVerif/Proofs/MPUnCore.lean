import TorchDataVerif.Proofs.MPUnFind
/-!
# MPU, `in_order = False`: the protocol invariant shared by map-style and iterable datasets

`_task_info` holds exactly the outstanding tasks (never a stored result: out-of-order results are
processed at once), every task in an index queue of an active worker and every result in the result
queue has its entry, task indices in flight are pairwise distinct, `_workers_num_tasks[w]` counts the
entries of an active worker `w` and never exceeds the capacity `max_tasks // sum(_workers_status)`.
-/
namespace TDV.MPU
open TDV.MP

def qIdxs (ws : List Worker) : List Nat := ws.flatMap (fun k => taskIdxs k.q)

/-- Task indices in flight: queued tasks of all workers, then the result queue. -/
def flight (s : State) : List Nat := qIdxs s.workers ++ s.resQ.map (·.idx)

def entriesOf (info : List Info) (w : Nat) : Nat := (info.filter (fun e => e.w == w)).length

structure UCore (c : Cfg) (s : State) : Prop where
  stl : s.status.length = c.W
  ntl : s.numTasks.length = c.W
  wl : s.workers.length = c.W
  cyc : s.cyc < c.W
  rs : s.rcvdIdx ≤ s.sendIdx
  rnone : ∀ e ∈ s.info, e.res = none
  ind : (s.info.map (·.idx)).Nodup
  irng : ∀ e ∈ s.info, s.rcvdIdx ≤ e.idx ∧ e.idx < s.sendIdx ∧ e.w < c.W
  cnt : ∀ w, w < c.W → up s w = true → s.numTasks.getD w 0 = entriesOf s.info w
  cap : ∀ w, w < c.W → up s w = true → s.numTasks.getD w 0 ≤ capOf c s
  fnd : (flight s).Nodup
  flt : ∀ i ∈ flight s, i < s.sendIdx
  fq : ∀ (w : Nat) (k : Worker), s.workers[w]? = some k → up s w = true →
    ∀ i ∈ taskIdxs k.q, (⟨i, w, none⟩ : Info) ∈ s.info
  fr : ∀ r ∈ s.resQ, up s r.w = true → (⟨r.idx, r.w, none⟩ : Info) ∈ s.info
  nores : ∀ (w : Nat) (k : Worker), s.workers[w]? = some k → Msg.resume ∉ k.q
  rw : ∀ r ∈ s.resQ, r.w < c.W ∧ r.kind ≠ .ack

theorem UCore_of_eq (c : Cfg) (s s' : State) (h : UCore c s) (e1 : s'.status = s.status)
    (e2 : s'.numTasks = s.numTasks) (e3 : s'.workers = s.workers) (e4 : s'.cyc < c.W) (e5 : s'.info = s.info)
    (e6 : s'.rcvdIdx = s.rcvdIdx) (e7 : s'.sendIdx = s.sendIdx) (e8 : s'.resQ = s.resQ) : UCore c s' := by
  have hup : ∀ w, up s' w = up s w := fun w => by simp [up, e1]
  have hcap : capOf c s' = capOf c s := by simp [capOf, e1]
  have hfl : flight s' = flight s := by simp [flight, e3, e8]
  constructor
  · rw [e1]; exact h.stl
  · rw [e2]; exact h.ntl
  · rw [e3]; exact h.wl
  · exact e4
  · rw [e6, e7]; exact h.rs
  · rw [e5]; exact h.rnone
  · rw [e5]; exact h.ind
  · rw [e5, e6, e7]; exact h.irng
  · intro w hw hu; rw [e2, e5]; exact h.cnt w hw (by rw [← hup]; exact hu)
  · intro w hw hu; rw [e2, hcap]; exact h.cap w hw (by rw [← hup]; exact hu)
  · rw [hfl]; exact h.fnd
  · rw [hfl, e7]; exact h.flt
  · intro w k hk hu; rw [e5]; exact h.fq w k (by rw [← e3]; exact hk) (by rw [← hup]; exact hu)
  · intro r hr hu; rw [e5]; exact h.fr r (by rw [← e8]; exact hr) (by rw [← hup]; exact hu)
  · intro w k hk; exact h.nores w k (by rw [← e3]; exact hk)
  · rw [e8]; exact h.rw

/-! ## list lemmas -/

theorem taskIdxs_append (a b : List Msg) : taskIdxs (a ++ b) = taskIdxs a ++ taskIdxs b := by
  induction a with
  | nil => rfl
  | cons m a ih => cases m <;> simp [taskIdxs, ih]

theorem qIdxs_push (ws : List Worker) (w i p : Nat) (sn : Bool) (hw : w < ws.length) :
    (qIdxs (pushMsg ws w (.task i p sn))).Perm (i :: qIdxs ws) := by
  induction ws generalizing w with
  | nil => simp at hw
  | cons k ws ih =>
    cases w with
    | zero =>
      simp only [pushMsg, List.modify_zero_cons, qIdxs, List.flatMap_cons, taskIdxs_append, taskIdxs]
      rw [List.append_assoc]
      exact List.perm_middle
    | succ w =>
      simp only [List.length_cons] at hw
      have := ih w (by omega)
      simp only [pushMsg, List.modify_succ_cons, qIdxs, List.flatMap_cons] at this ⊢
      exact (List.Perm.append_left _ this).trans List.perm_middle

theorem qIdxs_push_other (ws : List Worker) (w : Nat) (m : Msg) (hm : taskIdxs [m] = []) :
    qIdxs (pushMsg ws w m) = qIdxs ws := by
  induction ws generalizing w with
  | nil => simp [pushMsg, qIdxs]
  | cons k ws ih =>
    cases w with
    | zero =>
      simp only [pushMsg, List.modify_zero_cons, qIdxs, List.flatMap_cons, taskIdxs_append, hm, List.append_nil]
    | succ w =>
      have := ih w
      simp only [pushMsg, List.modify_succ_cons, qIdxs, List.flatMap_cons] at this ⊢
      rw [this]

/-- Worker `w` takes the head of its queue: the flight list loses that task index (if it is a task). -/
theorem qIdxs_set (ws : List Worker) (w : Nat) (k k' : Worker) (hk : ws[w]? = some k) (pre : List Nat)
    (hq : taskIdxs k.q = pre ++ taskIdxs k'.q) : (qIdxs ws).Perm (pre ++ qIdxs (ws.set w k')) := by
  induction ws generalizing w with
  | nil => simp at hk
  | cons a ws ih =>
    cases w with
    | zero =>
      simp at hk; subst hk
      simp only [List.set_cons_zero, qIdxs, List.flatMap_cons, hq, List.append_assoc]
      exact List.Perm.refl _
    | succ w =>
      have := ih w (by simpa using hk)
      simp only [List.set_cons_succ, qIdxs, List.flatMap_cons] at this ⊢
      refine (List.Perm.append_left _ this).trans ?_
      rw [← List.append_assoc, ← List.append_assoc]
      exact List.Perm.append_right _ List.perm_append_comm

theorem mem_qIdxs (ws : List Worker) (i : Nat) :
    i ∈ qIdxs ws ↔ ∃ (w : Nat) (k : Worker), ws[w]? = some k ∧ i ∈ taskIdxs k.q := by
  simp only [qIdxs, List.mem_flatMap]
  constructor
  · rintro ⟨k, hk, hi⟩
    obtain ⟨w, hw⟩ := List.mem_iff_getElem?.mp hk
    exact ⟨w, k, hw, hi⟩
  · rintro ⟨w, k, hk, hi⟩
    exact ⟨k, List.mem_of_getElem? hk, hi⟩

theorem idx_inj (l : List Info) (h : (l.map (·.idx)).Nodup) (a b : Info) (ha : a ∈ l) (hb : b ∈ l)
    (he : a.idx = b.idx) : a = b := by
  induction l with
  | nil => cases ha
  | cons x l ih =>
    simp only [List.map_cons, List.nodup_cons, List.mem_map, not_exists, not_and] at h
    rcases List.mem_cons.mp ha with rfl | ha' <;> rcases List.mem_cons.mp hb with rfl | hb'
    · rfl
    · exact absurd he.symm (h.1 b hb')
    · exact absurd he (h.1 a ha')
    · exact ih h.2 ha' hb'

theorem entriesOf_append (l : List Info) (e : Info) (w : Nat) :
    entriesOf (l ++ [e]) w = entriesOf l w + (if e.w = w then 1 else 0) := by
  simp only [entriesOf, List.filter_append, List.length_append]
  by_cases h : e.w = w
  · simp [List.filter, h]
  · have : (e.w == w) = false := by simp [h]
    simp [List.filter, this, h]

end TDV.MPU
