import TorchDataVerif.Proofs.MPRISlots
/-!
# MPRI — what a consumed prefix of the live sequence says about every worker

`E` = the live `(worker, seq)` pairs consumed so far (a prefix of `liveFrom c 0 0`).  `posE`, `endE`: the
ideal state of a worker; `sinceE c E w`: the number of data pairs after the last pair of `w`; the round-robin
bound `sinceE < W` as long as `w`'s end-of-shard pair has not been consumed.
-/
namespace TDV.MPRI
open TDV.MP

/-- No fetch of any shard raises. -/
def ShardsOk (c : Cfg) : Prop := ∀ (w j : Nat), (c.shards.getD w [])[j]? ≠ some Item.err

/-- a data pair (its fetch answers) -/
def isD (c : Cfg) (p : Nat × Nat) : Bool := decide (p.2 < bOf c p.1)

def ndE (c : Cfg) (E : List (Nat × Nat)) : Nat := E.countP (isD c)

def posE (c : Cfg) (E : List (Nat × Nat)) (w : Nat) : Nat := E.countP (fun p => p.1 == w && isD c p)

def endE (c : Cfg) (E : List (Nat × Nat)) (w : Nat) : Bool := E.any (fun p => p.1 == w && p.2 == bOf c w)

/-- ideal worker state after the consumed pairs `E`; `e0 w`: the worker had ended before (restore). -/
def idealE (c : Cfg) (e0 : Nat → Bool) (E : List (Nat × Nat)) (w : Nat) : WSt := ⟨posE c E w, endE c E w || e0 w⟩

def sinceR (c : Cfg) (w : Nat) : List (Nat × Nat) → Nat
  | [] => 0
  | p :: r => if p.1 = w then 0 else (if isD c p then 1 else 0) + sinceR c w r

def sinceE (c : Cfg) (E : List (Nat × Nat)) (w : Nat) : Nat := sinceR c w E.reverse

theorem ndE_snoc (c : Cfg) (E : List (Nat × Nat)) (p : Nat × Nat) :
    ndE c (E ++ [p]) = ndE c E + (if isD c p then 1 else 0) := by
  simp [ndE, List.countP_append, List.countP_cons]

theorem posE_snoc (c : Cfg) (E : List (Nat × Nat)) (p : Nat × Nat) (w : Nat) :
    posE c (E ++ [p]) w = posE c E w + (if p.1 = w ∧ isD c p = true then 1 else 0) := by
  simp only [posE, List.countP_append, List.countP_cons, List.countP_nil, Nat.zero_add]
  congr 1
  by_cases h1 : p.1 = w <;> by_cases h2 : isD c p = true <;> simp [h1, h2]

theorem endE_snoc (c : Cfg) (E : List (Nat × Nat)) (p : Nat × Nat) (w : Nat) :
    endE c (E ++ [p]) w = (endE c E w || (p.1 == w && p.2 == bOf c w)) := by
  simp [endE, List.any_append]

theorem sinceE_snoc (c : Cfg) (E : List (Nat × Nat)) (p : Nat × Nat) (w : Nat) :
    sinceE c (E ++ [p]) w = if p.1 = w then 0 else (if isD c p then 1 else 0) + sinceE c E w := by
  simp [sinceE, sinceR]

theorem sinceE_nil (c : Cfg) (w : Nat) : sinceE c [] w = 0 := rfl

/-- `E` split at the last pair of `w`. -/
theorem since_decomp (c : Cfg) (E : List (Nat × Nat)) (w : Nat) :
    (∃ A j T, E = A ++ (w, j) :: T ∧ (∀ p ∈ T, p.1 ≠ w) ∧ sinceE c E w ≤ T.length) ∨
    ((∀ p ∈ E, p.1 ≠ w) ∧ sinceE c E w ≤ E.length) := by
  induction E using snoc_induction with
  | nil => exact Or.inr ⟨(fun p hp => by cases hp), by simp [sinceE_nil]⟩
  | snoc E p ih =>
    rw [sinceE_snoc]
    by_cases hp : p.1 = w
    · left
      refine ⟨E, p.2, [], ?_, (fun q hq => by cases hq), by simp [hp]⟩
      rw [← hp]
    · simp only [hp, if_false]
      have h1 : (if isD c p = true then 1 else 0) ≤ 1 := by split <;> omega
      rcases ih with ⟨A, j, T, hE, hT, hs⟩ | ⟨hE, hs⟩
      · left
        refine ⟨A, j, T ++ [p], by rw [hE]; simp, ?_, by simp; omega⟩
        intro q hq
        rcases List.mem_append.mp hq with h | h
        · exact hT q h
        · simp at h; subst h; exact hp
      · right
        refine ⟨?_, by simp; omega⟩
        intro q hq
        rcases List.mem_append.mp hq with h | h
        · exact hE q h
        · simp at h; subst h; exact hp

theorem sorted_len (W : Nat) (l : List (Nat × Nat)) (lo hi : Nat) (hs : Sorted W l)
    (hb : ∀ p ∈ l, lo ≤ sig W p ∧ sig W p < hi) : l.length + lo ≤ hi ∨ l = [] := by
  induction l generalizing lo with
  | nil => exact Or.inr rfl
  | cons p r ih =>
    left
    unfold Sorted at hs
    rw [List.pairwise_cons] at hs
    have hp := hb p (List.mem_cons_self ..)
    rcases ih (sig W p + 1) hs.2 (fun q hq => ⟨hs.1 q hq, (hb q (List.mem_cons_of_mem _ hq)).2⟩) with h | h
    · simp only [List.length_cons]; omega
    · subst h; simp; omega

theorem endE_false (c : Cfg) (E : List (Nat × Nat)) (w : Nat) (h : endE c E w = false) :
    (w, bOf c w) ∉ E := by
  intro hm
  have : endE c E w = true := by
    simp only [endE, List.any_eq_true]
    exact ⟨_, hm, by simp⟩
  rw [h] at this; cases this

/-- **Round-robin bound.**  As long as the end-of-shard pair of `w` has not been consumed, fewer than `W`
data pairs have been consumed since `w`'s last pair. -/
theorem since_lt (c : Cfg) (E R : List (Nat × Nat)) (w : Nat) (hE : E ++ R = liveFrom c 0 0) (hw : w < c.W)
    (hend : endE c E w = false) : sinceE c E w + 1 ≤ c.W := by
  have hsort := live0_sorted c
  rw [← hE] at hsort
  have hnot := endE_false c E w hend
  rcases since_decomp c E w with ⟨A, j, T, hA, hT, hs⟩ | ⟨hno, hs⟩
  · subst hA
    have hmem : (w, j) ∈ liveFrom c 0 0 := by rw [← hE]; simp
    have hj := ((mem_live0 c _).mp hmem).2
    simp only at hj
    have hjne : j ≠ bOf c w := fun h => hnot (by rw [← h]; simp)
    have hnext : (w, j + 1) ∈ liveFrom c 0 0 := (mem_live0 c _).mpr ⟨hw, by simp only; omega⟩
    rw [← hE] at hnext
    unfold Sorted at hsort
    rw [List.append_assoc, List.pairwise_append] at hsort
    obtain ⟨_, h2, h3⟩ := hsort
    -- h2 : ((w,j) :: T ++ R) sorted
    rw [List.cons_append, List.pairwise_cons, List.pairwise_append] at h2
    obtain ⟨h4, h5, _, h7⟩ := h2
    have hR : (w, j + 1) ∈ R := by
      simp only [List.mem_append, List.mem_cons] at hnext
      rcases hnext with (h | h | h) | h
      · have := h3 _ h (w, j) (by simp)
        simp only [sig] at this
        have : j * c.W ≤ (j + 1) * c.W := Nat.mul_le_mul_right _ (by omega)
        omega
      · simp at h
      · exact absurd rfl (hT _ h)
      · exact h
    have hb : ∀ p ∈ T, sig c.W (w, j) + 1 ≤ sig c.W p ∧ sig c.W p < sig c.W (w, j + 1) := by
      intro p hp
      exact ⟨h4 p (List.mem_append_left _ hp), h7 p hp _ hR⟩
    have hsig : sig c.W (w, j + 1) = sig c.W (w, j) + c.W := by
      simp only [sig, Nat.add_mul, Nat.one_mul]; omega
    rcases sorted_len c.W T _ _ h5 hb with h | h
    · omega
    · subst h; simp at hs; omega
  · have h0 : (w, 0) ∈ liveFrom c 0 0 := (mem_live0 c _).mpr ⟨hw, Nat.zero_le _⟩
    rw [← hE] at h0
    have hR : (w, 0) ∈ R := by
      rcases List.mem_append.mp h0 with h | h
      · exact absurd rfl (hno _ h)
      · exact h
    unfold Sorted at hsort
    rw [List.pairwise_append] at hsort
    obtain ⟨h1, _, h3⟩ := hsort
    have hb : ∀ p ∈ E, 0 ≤ sig c.W p ∧ sig c.W p < w := by
      intro p hp
      have := h3 p hp _ hR
      simp only [sig] at this ⊢
      omega
    rcases sorted_len c.W E 0 w h1 hb with h | h
    · omega
    · subst h; simp at hs; omega

end TDV.MPRI
