import TorchDataVerif.Proofs.MPRISlots
/-!
# MPRI — what a consumed prefix of the live sequence says about every worker

`E` = the live `(worker, seq)` pairs consumed so far (a prefix of `liveFrom c 0 0`).  `posE`, `endE`: the
ideal state of a worker; `sinceE c E w`: the number of data pairs after the last pair of `w`; the round-robin
bound `sinceE < W` as long as `w`'s end-of-shard pair has not been consumed.
-/
namespace TDV.MPRI
open TDV.MP

/-- a data pair (its fetch answers) -/
def isD (c : Cfg) (p : Nat × Nat) : Bool := decide (p.2 < bOf c p.1)

def ndE (c : Cfg) (E : List (Nat × Nat)) : Nat := E.countP (isD c)

def posE (c : Cfg) (E : List (Nat × Nat)) (w : Nat) : Nat := E.countP (fun p => p.1 == w && isD c p)

def endE (c : Cfg) (E : List (Nat × Nat)) (w : Nat) : Bool := E.any (fun p => p.1 == w && p.2 == bOf c w)

/-- ideal worker state after the consumed pairs `E`; `e0 w`: the worker had ended before (restore). -/
def idealE (c : Cfg) (e0 : Nat → Bool) (E : List (Nat × Nat)) (w : Nat) : WSt := ⟨posE c E w, endE c E w || e0 w⟩

def sinceR (c : Cfg) (w : Nat) : List (Nat × Nat) → Nat
  | [] => 0
  | p :: r => if p.1 = w then 0 else (if isD c p then 1 else 0) + sinceR c w r

def sinceE (c : Cfg) (E : List (Nat × Nat)) (w : Nat) : Nat := sinceR c w E.reverse

theorem ndE_snoc (c : Cfg) (E : List (Nat × Nat)) (p : Nat × Nat) :
    ndE c (E ++ [p]) = ndE c E + (if isD c p then 1 else 0) := by
  simp [ndE, List.countP_append, List.countP_cons]

theorem posE_snoc (c : Cfg) (E : List (Nat × Nat)) (p : Nat × Nat) (w : Nat) :
    posE c (E ++ [p]) w = posE c E w + (if p.1 = w ∧ isD c p = true then 1 else 0) := by
  simp only [posE, List.countP_append, List.countP_cons, List.countP_nil, Nat.zero_add]
  congr 1
  by_cases h1 : p.1 = w <;> by_cases h2 : isD c p = true <;> simp [h1, h2]

theorem endE_snoc (c : Cfg) (E : List (Nat × Nat)) (p : Nat × Nat) (w : Nat) :
    endE c (E ++ [p]) w = (endE c E w || (p.1 == w && p.2 == bOf c w)) := by
  simp [endE, List.any_append]

theorem sinceE_snoc (c : Cfg) (E : List (Nat × Nat)) (p : Nat × Nat) (w : Nat) :
    sinceE c (E ++ [p]) w = if p.1 = w then 0 else (if isD c p then 1 else 0) + sinceE c E w := by
  simp [sinceE, sinceR]

theorem sinceE_nil (c : Cfg) (w : Nat) : sinceE c [] w = 0 := rfl

end TDV.MPRI
