def hello := "world"
