import TorchDataVerif.Proofs.MPRThm
import TorchDataVerif.Proofs.MPRZero
import TorchDataVerif.Props.MP
/-!
# C01 (multi-process part) — a checkpoint describes a consistent cut, and the constructor restores it exactly

Model: `Model/MP.lean` (protocol) + `Model/MPRestore.lean` (`idealAt`, `restore`, `stateDict`).
Every theorem quantifies over ALL action sequences of the saving run and of the resumed run (every
schedule of the workers, every arrival order, `state_dict` calls anywhere); `¬ died s` = no
"DataLoader worker exited unexpectedly" was raised.  `errFree c` = no fetch raises (C01 is about
batches; failing fetches are C10).  Helper lemmas: `Proofs/MPRLift.lean` (task indices are relative),
`Proofs/MPRSound.lean` (window lemma, snapshot invariant), `Proofs/MPRRestore.lean`, `Proofs/MPRThm.lean`.

The `steps_since_snapshot` calls of `next(self)` at the end of the constructor are part of the resumed
schedule; the consumer of the resumed loader sees `(yields s.obs).drop steps`.
-/
namespace TDV.MPR

open TDV.MP

/-! ## Stage 1 — map-style datasets, `in_order = True` -/

section Map

variable (c : Cfg) (hv : c.Valid) (hm : c.iterable = false) (hio : c.inOrder = true) (he : errFree c)
include hv hm hio he

/-- **`snapshot_sound_map`.**  In every reachable state, for every schedule, the stored snapshot is the
ideal state at `snapshot_step` — sampler position just after the batch yielded at that step was drawn,
every worker after exactly its fetches among the first `snapshot_step` batches, `last_yielded_worker_id`
the owner of that batch — and `snapshot_step` is the last multiple of the interval `≤` the number `n` of
yields.  Hence `state_dict()` after `n` yields is `(idealAt c (stepOf c n), n − stepOf c n)`, a function of
`n` alone.  This is where the dispatch-time windows of `_try_put_index` are shown sufficient
(`flag_window`, `wsAfter_boundary`), for every interval ≥ 1, `W` and `P`. -/
theorem snapshot_sound_map (as : List Action) (s : State) (hnr : NoReset as)
    (hr : run c (init c) as = some s) (hd : ¬ died s) :
    s.numYielded = (yields s.obs).length ∧
    stateDict s = (idealAt c (stepOf c s.numYielded), s.numYielded - stepOf c s.numYielded) := by
  have h := fresh_allM c hv hm hio as s hnr hr hd
  have hstep : s.snap.step = stepOf c s.numYielded := allM_step_eq c s h he
  refine ⟨h.sn.ny, ?_⟩
  unfold stateDict
  rw [allM_sound c hv hm he s h, hstep]
  rfl

/-- **`restore_ideal_map`.**  The state built by the restore constructor from the ideal state at a possible
snapshot step `m` is observationally the original iterator after `m` yields, for every schedule of the
resumed run: its yields are a prefix of the remaining stream `drop m (Ref.stream c)`, the whole of it once
StopIteration is raised, the `_take_snapshot` assertion never fires, and what `state_dict()` returns after
`j` further yields is what an uninterrupted run returns after `m + j` yields (`snapshot_sound_map`). -/
theorem restore_ideal_map (m : Nat) (hle : m ≤ c.batches.length) (hs : SnapStep c m)
    (as : List Action) (s' : State) (hnr : NoReset as) (hr : run c (restore c (idealAt c m)) as = some s')
    (hd : ¬ died s') :
    yields s'.obs <+: (oks (refStream c)).drop m ∧
    (Obs.stop ∈ s'.obs → yields s'.obs = (oks (refStream c)).drop m) ∧
    Obs.assertion ∉ s'.obs ∧
    s'.numYielded = m + (yields s'.obs).length ∧
    stateDict s' = (idealAt c (stepOf c s'.numYielded), s'.numYielded - stepOf c s'.numYielded) := by
  have h := resumed_allM c hv hm hio he m hle hs as s' hnr hr hd
  obtain ⟨hy, hna, hny, hal, hfin⟩ := lifted_facts c he m hle s' h
  have href : refStream c = c.batches := by simp [refStream, hm]
  have hdrop : (oks c.batches).drop m = oks (c.batches.drop m) := by
    have h1 : oks c.batches = oks (c.batches.take m) ++ oks (c.batches.drop m) := by
      rw [← oks_append, List.take_append_drop]
    have h2 : (oks (c.batches.take m)).length = m := by
      rw [oks_length_errFree _ (fun it hh => he it (List.mem_of_mem_take hh)), List.length_take]
      exact Nat.min_eq_left hle
    rw [h1, List.drop_left' h2]
  rw [href, hdrop]
  refine ⟨?_, ?_, hna, hny, ?_⟩
  · rw [hy]; exact oks_take_prefix _ _
  · intro hst
    have := hfin hst
    rw [hy, List.take_of_length_le (by rw [List.length_drop]; omega)]
  · have hstep : s'.snap.step = stepOf c s'.numYielded := allM_step_eq c (lift m (preObs c m) s') h he
    have hsound := allM_sound c hv hm he _ h
    have e1 : (lift m (preObs c m) s').snap = s'.snap := rfl
    rw [e1] at hsound
    unfold stateDict
    rw [hsound, hstep]
    rfl

/-- **`resume_exact_map`.**  Take `state_dict()` after any number `k` of batches of a saving run (any schedule),
build a new iterator from it with the restore constructor and run it under any schedule: the constructor
replays `steps_since_snapshot` batches, and what the consumer then receives is exactly
`drop k (Ref.stream c)` — a prefix of it at any time, all of it once StopIteration is raised; together with
the `k` batches of the saving run nothing is lost, repeated or reordered. -/
theorem resume_exact_map (as₁ : List Action) (s₁ : State) (hn₁ : NoReset as₁)
    (hr₁ : run c (init c) as₁ = some s₁) (hd₁ : ¬ died s₁)
    (as₂ : List Action) (s₂ : State) (hn₂ : NoReset as₂)
    (hr₂ : run c (restore c (stateDict s₁).1) as₂ = some s₂) (hd₂ : ¬ died s₂) :
    yields s₁.obs = (oks (refStream c)).take (yields s₁.obs).length ∧
    (yields s₂.obs).drop (stateDict s₁).2 <+: (oks (refStream c)).drop (yields s₁.obs).length ∧
    (Obs.stop ∈ s₂.obs →
      (yields s₂.obs).drop (stateDict s₁).2 = (oks (refStream c)).drop (yields s₁.obs).length) := by
  obtain ⟨hny, hsd⟩ := snapshot_sound_map c hv hm hio he as₁ s₁ hn₁ hr₁ hd₁
  have h1 := fresh_allM c hv hm hio as₁ s₁ hn₁ hr₁ hd₁
  have hk : s₁.numYielded ≤ c.batches.length := by
    have := allM_rcvd_le c s₁ h1
    have := h1.sn.al he
    omega
  have hm_le := stepOf_le c s₁.numYielded
  rw [hsd] at hr₂ ⊢
  simp only at hr₂ ⊢
  obtain ⟨hp, hst, _, _, _⟩ := restore_ideal_map c hv hm hio he (stepOf c s₁.numYielded) (by omega)
    (stepOf_snapStep c _) as₂ s₂ hn₂ hr₂ hd₂
  have hpre := yields_prefix_ref_map c hv hm hio as₁ s₁ hn₁ hr₁ hd₁ h1.sn.noas
  have hdd : ((oks (refStream c)).drop (stepOf c s₁.numYielded)).drop (s₁.numYielded - stepOf c s₁.numYielded) =
      (oks (refStream c)).drop (yields s₁.obs).length := by
    rw [List.drop_drop, ← hny]; congr 1; omega
  refine ⟨List.prefix_iff_eq_take.mp hpre, ?_, ?_⟩
  · rw [← hdd]
    obtain ⟨t, ht⟩ := hp
    rw [← ht]
    by_cases hl : s₁.numYielded - stepOf c s₁.numYielded ≤ (yields s₂.obs).length
    · rw [List.drop_append_of_le_length hl]; exact List.prefix_append _ _
    · rw [List.drop_eq_nil_of_le (by omega)]; exact List.nil_prefix
  · intro hstop
    rw [hst hstop, hdd]

/-- **`chain_map`.**  The `state_dict()` taken from a resumed iterator after it has yielded `j` batches to its
consumer equals the one an uninterrupted run returns after `k + j` batches, for every triple of schedules —
so `resume_exact_map` applies again to the next resume, and so on along any chain of checkpoint / resume. -/
theorem chain_map (as₁ : List Action) (s₁ : State) (hn₁ : NoReset as₁)
    (hr₁ : run c (init c) as₁ = some s₁) (hd₁ : ¬ died s₁)
    (as₂ : List Action) (s₂ : State) (hn₂ : NoReset as₂)
    (hr₂ : run c (restore c (stateDict s₁).1) as₂ = some s₂) (hd₂ : ¬ died s₂)
    (as₃ : List Action) (s₃ : State) (hn₃ : NoReset as₃)
    (hr₃ : run c (init c) as₃ = some s₃) (hd₃ : ¬ died s₃)
    (hdone : (stateDict s₁).2 ≤ (yields s₂.obs).length)
    (hlen : (yields s₃.obs).length = (yields s₁.obs).length + ((yields s₂.obs).length - (stateDict s₁).2)) :
    stateDict s₂ = stateDict s₃ := by
  obtain ⟨hny₁, hsd₁⟩ := snapshot_sound_map c hv hm hio he as₁ s₁ hn₁ hr₁ hd₁
  obtain ⟨hny₃, hsd₃⟩ := snapshot_sound_map c hv hm hio he as₃ s₃ hn₃ hr₃ hd₃
  have h1 := fresh_allM c hv hm hio as₁ s₁ hn₁ hr₁ hd₁
  have hk : s₁.numYielded ≤ c.batches.length := by
    have := allM_rcvd_le c s₁ h1
    have := h1.sn.al he
    omega
  have hm_le := stepOf_le c s₁.numYielded
  rw [hsd₁] at hr₂ hdone hlen
  simp only at hr₂ hdone hlen
  obtain ⟨_, _, _, hny₂, hsd₂⟩ := restore_ideal_map c hv hm hio he (stepOf c s₁.numYielded) (by omega)
    (stepOf_snapStep c _) as₂ s₂ hn₂ hr₂ hd₂
  have : s₂.numYielded = s₃.numYielded := by omega
  rw [hsd₂, hsd₃, this]

end Map

/-- **`snapshot_denotes_map`** — what a `state_dict()` denotes in runs WITH failing fetches (every interval,
every set of failing fetches, every schedule; since repo fix f1014eb).  Let `m = lastDue c rcvd_idx` be the
largest `m ≤ rcvd_idx` such that task `m − 1` carries a main snapshot (`m % interval = 0`) and did not fail
(`0`: the initial snapshot).  Then the snapshot is the one taken when task `m − 1` was yielded: sampler
position `m`, `snapshot_step = okCount c m` (the yields up to and including that task),
`last_yielded_worker_id` its owner, worker states `wsAfter c m` (the deltas of the first `m` tasks, applied in
task order), and `steps_since_snapshot = okCount c rcvd_idx − okCount c m`, the yields since.  Resuming
restarts the sampler at task `m` and replays those yields.  Without failing fetches this is
`snapshot_sound_map` (`lastDue = stepOf`, `okCount = id`, `wsAfter = wsIdeal`).  NOTE: with failing fetches
`wsAfter c m` is NOT the ideal worker state: a failing fetch reports no state delta (`stOf_err`), so the state
of its worker stays at its last reported one until that worker's next flagged successful fetch (see the
example below); this is so at every interval, also before the fix. -/
theorem snapshot_denotes_map (c : Cfg) (hv : c.Valid) (hm : c.iterable = false) (hio : c.inOrder = true)
    (as : List Action) (s : State) (hnr : NoReset as) (hr : run c (init c) as = some s) (hd : ¬ died s) :
    stateDict s =
      (⟨okCount c (lastDue c s.rcvdIdx),
        if lastDue c s.rcvdIdx = 0 then c.W - 1 else (lastDue c s.rcvdIdx - 1) % c.W,
        lastDue c s.rcvdIdx, wsAfter c (lastDue c s.rcvdIdx)⟩,
       okCount c s.rcvdIdx - okCount c (lastDue c s.rcvdIdx)) := by
  have h := fresh_allM c hv hm hio as s hnr hr hd
  unfold stateDict
  have h1 := h.sn.main
  have h2 := h.sn.step
  have h3 := h.sn.lastW
  have h4 := h.sw
  have h5 := h.sn.cnt
  rcases hs : s.snap with ⟨st, lw, mn, ws⟩
  rw [hs] at h1 h2 h3 h4
  simp only at h1 h2 h3 h4
  subst h1
  rw [h2, h3, h4, h5]

/-- Non-vacuity / regression (`TDV.MP.c10a`: interval 2, task 2 fails): after `10, 11, error, 13` four tasks
are consumed, the snapshot in force is the one of task 3 (`m = 4`): `snapshot_step = 3`, sampler position 4;
worker 0 has made two fetches (tasks 0 and 2) but is recorded with one — the failing fetch sent no delta. -/
example : lastDue c10a 4 = 4 ∧ okCount c10a 4 = 3 ∧ wsAfter c10a 4 = [⟨1, false⟩, ⟨2, false⟩] ∧
    (run c10a (init c10a) (c10aRun.take 12)).map stateDict =
      some (⟨3, 1, 4, [⟨1, false⟩, ⟨2, false⟩]⟩, 0) := by
  refine ⟨by decide, by decide, by decide, by decide⟩

/-! ### Non-vacuity (map-style): interval 3, two workers, 7 batches (4 for worker 0, 3 for worker 1),
checkpoint after `k = 4` batches — between the snapshots at 3 and 6 — in a saving run where worker 1 answers
first; the resumed run replays 1 batch (103) and delivers 104, 105, 106, stop. -/

def exMap : Cfg :=
  { W := 2, P := 2, interval := 3, inOrder := true, iterable := false, persistent := false, shards := []
    batches := [.ok 100, .ok 101, .ok 102, .ok 103, .ok 104, .ok 105, .ok 106] }

def exMapSave : List Action :=
  [.next, .work 1, .recv, .work 1, .recv, .work 0, .recv, .next, .next, .work 1, .recv, .work 0, .recv, .next]

def exMapResume : List Action :=
  [.work 0, .work 0, .work 1, .work 1, .next, .recv, .recv, .recv, .next, .next, .recv, .next, .next]

example : exMap.Valid ∧ exMap.iterable = false ∧ exMap.inOrder = true ∧ errFree exMap ∧
    NoReset exMapSave ∧ NoReset exMapResume ∧
    (run exMap (init exMap) exMapSave).map (fun s => (yields s.obs, stateDict s)) =
      some ([100, 101, 102, 103], (⟨3, 0, 3, [⟨2, false⟩, ⟨1, false⟩]⟩, 1)) ∧
    idealAt exMap 3 = ⟨3, 0, 3, [⟨2, false⟩, ⟨1, false⟩]⟩ ∧
    (run exMap (restore exMap ⟨3, 0, 3, [⟨2, false⟩, ⟨1, false⟩]⟩) exMapResume).map (fun s => s.obs) =
      some [.item 103, .item 104, .item 105, .item 106, .stop] := by
  refine ⟨⟨by decide, by decide⟩, rfl, rfl, by simp [errFree, exMap], by simp [NoReset, exMapSave],
    by simp [NoReset, exMapResume], by decide, by decide, by decide⟩

/-! ## Stage 2 — iterable datasets with worker retirement, `in_order = True`

The three statements are kept at full strength as `…_iter_statement : Prop`.  They are PROVED for
`snapshot_every_n_steps = 0 / None` (`…_iter_partial`, which hold for map-style and iterable alike, with
empty / uneven shards, retirement in any order, and even with failing fetches); for an interval ≥ 1 they are
not proved (see the comment at `snapshot_sound_iter_statement`), only exercised: a concrete instance below,
3 300 random configurations × every `k` × random schedules of this model, and the K-D leg on the real code. -/

/-- No fetch of the epoch raises. -/
def NoErr (c : Cfg) : Prop := ∀ it ∈ refStream c, it ≠ Item.err

/-- **`snapshot_sound_iter`, full statement** (NOT proved for interval ≥ 1).  Missing: (1) for the iterable
protocol an invariant that the state delta attached to the result of worker `w`'s `j`-th live task is
`⟨j + 1, false⟩` (flagged data task) / `⟨b_w, true⟩` (notice) and that deltas are applied in consumption
order — the analogue of `PosM`/`DeltaM`, on top of `MidI`; (2) the counting invariant
`#data tasks dispatched ≤ num_yielded + W·P` (from `send_idx ≤ W·P + #process_data + #notices arrived`), which
gives "a task dispatched at `num_yielded = y` is yielded as batch `≤ y + 1 + W·P`", and "consecutive live tasks
of a worker are `≤ W` yields apart" (from `MidI.live`); given (2), the window arithmetic `x + 1 + W·P (+ W) ≥ interval` is PROVED
(`flag_window_iter`, the analogue of `flag_window`), and (2) also proves
`MP.take_snapshot_assertion_holds_iter_statement`.  Both (1) and (2) must be carried along the ghost dispatch
history of `MidI`, which `Proofs/MPIter*.lean` threads existentially inside `loop_invI` / `recvData_invI`; they
need those step lemmas restated with the ghost transition exposed. -/
def snapshot_sound_iter_statement : Prop :=
  ∀ (c : Cfg), c.WF → c.iterable = true → c.inOrder = true → NoErr c →
  ∀ (as : List Action) (s : State), NoReset as → run c (init c) as = some s → ¬ died s →
    Obs.assertion ∉ s.obs ∧ s.numYielded = (yields s.obs).length ∧
    SnapEq c s.snap (idealAt c (stepOf c s.numYielded))

/-- **`restore_ideal_iter`, full statement** (NOT proved for `m > 0`).  Missing: that the restored iterator is
an MP instance over the remaining shards — `InvI` is only established from `init c`; the restored state
starts its worker cycle at `last_yielded_worker_id + 1`, its workers at their restored positions and an
ended worker sends its notice again, so it corresponds to `init` of the configuration whose shard `w` is the
rest of shard `w` (empty if ended) with the workers rotated; this needs either `InvI` generalised to such
start states or a simulation (worker renaming + position offsets), plus the list lemma
`Ref.interleave (rotated rests) = drop m (Ref.interleave shards)` for the cut `idealAt c m`. -/
def restore_ideal_iter_statement : Prop :=
  ∀ (c : Cfg), c.WF → c.iterable = true → c.inOrder = true → NoErr c →
  ∀ (m : Nat), SnapStep c m → m ≤ (oks (refStream c)).length →
  ∀ (sn : Snap), SnapEq c sn (idealAt c m) →
  ∀ (as : List Action) (s' : State), NoReset as → run c (restore c sn) as = some s' → ¬ died s' →
    yields s'.obs <+: (oks (refStream c)).drop m ∧
    (Obs.stop ∈ s'.obs → yields s'.obs = (oks (refStream c)).drop m) ∧
    Obs.assertion ∉ s'.obs ∧
    s'.numYielded = m + (yields s'.obs).length ∧
    SnapEq c s'.snap (idealAt c (stepOf c s'.numYielded))

/-- **`resume_exact_iter`, full statement**: a consequence of the two statements above
(`resume_exact_iter_of`). -/
def resume_exact_iter_statement : Prop :=
  ∀ (c : Cfg), c.WF → c.iterable = true → c.inOrder = true → NoErr c →
  ∀ (as₁ : List Action) (s₁ : State), NoReset as₁ → run c (init c) as₁ = some s₁ → ¬ died s₁ →
  ∀ (as₂ : List Action) (s₂ : State), NoReset as₂ → run c (restore c (stateDict s₁).1) as₂ = some s₂ → ¬ died s₂ →
    yields s₁.obs = (oks (refStream c)).take (yields s₁.obs).length ∧
    (yields s₂.obs).drop (stateDict s₁).2 <+: (oks (refStream c)).drop (yields s₁.obs).length ∧
    (Obs.stop ∈ s₂.obs →
      (yields s₂.obs).drop (stateDict s₁).2 = (oks (refStream c)).drop (yields s₁.obs).length)

/-- `resume_exact_iter` follows from `snapshot_sound_iter` and `restore_ideal_iter`: nothing else is missing. -/
theorem resume_exact_iter_of (h1 : snapshot_sound_iter_statement) (h2 : restore_ideal_iter_statement) :
    resume_exact_iter_statement := by
  intro c hv hit hio hne as₁ s₁ hn₁ hr₁ hd₁ as₂ s₂ hn₂ hr₂ hd₂
  obtain ⟨ha₁, hny, hse⟩ := h1 c hv hit hio hne as₁ s₁ hn₁ hr₁ hd₁
  have hp₁ := yields_prefix_ref c hv hio as₁ s₁ hn₁ hr₁ hd₁ ha₁
  have hm_le := stepOf_le c s₁.numYielded
  have hlen : (yields s₁.obs).length ≤ (oks (refStream c)).length := by
    obtain ⟨t, ht⟩ := hp₁
    rw [← ht, List.length_append]; omega
  have hstep : s₁.snap.step = stepOf c s₁.numYielded := hse.1
  obtain ⟨hp, hst, _, _, _⟩ := h2 c hv hit hio hne (stepOf c s₁.numYielded) (stepOf_snapStep c _) (by omega)
    s₁.snap hse as₂ s₂ hn₂ hr₂ hd₂
  have hsd2 : (stateDict s₁).2 = s₁.numYielded - stepOf c s₁.numYielded := by
    unfold stateDict; rw [hstep]
  rw [hsd2]
  have hdd : ((oks (refStream c)).drop (stepOf c s₁.numYielded)).drop (s₁.numYielded - stepOf c s₁.numYielded) =
      (oks (refStream c)).drop (yields s₁.obs).length := by
    rw [List.drop_drop, ← hny]; congr 1; omega
  refine ⟨List.prefix_iff_eq_take.mp hp₁, ?_, ?_⟩
  · rw [← hdd]
    obtain ⟨t, ht⟩ := hp
    rw [← ht]
    by_cases hl : s₁.numYielded - stepOf c s₁.numYielded ≤ (yields s₂.obs).length
    · rw [List.drop_append_of_le_length hl]; exact List.prefix_append _ _
    · rw [List.drop_eq_nil_of_le (by omega)]; exact List.nil_prefix
  · intro hstop
    rw [hst hstop, hdd]

/-- **`chain_iter`, full statement** (Stage 3 for iterable datasets): the checkpoint of a resumed iterator after
`j` consumer-visible batches equals — up to the meaningless sampler position of an iterable dataset — the one
of an uninterrupted run after `k + j` batches.  A consequence of the same two statements (`chain_iter_of`). -/
def chain_iter_statement : Prop :=
  ∀ (c : Cfg), c.WF → c.iterable = true → c.inOrder = true → NoErr c →
  ∀ (as₁ : List Action) (s₁ : State), NoReset as₁ → run c (init c) as₁ = some s₁ → ¬ died s₁ →
  ∀ (as₂ : List Action) (s₂ : State), NoReset as₂ → run c (restore c (stateDict s₁).1) as₂ = some s₂ → ¬ died s₂ →
  ∀ (as₃ : List Action) (s₃ : State), NoReset as₃ → run c (init c) as₃ = some s₃ → ¬ died s₃ →
    (stateDict s₁).2 ≤ (yields s₂.obs).length →
    (yields s₃.obs).length = (yields s₁.obs).length + ((yields s₂.obs).length - (stateDict s₁).2) →
    SnapEq c (stateDict s₂).1 (stateDict s₃).1 ∧ (stateDict s₂).2 = (stateDict s₃).2

theorem chain_iter_of (h1 : snapshot_sound_iter_statement) (h2 : restore_ideal_iter_statement) :
    chain_iter_statement := by
  intro c hv hit hio hne as₁ s₁ hn₁ hr₁ hd₁ as₂ s₂ hn₂ hr₂ hd₂ as₃ s₃ hn₃ hr₃ hd₃ hdone hlen
  obtain ⟨ha₁, hny₁, hse₁⟩ := h1 c hv hit hio hne as₁ s₁ hn₁ hr₁ hd₁
  obtain ⟨_, hny₃, hse₃⟩ := h1 c hv hit hio hne as₃ s₃ hn₃ hr₃ hd₃
  have hp₁ := yields_prefix_ref c hv hio as₁ s₁ hn₁ hr₁ hd₁ ha₁
  have hm_le := stepOf_le c s₁.numYielded
  have hl : (yields s₁.obs).length ≤ (oks (refStream c)).length := by
    obtain ⟨t, ht⟩ := hp₁
    rw [← ht, List.length_append]; omega
  have hstep : s₁.snap.step = stepOf c s₁.numYielded := hse₁.1
  obtain ⟨_, _, _, hny₂, hse₂⟩ := h2 c hv hit hio hne (stepOf c s₁.numYielded) (stepOf_snapStep c _) (by omega)
    s₁.snap hse₁ as₂ s₂ hn₂ hr₂ hd₂
  have hsd2 : (stateDict s₁).2 = s₁.numYielded - stepOf c s₁.numYielded := by
    unfold stateDict; rw [hstep]
  rw [hsd2] at hdone hlen
  have heq : s₂.numYielded = s₃.numYielded := by omega
  rw [heq] at hse₂
  unfold stateDict
  refine ⟨⟨hse₂.1.trans hse₃.1.symm, hse₂.2.1.trans hse₃.2.1.symm, hse₂.2.2.1.trans hse₃.2.2.1.symm,
    fun hf => by rw [hit] at hf; cases hf⟩, ?_⟩
  simp only
  rw [hse₂.1, hse₃.1, heq]

/-! ### proved part: `snapshot_every_n_steps = 0 / None`, both dataset kinds -/

section Zero

variable (c : Cfg) (hv : c.WF) (hio : c.inOrder = true) (h0 : c.interval = 0)
include hv hio h0

/-- **`snapshot_sound_iter_partial`** (interval 0).  For every configuration — iterable with empty / uneven
shards and retirement in any order, or map-style; failing fetches allowed — and every schedule: the stored
snapshot is exactly `idealAt c 0`, `steps_since_snapshot` is the number of batches yielded, and the
`_take_snapshot` assertion never fires. -/
theorem snapshot_sound_iter_partial (as : List Action) (s : State) (hnr : NoReset as)
    (hr : run c (init c) as = some s) (hd : ¬ died s) :
    Obs.assertion ∉ s.obs ∧ s.numYielded = (yields s.obs).length ∧
    stateDict s = (idealAt c 0, (yields s.obs).length) := by
  obtain ⟨e1, _, e3⟩ := run_frozen c as (init c) s h0 hnr (init_notResuming c) hr
  obtain ⟨hny, _⟩ := snapshot_fields c hv hio as s hnr hr hd
  refine ⟨fun h => ?_, hny, ?_⟩
  · have := e3 h
    rw [(init_core c).2] at this
    cases this
  · unfold stateDict
    rw [e1, init_snap, hny]
    rfl

omit hio in
/-- **`restore_ideal_iter_partial`.**  The restore constructor applied to the ideal state at step 0 builds
exactly the initial state of a fresh iterator (every configuration, whatever the interval); without interval
step 0 is the only possible snapshot step. -/
theorem restore_ideal_iter_partial :
    restore c (idealAt c 0) = init c ∧ ∀ m, SnapStep c m → m = 0 :=
  ⟨restore_ideal_zero c hv.1.1, fun _ hs => hs.1 h0⟩

/-- **`resume_exact_iter_partial`** (interval 0).  `state_dict()` after any `k` batches of any schedule,
restored and run under any schedule: after the constructor's replay of `k` batches the consumer receives
exactly `drop k (Ref.stream c)`; nothing lost, repeated or reordered — with empty / uneven shards and workers
retiring in any order. -/
theorem resume_exact_iter_partial (as₁ : List Action) (s₁ : State) (hn₁ : NoReset as₁)
    (hr₁ : run c (init c) as₁ = some s₁) (hd₁ : ¬ died s₁)
    (as₂ : List Action) (s₂ : State) (hn₂ : NoReset as₂)
    (hr₂ : run c (restore c (stateDict s₁).1) as₂ = some s₂) (hd₂ : ¬ died s₂) :
    yields s₁.obs = (oks (refStream c)).take (yields s₁.obs).length ∧
    (yields s₂.obs).drop (stateDict s₁).2 <+: (oks (refStream c)).drop (yields s₁.obs).length ∧
    (Obs.stop ∈ s₂.obs →
      (yields s₂.obs).drop (stateDict s₁).2 = (oks (refStream c)).drop (yields s₁.obs).length) := by
  obtain ⟨ha₁, _, hsd⟩ := snapshot_sound_iter_partial c hv hio h0 as₁ s₁ hn₁ hr₁ hd₁
  rw [hsd] at hr₂ ⊢
  simp only at hr₂ ⊢
  rw [restore_ideal_zero c hv.1.1] at hr₂
  obtain ⟨ha₂, _, _⟩ := snapshot_sound_iter_partial c hv hio h0 as₂ s₂ hn₂ hr₂ hd₂
  have hp₁ := yields_prefix_ref c hv hio as₁ s₁ hn₁ hr₁ hd₁ ha₁
  have hp₂ := yields_prefix_ref c hv hio as₂ s₂ hn₂ hr₂ hd₂ ha₂
  refine ⟨List.prefix_iff_eq_take.mp hp₁, ?_, ?_⟩
  · obtain ⟨t, ht⟩ := hp₂
    rw [← ht]
    by_cases hl : (yields s₁.obs).length ≤ (yields s₂.obs).length
    · rw [List.drop_append_of_le_length hl]; exact List.prefix_append _ _
    · rw [List.drop_eq_nil_of_le (by omega)]; exact List.nil_prefix
  · intro hstop
    rw [(epoch_complete c hv hio as₂ s₂ hn₂ hr₂ hd₂ ha₂ hstop).2]

/-- **`chain_iter_partial`** (interval 0): the `state_dict()` of a resumed iterator that has yielded `j`
batches to its consumer equals the one of an uninterrupted run after `k + j` batches. -/
theorem chain_iter_partial (as₁ : List Action) (s₁ : State) (hn₁ : NoReset as₁)
    (hr₁ : run c (init c) as₁ = some s₁) (hd₁ : ¬ died s₁)
    (as₂ : List Action) (s₂ : State) (hn₂ : NoReset as₂)
    (hr₂ : run c (restore c (stateDict s₁).1) as₂ = some s₂) (hd₂ : ¬ died s₂)
    (as₃ : List Action) (s₃ : State) (hn₃ : NoReset as₃)
    (hr₃ : run c (init c) as₃ = some s₃) (hd₃ : ¬ died s₃)
    (hdone : (stateDict s₁).2 ≤ (yields s₂.obs).length)
    (hlen : (yields s₃.obs).length = (yields s₁.obs).length + ((yields s₂.obs).length - (stateDict s₁).2)) :
    stateDict s₂ = stateDict s₃ := by
  obtain ⟨_, _, hsd₁⟩ := snapshot_sound_iter_partial c hv hio h0 as₁ s₁ hn₁ hr₁ hd₁
  rw [hsd₁] at hr₂ hdone hlen
  simp only at hr₂ hdone hlen
  rw [restore_ideal_zero c hv.1.1] at hr₂
  obtain ⟨_, _, hsd₂⟩ := snapshot_sound_iter_partial c hv hio h0 as₂ s₂ hn₂ hr₂ hd₂
  obtain ⟨_, _, hsd₃⟩ := snapshot_sound_iter_partial c hv hio h0 as₃ s₃ hn₃ hr₃ hd₃
  rw [hsd₂, hsd₃]
  congr 1
  omega

end Zero

/-! ### Non-vacuity (iterable): three workers with shards of 1, 5 and 3 batches, prefetch factor 2.  The saving
run (workers answering in reverse order) is checkpointed after `k = 7` batches.  With interval 3 the snapshot
is the one of step 6 — worker 0 has retired (its end-of-shard notice was consumed before the 6th batch), one
step since the snapshot — and it is the ideal state; the resumed run replays 22 and delivers 13, 14, stop
(the restored, already ended worker 0 sends its notice again).  With interval 0 the same checkpoint is
`(idealAt c 0, 7)`. -/

def exIt (I : Nat) : Cfg :=
  { W := 3, P := 2, interval := I, inOrder := true, iterable := true, persistent := false, batches := []
    shards := [[.ok 0], [.ok 10, .ok 11, .ok 12, .ok 13, .ok 14], [.ok 20, .ok 21, .ok 22]] }

def exItSave : List Action :=
  [.next, .work 2, .recv, .work 2, .recv, .work 1, .recv, .work 1, .recv, .work 0, .recv, .next, .next, .next,
   .work 2, .recv, .work 1, .recv, .work 0, .recv, .next, .next, .next]

def exItResume : List Action :=
  [.work 0, .work 0, .work 1, .work 1, .work 2, .work 2, .next, .recv, .work 0, .work 2, .recv, .recv, .recv,
   .work 1, .next, .work 2, .next, .recv, .work 1, .work 1, .work 2, .next, .recv]

/-- The conclusions of `snapshot_sound_iter_statement` / `restore_ideal_iter_statement` on a concrete instance
with interval 3, uneven shards, a retired worker inside the snapshot and a resume between snapshots. -/
example : (exIt 3).WF ∧ (exIt 3).iterable = true ∧ NoReset exItSave ∧ NoReset exItResume ∧
    (run (exIt 3) (init (exIt 3)) exItSave).map (fun s => (yields s.obs, s.snap.step, s.snap.lastW, s.snap.ws,
        (stateDict s).2)) =
      some ([0, 10, 20, 11, 21, 12, 22], 6, 1, [⟨1, true⟩, ⟨3, false⟩, ⟨2, false⟩], 1) ∧
    idealAt (exIt 3) 6 = ⟨6, 1, 0, [⟨1, true⟩, ⟨3, false⟩, ⟨2, false⟩]⟩ ∧
    (run (exIt 3) (restore (exIt 3) ⟨6, 1, 8, [⟨1, true⟩, ⟨3, false⟩, ⟨2, false⟩]⟩) exItResume).map (fun s => s.obs) =
      some [.item 22, .item 13, .item 14, .stop] := by
  refine ⟨⟨⟨by decide, by decide⟩, fun _ => rfl⟩, rfl, by simp [NoReset, exItSave], by simp [NoReset, exItResume],
    by decide, by decide, by decide⟩

/-- Non-vacuity of the interval-0 theorems on the same shards and schedule. -/
example : (exIt 0).WF ∧ (exIt 0).inOrder = true ∧ (exIt 0).interval = 0 ∧
    (run (exIt 0) (init (exIt 0)) exItSave).map (fun s => (yields s.obs, stateDict s)) =
      some ([0, 10, 20, 11, 21, 12, 22], (idealAt (exIt 0) 0, 7)) := by
  refine ⟨⟨⟨by decide, by decide⟩, fun _ => rfl⟩, rfl, rfl, by decide⟩

end TDV.MPR
