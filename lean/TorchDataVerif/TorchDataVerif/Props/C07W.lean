import TorchDataVerif.Proofs.IncrWorker
/-!
# C07 (wrapper level) — `_IncrementalWorkerState` and the worker/main hand-shakes

Property theorems for model `TDV.IncrW`.  Helper lemmas are in `Proofs/IncrWorker.lean`.

The code does not transfer a `fetcher_state` that turns from a dict into `None`
(`generate_delta` ships `fetcher_state: None`, `apply_delta` skips it, and `_fetcher_ended` keeps its
old value on both sides), so the full-strength statements are false; they are kept as
`…_statement`, refuted on a concrete witness, and proved as `…_partial` under `FetchStable`.
`wrapper_state_exact` says, at full strength, what the main side holds after every history.
-/
namespace TDV.IncrW
open TDV.Incr

/-- **What the main side holds after every history** (no restriction on the history): the worker id
and the dataset state of the last synced report, and the fetcher state computed by `lastFetch`
(the last non-`None` one since the last start-up/resume).  The worker-side wrapper reads the same. -/
theorem wrapper_state_exact (ops : List Op) (hwf : ∀ o ∈ ops, o.WF) :
    let st := Sync.init.run ops
    (st.main.getState.wid = (lastSynced none ops).map (·.wid) ∧
      OptEq st.main.getState.ds (dsOf (lastSynced none ops)) ∧
      FetchEq st.main.getState.fetch (lastFetch none ops)) ∧
    (st.worker.getState.wid = (lastSynced none ops).map (·.wid) ∧
      OptEq st.worker.getState.ds (dsOf (lastSynced none ops)) ∧
      FetchEq st.worker.getState.fetch (lastFetch none ops)) := by
  have h := inv_run ops Sync.init none none inv_init_none hwf
  exact ⟨getState_of_inv _ _ _ _ h, getState_of_inv _ _ _ _ (inv_self _ _ _ _ h)⟩

/-! ## `wrapper_lossless` -/

/-- Full-strength statement: after any well-formed history the main side's `get_state()` equals the
last synced report, field by field and path by path.  **False for the code as it stands.** -/
def wrapper_lossless_statement : Prop :=
  ∀ ops : List Op, (∀ o ∈ ops, o.WF) →
    StateEq (Sync.init.run ops).main.getState (lastSynced none ops)

/-- Witness: a worker that starts with a fetcher state and then reports `fetcher_state = None`. -/
def losslessWitness : List Op :=
  [ .restart { wid := 0, ds := none, fetch := some { ended := false, iter := some (.dict [(1, .leaf 5)]) } },
    .report { wid := 0, ds := some (.dict [(2, .leaf 6)]), fetch := none } ]

theorem losslessWitness_WF : ∀ o ∈ losslessWitness, o.WF := by
  intro o ho
  simp only [losslessWitness, List.mem_cons, List.mem_nil_iff, or_false] at ho
  rcases ho with rfl | rfl
  · simp [Op.WF, Report.WF, OptWF, noneC]
  · simp [Op.WF, Report.WF, OptWF]

/-- On the witness the main side still hands out the old fetcher state. -/
theorem losslessWitness_main :
    (Sync.init.run losslessWitness).main.getState.fetch = some (false, some (.dict [(1, .leaf 5)]))
    ∧ (fetchOf (lastSynced none losslessWitness)).isNone = true := by
  exact ⟨rfl, rfl⟩

theorem wrapper_lossless_statement_false : ¬ wrapper_lossless_statement := by
  intro h
  have h1 := h losslessWitness losslessWitness_WF
  have h2 : FetchEq (Sync.init.run losslessWitness).main.getState.fetch none := h1.2.2
  rw [losslessWitness_main.1] at h2
  exact h2

/-- **Lossless for every history in which `fetcher_state` does not turn from a dict into `None`.**
After any such history of reports (with or without a delta), restarts, epoch resumes and restores,
the main side's `get_state()` equals the last synced report: same worker id; dataset state `None` iff
reported `None` and equal path by path; `fetcher_state` `None` iff reported `None`, same
`fetcher_ended`, iterator state `None` iff reported `None` and equal path by path. -/
theorem wrapper_lossless_partial (ops : List Op) (hwf : ∀ o ∈ ops, o.WF)
    (hst : FetchStable none ops) :
    StateEq (Sync.init.run ops).main.getState (lastSynced none ops) := by
  have h := inv_run ops Sync.init none none inv_init_none hwf
  have e : lastFetch none ops = fetchOf (lastSynced none ops) := lastFetch_of_stable ops none hst
  rw [e] at h
  exact stateEq_of_inv _ _ _ h

/-! ## `wrapper_skipped_irrelevant` -/

/-- Reports for which no delta is generated (tasks without the snapshot flag) move neither the diff
base nor the main side: from any pair of wrappers, a history and the same history with the skipped
reports erased lead to the same pair, the same target state, and the same delta for any next report. -/
theorem wrapper_skipped_irrelevant (st : Sync) (cur : Option Report) (ops : List Op) :
    st.run ops = st.run (ops.filter fun o => !o.isSkipped) ∧
    lastSynced cur ops = lastSynced cur (ops.filter fun o => !o.isSkipped) ∧
    ∀ r, (st.run ops).worker.generateDelta r
      = (st.run (ops.filter fun o => !o.isSkipped)).worker.generateDelta r := by
  exact ⟨run_filter_skipped ops st, lastSynced_filter_skipped ops cur,
    fun r => by rw [← run_filter_skipped ops st]⟩

/-! ## `restore_delta_sound` -/

/-- Full-strength statement: main initialised from the saved state `s` plus the worker's `is_delta`
start-up delta (computed against the same `s`) equals the worker's actual start-up state `r`.
**False for the code as it stands** (same cause as above). -/
def restore_delta_sound_statement : Prop :=
  ∀ s r : Report, s.WF → r.WF →
    StateEq ((W.init (some s)).applyDelta ((W.init (some s)).generateDelta r).2).getState (some r)

theorem restore_delta_sound_statement_false : ¬ restore_delta_sound_statement := by
  intro h
  have h1 := h { wid := 0, ds := none, fetch := some { ended := true, iter := none } }
    { wid := 0, ds := none, fetch := none } (by simp [Report.WF, OptWF]) (by simp [Report.WF, OptWF])
  exact h1.2.2

/-- **Restore hand-shake is sound** whenever the start-up state has a fetcher state if the saved one
had: the main side (built from `s`, then `apply_delta`) and the worker side (built from `s`, then
`generate_delta`) both read back as the worker's actual start-up state `r`. -/
theorem restore_delta_sound_partial (s r : Report) (hs : s.WF) (hr : r.WF)
    (hst : r.fetch = none → s.fetch = none) :
    StateEq ((W.init (some s)).applyDelta ((W.init (some s)).generateDelta r).2).getState (some r) ∧
    StateEq ((W.init (some s)).generateDelta r).1.getState (some r) := by
  have h := inv_gen _ _ (some s) s.fetch r (inv_init_some s hs) hr
  have e : keep r.fetch s.fetch = fetchOf (some r) := by
    cases hf : r.fetch with
    | none => simp [keep, fetchOf, hf, hst hf]
    | some f => simp [keep, fetchOf, hf]
  rw [e] at h
  exact ⟨stateEq_of_inv _ _ _ h, stateEq_of_inv _ _ _ (inv_self _ _ _ _ h)⟩

/-! ## Non-vacuity -/

/-- A history with every kind of op: dataset state dict -> `None` -> dict, iterator state
dict -> leaf -> `None`, `fetcher_ended` flipping, a skipped report in between, an epoch resume and a
restore whose start-up state differs from the saved one. -/
def demoOps : List Op :=
  [ .restart { wid := 3, ds := some (.dict [(1, .leaf 5), (2, .dict [(3, .leaf 7)])]),
               fetch := some { ended := false, iter := some (.dict [(1, .leaf 4)]) } },
    .report { wid := 3, ds := none, fetch := some { ended := false, iter := some (.leaf 9) } },
    .reportSkipped { wid := 3, ds := some (.leaf 8), fetch := none },
    .report { wid := 3, ds := some (.dict [(2, .leaf 0)]), fetch := some { ended := true, iter := none } } ]

def demoOps2 : List Op :=
  demoOps ++
  [ .resumeEpoch { wid := 3, ds := some (.dict [(1, .leaf 1)]), fetch := some { ended := false, iter := none } },
    .restore { wid := 3, ds := some (.dict [(1, .leaf 1)]), fetch := some { ended := true, iter := some (.dict [(4, .leaf 2)]) } }
             { wid := 3, ds := none, fetch := some { ended := false, iter := some (.dict [(4, .dict [(5, .leaf 2)])]) } } ]

/-- The hypotheses of `wrapper_lossless_partial` are satisfiable by these histories, and on them the
main side reads back exactly the last synced report. -/
example :
    (∀ o ∈ demoOps2, o.WF) ∧ FetchStable none demoOps2 ∧
    (Sync.init.run demoOps).main.getState =
      { wid := some 3, ds := some (.dict [(2, .leaf 0)]), fetch := some (true, none) } ∧
    (Sync.init.run (demoOps.take 2)).main.getState =
      { wid := some 3, ds := none, fetch := some (false, some (.leaf 9)) } ∧
    (Sync.init.run demoOps2).main.getState =
      { wid := some 3, ds := none, fetch := some (false, some (.dict [(4, .dict [(5, .leaf 2)])])) } := by
  refine ⟨?_, ?_, rfl, rfl, rfl⟩
  · intro o ho
    simp only [demoOps2, demoOps, List.cons_append, List.nil_append, List.mem_cons,
      List.mem_nil_iff, or_false] at ho
    rcases ho with rfl | rfl | rfl | rfl | rfl | rfl <;>
      simp [Op.WF, Report.WF, OptWF, noneC]
  · simp [demoOps2, demoOps, FetchStable, fetchOf]

/-- `restore_delta_sound_partial`: hypotheses satisfiable, saved and start-up state really differ. -/
example :
    let s : Report := { wid := 1, ds := some (.dict [(1, .leaf 1)]),
                        fetch := some { ended := true, iter := some (.dict [(4, .leaf 2)]) } }
    let r : Report := { wid := 1, ds := none, fetch := some { ended := false, iter := some (.leaf 3) } }
    s.WF ∧ r.WF ∧ (r.fetch = none → s.fetch = none) ∧
      ((W.init (some s)).applyDelta ((W.init (some s)).generateDelta r).2).getState =
        { wid := some 1, ds := none, fetch := some (false, some (.leaf 3)) } := by
  refine ⟨?_, ?_, ?_, rfl⟩
  · simp [Report.WF, OptWF, noneC]
  · simp [Report.WF, OptWF, noneC]
  · simp

/-- `wrapper_skipped_irrelevant`: a history that does contain skipped reports. -/
example : (demoOps.filter fun o => !o.isSkipped).length + 1 = demoOps.length := by decide

end TDV.IncrW
