import TorchDataVerif.Proofs.Weighted
/-!
# C14 — MultiNodeWeightedSampler honours its stop criterion, source order and seeding

Property theorems over the model `TDV.Weighted`.  All statements are for every number `n` of sources, every
list of items per source (empty ones included unless a hypothesis says otherwise), every choice stream
`c : Nat → Fin n` and every number `t` of iterations of the `while True` loop of `next()`.
`run cfg c t` is the run of a freshly reset node observed for `t` loop iterations (it ends at the first
StopIteration); `occ c k t` counts the draws of key `k` among the first `t`; `outK k` selects the items tagged `k`.

The two CYCLE criteria are violated by the code when a source is empty (C14-a): the full statements are kept as
`cycle_until_statement` / `cycle_forever_statement`, refuted on a witness, and proved for non-empty sources
(`cycle_until_partial`, `cycle_forever_partial`).
-/
namespace TDV.Weighted

variable {n : Nat}

/-! ## Concrete instances used by the non-vacuity examples -/

/-- Two sources `[10, 11]` and `[20, 21, 22]`. -/
def exCfg (crit : Crit) : Cfg 2 := ⟨crit, fun k => if k.val = 0 then [10, 11] else [20, 21, 22]⟩
/-- The stream 0, 1, 1, 0, 1, 1, ... -/
def exStream : Nat → Fin 2 := fun i => if i % 3 = 0 then 0 else 1
/-- Witness of the empty-source defect: sources `a = []`, `b = [1, 2, 3, 4, 5]`, a stream that picks `a`. -/
def witCfg (crit : Crit) : Cfg 2 := ⟨crit, fun k => if k.val = 0 then [] else [1, 2, 3, 4, 5]⟩
def witStream : Nat → Fin 2 := fun _ => 0

/-! ## Source order -/

/-- **Per-source order** (every criterion).  The items tagged `k` are, in order, `q` whole passes over source `k`
followed by a prefix of it; with ALL/FIRST there is no restart (`q = 0`). -/
theorem per_source_order (cfg : Cfg n) (c : Nat → Fin n) (t : Nat) (k : Fin n) :
    ∃ q p, p ≤ (cfg.src k).length ∧
      outK k (run cfg c t).outs = (List.replicate q (cfg.src k)).flatten ++ (cfg.src k).take p ∧
      (cfg.crit = .allExh ∨ cfg.crit = .firstExh → q = 0) := by
  obtain ⟨hle, q, hq, hq0⟩ := PSO_runFrom cfg c St.init (PSO_init cfg) t k
  exact ⟨q, _, hle, hq, hq0⟩

example : outK 0 (run (exCfg .forever) exStream 9).outs = [10, 11, 10] ∧
    outK 1 (run (exCfg .forever) exStream 9).outs = [20, 21, 22, 20, 21, 22] := by decide

/-! ## ALL_DATASETS_EXHAUSTED -/

/-- **ALL: every item exactly once.**  If the run stops, the items tagged `k` are exactly source `k`, for every
`k`: the output is an interleaving of all items of all sources. -/
theorem all_exhausted_exact (cfg : Cfg n) (hcrit : cfg.crit = .allExh) (c : Nat → Fin n) (t : Nat)
    (hstop : (run cfg c t).stopped = true) (k : Fin n) : outK k (run cfg c t).outs = cfg.src k := by
  obtain ⟨h1, h2, _⟩ := AllInv_run cfg hcrit c t
  obtain ⟨hle, q, hq, hq0⟩ := PSO_runFrom cfg c St.init (PSO_init cfg) t k
  have hq' := hq0 (Or.inl hcrit)
  subst hq'
  have hge := h1 k (h2 hstop k)
  have hpos : (run cfg c t).st.core.pos k = (cfg.src k).length := Nat.le_antisymm hle hge
  unfold run at hpos ⊢
  rw [hq, hpos]
  simp

example : (run (exCfg .allExh) exStream 9).stopped = true ∧
    (run (exCfg .allExh) exStream 9).outs = [(0, 10), (1, 20), (1, 21), (0, 11), (1, 22)] := by decide

/-! ## FIRST_DATASET_EXHAUSTED -/

/-- **FIRST: exact stop.**  `Dry cfg c i` says draw `i` names a source with nothing left (no source is ever
restarted).  (1) As long as no draw has been dry the run has not stopped, its outputs follow the stream draw by
draw and source `k` has yielded exactly its first `occ c k t` items.  (2) The run stops exactly on the first dry
draw `i`: it has then consumed `i + 1` draws and its outputs are those of the first `i` iterations. -/
theorem first_exhausted_exact (cfg : Cfg n) (hcrit : cfg.crit = .firstExh) (c : Nat → Fin n) :
    (∀ t, (∀ j, j < t → ¬ Dry cfg c j) →
      (run cfg c t).stopped = false ∧ keys (run cfg c t).outs = (List.range t).map c ∧
      ∀ k, outK k (run cfg c t).outs = (cfg.src k).take (occ c k t)) ∧
    (∀ i t, Dry cfg c i → (∀ j, j < i → ¬ Dry cfg c j) → i < t →
      (run cfg c t).stopped = true ∧ (run cfg c t).st.sp = i + 1 ∧ (run cfg c t).outs = (run cfg c i).outs) := by
  constructor
  · intro t hno
    obtain ⟨hst, _, _, hpos, hkeys⟩ := first_no_dry cfg hcrit c t hno
    refine ⟨hst, hkeys, fun k => ?_⟩
    obtain ⟨_, q, hq, hq0⟩ := PSO_runFrom cfg c St.init (PSO_init cfg) t k
    have hq' := hq0 (Or.inr hcrit)
    subst hq'
    unfold run at hpos ⊢
    rw [hq, (hpos k).1]
    simp
  · intro i t hd hno hit
    obtain ⟨hst, hinv⟩ := first_no_dry cfg hcrit c i hno
    obtain ⟨a1, a2, a3⟩ := (first_advance cfg hcrit c i _ hst hinv).1 hd
    rw [← run_succ] at a1 a2 a3
    have := runFrom_stopped_mono cfg c St.init (show i + 1 ≤ t by omega) a1
    unfold run at a1 a2 a3 ⊢
    rw [this]
    exact ⟨a1, a3, a2⟩

example : Dry (exCfg .firstExh) exStream 5 ∧ (∀ j, j < 5 → ¬ Dry (exCfg .firstExh) exStream j) ∧
    (run (exCfg .firstExh) exStream 9).stopped = true ∧
    (run (exCfg .firstExh) exStream 9).outs = [(0, 10), (1, 20), (1, 21), (0, 11), (1, 22)] := by
  refine ⟨by decide, ?_, by decide, by decide⟩
  intro j hj
  have : j = 0 ∨ j = 1 ∨ j = 2 ∨ j = 3 ∨ j = 4 := by omega
  rcases this with rfl | rfl | rfl | rfl | rfl <;> decide

/-! ## CYCLE_UNTIL_ALL_DATASETS_EXHAUSTED -/

/-- What CYCLE_UNTIL promises for one configuration and stream.  `AllFound cfg c t`: every source has been drawn
more often than it is long among the first `t` draws, i.e. each has been found exhausted.
(1) the run has stopped after `t` iterations iff `AllFound cfg c t` — so it stops exactly on the draw that finds
the last not-yet-exhausted source exhausted; (2) until then every draw yields an item of the drawn source, and the
items of source `k` are the first `occ c k t` items of the endless repetition of source `k` (exhausted sources
restart from their beginning); (3) the stopping draw yields nothing. -/
def CycleUntilSpec (cfg : Cfg n) (c : Nat → Fin n) : Prop :=
  ∀ t, ((run cfg c t).stopped = true ↔ AllFound cfg c t) ∧
    (¬ AllFound cfg c t → keys (run cfg c t).outs = (List.range t).map c ∧
      ∀ k, ∃ q p, p ≤ (cfg.src k).length ∧ q * (cfg.src k).length + p = occ c k t ∧
        outK k (run cfg c t).outs = (List.replicate q (cfg.src k)).flatten ++ (cfg.src k).take p) ∧
    (¬ AllFound cfg c t → AllFound cfg c (t + 1) → (run cfg c (t + 1)).outs = (run cfg c t).outs)

/-- The full-strength statement (no restriction on the sources). -/
def cycle_until_statement : Prop :=
  ∀ (n : Nat) (cfg : Cfg n) (c : Nat → Fin n), cfg.crit = .cycleUntil → CycleUntilSpec cfg c

/-- The code violates it: with sources `a = []`, `b = [1..5]` and a stream whose first draw is `a`, the run stops
on that draw although `b` has not been drawn at all. -/
theorem cycle_until_statement_false : ¬ cycle_until_statement := by
  intro h
  have h1 := (h 2 (witCfg .cycleUntil) witStream rfl 1).1.1 (by decide)
  exact absurd (h1 1) (by decide)

theorem cycle_until_partial (cfg : Cfg n) (hcrit : cfg.crit = .cycleUntil) (hne : ∀ k, cfg.src k ≠ [])
    (c : Nat → Fin n) : CycleUntilSpec cfg c := by
  intro t
  have hiff := cycleUntil_stopped_iff cfg hcrit hne c
  refine ⟨hiff t, ?_, ?_⟩
  · intro hnf
    have hst : (run cfg c t).stopped = false := by
      cases h : (run cfg c t).stopped with
      | false => rfl
      | true => exact absurd ((hiff t).1 h) hnf
    obtain ⟨_, hkeys, _, hall⟩ := cyc_run_inv cfg (Or.inl hcrit) c t hst
    refine ⟨hkeys, fun k => ?_⟩
    obtain ⟨h1, _, _, _, q, h5, h6⟩ := hall k
    exact ⟨q, _, h1, h6, h5⟩
  · intro hnf hf
    have hst : (run cfg c t).stopped = false := by
      cases h : (run cfg c t).stopped with
      | false => rfl
      | true => exact absurd ((hiff t).1 h) hnf
    have hinv := cyc_run_inv cfg (Or.inl hcrit) c t hst
    have hstop := (hiff (t + 1)).2 hf
    rw [run_succ] at hstop ⊢
    exact ((cyc_advance cfg (Or.inl hcrit) c t _ hst hinv).2 hstop).1

example : (∀ k, (exCfg .cycleUntil).src k ≠ []) ∧ ¬ AllFound (exCfg .cycleUntil) exStream 6 ∧
    AllFound (exCfg .cycleUntil) exStream 7 ∧ (run (exCfg .cycleUntil) exStream 7).stopped = true ∧
    (run (exCfg .cycleUntil) exStream 7).outs = [(0, 10), (1, 20), (1, 21), (0, 11), (1, 22), (1, 20)] := by
  decide

/-! ## CYCLE_FOREVER -/

/-- What CYCLE_FOREVER promises: the run never stops, every loop iteration is a `next()` that returns an item of
the drawn source, and the items of source `k` are the first `occ c k t` items of its endless repetition. -/
def CycleForeverSpec (cfg : Cfg n) (c : Nat → Fin n) : Prop :=
  ∀ t, (run cfg c t).stopped = false ∧ keys (run cfg c t).outs = (List.range t).map c ∧
    (∃ k x s', next cfg c 1 (run cfg c t).st = some (.item k x, s')) ∧
    ∀ k, ∃ q p, p ≤ (cfg.src k).length ∧ q * (cfg.src k).length + p = occ c k t ∧
      outK k (run cfg c t).outs = (List.replicate q (cfg.src k)).flatten ++ (cfg.src k).take p

def cycle_forever_statement : Prop :=
  ∀ (n : Nat) (cfg : Cfg n) (c : Nat → Fin n), cfg.crit = .forever → CycleForeverSpec cfg c

/-- The code violates it on the same witness: CYCLE_FOREVER stops on the first draw of the empty source. -/
theorem cycle_forever_statement_false : ¬ cycle_forever_statement := by
  intro h
  have h1 := (h 2 (witCfg .forever) witStream rfl 1).1
  exact absurd h1 (by decide)

theorem cycle_forever_partial (cfg : Cfg n) (hcrit : cfg.crit = .forever) (hne : ∀ k, cfg.src k ≠ [])
    (c : Nat → Fin n) : CycleForeverSpec cfg c := by
  intro t
  have hst := forever_not_stopped cfg hcrit hne c t
  have hst1 := forever_not_stopped cfg hcrit hne c (t + 1)
  obtain ⟨_, hkeys, _, hall⟩ := cyc_run_inv cfg (Or.inr hcrit) c t hst
  obtain ⟨_, hkeys1, _, _⟩ := cyc_run_inv cfg (Or.inr hcrit) c (t + 1) hst1
  refine ⟨hst, hkeys, ?_, fun k => ?_⟩
  · rw [run_succ] at hst1 hkeys1
    apply next_one_of_advance cfg c _ hst hst1
    rw [hkeys1, hkeys]; simp
  · obtain ⟨h1, _, _, _, q, h5, h6⟩ := hall k
    exact ⟨q, _, h1, h6, h5⟩

example : (∀ k, (exCfg .forever).src k ≠ []) ∧ (run (exCfg .forever) exStream 9).stopped = false ∧
    (run (exCfg .forever) exStream 9).outs =
      [(0, 10), (1, 20), (1, 21), (0, 11), (1, 22), (1, 20), (0, 10), (1, 21), (1, 22)] := by
  decide

/-! ## Termination -/

/-- **Termination under fairness.**  If every key is drawn again after every position (`Fair c`; probability 1
for positive weights), a run with ALL, FIRST or CYCLE_UNTIL stops after finitely many loop iterations — for every
source lengths, empty sources included. -/
theorem fair_terminates (cfg : Cfg n) (hcrit : cfg.crit ≠ .forever) (c : Nat → Fin n) (hf : Fair c) :
    ∃ T, (run cfg c T).stopped = true := by
  obtain ⟨T, hT⟩ := fair_all_found cfg c hf
  refine ⟨T, ?_⟩
  cases hst : (run cfg c T).stopped with
  | true => rfl
  | false =>
    obtain ⟨k, hk⟩ := not_stopped_bound cfg hcrit c T hst
    have := hT k
    omega

example : Fair exStream := by
  intro i k
  rcases k with ⟨_ | _ | k, hk⟩
  · exact ⟨3 * i, by omega, by simp [exStream]⟩
  · refine ⟨3 * i + 1, by omega, ?_⟩
    have : (3 * i + 1) % 3 = 1 := by omega
    simp [exStream, this]
  · omega

/-- `next()` is the observed run: a call that returns `e` ran `j` skipped iterations followed by one that yields
the item or raises the stop; `runFrom` for `j + 1` iterations ends in the same state. -/
theorem next_eq_run (cfg : Cfg n) (c : Nat → Fin n) (f : Nat) (s : St n) (e : Ev n) (s' : St n)
    (h : next cfg c f s = some (e, s')) :
    ∃ j, j < f ∧ (∀ i, i ≤ j → (runFrom cfg c s i).outs = [] ∧ (runFrom cfg c s i).stopped = false) ∧
      (runFrom cfg c s (j + 1)).st = s' ∧
      ((∃ k x, e = .item k x ∧ (runFrom cfg c s (j + 1)).outs = [(k, x)] ∧
          (runFrom cfg c s (j + 1)).stopped = false) ∨
       (e = .stop ∧ (runFrom cfg c s (j + 1)).outs = [] ∧ (runFrom cfg c s (j + 1)).stopped = true)) :=
  next_run_aux cfg c f s e s' h

example : (next (exCfg .allExh) exStream 5 (run (exCfg .allExh) exStream 5).st).map Prod.fst = some .stop ∧
    (next (exCfg .allExh) exStream 1 (run (exCfg .allExh) exStream 5).st).map Prod.fst = none := by decide

/-! ## `_WeightedSampler`: the stream and its resumption -/

/-- The draws of a fresh sampler are the batches of the oracle laid end to end, starting at the seeded generator
state: draw `i` is entry `i % L` of batch `g0 + i / L`. -/
theorem ws_draws (B : Nat → List (Fin n)) (L : Nat) (hL : 0 < L) (hB : ∀ g, (B g).length = L) (g0 i : Nat) :
    WS.nth B (WS.fresh B g0) i = (B (g0 + i / L))[i % L]? := by
  obtain ⟨b, h2, h3, h4, h5⟩ := WS.after_fresh B L hL hB g0 i
  unfold WS.nth WS.next
  by_cases hl : (WS.after B (WS.fresh B g0) i).batch.length ≤ (WS.after B (WS.fresh B g0) i).off
  · simp only [hl, if_true, WS.load]
    rw [h3, hB] at hl
    obtain ⟨hd, hm⟩ := div_mod_full L b i hL (by omega)
    rw [hd, hm, h2]
    congr 2
  · simp only [hl, if_false]
    rw [h3, hB] at hl
    obtain ⟨hd, hm⟩ := div_mod_lt L b _ i hL (by omega) h5
    rw [hd, hm, h3]

/-- Batches of length 3 used by the examples: batch `g` is `[0, 1, g % 2]`. -/
def exBatches : Nat → List (Fin 2) := fun g => [0, 1, if g % 2 = 0 then 0 else 1]

example : (List.range 8).map (WS.nth exBatches (WS.fresh exBatches 4)) =
    [some 0, some 1, some 0, some 0, some 1, some 1, some 0, some 1] := by decide

/-- **Resuming the choices.**  `state_dict()` = (generator state before the current batch, offset).  A sampler
rebuilt from the state taken after `m` draws is the sampler after `m` draws (same batch, same offset, same
generator state), so its `j`-th draw is the `(m + j)`-th draw of the original.  No case is excluded: `m` may be
a multiple of the batch length (offset = batch length, the next draw regenerates). -/
theorem resume_choices (B : Nat → List (Fin n)) (g0 m : Nat) :
    WS.restore B (WS.after B (WS.fresh B g0) m).state = WS.after B (WS.fresh B g0) m ∧
    ∀ j, WS.nth B (WS.restore B (WS.after B (WS.fresh B g0) m).state) j = WS.nth B (WS.fresh B g0) (m + j) := by
  have h := WS.restore_state B _ (WS.after_WF B (WS.fresh B g0) (WS.load_WF B g0 0) m)
  refine ⟨h, fun j => ?_⟩
  rw [h]
  unfold WS.nth
  rw [WS.after_add]

example : (WS.after exBatches (WS.fresh exBatches 4) 3).state = (4, 3) ∧
    WS.nth exBatches (WS.restore exBatches (4, 3)) 0 = some 0 ∧
    (WS.after exBatches (WS.fresh exBatches 4) 4).state = (5, 1) := by decide

/-! ## The node: resumption, refinement of the stream layer, epochs -/

/-- **Resuming the node.**  Take the state of any reachable node `x` (in particular after any number of items),
load it into any node object `y` (in particular a fresh one): from the first loop iteration on, the loaded node
and `x` produce the same outputs, the same stop and end in the same state.  (Sources' own `state_dict`/`reset`
are exact by assumption.) -/
theorem node_resume_exact (cfg : Cfg n) (E : Env n) (x y : Node n) (hx : Node.Reach cfg E x) (t : Nat) :
    Node.run cfg E (Node.reset E y (some x.getState)) (t + 1) = Node.run cfg E x (t + 1) := by
  have hw := WS.restore_state E.B x.ws (Node.reach_WF cfg E x hx)
  have : Node.reset E y (some x.getState) = { x with started := false } := by
    simp only [Node.reset, Node.getState]
    rw [hw]
  rw [this]
  exact Node.run_started cfg E x false t

example :
    let E : Env 2 := ⟨exBatches, fun e => 10 * e⟩
    let x := (Node.run (exCfg .cycleUntil) E (Node.new E) 4).st
    Node.Reach (exCfg .cycleUntil) E x ∧ x.getState.ws = (1, 1) ∧
      (Node.run (exCfg .cycleUntil) E (Node.reset E (Node.new E) (some x.getState)) 3).outs = [(1, 21), (1, 22), (0, 11)] ∧
      (Node.run (exCfg .cycleUntil) E x 3).outs = [(1, 21), (1, 22), (0, 11)] := by
  refine ⟨Node.run_reach _ _ _ Node.Reach.new 4, by decide, by decide, by decide⟩

/-- **The machine refines the stream layer.**  A node whose bookkeeping is fresh and whose sampler was seeded at
generator state `g0` behaves, as long as it is observed, like the stream-layer run over the stream read off the
batch oracle (`c i` = entry `i % L` of batch `g0 + i / L`): same outputs, same stop, same bookkeeping, and the
sampler never fails.  So every theorem above speaks about the executable node. -/
theorem node_refines_stream (cfg : Cfg n) (E : Env n) (L : Nat) (hL : 0 < L) (hB : ∀ g, (E.B g).length = L)
    (x0 : Node n) (g0 : Nat) (hcore : x0.core = Core.init) (hws : x0.ws = WS.fresh E.B g0)
    (c : Nat → Fin n) (hc : ∀ i, (E.B (g0 + i / L))[i % L]? = some (c i)) (t : Nat) :
    (Node.run cfg E x0 t).outs = (run cfg c t).outs ∧ (Node.run cfg E x0 t).stopped = (run cfg c t).stopped ∧
    (Node.run cfg E x0 t).failed = false ∧ (Node.run cfg E x0 t).st.core = (run cfg c t).st.core := by
  have hm : Match E.B c (Node.run cfg E x0 t) (run cfg c t) := by
    induction t with
    | zero =>
      refine ⟨rfl, rfl, rfl, hcore, ?_⟩
      intro j
      show WS.nth E.B x0.ws j = some (c (0 + j))
      rw [hws, ws_draws E.B L hL hB, hc, Nat.zero_add]
    | succ t ih => exact Match_advance cfg E c _ _ ih
  exact ⟨hm.1, hm.2.1, hm.2.2.1, hm.2.2.2.1⟩

example :
    let E : Env 2 := ⟨exBatches, fun e => 10 * e⟩
    (∀ g, (E.B g).length = 3) ∧ (Node.new E).core = Core.init ∧ (Node.new E).ws = WS.fresh E.B (E.G0 0) ∧
      (Node.run (exCfg .cycleUntil) E (Node.new E) 6).outs = [(0, 10), (1, 20), (0, 11), (0, 10), (1, 21), (1, 22)] := by
  refine ⟨fun g => rfl, rfl, rfl, by decide⟩

/-- **Epoch bookkeeping** (`_started` / `_epoch` in `reset(None)`).  After at least one loop iteration of `next()`
a `reset(None)` moves to the next epoch: fresh bookkeeping and a sampler seeded for `epoch + 1`.  A second
`reset(None)` without a `next()` in between changes nothing, and a freshly loaded state followed by `reset(None)`
stays in the loaded epoch. -/
theorem reset_none_epoch (cfg : Cfg n) (E : Env n) (x : Node n) (t : Nat) :
    Node.reset E (Node.run cfg E x (t + 1)).st none =
      ⟨Core.init, WS.fresh E.B (E.G0 (x.epoch + 1)), x.epoch + 1, false⟩ ∧
    Node.reset E (Node.reset E x none) none = Node.reset E x none ∧
    ∀ sd : SD n, (Node.reset E (Node.reset E x (some sd)) none).epoch = sd.epoch := by
  obtain ⟨h1, h2, _⟩ := Node.run_started_epoch cfg E x t
  refine ⟨?_, rfl, fun _ => rfl⟩
  simp only [Node.reset, h1, h2, if_true]

example :
    let E : Env 2 := ⟨exBatches, fun e => 10 * e⟩
    (Node.reset E (Node.run (exCfg .allExh) E (Node.new E) 2).st none).epoch = 1 ∧
      (Node.reset E (Node.new E) none).epoch = 0 := by decide

end TDV.Weighted
