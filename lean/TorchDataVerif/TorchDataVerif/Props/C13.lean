import TorchDataVerif.Proofs.LoaderRef
import TorchDataVerif.Proofs.LoaderBisim
import TorchDataVerif.Proofs.LoaderSDL
import TorchDataVerif.Proofs.LoaderSrc
import TorchDataVerif.Proofs.LoaderReadings
/-!
# C13 — iter(), state_dict() and load_state_dict() compose as documented in any order
(with the Loader parts of C02 and C08)

Models: `TDV.Loader` (nodes `Loader`/`LoaderIterator` over an abstract root node) and `TDV.SDLApi`
(`StatefulDataLoader` façade over an abstract iterator), `Model/Loader.lean`.  A history is a `List Op`
over `{iter, next, stateDict, peek (= stateDict, result dropped), load i (the i-th state dict handed out),
abandon, fresh (a newly built loader)}`; `obs` are its observations (items, StopIteration, exceptions).

Hypotheses on the root: `Lawful root` (NodeCore; proved for every pipeline elsewhere), `DeliversEpochs root
epochs` (after a plain reset it delivers `epochs e`, epoch index as described there) and, for the
equivalence theorems, `NoError root`.  All three hold for the concrete source `epochSrc` (examples below).

Two places where the code departs from the strict reading of the property text are kept visible as
`…_statement` (false, witness decided) with the theorem proved for the code's reading over ALL histories and
a `_partial` for the strict reading:
* F1 `Loader.refines_ref_statement`: with `restart_on_stop_iteration` the look-ahead of `Loader.__iter__`
  makes a resumed epoch count as "an item was requested";
* F2 `SDLApi.refines_ref_statement`: a state taken after the last batch but before `StopIteration`
  resumes into an empty epoch.
(A third one, F3 — `state_dict()`, `load_state_dict(t)`, `state_dict()` on a new loader returned the state of
the iterator the first call created — was repaired in the code: `load_state_dict` now drops such an
iterator, and `Loader.get_transparent` holds at full strength.)
-/
namespace TDV.Loader
open TDV.Node

/-! ## C13 for the nodes `Loader` -/

/-- **The flag-based `Loader` is the list-based reference**, for every lawful root delivering `epochs`,
both values of `restart_on_stop_iteration` and every finite history.  The reference's one open choice
(`resumeReq`: does a resumed epoch count as one in which an item was requested) is the code's:
`resumeReq = restart`. -/
theorem refines_ref (root : Node) (epochs : Nat → List Item) (restart : Bool) (hl : Lawful root)
    (hd : DeliversEpochs root epochs) (ops : List Op) :
    obs root restart (Sys.init root) ops = Ref.obs epochs restart restart Ref.RSys.init ops :=
  refines_ref_aux root epochs restart hl hd ops

/-- Non-vacuity: the concrete epoch-dependent source satisfies the hypotheses; a history with a
`state_dict()` before the first `iter()`, a load, and two epochs. -/
example : Lawful (epochSrc epochIs) ∧ DeliversEpochs (epochSrc epochIs) epochIs ∧
    (obs (epochSrc epochIs) true (Sys.init _)
      [.stateDict, .iter, .next, .next, .iter, .next, .load 0, .iter, .next]).map Obs.code =
      [1, 0, 10, 4, 0, 11, 0, 0, 10] :=
  ⟨src_lawful _, epochSrc_delivers _, by decide⟩

/-- The strict reading of the text: an epoch counts as requested only if `next()` was called since the
iterator was (re)started (`resumeReq = false`). -/
def refines_ref_statement : Prop :=
  ∀ (root : Node) (epochs : Nat → List Item) (restart : Bool), Lawful root → DeliversEpochs root epochs →
    ∀ ops : List Op, obs root restart (Sys.init root) ops = Ref.obs epochs restart false Ref.RSys.init ops

/-- F1: `sd = state_dict(); load_state_dict(sd); iter(); iter(); next()` over an epoch-dependent source
yields the item of epoch 1, the strict reference that of epoch 0. -/
theorem refines_ref_statement_false : ¬ refines_ref_statement := by
  intro h
  have h1 := h (epochSrc epochIs) epochIs true (src_lawful _) (epochSrc_delivers _)
    [.stateDict, .load 0, .iter, .iter, .next]
  have h2 := congrArg (List.map Obs.code) h1
  revert h2
  decide

/-- The strict reading holds with `restart_on_stop_iteration = False`, and on every history on which the
two readings of the text cannot be told apart. -/
theorem refines_ref_partial (root : Node) (epochs : Nat → List Item) (restart : Bool) (hl : Lawful root)
    (hd : DeliversEpochs root epochs) (ops : List Op)
    (h : restart = false ∨
      Ref.obs epochs restart false Ref.RSys.init ops = Ref.obs epochs restart true Ref.RSys.init ops) :
    obs root restart (Sys.init root) ops = Ref.obs epochs restart false Ref.RSys.init ops := by
  rw [refines_ref root epochs restart hl hd ops]
  rcases h with h | h
  · rw [h]
  · cases restart with
    | false => rfl
    | true => exact h.symm

/-- In particular on every history in which each `iter()` is directly followed by a `next()` — the
`for x in loader` pattern, with `state_dict`/`load_state_dict`/new loaders anywhere in between. -/
theorem refines_ref_partial_for_loops (root : Node) (epochs : Nat → List Item) (restart : Bool)
    (hl : Lawful root) (hd : DeliversEpochs root epochs) (ops : List Op) (h : iterThenNext ops = true) :
    obs root restart (Sys.init root) ops = Ref.obs epochs restart false Ref.RSys.init ops :=
  refines_ref_partial root epochs restart hl hd ops
    (Or.inr (Ref.obs_agree epochs restart ops h Ref.d_init))

example : iterThenNext [.stateDict, .load 0, .iter, .next, .stateDict, .fresh, .load 1, .iter, .next, .next, .iter] = true := by
  decide

/-- **Epoch counter.**  Whatever bookkeeping `At` ("runtime state `r` is in epoch `e`") witnesses
`DeliversEpochs` (`c` = the two hypotheses unpacked), after every history the root of the Loader is in the
epoch of the reference's current iterator — the epoch that advances by one per epoch in which an item was
requested and is the saved one after a resume (`Ref.start`). -/
theorem epoch_counter (root : Node) (epochs : Nat → List Item) (restart : Bool) (c : RootSpec root epochs)
    (ops : List Op) :
    ORel (fun it k => c.At it.r k.e) (exec root restart (Sys.init root) ops).st.it
      (Ref.exec epochs restart restart Ref.RSys.init ops).st.cur :=
  epoch_counter_aux c restart ops

/-- For the concrete source: the `epoch` field (what `set_epoch` is given) after two epochs with requests,
one without, and a resume into epoch 1. -/
example :
    ((exec (epochSrc epochIs) true (Sys.init _)
      [.iter, .next, .iter, .stateDict, .next, .iter, .iter, .next, .load 0, .iter]).st.it.map fun it => it.r.st.e) =
      some 1 ∧
    ((exec (epochSrc epochIs) true (Sys.init _)
      [.iter, .next, .iter, .stateDict, .next, .iter, .iter, .next]).st.it.map fun it => it.r.st.e) = some 2 := by
  decide

/-! ## C02 (Loader part): resume is exact -/

/-- **Resume is a bisimulation.**  `B` = a loader after any history `H` whose user is iterating (iterator in
hand, no load pending, iterator not created by `state_dict()`) and has just called `state_dict()`; `A` = a
newly built loader that does `pre` (anything but a recorded `state_dict()`, e.g. a `peek`), loads that state
dict and calls `iter()`.  If the checkpoint is not at the end of its epoch (or `restart` is off), `A` and
`B` are bisimilar at the whole op alphabet, an `iter()` that starts a new epoch being covered when the user
has called `next()` since the last (re)start on both sides (`okIter`, the ghost-bit condition of
`Bisim.resetNone`). -/
theorem resume_exact (root : Node) (restart : Bool) (hl : Lawful root) (hne : NoError root)
    (H pre : List Op) (hpre : ∀ op ∈ pre, op ≠ Op.stateDict)
    (hit : (exec root restart (Sys.init root) H).st.it.isSome = true)
    (hp : (exec root restart (Sys.init root) H).st.pending = none)
    (hf : (exec root restart (Sys.init root) H).st.iterForSd = false)
    (hh : (exec root restart (Sys.init root) H).st.handle = true)
    (hmore : restart = false ∨
      (step root restart (exec root restart (Sys.init root) (H ++ [.stateDict])) .next).1 ≠ Obs.out Out.stop) :
    ∃ Rel : Sys root → Sys root → Prop,
      Rel (exec root restart (Sys.init root)
            (H ++ [.stateDict] ++ (.fresh :: pre) ++ [.load (exec root restart (Sys.init root) H).toks.length, .iter]))
          (exec root restart (Sys.init root) (H ++ [.stateDict])) ∧
      ∀ a b op, Rel a b → (op = Op.iter → okIter root a.st = true ∧ okIter root b.st = true) →
        (step root restart a op).1 = (step root restart b op).1 ∧
          Rel (step root restart a op).2 (step root restart b op).2 := by
  obtain ⟨L⟩ := lawSpec_of hl
  refine ⟨LR L, (resume_hist L hne restart H pre hpre hit hp hf hh).1 hmore, ?_⟩
  intro a b op hr hg
  refine step_LR L hne restart hr op (Or.inl ?_)
  cases op with
  | iter => exact ⟨okIter_OkIter (hg rfl).1, okIter_OkIter (hg rfl).2⟩
  | _ => exact ⟨trivial, trivial⟩

/-- ... hence the same observations for every continuation: rest of the epoch, later epochs, further
checkpoints and resumes (`good`: see `okIter`). -/
theorem resume_exact_obs (root : Node) (restart : Bool) (hl : Lawful root) (hne : NoError root)
    (H pre : List Op) (hpre : ∀ op ∈ pre, op ≠ Op.stateDict)
    (hit : (exec root restart (Sys.init root) H).st.it.isSome = true)
    (hp : (exec root restart (Sys.init root) H).st.pending = none)
    (hf : (exec root restart (Sys.init root) H).st.iterForSd = false)
    (hh : (exec root restart (Sys.init root) H).st.handle = true)
    (hmore : restart = false ∨
      (step root restart (exec root restart (Sys.init root) (H ++ [.stateDict])) .next).1 ≠ Obs.out Out.stop)
    (ops : List Op)
    (ga : good root restart (exec root restart (Sys.init root)
      (H ++ [.stateDict] ++ (.fresh :: pre) ++ [.load (exec root restart (Sys.init root) H).toks.length, .iter])) ops = true)
    (gb : good root restart (exec root restart (Sys.init root) (H ++ [.stateDict])) ops = true) :
    obs root restart (exec root restart (Sys.init root)
      (H ++ [.stateDict] ++ (.fresh :: pre) ++ [.load (exec root restart (Sys.init root) H).toks.length, .iter])) ops =
    obs root restart (exec root restart (Sys.init root) (H ++ [.stateDict])) ops := by
  obtain ⟨L⟩ := lawSpec_of hl
  exact obs_LR' L hne restart ops ((resume_hist L hne restart H pre hpre hit hp hf hh).1 hmore) ga gb

/-- A checkpoint taken after the last item, with `restart_on_stop_iteration`: the resumed loader is where
the original is after its `StopIteration` and the next `iter()` — it resumes into the next epoch. -/
theorem resume_exact_end (root : Node) (hl : Lawful root) (hne : NoError root)
    (H pre : List Op) (hpre : ∀ op ∈ pre, op ≠ Op.stateDict)
    (hit : (exec root true (Sys.init root) H).st.it.isSome = true)
    (hp : (exec root true (Sys.init root) H).st.pending = none)
    (hf : (exec root true (Sys.init root) H).st.iterForSd = false)
    (hh : (exec root true (Sys.init root) H).st.handle = true)
    (hend : (step root true (exec root true (Sys.init root) (H ++ [.stateDict])) .next).1 = Obs.out Out.stop)
    (ops : List Op)
    (ga : good root true (exec root true (Sys.init root)
      (H ++ [.stateDict] ++ (.fresh :: pre) ++ [.load (exec root true (Sys.init root) H).toks.length, .iter])) ops = true)
    (gb : good root true (exec root true (Sys.init root) (H ++ [.stateDict] ++ [.next, .iter])) ops = true) :
    obs root true (exec root true (Sys.init root)
      (H ++ [.stateDict] ++ (.fresh :: pre) ++ [.load (exec root true (Sys.init root) H).toks.length, .iter])) ops =
    obs root true (exec root true (Sys.init root) (H ++ [.stateDict] ++ [.next, .iter])) ops := by
  obtain ⟨L⟩ := lawSpec_of hl
  exact obs_LR' L hne true ops ((resume_hist L hne true H pre hpre hit hp hf hh).2 rfl hend) ga gb

/-- Non-vacuity of the hypotheses of `resume_exact*`: checkpoint after 2 of 4 items, resumed loader does a
`peek` first (regression: `state_dict(); load_state_dict(sd); iter()`), continuation over two epochs with
a further checkpoint. -/
example :
    let root := epochSrc four
    let H : List Op := [.iter, .next, .next]
    let A := exec root true (Sys.init root) (H ++ [.stateDict] ++ (.fresh :: [.peek]) ++ [.load 0, .iter])
    let B := exec root true (Sys.init root) (H ++ [.stateDict])
    let ops : List Op := [.next, .stateDict, .next, .next, .iter, .next]
    NoError root ∧ (exec root true (Sys.init root) H).st.it.isSome = true ∧
      (exec root true (Sys.init root) H).st.pending.isNone = true ∧
      (exec root true (Sys.init root) H).st.iterForSd = false ∧
      (exec root true (Sys.init root) H).st.handle = true ∧
      good root true A ops = true ∧ good root true B ops = true ∧
      (obs root true A ops).map Obs.code = [12, 1, 13, 4, 0, 10] ∧
      (obs root true B ops).map Obs.code = [12, 1, 13, 4, 0, 10] := by
  refine ⟨epochSrc_noError _, ?_, ?_, ?_, ?_, ?_, ?_, ?_, ?_⟩ <;> decide

/-- Non-vacuity of `resume_exact_end`: checkpoint after the only item of epoch 0 (before `StopIteration`). -/
example :
    let root := epochSrc epochIs
    let H : List Op := [.iter, .next]
    let A := exec root true (Sys.init root) (H ++ [.stateDict] ++ (.fresh :: []) ++ [.load 0, .iter])
    let B' := exec root true (Sys.init root) (H ++ [.stateDict] ++ [.next, .iter])
    let ops : List Op := [.next, .next, .iter, .next]
    (step root true (exec root true (Sys.init root) (H ++ [.stateDict])) .next).1.code = 4 ∧
      good root true A ops = true ∧ good root true B' ops = true ∧
      (obs root true A ops).map Obs.code = [11, 4, 0, 12] ∧ (obs root true B' ops).map Obs.code = [11, 4, 0, 12] := by
  refine ⟨?_, ?_, ?_, ?_, ?_⟩ <;> decide

/-! ## C08 (Loader part): taking a state changes nothing; loading is repeatable -/

/-- **Extra `state_dict()` calls change nothing**, wherever they are made (also before the first `iter()`,
where the call creates the iterator, and between a `load_state_dict` and the `iter()` that applies it):
removing all `peek`s from a history (after any prefix `H`) leaves every other observation as it was. -/
theorem get_transparent (root : Node) (restart : Bool) (hl : Lawful root) (hne : NoError root)
    (H ops : List Op)
    (g1 : good root restart (exec root restart (Sys.init root) H) ops = true)
    (g2 : good root restart (exec root restart (Sys.init root) H) (erasePeek ops) = true) :
    obsSkipPeek root restart (exec root restart (Sys.init root) H) ops =
      obs root restart (exec root restart (Sys.init root) H) (erasePeek ops) := by
  obtain ⟨L⟩ := lawSpec_of hl
  exact transparent_aux L hne restart ops (Or.inl (inv_exec L hne restart H (lr_init L))) g1 g2

/-- Non-vacuity, and the regression witness of the repaired defect F3 (`state_dict(); load_state_dict(t);
u = state_dict()`: `u` must be `t`, not the state of the iterator the first call created): with and
without the `peek`, loading `u` continues with item 2. -/
example :
    let root := epochSrc four
    let H : List Op := [.iter, .next, .next, .stateDict, .fresh]
    let ops : List Op := [.peek, .load 0, .stateDict, .fresh, .load 1, .iter, .next]
    good root true (exec root true (Sys.init root) H) ops = true ∧
      good root true (exec root true (Sys.init root) H) (erasePeek ops) = true ∧
      (obsSkipPeek root true (exec root true (Sys.init root) H) ops).map Obs.code = [0, 1, 0, 0, 0, 12] ∧
      (obs root true (exec root true (Sys.init root) H) (erasePeek ops)).map Obs.code = [0, 1, 0, 0, 0, 12] := by
  refine ⟨?_, ?_, ?_, ?_⟩ <;> decide

example :
    let root := epochSrc four
    let ops : List Op := [.peek, .iter, .peek, .next, .peek, .stateDict, .peek, .next, .load 0, .peek, .iter, .next]
    good root true (Sys.init root) ops = true ∧ good root true (Sys.init root) (erasePeek ops) = true ∧
      (obsSkipPeek root true (Sys.init root) ops).map Obs.code = [0, 10, 1, 11, 0, 0, 11] := by
  refine ⟨?_, ?_, ?_⟩ <;> decide

/-- **Loading a state dict gives the same continuation every time**: whatever a loader did between two
points `a = after H₁` and `b = after H₁ ++ H₂` (no state dict recorded in `H₂`, so the token lists are
the same), `load i; iter` from `a` and from `b` behave alike. -/
theorem load_idempotent (root : Node) (restart : Bool) (hl : Lawful root) (hne : NoError root)
    (H1 H2 : List Op) (h2 : ∀ op ∈ H2, op ≠ Op.stateDict) (i : Nat)
    (hi : i < (exec root restart (Sys.init root) H1).toks.length) (ops : List Op)
    (ga : good root restart (exec root restart (Sys.init root) (H1 ++ [.load i, .iter])) ops = true)
    (gb : good root restart (exec root restart (Sys.init root) (H1 ++ H2 ++ [.load i, .iter])) ops = true) :
    obs root restart (exec root restart (Sys.init root) (H1 ++ [.load i, .iter])) ops =
      obs root restart (exec root restart (Sys.init root) (H1 ++ H2 ++ [.load i, .iter])) ops := by
  obtain ⟨L⟩ := lawSpec_of hl
  have ha := inv_exec L hne restart H1 (lr_init L)
  have hb := inv_exec L hne restart (H1 ++ H2) (lr_init L)
  have ht : (exec root restart (Sys.init root) (H1 ++ H2)).toks = (exec root restart (Sys.init root) H1).toks := by
    rw [exec_append, exec_toks restart H2 _ h2]
  have hrel : LRel (TQ L) (exec root restart (Sys.init root) H1).toks
      (exec root restart (Sys.init root) (H1 ++ H2)).toks := by
    rw [ht]
    exact ha.toks
  have := load_iter_LR L hne restart ha hb hrel i hi
  rw [exec_append restart H1, exec_append restart (H1 ++ H2)]
  exact obs_LR' L hne restart ops this (by rw [← exec_append]; exact ga) (by rw [← exec_append]; exact gb)

example :
    let root := epochSrc four
    let H1 : List Op := [.iter, .next, .stateDict, .next]
    let H2 : List Op := [.load 0, .iter, .next, .next, .iter, .peek]
    let ops : List Op := [.next, .next]
    good root true (exec root true (Sys.init root) (H1 ++ [.load 0, .iter])) ops = true ∧
      good root true (exec root true (Sys.init root) (H1 ++ H2 ++ [.load 0, .iter])) ops = true ∧
      (obs root true (exec root true (Sys.init root) (H1 ++ H2 ++ [.load 0, .iter])) ops).map Obs.code = [11, 12] := by
  refine ⟨?_, ?_, ?_⟩ <;> decide

end TDV.Loader

/-! ## C13 for the `StatefulDataLoader` façade -/
namespace TDV.SDLApi
open TDV.Node
open TDV.Loader (Obs Op)

/-- **The `StatefulDataLoader` decision table (`_iterator`, `next_iter_state`,
`_initial_iter_for_state_dict`, `_finished`, with or without persistent workers) is the reference's rule**,
for every history; "after the last item" read as the code reads it (`endByStop = true`). -/
theorem refines_ref (epochs : Nat → List Item) (persistent : Bool) (ops : List Op) :
    obs epochs persistent Sys.init ops = Ref.obs epochs true Ref.RSys.init ops :=
  obs_abs epochs persistent ops Sys.init inv_init

/-- The positional reading: a state whose position is past the last item resumes into the next epoch. -/
def refines_ref_statement : Prop :=
  ∀ (epochs : Nat → List Item) (persistent : Bool) (ops : List Op),
    obs epochs persistent Sys.init ops = Ref.obs epochs false Ref.RSys.init ops

/-- F2: take the only item, `state_dict()` before `StopIteration`, load, `iter()`, `next()`:
`StopIteration` (an empty epoch) instead of the next epoch's item. -/
theorem refines_ref_statement_false : ¬ refines_ref_statement := by
  intro h
  have h1 := h TDV.Loader.epochIs false [.iter, .next, .stateDict, .load 0, .iter, .next]
  have h2 := congrArg (List.map TDV.Loader.Obs.code) h1
  revert h2
  decide

/-- The positional reading holds on every history that never loads a state taken past the last item of a
non-empty epoch before `StopIteration` was delivered (`Ref.PlainLoads`). -/
theorem refines_ref_partial (epochs : Nat → List Item) (persistent : Bool) (ops : List Op)
    (h : Ref.PlainLoads epochs Ref.RSys.init ops) :
    obs epochs persistent Sys.init ops = Ref.obs epochs false Ref.RSys.init ops := by
  rw [refines_ref, Ref.obs_readings epochs ops Ref.RSys.init (Ref.pinv_init epochs) h]

example : Ref.PlainLoads TDV.Loader.four Ref.RSys.init
    [.iter, .next, .stateDict, .next, .next, .next, .next, .stateDict, .load 0, .iter, .load 1, .iter] := by
  simp [Ref.PlainLoads, Ref.step, Ref.Plain, Ref.iter, Ref.iterPick, Ref.newEpoch, Ref.next, Ref.itNext,
    Ref.stateDict, Ref.RSys.init, Ref.RState.init, Ref.load, Ref.resumeOrNew, Ref.atEnd, TDV.Loader.four]
  refine ⟨?_, ?_⟩ <;> intro i t hi ht <;> subst hi <;> simp at ht <;> subst ht <;> simp

/-- **`state_dict()` before iteration creates the iterator once; the next `iter()` reuses it exactly once; a
load invalidates it.**  For any façade state without an iterator: one `_get_iterator()` call; it started a
new stream only if nothing was loaded; the next `iter()` (if the iterator is not already finished) makes no
further call, starts no further stream and hands out that very iterator; the `iter()` after that starts
the next stream; `load_state_dict` drops the iterator and the flag, and the following `iter()` starts from
the loaded state. -/
theorem state_dict_before_iter_single_start (persistent : Bool) (s : State) (h0 : s.iterator = none) :
    (stateDict s).2.made = s.made + 1 ∧
    (stateDict s).2.iterator = some (stateDict s).1 ∧
    (stateDict s).2.g = (if s.pending = none then s.g + 1 else s.g) ∧
    ((stateDict s).1.fin = false →
      (iter persistent (stateDict s).2).1 = .ok ∧
      (iter persistent (stateDict s).2).2.made = (stateDict s).2.made ∧
      (iter persistent (stateDict s).2).2.g = (stateDict s).2.g ∧
      (iter persistent (stateDict s).2).2.iterator = some (stateDict s).1 ∧
      (iter persistent (stateDict s).2).2.handle = .shared ∧
      (iter persistent (iter persistent (stateDict s).2).2).2.g = (stateDict s).2.g + 1 ∧
      (iter persistent (iter persistent (stateDict s).2).2).2.iterator = some ⟨(stateDict s).2.g, 0, false⟩) ∧
    (∀ t, (load (stateDict s).2 t).iterator = none ∧ (load (stateDict s).2 t).initForSd = false ∧
      (t.fin = false → (iter persistent (load (stateDict s).2 t)).2.iterator = some t ∧
        (iter persistent (load (stateDict s).2 t)).2.g = (stateDict s).2.g)) :=
  single_start_aux persistent s h0

example : State.init.iterator = none := rfl

end TDV.SDLApi
