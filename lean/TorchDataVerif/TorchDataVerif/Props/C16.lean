import TorchDataVerif.Proofs.Ctor
/-!
# C16 — an incompatible checkpoint is rejected, never silently mis-resumed

Property theorems over the constructor model `TDV.Ctor` (decision logic of `load_state_dict`,
`_get_iterator`, `__iter__` and the two iterator constructors).  `ws` = `num_workers` of the saving loader,
`wl` = `num_workers` of the loading one, `0` = single-process; `k`, `len` = the saving run made `k` calls
of `next` on an epoch of `len` batches.  Helper lemmas: `Proofs/Ctor.lean`.
-/
namespace TDV.Ctor

/-- **Every mismatch is rejected and yields nothing.**  Building the `wl` iterator from a state produced by
a `ws ≠ wl` loader ends in `AssertionError`, at every interruption point; and on any loader façade with `wl`
workers (whatever happened to it before), `load_state_dict(state); iter(loader)` raises that error from its
single constructor call and stores no iterator — there is nothing a batch could be drawn from. -/
theorem reject_mismatch (ws wl k len : Nat) (h : ws ≠ wl) :
    (construct wl (some (stateOf ws k len))).outcome = .error .assertion ∧
    ∀ f : Facade, f.numWorkers = wl →
      let o := (f.load (stateOf ws k len)).iter
      o.outcome = .error .assertion ∧ o.facade.iterator = none ∧
        o.calls = [construct wl (some (stateOf ws k len))] := by
  refine ⟨construct_mismatch ws wl k len h, ?_⟩
  intro f hf
  have hk := stateOf_keys_ne ws k len
  have hr := construct_mismatch ws wl k len h
  have := iter_err (f.load (stateOf ws k len)) (by simp [Facade.load, hk]) (by simp [Facade.load, hk])
    .assertion (by simpa [Facade.load, hk, hf] using hr)
  simp only [this]
  simp [Facade.load, hk, hf]

example : (construct 3 (some (stateOf 2 5 9))).outcome = .error .assertion ∧
    (construct 0 (some (stateOf 2 5 9))).outcome = .error .assertion ∧
    (construct 2 (some (stateOf 0 5 9))).outcome = .error .assertion := by decide

/-- **Where the rejection fires.**  Single-process against multi-process (either direction): in the first
key assertion, before anything was started.  Multi-process against multi-process: only in
`_restore_main_state`, after all `wl` new workers were started and had answered the start-up handshake (the
worker-key-set assertion before the start cannot fire: it never looks at `wl`; the saved worker states are
merged into a dict of `max ws wl` entries, `min ws wl` workers get one).  In every case the workers started
are exactly those registered in the half-built iterator, i.e. those its release shuts down. -/
theorem reject_stage (ws wl k len : Nat) (h : ws ≠ wl) :
    let r := construct wl (some (stateOf ws k len))
    (if ws = 0 ∨ wl = 0 then r.stages = [.baseInit] ∧ r.started = 0
     else r.stages = [.baseInit, .hasKey .snapshot, .workerKeysOk, .mergeWorkerStates (max ws wl) (min ws wl),
            .startWorkers wl, .handshake wl] ∧ r.started = wl ∧ r.handshakeDone = true) ∧
    r.mustRelease = r.started := by
  refine ⟨?_, registered_eq_started wl _⟩
  rcases Nat.eq_zero_or_pos ws with hs | hs <;> rcases Nat.eq_zero_or_pos wl with hl | hl
  · omega
  · subst hs; rw [construct_sp_mp wl k len hl]; simp [Result.started, Stage.startedCount]
  · subst hl; rw [construct_mp_sp ws k len hs]; simp [Result.started, Stage.startedCount]
  · have hor : ¬ (ws = 0 ∨ wl = 0) := by omega
    have hne : ¬ wl = ws := fun e => h e.symm
    rw [construct_mp_mp ws wl k len hs hl, if_neg hne, if_neg hor]
    simp [mpPrefix, Result.started, Result.handshakeDone, Stage.startedCount]

/-- `mustRelease = started` holds for *every* constructor call, accepted or not, from any state shape. -/
theorem release_covers_started (wl : Nat) (st : Option State) :
    (construct wl st).mustRelease = (construct wl st).started := registered_eq_started wl st

example : (construct 3 (some (stateOf 2 5 9))).started = 3 ∧ (construct 3 (some (stateOf 2 5 9))).mustRelease = 3 ∧
    (construct 1 (some (stateOf 4 0 9))).stages =
      [.baseInit, .hasKey .snapshot, .workerKeysOk, .mergeWorkerStates 4 1, .startWorkers 1, .handshake 1] := by
  decide

/-- **A matching state is accepted**, at every interruption point: every check passes; `iter(loader)` returns
an iterator positioned at the saved point (`min k len` batches yielded) — or, when the saved iterator was
already finished (`len < k`), a fresh-epoch iterator (persistent: `_reset`; otherwise a second constructor
call, whose first iterator is released) — and `next_iter_state` is consumed. -/
theorem accept_match (w k len : Nat) :
    (construct w (some (stateOf w k len))).outcome = .ok ∧
    ∀ f : Facade, f.numWorkers = w →
      let o := (f.load (stateOf w k len)).iter
      o.outcome = .ok ∧ o.facade.pending = none ∧
      o.facade.iterator = some (if len < k then ⟨w, none, 0, false⟩
                                else ⟨w, some (stateOf w k len), min k len, false⟩) ∧
      o.calls = (if len < k ∧ f.persistent = false
                 then [construct w (some (stateOf w k len)), construct w none]
                 else [construct w (some (stateOf w k len))]) := by
  refine ⟨construct_match w k len, ?_⟩
  intro f hf
  subst hf
  rw [load_iter_match]
  refine ⟨rfl, rfl, ?_, rfl⟩
  by_cases hk : len < k
  · simp [hk, iterOf]
  · simp [hk, iterOf, stateOf_yielded, stateOf_finished]

example : ((Facade.fresh 2 false).load (stateOf 2 3 5)).iter.facade.iterator = some ⟨2, some (stateOf 2 3 5), 3, false⟩ ∧
    ((Facade.fresh 2 false).load (stateOf 2 6 5)).iter.facade.iterator = some ⟨2, none, 0, false⟩ ∧
    (((Facade.fresh 2 false).load (stateOf 2 6 5)).iter.calls.map Result.started).sum = 4 ∧
    (((Facade.fresh 2 true).load (stateOf 2 6 5)).iter.calls.map Result.started).sum = 2 := by decide

/-- **`load_state_dict({})`: what really happens.**  It drops `_iterator` and the flag and leaves
`next_iter_state` exactly as it was.  Hence, on a loader with nothing pending, the next `iter` builds a
fresh-epoch iterator from one constructor call without a state (**fresh epoch**). -/
theorem empty_is_fresh (f : Facade) :
    f.load .empty = { f with iterator := none, initialForSD := false } ∧
    (f.pending = none →
      (f.load .empty).iter =
        ⟨[construct f.numWorkers none], .ok,
         { f with iterator := some ⟨f.numWorkers, none, 0, false⟩, initialForSD := false }⟩) := by
  refine ⟨rfl, ?_⟩
  intro hp
  have hl : f.load .empty = { f with iterator := none, initialForSD := false } := rfl
  rw [hl, iter_ok _ rfl rfl (by simpa [hp] using construct_fresh f.numWorkers)]
  simp [iterOkOut, hp, iterOf]

/-- … but a pending state stays pending: loading `{}` is the same as loading the pending state once more. -/
theorem empty_keeps_pending (f : Facade) (s : State) (hp : f.pending = some s) (hs : s.keys.isEmpty = false) :
    f.load .empty = f.load s := by
  cases f
  simp_all [Facade.load, State.keys]

/-- The full-strength reading of "an empty dict leaves the loader starting a fresh epoch". -/
def empty_always_fresh_statement : Prop :=
  ∀ f : Facade, (f.load .empty).iter.outcome = .ok ∧
    (f.load .empty).iter.facade.iterator = some ⟨f.numWorkers, none, 0, false⟩

/-- It is false in the model: (1) after a rejected load, `load_state_dict({})` does not clear the rejected
state — the next `iter` raises again; (2) after a valid load that was not yet iterated, `{}` does not cancel
it — the next `iter` resumes at the loaded position. (Replayed on the real loader by the Python side.) -/
theorem not_empty_always_fresh : ¬ empty_always_fresh_statement := by
  intro h
  have := (h ((Facade.fresh 2 false).load (stateOf 0 1 5)).iter.facade).1
  revert this
  decide

example : (((Facade.fresh 2 false).load (stateOf 2 1 5)).load .empty).iter.facade.iterator
    = some ⟨2, some (stateOf 2 1 5), 1, false⟩ := by decide

/-- The restriction that does hold. -/
theorem empty_always_fresh_partial (f : Facade) (hp : f.pending = none) :
    (f.load .empty).iter.outcome = .ok ∧
    (f.load .empty).iter.facade.iterator = some ⟨f.numWorkers, none, 0, false⟩ := by
  rw [(empty_is_fresh f).2 hp]
  exact ⟨rfl, rfl⟩

/-- **Usable after a rejection.**  After `load(mismatching); iter` raised: the rejected state is *still
pending* (`_get_iterator` clears `next_iter_state` only after a successful construction) and no iterator is
stored; a further `iter` — also after `load_state_dict({})` — raises again; loading a matching state
replaces the pending one and is accepted exactly as on an untouched loader. -/
theorem usable_after_reject (f : Facade) (ws k len k' len' : Nat) (h : ws ≠ f.numWorkers) :
    let f1 := (f.load (stateOf ws k len)).iter.facade
    f1.pending = some (stateOf ws k len) ∧ f1.iterator = none ∧
    f1.iter.outcome = .error .assertion ∧
    (f1.load .empty).iter.outcome = .error .assertion ∧
    (f1.load (stateOf f.numWorkers k' len')).iter = (f.load (stateOf f.numWorkers k' len')).iter ∧
    (f1.load (stateOf f.numWorkers k' len')).iter.outcome = .ok := by
  intro f1
  have e1 : f1 = { f with pending := some (stateOf ws k len), iterator := none, initialForSD := false } := by
    simp only [f1]; rw [load_iter_mismatch f ws k len h]
  have hw : f1.numWorkers = f.numWorkers := by rw [e1]
  have hl : f1.load (stateOf ws k len) = f1 := by rw [load_stateOf, e1]
  have hi : f1.iter.outcome = .error .assertion := by
    rw [← hl, load_iter_mismatch f1 ws k len (by rw [hw]; exact h)]
  have he : f1.load .empty = f1 := by rw [e1]; rfl
  have hm : f1.load (stateOf f.numWorkers k' len') = f.load (stateOf f.numWorkers k' len') := by
    rw [load_stateOf, load_stateOf, e1]
  refine ⟨by rw [e1], by rw [e1], hi, by rw [he]; exact hi, by rw [hm], ?_⟩
  rw [hm, load_iter_match]

example : let f1 := ((Facade.fresh 3 false).load (stateOf 1 2 5)).iter.facade
    f1.pending.isSome = true ∧ (f1.load (stateOf 3 2 5)).iter.outcome = .ok ∧
    (f1.load (stateOf 3 2 5)).iter.facade.pending = none := by decide

/-- `state_dict()` on a loader without iterator builds one from the pending state, so it raises the same
error after a mismatching load (and leaves the façade unchanged). -/
theorem state_dict_rejects_too (f : Facade) (ws k len : Nat) (h : ws ≠ f.numWorkers) :
    (f.load (stateOf ws k len)).stateDict.outcome = .error .assertion ∧
    (f.load (stateOf ws k len)).stateDict.facade = f.load (stateOf ws k len) := by
  rw [load_stateOf]
  have hr := construct_mismatch ws f.numWorkers k len h
  simp [Facade.stateDict, Facade.getIterator, hr]

/-- A state whose worker keys are not `worker_0 … worker_{n-1}` is the only thing the worker-key-set
assertion catches — before any worker is started. -/
example : construct 2 (some (.mp ⟨2, [0, 2]⟩ 1 false)) = ⟨[.baseInit, .hasKey .snapshot], 0, .error .assertion⟩ := by
  decide

end TDV.Ctor
