import TorchDataVerif.Proofs.NodesReach
/-!
# C04 — node pipelines compute their sequential reference semantics

Every lemma has the shape: *if the `reset()` epoch of the source, started from the state the source is in
inside the combinator's current state `R`, yields `xs` and then stops, then the `reset()` epoch of the
combinator started from `R` yields `ref xs` and then stops.*  `R` is arbitrary, in particular the state
reached after a complete earlier epoch: that is `epoch_complete`.

`Yields n r xs` (Model/Nodes.lean): from `r`, `next()` returns exactly the items `xs`, then
`StopIteration` on every later call.  `GetTransparent src`: `state_dict()` of the source does not change
what it yields on reachable states (it follows from `Lawful src`, see `Lawful.getTransparent` in C02);
it is needed where the combinator calls `source.state_dict()` between `next()` calls.
-/
namespace TDV.Node

/-- `IterableWrapper(list)` yields the list, in every epoch, from any state. -/
theorem listSource_denote (l : List Item) (r : Run (listSource l)) :
    Yields (listSource l) ((listSource l).rreset r none) l :=
  listSource_yields l r

example : Yields (listSource [.atom 1, .none]) ((listSource [.atom 1, .none]).rreset (listSource _).rfresh none)
    [.atom 1, .none] := listSource_denote _ _

/-- `SamplerWrapper`: a `reset()` epoch yields the sampler's order for the epoch it starts: the current
epoch if `next()` was not called since the last reset, `epoch_updater(epoch)` otherwise. -/
theorem samplerNode_denote (idx : Nat → List Item) (upd : Nat → Nat) (e0 : Nat)
    (r : Run (samplerNode idx upd e0)) :
    Yields (samplerNode idx upd e0) ((samplerNode idx upd e0).rreset r none)
      (idx (if (r.st : SampSt).started then upd (r.st : SampSt).epoch else (r.st : SampSt).epoch)) :=
  samplerNode_yields idx upd e0 r

/-- Successive full epochs of a sampler node see `idx e0, idx (upd e0), idx (upd (upd e0)), …`:
`sampEpochStart j` is the state at the start of the `j`-th epoch when every epoch is run to its stop. -/
def sampEpochStart (idx : Nat → List Item) (upd : Nat → Nat) (e0 : Nat) : Nat → Run (samplerNode idx upd e0)
  | 0 => (samplerNode idx upd e0).rreset (samplerNode idx upd e0).rfresh none
  | j + 1 =>
    let s := sampEpochStart idx upd e0 j
    (samplerNode idx upd e0).rreset
      ((samplerNode idx upd e0).after ((s.st : SampSt).rem.length + 1) s) none

theorem samp_after_all (idx : Nat → List Item) (upd : Nat → Nat) (e0 : Nat) (rem : List Item) :
    ∀ (ny e : Nat) (st b : Bool),
      (((samplerNode idx upd e0).after (rem.length + 1)
        ⟨{ rem := rem, ny := ny, epoch := e, started := st, bad := false }, b⟩).st : SampSt).epoch = e ∧
      (((samplerNode idx upd e0).after (rem.length + 1)
        ⟨{ rem := rem, ny := ny, epoch := e, started := st, bad := false }, b⟩).st : SampSt).started = true := by
  induction rem with
  | nil => intros; exact ⟨rfl, rfl⟩
  | cons x xs ih => intro ny e st b; exact ih (ny + 1) e true true

theorem sampReset_none_started (idx : Nat → List Item) (upd : Nat → Nat) (st : SampSt)
    (hs : st.started = true) :
    sampReset idx upd st none =
      { rem := idx (upd st.epoch), ny := 0, epoch := upd st.epoch, started := false, bad := false } := by
  simp [sampReset, hs]

theorem sampEpochStart_spec (idx : Nat → List Item) (upd : Nat → Nat) (e0 : Nat) (j : Nat) :
    ((sampEpochStart idx upd e0 j).st : SampSt) =
      { rem := idx (Ref.epochOf upd e0 j), ny := 0, epoch := Ref.epochOf upd e0 j, started := false, bad := false } := by
  induction j with
  | zero => rfl
  | succ j ih =>
    simp only [sampEpochStart]
    generalize sampEpochStart idx upd e0 j = s at ih ⊢
    obtain ⟨st, b⟩ := s
    simp only at ih
    subst ih
    have h := samp_after_all idx upd e0 (idx (Ref.epochOf upd e0 j)) 0 (Ref.epochOf upd e0 j) false b
    show sampReset idx upd _ none = _
    rw [sampReset_none_started idx upd _ h.2, h.1]
    rfl

/-- The `j`-th consecutive epoch of a sampler node yields `idx (Ref.epochOf upd e0 j)`. -/
theorem samplerNode_epochs (idx : Nat → List Item) (upd : Nat → Nat) (e0 : Nat) (j : Nat) :
    Yields (samplerNode idx upd e0) (sampEpochStart idx upd e0 j) (idx (Ref.epochOf upd e0 j)) := by
  have h := sampEpochStart_spec idx upd e0 j
  have e : sampEpochStart idx upd e0 j =
      ⟨{ rem := idx (Ref.epochOf upd e0 j), ny := 0, epoch := Ref.epochOf upd e0 j, started := false, bad := false },
        (sampEpochStart idx upd e0 j).nexted⟩ := by
    rw [← h]
  rw [e]
  exact samp_yields_aux idx upd e0 _ _ _ _ _

/-- `IterableWrapper` over a `Stateful` iterable yields what the iterable's `iter()` yields. -/
theorem statefulSource_denote (it : StIter) (R : Run (statefulSource it)) (xs : List Item)
    (h : Yields (iterNode it) ((iterNode it).rreset ⟨(R.st : SrcSt it).its, false⟩ none) xs) :
    Yields (statefulSource it) ((statefulSource it).rreset R none) xs :=
  stateful_yields it xs _ 0 false false h

/-- `Mapper`: `map_fn` applied to every source item, in order (when `map_fn` does not raise on them). -/
theorem mapper_denote (f : Item → Option Item) (g : Item → Item) (src : Node) (xs : List Item)
    (hf : ∀ x ∈ xs, f x = some (g x)) (R : Run (mapper f src))
    (h : Yields src (src.rreset (R.st : Run src) none) xs) :
    Yields (mapper f src) ((mapper f src).rreset R none) (xs.map g) :=
  mapper_yields f g src xs hf _ h

/-- `Batcher`: consecutive groups of `bs ≥ 1` items honouring `drop_last`. -/
theorem batcher_denote (bs : Nat) (dl : Bool) (src : Node) (hbs : 1 ≤ bs) (xs : List Item)
    (R : Run (batcher bs dl src)) (h : Yields src (src.rreset (R.st : Run src) none) xs) :
    Yields (batcher bs dl src) ((batcher bs dl src).rreset R none) ((Ref.chunk bs dl xs).map Item.list) :=
  batcher_yields bs dl src hbs xs _ h

/-- `Filter`: exactly the accepted items, in order (`fuel` bounds the rejection loop). -/
theorem filter_denote (fuel : Nat) (p : Item → Bool) (src : Node) (xs : List Item) (hf : xs.length < fuel)
    (R : Run (filter fuel p src)) (h : Yields src (src.rreset (R.st : FilSt src).inner none) xs) :
    Yields (filter fuel p src) ((filter fuel p src).rreset R none) (xs.filter p) :=
  filter_yields fuel p src xs.length xs _ (Nat.le_refl _) hf h

/-- `Unbatcher` flattens. -/
theorem unbatcher_denote (fuel : Nat) (src : Node) (hg : GetTransparent src) (bs : List (List Item))
    (hf : bs.length < fuel) (R : Run (unbatcher fuel src)) (hR : (unbatcher fuel src).Reach R)
    (h : Yields src (src.rreset (R.st : UnbSt src).inner none) (bs.map Item.list)) :
    Yields (unbatcher fuel src) ((unbatcher fuel src).rreset R none) bs.flatten := by
  have := unbatcher_yields fuel src hg bs [] ((unbatcher fuel src).rreset R none) rfl rfl
    (Node.Reach.resetNone (unbatcher_reach fuel src R hR).1) h hf
  simpa using this

/-- `Prefetcher` / in-order `ParallelMapper` (sequential abstraction) is the identity on items, for
every `snapshot_frequency`. -/
theorem buffered_denote (sf : Nat) (src : Node) (hg : GetTransparent src) (xs : List Item)
    (R : Run (buffered sf src)) (hR : (buffered sf src).Reach R)
    (h : Yields src (src.rreset (R.st : BufSt src).inner none) xs) :
    Yields (buffered sf src) ((buffered sf src).rreset R none) xs := by
  have hr := Node.Reach.resetNone (buffered_reach sf src R hR).1
  exact buffered_yields sf src hg xs ((buffered sf src).rreset R none) rfl rfl
    (Node.Reach.get hr) (Yields.congr (hg _ hr).symm h)

/-- `prebatch` does not change results (for a `map_fn` that does not raise). -/
theorem prebatch_denote (fuel : Nat) (f : Item → Option Item) (g : Item → Item) (hf : ∀ x, f x = some (g x))
    (pb : Nat) (hpb : 1 ≤ pb) (src : Node) (hg : GetTransparent src) (xs : List Item) (hfuel : xs.length < fuel)
    (R : Run (prebatchMapper fuel f pb src)) (hR : (prebatchMapper fuel f pb src).Reach R)
    (h : Yields src (src.rreset
      ((((R.st : UnbSt (mapper (overBatch f) (batcher pb false src))).inner.st :
        Run (batcher pb false src)).st : Run src)) none) xs) :
    Yields (prebatchMapper fuel f pb src) ((prebatchMapper fuel f pb src).rreset R none) (xs.map g) := by
  have hB := batcher_denote pb false src hpb xs (R.st : UnbSt (mapper (overBatch f) (batcher pb false src))).inner.st h
  have hM := mapper_denote (overBatch f) (fun x => match x with | .list b => .list (b.map g) | y => y)
    (batcher pb false src) _ (by
      intro x hx
      obtain ⟨b, _, rfl⟩ := List.mem_map.mp hx
      simp [overBatch, mapAll_total f g hf]) (R.st : UnbSt (mapper (overBatch f) (batcher pb false src))).inner hB
  have hgM : GetTransparent (mapper (overBatch f) (batcher pb false src)) :=
    mapper_getTransparent _ _ (batcher_getTransparent _ _ _ hg)
  have e : ((Ref.chunk pb false xs).map Item.list).map
      (fun x => match x with | .list b => .list (b.map g) | y => y) =
      ((Ref.chunk pb false xs).map (List.map g)).map Item.list := by
    simp [List.map_map, Function.comp_def]
  rw [e] at hM
  have hU := unbatcher_denote fuel _ hgM ((Ref.chunk pb false xs).map (List.map g))
    (by
      have := chunkF_length pb false hpb xs.length xs
      simp only [List.length_map, Ref.chunk]
      omega) R hR hM
  have e2 : ((Ref.chunk pb false xs).map (List.map g)).flatten = xs.map g := by
    rw [← List.map_flatten, Ref.chunk, chunkF_flatten pb hpb xs.length xs (Nat.le_refl _)]
  rw [e2] at hU
  exact hU

/-- The items of the epoch that `reset()` starts from runtime state `r`, by the structure of the
pipeline. -/
inductive Epoch : (n : Node) → Run n → List Item → Prop
  | list (l : List Item) (r : Run (listSource l)) : Epoch (listSource l) r l
  | sampler (idx : Nat → List Item) (upd : Nat → Nat) (e0 : Nat) (r : Run (samplerNode idx upd e0)) :
      Epoch (samplerNode idx upd e0) r
        (idx (if (r.st : SampSt).started then upd (r.st : SampSt).epoch else (r.st : SampSt).epoch))
  | stateful (it : StIter) (R : Run (statefulSource it)) (xs : List Item) :
      Yields (iterNode it) ((iterNode it).rreset ⟨(R.st : SrcSt it).its, false⟩ none) xs →
      Epoch (statefulSource it) R xs
  | mapper (f : Item → Option Item) (g : Item → Item) (src : Node) (xs : List Item) (R : Run (mapper f src)) :
      (∀ x ∈ xs, f x = some (g x)) → Epoch src (R.st : Run src) xs → Epoch (mapper f src) R (xs.map g)
  | batcher (bs : Nat) (dl : Bool) (src : Node) (xs : List Item) (R : Run (batcher bs dl src)) :
      1 ≤ bs → Epoch src (R.st : Run src) xs → Epoch (batcher bs dl src) R ((Ref.chunk bs dl xs).map Item.list)
  | filter (fuel : Nat) (p : Item → Bool) (src : Node) (xs : List Item) (R : Run (filter fuel p src)) :
      xs.length < fuel → Epoch src (R.st : FilSt src).inner xs → Epoch (filter fuel p src) R (xs.filter p)
  | unbatcher (fuel : Nat) (src : Node) (bs : List (List Item)) (R : Run (unbatcher fuel src)) :
      GetTransparent src → (unbatcher fuel src).Reach R → bs.length < fuel →
      Epoch src (R.st : UnbSt src).inner (bs.map Item.list) → Epoch (unbatcher fuel src) R bs.flatten
  | buffered (sf : Nat) (src : Node) (xs : List Item) (R : Run (buffered sf src)) :
      GetTransparent src → (buffered sf src).Reach R →
      Epoch src (R.st : BufSt src).inner xs → Epoch (buffered sf src) R xs

/-- Every epoch obtained by `reset()` — from any state, in particular after a complete earlier epoch —
is again complete: it yields exactly the reference items and then stops. -/
theorem epoch_complete {n : Node} {r : Run n} {xs : List Item} (h : Epoch n r xs) :
    Yields n (n.rreset r none) xs := by
  induction h with
  | list l r => exact listSource_denote l r
  | sampler idx upd e0 r => exact samplerNode_denote idx upd e0 r
  | stateful it R xs h => exact statefulSource_denote it R xs h
  | mapper f g src xs R hf _ ih => exact mapper_denote f g src xs hf R ih
  | batcher bs dl src xs R hbs _ ih => exact batcher_denote bs dl src hbs xs R ih
  | filter fuel p src xs R hf _ ih => exact filter_denote fuel p src xs hf R ih
  | unbatcher fuel src bs R hg hR hf _ ih => exact unbatcher_denote fuel src hg bs hf R hR ih
  | buffered sf src xs R hg hR _ ih => exact buffered_denote sf src hg xs R hR ih

/-! ## Non-vacuity: concrete pipelines -/

theorem listSource_getTransparent (l : List Item) : GetTransparent (listSource l) :=
  fun r _ => SameOuts.refl r

def incF : Item → Option Item
  | .atom n => some (.atom (n + 1))
  | _ => none
def incG : Item → Item
  | .atom n => .atom (n + 1)
  | x => x

/-- `Batcher(Mapper(IterableWrapper([1,2,3]), inc), 2, drop_last=False)` yields `[[2,3],[4]]` in every epoch. -/
example (R : Run (batcher 2 false (mapper incF (listSource [.atom 1, .atom 2, .atom 3])))) :
    Yields _ (Node.rreset _ R none) [.list [.atom 2, .atom 3], .list [.atom 4]] :=
  epoch_complete (Epoch.batcher 2 false _ _ R (by omega)
    (Epoch.mapper incF incG _ _ _ (by intro x hx; simp at hx; rcases hx with rfl | rfl | rfl <;> rfl)
      (Epoch.list _ _)))

/-- `Unbatcher(IterableWrapper([[1],[],[2,3]]))` yields `[1,2,3]` (reachable states). -/
example (R : Run (unbatcher 10 (listSource [.list [.atom 1], .list [], .list [.atom 2, .atom 3]])))
    (hR : Node.Reach _ R) : Yields _ (Node.rreset _ R none) [.atom 1, .atom 2, .atom 3] :=
  epoch_complete (Epoch.unbatcher 10 _ [[.atom 1], [], [.atom 2, .atom 3]] R
    (listSource_getTransparent _) hR (by simp) (Epoch.list _ _))

/-- `Prefetcher(IterableWrapper([1,None]), snapshot_frequency=2)` yields `[1,None]`. -/
example (R : Run (buffered 2 (listSource [.atom 1, .none]))) (hR : Node.Reach _ R) :
    Yields _ (Node.rreset _ R none) [.atom 1, .none] :=
  epoch_complete (Epoch.buffered 2 _ _ R (listSource_getTransparent _) hR (Epoch.list _ _))

/-- `ParallelMapper(IterableWrapper([1,2,3]), inc, num_workers=0, prebatch=2)` yields `[2,3,4]`. -/
example (R : Run (prebatchMapper 10 (fun x => some (incG x)) 2 (listSource [.atom 1, .atom 2, .atom 3])))
    (hR : Node.Reach _ R) : Yields _ (Node.rreset _ R none) [.atom 2, .atom 3, .atom 4] :=
  prebatch_denote 10 _ incG (fun _ => rfl) 2 (by omega) _ (listSource_getTransparent _)
    [.atom 1, .atom 2, .atom 3] (by simp) R hR (listSource_denote _ _)

end TDV.Node
