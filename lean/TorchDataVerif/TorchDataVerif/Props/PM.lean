import TorchDataVerif.Proofs.PMVariant
import TorchDataVerif.Proofs.PMWitness
import TorchDataVerif.Proofs.PMGen
/-!
# ParallelMapper thread protocol `PM` — property theorems (serving C04, C06, C11, C12, C17)

Every statement quantifies over ALL reachable states, i.e. all enabled action sequences from `init`: every
interleaving of reader, N workers, sorter and consumer at the granularity of operations on shared objects,
including every timeout that can fire.  No bound on N, max_concurrent, snapshot_frequency, source length.
Helper lemmas live in `Proofs/PM*.lean`.
-/
namespace TDV.PM

/-- A small concrete configuration and run used by the non-vacuity examples: 2 workers, max_concurrent 2,
snapshot every item, in order, source [5, 7], map x ↦ x + 1; both items are delivered, the second one overtakes the
first at the sorter; then StopIteration. -/
def cfgE : Cfg :=
  { N := 2, max := 2, f := 1, inOrder := true, proc := false, src := [5, 7], term := .stop,
    fn := fun v => some (v + 1), base := 0 }

def trE : List Action :=
  [.rInit, .cBoot, .rIsSet, .rAcq, .rEnter, .rLeave, .rAppend, .rPut, .rIsSet, .rAcq, .rEnter, .rLeave, .rAppend, .rPut,
   .wIsSet 0, .wGet 0, .wIsSet 1, .wGet 1, .wPut 1, .wPut 0,
   .sIsSet, .sGet, .sHave, .sDrain, .sIsSet, .sGet, .sHave, .sDrain, .sDrain,
   .cCall, .cIsSet, .cMpIsSet, .cChk, .cGet, .cRel, .cPop,
   .cCall, .cIsSet, .cMpIsSet, .cChk, .cGet, .cRel, .cPop,
   .rIsSet, .rAcq, .rEnter, .rLeave, .rPut, .rRet, .wIsSet 0, .wGet 0, .wPut 0, .sIsSet, .sGet, .sHave,
   .cCall, .cIsSet, .cMpIsSet, .cChk, .cGet, .cRel, .cIsSet, .cMpIsSet, .cChk, .cSet, .cMpSet]

def sE : Option State := run cfgE (init cfgE) trE

theorem sE_isSome : sE.isSome = true := by decide
theorem sE_reachable : Reachable cfgE (sE.get sE_isSome) := ⟨trE, (Option.some_get _).symm⟩

/-! ## Bookkeeping invariant -/

/-- **Bookkeeping.** In every reachable state every index handed out by the reader is in exactly one place
(processed by the consumer, consumer's hand, sort queue, sort buffer, sorter's hand, intermediate queue, a worker's
hand, in-queue, reader's hand, or lost with a dead worker) and no other index is anywhere; the in-queue is strictly
increasing; in order, what the consumer processed followed by its hand and the sort queue is exactly
`0, 1, …, cur_idx − 1`; buffer keys are `≥ cur_idx`, and `> cur_idx` whenever the sorter is not draining. -/
theorem bookkeeping (c : Cfg) (s : State) (hr : Reachable c s) :
    (∀ k, cnt k s = if k < s.pulled then 1 else 0) ∧
    (idxs s.inq).Pairwise (· < ·) ∧
    (c.inOrder = true → s.got ++ s.cpc.hand.toList ++ idxs s.sq = List.range s.cur) ∧
    (c.inOrder = true → ∀ m ∈ s.buf, s.cur ≤ m.idx) ∧
    (s.spc ≠ .drain → ∀ m ∈ s.buf, m.idx ≠ s.cur) := by
  have h := inv_reachable hr
  exact ⟨h.cnt, h.inqSorted, h.order, buf_ge_cur h, h.bufNe⟩

/-- The whole invariant (all fields of `Inv`) holds in every reachable state. -/
theorem inv_reachable' (c : Cfg) (s : State) (hr : Reachable c s) : Inv c s := inv_reachable hr

example : ∃ s, Reachable cfgE s ∧ s.outs = [6, 8] ∧ s.nstop = 1 ∧ s.got = [0, 1, 2] :=
  ⟨sE.get sE_isSome, sE_reachable, by decide, by decide, by decide⟩

/-! ## C12 — read-ahead bound -/

/-- **C12.** `sem + held + (permits taken, not yet attached/released) + (permits lost with dead workers) = max`,
hence the number of source results pulled and not yet taken by the consumer never exceeds `max_concurrent`
(the end-of-stream marker occupies a permit too). -/
theorem readahead_bound (c : Cfg) (s : State) (hr : Reachable c s) :
    s.sem + held s + pending s + s.lost.length = c.max ∧ held s ≤ c.max := by
  have h := inv_reachable hr
  exact ⟨h.permits, held_le_max h⟩

/-- Under the other reading ("pulled and not yet *returned by next()*") the count is at most max + 1: the consumer
releases the permit before `next()` returns. -/
theorem readahead_bound_returned (c : Cfg) (s : State) (hr : Reachable c s) :
    held s + (match s.cpc with | .pop _ => 1 | _ => 0) + s.cpc.permit ≤ c.max + 1 := by
  have h := (inv_reachable hr).permits
  simp only [pending] at h
  cases hc : s.cpc <;> simp [hc, CPc.permit] at h ⊢ <;> omega

/-- `BoundedSemaphore.release()` in `__next__` can never raise "released too many times". -/
theorem release_never_overflows (c : Cfg) (s : State) (hr : Reachable c s) (m : Msg) (hpc : s.cpc = .rel m) :
    s.sem < c.max ∧ (step c s .cRel).isSome = true := by
  have hlt := rel_enabled (inv_reachable hr) m hpc
  refine ⟨hlt, ?_⟩
  simp only [step, stepC, hpc, hlt, if_true]
  cases m.pay <;> simp

/-- non-vacuity: a reachable state in which the bound is attained (both permits in use). -/
example : ∃ s, Reachable cfgE s ∧ held s = cfgE.max :=
  ⟨(run cfgE (init cfgE) (trE.take 14)).get (by decide), ⟨trE.take 14, (Option.some_get _).symm⟩, by decide⟩

/-! ## C04 — exactly the sequential reference -/

/-- **C04 (in order).** In every reachable state the values returned so far are the `map_fn` images of an initial
segment of the source (failing items skipped — they were raised as errors), in source order; in particular a prefix
of the reference output. -/
theorem delivered_prefix (c : Cfg) (s : State) (hr : Reachable c s) (hio : c.inOrder = true) :
    s.got = List.range s.got.length ∧
    s.outs = (c.src.take s.got.length).filterMap c.fn ∧
    s.outs <+: refOut c := by
  have h := inv_reachable hr
  have hg := order_got h hio
  have ho : s.outs = (c.src.take s.got.length).filterMap c.fn := by
    rw [h.outsEq, hg, filterMap_range_outVal]; simp
  exact ⟨hg, ho, ho ▸ take_filterMap_prefix c _⟩

/-- Corollary for a `map_fn` that never raises on the source's items: a prefix of `map f src`. -/
theorem delivered_prefix_total (c : Cfg) (s : State) (hr : Reachable c s) (hio : c.inOrder = true) (f : Nat → Nat)
    (hf : ∀ v, c.fn v = some (f v)) : s.outs <+: c.src.map f := by
  have := (delivered_prefix c s hr hio).2.2
  have he : refOut c = c.src.map f := by
    unfold refOut
    have : c.fn = fun v => some (f v) := funext hf
    rw [this]
    induction c.src with
    | nil => rfl
    | cons a l ih => simp [ih]
  rwa [he] at this

/-- **C04 `complete`.** Once `next()` has raised StopIteration and no worker has died: nothing is in flight
(`sem + in_flight = max` with `sem = max`), every index — the terminal included — was processed exactly once, and the
delivered values are a permutation of the reference, equal to it when in order.  The stream never ends cleanly in place
of a source error: if the source ended with an exception, that exception was raised before (`0 < errs`). -/
theorem complete (c : Cfg) (s : State) (hr : Reachable c s) (hn : 0 < s.nstop) (hnd : NoDead s) :
    s.sem = c.max ∧ held s = 0 ∧ s.lost = [] ∧
    s.got.Perm (List.range (c.src.length + 1)) ∧
    s.outs.Perm (refOut c) ∧
    (c.inOrder = true → s.outs = refOut c) ∧
    (c.term = .stop → s.done = true) ∧
    (c.term = .error → c.src.length ∈ s.got ∧ 0 < s.errs) := by
  have h := inv_reachable hr
  have hdc : deadCount s = 0 := deadCount_zero_iff.mpr hnd
  obtain ⟨hsem, hfin, hheld, hlost, hpull, hcount⟩ := at_stop h hn hdc
  have hperm := got_perm_at_stop h hn hdc
  have hend : c.src.length ∈ s.got := by
    have := hcount c.src.length
    simp at this
    exact List.count_pos_iff.mp (by omega)
  refine ⟨hsem, hheld, hlost, hperm, ?_, ?_, ?_, ?_⟩
  · rw [h.outsEq, ← refOut_eq_range]
    exact hperm.filterMap _
  · intro hio
    have hg := order_got h hio
    have hl : s.got.length = c.src.length + 1 := by
      have := hperm.length_eq
      simpa using this
    rw [h.outsEq, hg, hl, refOut_eq_range]
  · intro ht
    exact h.doneC ht (Or.inl hend)
  · intro ht
    refine ⟨hend, ?_⟩
    have hl := h.lenEq
    have hv : outVal c c.src.length = none := by
      rw [outVal_eq]; simp
    have := length_filterMap_lt (outVal c) s.got _ hend hv
    rw [← h.outsEq] at this
    simp [ht] at hl
    omega

/-- **C04 (in_order = false).** At StopIteration (no worker died) the outputs are a permutation of `map_fn` over the source. -/
theorem unordered_perm (c : Cfg) (s : State) (hr : Reachable c s) (hn : 0 < s.nstop) (hnd : NoDead s) :
    s.outs.Perm (refOut c) :=
  (complete c s hr hn hnd).2.2.2.2.1

example : ∃ s, Reachable cfgE s ∧ 0 < s.nstop ∧ NoDead s ∧ s.outs = refOut cfgE :=
  ⟨sE.get sE_isSome, sE_reachable, by decide, by unfold NoDead; decide, by decide⟩

/-! ## C11 — errors are raised at the right position -/

/-- **C11 `error_after_prefix` (in order).** When `next()` is about to raise an error (it holds the exception wrapper
and releases its permit), exactly the `map_fn` images of the items before the failing position have been returned;
the failing position is either an item on which `map_fn` raises or the end of a source that ended with an error. -/
theorem error_after_prefix (c : Cfg) (s : State) (hr : Reachable c s) (hio : c.inOrder = true) (m : Msg)
    (hpc : s.cpc = .rel m) (hp : m.pay = .err) :
    s.outs = (c.src.take m.idx).filterMap c.fn ∧
    ((∃ v, c.src[m.idx]? = some v ∧ c.fn v = none) ∨ (m.idx = c.src.length ∧ c.term = .error)) := by
  have h := inv_reachable hr
  have hidx : m.idx = s.got.length := order_hand h hio (by simp [hpc, CPc.hand])
  refine ⟨by rw [hidx]; exact (delivered_prefix c s hr hio).2.1, ?_⟩
  have hout : outAt c m.idx = .err := by rw [← h.outC m (Or.inl hpc), hp]
  have hlt := chand_lt h (i := m.idx) (by simp [hpc, CPc.hand])
  have hple := h.pulledLe
  unfold outAt rawAt at hout
  cases hv : c.src[m.idx]? with
  | some v =>
    left
    refine ⟨v, rfl, ?_⟩
    simp only [hv, apply] at hout
    cases hf : c.fn v <;> simp [hf] at hout ⊢
  | none =>
    right
    have : c.src.length ≤ m.idx := by simpa using hv
    refine ⟨by omega, ?_⟩
    simp only [hv] at hout
    cases ht : c.term <;> simp [ht, apply] at hout ⊢

/-- non-vacuity: the reachable state of `cfgA` (source raises at once) in which the consumer holds the wrapper. -/
example : ∃ s m, Reachable cfgA s ∧ s.cpc = .rel m ∧ m.pay = .err :=
  ⟨(run cfgA (init cfgA) (trA.take 19)).get (by decide), ⟨.err, 0⟩, ⟨trA.take 19, (Option.some_get _).symm⟩,
    by decide, rfl⟩

/-! ## C06 — the checkpoint tracks the consumer -/

/-- **C06.** In every reachable state in which the consumer is outside `next()` and no error has been raised to it,
`get_state()` is a function of the number `m` of items delivered only: snapshot = the source state after
`j* = f·⌊m/f⌋` items (the initial state when `j* = 0`, in particular when `f = 0`), steps_since_snapshot = `m − j*` —
whatever the reader, the workers and the sorter have done in the meantime. -/
theorem state_tracks_consumer (c : Cfg) (s : State) (hr : Reachable c s) (hio : c.inOrder = true)
    (herr : s.errs = 0) (hidle : s.cpc = .idle) :
    getState s = (c.base + jstar c.f s.outs.length, s.outs.length - jstar c.f s.outs.length) := by
  have h := inv_reachable hr
  have := h.closed hio herr (by simp [hidle])
  simp only [hidle, CPc.bump, Nat.add_zero] at this
  unfold getState
  rw [jstar_eq, this.1, this.2]
  have : s.outs.length % c.f ≤ s.outs.length := Nat.mod_le _ _
  congr 1
  omega

example : ∃ s, Reachable cfgE s ∧ s.cpc = .idle ∧ s.errs = 0 ∧ s.outs.length = 2 ∧ getState s = (2, 0) :=
  ⟨sE.get sE_isSome, sE_reachable, by decide, by decide, by decide, by decide⟩

/-! ## C11 — termination of `next()` -/

/-- **C11 `progress` (full strength).** With at least one worker and `max_concurrent ≥ 1`: in EVERY reachable state with
the consumer inside `next()`, either some action other than a timeout is enabled, or the consumer's own timeout step
(`queue.Empty`) puts it on a return path — `set1` (reader gone, nothing in flight: set both events, StopIteration) or
`dchk1` (a worker is not alive: test and set both events, RuntimeError) — on which only non-timeout steps of the consumer
remain.  No exclusions: the two former hang states are covered. -/
theorem progress (c : Cfg) (s : State) (hr : Reachable c s) (hin : s.cpc.inNext = true) (hN : 0 < c.N) (hmax : 0 < c.max) :
    CanMove c s ∨ ∃ s', step c s .cGetT = some s' ∧ (s'.cpc = .set1 ∨ s'.cpc = .dchk1) ∧ CanMove c s' := by
  rcases progress_of_inv (inv_reachable hr) hin hN hmax with h | ⟨s', h1, h2⟩
  · exact Or.inl h
  · refine Or.inr ⟨s', h1, h2, ?_⟩
    rcases h2 with h2 | h2
    · exact ⟨.cSet, rfl, by simp [step, stepC, h2]⟩
    · exact ⟨.cDeadIsSet, rfl, by simp [step, stepC, h2]⟩

/-- non-vacuity, second disjunct: the former hang states `sA` (after a source error) and `sB` (worker died holding an
item) are reachable, only timeouts are enabled there, and the consumer's timeout step leads out. -/
example : Reachable cfgA sA ∧ canMoveB cfgA sA = false ∧ Reachable cfgB sB ∧ canMoveB cfgB sB = false :=
  ⟨sA_reachable, sA_facts.2.2.2.2.2.2.2.2.2, sB_reachable, sB_facts.2.2.2.2.2.2.2.2⟩

/-- **C11 "prompt", precisely.** Once the reader has returned and nothing is in flight, ONE timeout step of the consumer
followed by two event sets raises StopIteration — whatever else the other threads are doing. -/
theorem early_stop_prompt (c : Cfg) (s : State) (hpc : s.cpc = .get) (hq : outq c s = []) (hrx : s.rpc = .exited)
    (hsem : s.sem = c.max) :
    ∃ s', run c s [.cGetT, .cSet, .cMpSet] = some s' ∧ s'.cpc = .idle ∧ s'.nstop = s.nstop + 1 ∧ s'.outs = s.outs ∧
      s'.stop = true ∧ s'.mpstop = true := by
  refine ⟨{ s with stop := true, mpstop := true, cpc := .idle, nstop := s.nstop + 1 }, ?_, rfl, rfl, rfl, rfl, rfl⟩
  simp [run, step, stepC, hpc, hq, afterEmpty, hrx, hsem]

/-- **C11 `next_after_source_error_prompt` (in order).** After the source's exception has been raised to the consumer,
nothing is in flight any more and the reader is returning or has returned; once it has, the next `next()` raises
StopIteration after the stop tests and ONE queue timeout (and every later one at once, `next_after_end_prompt`). -/
theorem next_after_source_error_prompt (c : Cfg) (s : State) (hr : Reachable c s) (hio : c.inOrder = true)
    (herr : SourceErrorRaised c s) (hidle : s.cpc = .idle) (hst : s.stop = false) :
    s.sem = c.max ∧ held s = 0 ∧ s.lost = [] ∧ (s.rpc = .ret ∨ s.rpc = .exited) ∧
    (s.rpc = .exited →
      ∃ s', run c s [.cCall, .cIsSet, .cMpIsSet, .cChk, .cGetT, .cSet, .cMpSet] = some s' ∧ s'.cpc = .idle ∧
        s'.nstop = s.nstop + 1 ∧ s'.outs = s.outs ∧ s'.errs = s.errs) := by
  have h := inv_reachable hr
  have hpull := end_pulled h herr.2
  have hg := order_got h hio
  have hlen : s.got.length = c.src.length + 1 := by
    have h1 : c.src.length < s.got.length := by
      have := herr.2; rw [hg] at this; simpa using this
    have h2 : s.got.length ≤ s.pulled := by
      rcases Nat.eq_zero_or_pos s.got.length with h0 | h0
      · omega
      · have hm : s.got.length - 1 ∈ s.got := by rw [hg]; simp; omega
        have := cnt_ge_got hm
        have hc := h.cnt (s.got.length - 1)
        split at hc <;> omega
    omega
  have hall : ∀ k, k < s.pulled → s.got.count k = 1 := by
    intro k hk
    rw [hg, count_range]; simp; omega
  obtain ⟨hheld, hhand, hlost⟩ := all_in_got_drained h hall
  have hne := fin_not_early h (Or.inr herr)
  have hrpc : s.rpc = .ret ∨ s.rpc = .exited := by
    cases hrp : s.rpc <;> simp [hrp, RPc.early, held, RPc.holds] at hne hheld ⊢
  have hsem : s.sem = c.max := by
    have hp := h.permits
    have : pending s = 0 := by
      simp only [pending, hidle, CPc.permit]
      rcases hrpc with h1 | h1 <;> simp [h1, RPc.inCall]
    rw [hheld, this, hlost] at hp
    simpa using hp
  refine ⟨hsem, hheld, hlost, hrpc, ?_⟩
  intro hrx
  have hmp := mpstop_false_of h hst
  have hdone : s.done = false := by
    cases hd : s.done
    · rfl
    · have := (h.doneI hd).1; rw [herr.1] at this; simp at this
  have hq : outq c s = [] := by
    simp only [held] at hheld
    have h1 : s.sq = [] := List.eq_nil_of_length_eq_zero (by omega)
    simp [outq, hio, h1]
  refine ⟨{ s with stop := true, mpstop := true, cpc := .idle, nstop := s.nstop + 1 }, ?_, rfl, rfl, rfl, rfl⟩
  have hq' : outq c { s with cpc := .get } = [] := by simpa [outq] using hq
  simp [run, step, stepC, hidle, hst, hmp, hdone, afterEmpty, hrx, hsem]
  simp [outq, hio] at hq
  simp [outq, hio, hq]

/-- **C11 `worker_death_detected`.** With a dead worker, as soon as the consumer's `get` times out on an empty queue it
leaves `next()` by non-timeout steps of its own: RuntimeError (after testing and setting both stop events), or
StopIteration if the reader is gone and nothing is in flight (then nothing was lost). -/
theorem worker_death_detected (c : Cfg) (s : State) (hr : Reachable c s) (hpc : s.cpc = .get) (hq : outq c s = [])
    (hd : WPc.dead ∈ s.wk) :
    (∃ s', run c s [.cGetT, .cDeadIsSet, .cDeadMpIsSet, .cDeadSet, .cDeadMpSet] = some s' ∧ s'.cpc = .idle ∧
        s'.rterr = s.rterr + 1 ∧ s'.stop = true ∧ s'.mpstop = true ∧ s'.outs = s.outs) ∨
    (∃ s', run c s [.cGetT, .cSet, .cMpSet] = some s' ∧ s'.cpc = .idle ∧ s'.nstop = s.nstop + 1 ∧ s.lost = []) := by
  have h := inv_reachable hr
  have hst := stop_false_of h (by simp [hpc])
  have hmp := mpstop_false_of h hst
  have hany : s.wk.any WPc.gone = true := List.any_eq_true.mpr ⟨_, hd, rfl⟩
  by_cases hcond : s.rpc = .exited ∧ s.sem = c.max
  · right
    obtain ⟨s', h1, h2, h3, _⟩ := early_stop_prompt c s hpc hq hcond.1 hcond.2
    refine ⟨s', h1, h2, h3, ?_⟩
    have hp := h.permits
    exact List.eq_nil_of_length_eq_zero (by omega)
  · left
    refine ⟨{ s with stop := true, mpstop := true, rterr := s.rterr + 1, cpc := .idle }, ?_, rfl, rfl, rfl, rfl, rfl⟩
    simp [run, step, stepC, hpc, hq, afterEmpty, hcond, hany, hst, hmp]

/-- **Safety of the early StopIteration (`early_stop_sound`).** The consumer's timeout step can take the StopIteration
exit only when nothing is in flight, nothing was lost, every index handed out — the terminal included — has been
completely processed exactly once, and the terminal was the source's EXCEPTION, already raised to the consumer
(with a StopIteration terminal this exit is unreachable: `_done` would have ended the stream).  So it cannot lose an
item, in order or not, with or without `map_fn` errors in flight. -/
theorem early_stop_sound (c : Cfg) (s s' : State) (hr : Reachable c s) (hs : step c s .cGetT = some s')
    (hex : s'.cpc = .set1) :
    held s = 0 ∧ s.lost = [] ∧ s.pulled = c.src.length + 1 ∧
    (∀ k, s.got.count k = if k < c.src.length + 1 then 1 else 0) ∧
    s.outs.Perm (refOut c) ∧ SourceErrorRaised c s ∧ 0 < s.errs := by
  have h := inv_reachable hr
  simp only [step] at hs
  obtain ⟨hpc, hq, rfl⟩ := spec_cGetT.mp hs
  have hst := stop_false_of h (by simp [hpc])
  have hcond : s.rpc = .exited ∧ s.sem = c.max := by
    simp only [afterEmpty] at hex
    by_cases hc : s.rpc = .exited ∧ s.sem = c.max
    · exact hc
    · simp only [hc, if_false] at hex
      split at hex <;> simp at hex
  obtain ⟨_, hfin⟩ := early_stop_facts h hpc hst hcond.1 hcond.2
  have hp := h.permits
  have hheld : held s = 0 := by omega
  have hlost : s.lost = [] := List.eq_nil_of_length_eq_zero (by omega)
  have herr : SourceErrorRaised c s := by
    rcases hfin with hd | he
    · exact absurd ⟨hd, hcond.2⟩ (h.getNotFin hpc)
    · exact he
  have hpull := end_pulled h herr.2
  have hcount : ∀ k, s.got.count k = if k < c.src.length + 1 then 1 else 0 := by
    intro k
    rw [← hpull]
    exact drained h hheld (by simp [hpc, CPc.hand]) hlost k
  have hperm : s.got.Perm (List.range (c.src.length + 1)) := by
    rw [List.perm_ext_iff_of_nodup (got_nodup h) List.nodup_range]
    intro a
    have := hcount a
    rw [List.mem_range, ← List.count_pos_iff]
    split at this <;> omega
  refine ⟨hheld, hlost, hpull, hcount, ?_, herr, ?_⟩
  · rw [h.outsEq, ← refOut_eq_range]
    exact hperm.filterMap _
  · have hl := h.lenEq
    have hv : outVal c c.src.length = none := by
      rw [outVal_eq]; simp
    have := length_filterMap_lt (outVal c) s.got _ herr.2 hv
    rw [← h.outsEq] at this
    simp [herr.1] at hl
    omega

/-- **Safety of the RuntimeError (`runtime_error_sound`).** On the dead-worker path, and whenever a RuntimeError has
been raised, some worker is really dead (a worker never exits before a stop event is set). -/
theorem runtime_error_sound (c : Cfg) (s : State) (hr : Reachable c s)
    (hp : s.cpc = .dchk1 ∨ s.cpc = .dchk2 ∨ s.cpc = .dset1 ∨ s.cpc = .dset2 ∨ 0 < s.rterr) : WPc.dead ∈ s.wk := by
  have h := inv_reachable hr
  apply exists_dead_of_deadCount
  rcases hp with h1 | h1 | h1 | h1 | h1
  · exact h.deadSeen (Or.inl h1)
  · exact h.deadSeen (Or.inr (Or.inl h1))
  · exact h.deadSeen (Or.inr (Or.inr (Or.inl h1)))
  · exact h.deadSeen (Or.inr (Or.inr (Or.inr h1)))
  · exact h.rtDead h1

example : (run cfgA sA [.cGetT, .cSet, .cMpSet]).map (fun s => (s.cpc, s.nstop, s.errs, s.rterr, s.stop, s.mpstop)) =
    some (.idle, 1, 1, 0, true, true) := sA_returns

example : (run cfgB sB [.cGetT, .cDeadIsSet, .cDeadMpIsSet, .cDeadSet, .cDeadMpSet]).map
    (fun s => (s.cpc, s.nstop, s.errs, s.rterr, s.stop, s.mpstop)) = some (.idle, 0, 0, 1, true, true) := sB_returns

/-- **C11 `variant`.** The measure `mu` strictly decreases on every action that is neither a timeout nor the start
of a new `next()` call.  With `progress_partial`: under a scheduler that fires timeouts only when nothing else can
run, every `next()` returns after at most `mu` steps of the whole system. -/
theorem variant (c : Cfg) (s s' : State) (a : Action) (hr : Reachable c s) (hs : step c s a = some s')
    (ht : a.isTimeout = false) (hc : a ≠ .cCall) : mu c s' < mu c s :=
  variant_of_inv (inv_reachable hr) hs ht hc

example : ∃ s s', Reachable cfgE s ∧ step cfgE s .rInit = some s' ∧ mu cfgE s' < mu cfgE s :=
  ⟨init cfgE, (step cfgE (init cfgE) .rInit).get (by decide), ⟨[], rfl⟩, (Option.some_get _).symm, by decide⟩

/-- **C11 `next_after_end_prompt`.** After `next()` has raised StopIteration once, every further `next()` raises
StopIteration after two steps of the consumer alone (the call and one event test) — no waiting. -/
theorem next_after_end_prompt (c : Cfg) (s : State) (hr : Reachable c s) (hn : 0 < s.nstop) (hidle : s.cpc = .idle) :
    ∃ s', run c s [.cCall, .cIsSet] = some s' ∧ s'.cpc = .idle ∧ s'.nstop = s.nstop + 1 ∧ s'.outs = s.outs := by
  have hst := (inv_reachable hr).nstopStop hn
  refine ⟨{ s with cpc := .idle, nstop := s.nstop + 1 }, ?_, rfl, rfl, rfl⟩
  simp [run, step, stepC, hidle, hst]

example : ∃ s, Reachable cfgE s ∧ 0 < s.nstop ∧ s.cpc = .idle :=
  ⟨sE.get sE_isSome, sE_reachable, by decide, by decide⟩

/-! ## C17 — background threads are released -/

/-- A stop event that is set stays set. -/
theorem stop_stays (c : Cfg) (s s' : State) (a : Action) (hs : step c s a = some s') :
    (s.stop = true → s'.stop = true) ∧ (s.mpstop = true → s'.mpstop = true) := by
  by_cases hb : a.isBackground = true
  · obtain ⟨_, h2, h3⟩ := bg_frame hb hs
    rw [h2, h3]; exact ⟨id, id⟩
  · cases a <;> simp [Action.isBackground] at hb <;> simp only [step] at hs
    case cBoot => obtain ⟨_, _, rfl⟩ := spec_cBoot.mp hs; simp
    case cBootT => obtain ⟨_, _, rfl⟩ := spec_cBootT.mp hs; simp
    case cCall => obtain ⟨_, rfl⟩ := spec_cCall.mp hs; simp
    case cIsSet => obtain ⟨_, rfl⟩ := spec_cIsSet.mp hs; split <;> simp
    case cMpIsSet => obtain ⟨_, rfl⟩ := spec_cMpIsSet.mp hs; split <;> simp
    case cChk => obtain ⟨_, rfl⟩ := spec_cChk.mp hs; simp
    case cSet => obtain ⟨_, rfl⟩ := spec_cSet.mp hs; simp
    case cMpSet => obtain ⟨_, rfl⟩ := spec_cMpSet.mp hs; simp
    case cGet =>
      obtain ⟨m, rest, _, _, rfl⟩ := spec_cGet.mp hs
      cases hio : c.inOrder <;> cases hp : m.pay <;> simp [setOutq, hio]
    case cGetT => obtain ⟨_, _, rfl⟩ := spec_cGetT.mp hs; simp
    case cRel => obtain ⟨m, _, _, rfl⟩ := spec_cRel.mp hs; cases m.pay <;> simp
    case cPop => obtain ⟨m, y, _, _, rfl⟩ := spec_cPop.mp hs; simp
    case cDeadIsSet => obtain ⟨_, rfl⟩ := spec_cDeadIsSet.mp hs; split <;> simp
    case cDeadMpIsSet => obtain ⟨_, rfl⟩ := spec_cDeadMpIsSet.mp hs; split <;> simp
    case cDeadSet => obtain ⟨_, rfl⟩ := spec_cDeadSet.mp hs; simp
    case cDeadMpSet => obtain ⟨_, rfl⟩ := spec_cDeadMpSet.mp hs; simp
    case cShutSet => obtain ⟨_, rfl⟩ := spec_cShutSet.mp hs; simp
    case cShutMpSet => obtain ⟨_, rfl⟩ := spec_cShutMpSet.mp hs; simp

/-- **C17 reader.** Once `_stop` is set, each own step of the reader strictly decreases `rrank ≤ 6` (it exits at its
loop head, or finishes the iteration it is in: acquire or time out, leave the source, append, put), no other thread
changes it, `_stop` stays set, and a live reader always has an enabled step. -/
theorem released_reader (c : Cfg) (s s' : State) (a : Action) (hstop : s.stop = true) (hs : step c s a = some s') :
    (a ∈ [Action.rInit, .rIsSet, .rAcq, .rAcqT, .rEnter, .rLeave, .rAppend, .rPut, .rRet] → rrank s'.rpc < rrank s.rpc) ∧
    (a ∉ [Action.rInit, .rIsSet, .rAcq, .rAcqT, .rEnter, .rLeave, .rAppend, .rPut, .rRet] → s'.rpc = s.rpc) ∧
    s'.stop = true ∧ rrank s.rpc ≤ 6 ∧ (rrank s.rpc = 0 ↔ s.rpc = .exited) ∧
    (s.rpc ≠ .exited → ∃ b, b ∈ [Action.rInit, .rIsSet, .rAcq, .rAcqT, .rEnter, .rLeave, .rAppend, .rPut, .rRet] ∧
      (step c s b).isSome = true) := by
  refine ⟨?_, ?_, (stop_stays c s s' a hs).1 hstop, ?_, ?_, reader_live c s⟩
  · intro ha
    cases a <;> simp at ha <;> simp only [step] at hs <;> exact released_reader_step hstop hs
  · intro ha
    cases a <;> simp at ha <;> simp only [step] at hs
    all_goals first
      | exact (reader_frame_W hs).1
      | exact (reader_frame_S hs).1
      | exact (reader_frame_C hs).1
  · cases s.rpc <;> simp [rrank]
  · cases s.rpc <;> simp [rrank]

/-- **C17 workers.** Once the workers' stop event and `_stop` are set, each own step of worker `i` strictly decreases
`wrank s i ≤ 5·(|in_q| + 1) + 5` (it first drains the in-queue together with the other workers), no step of any
other thread increases it, and a live worker always has an enabled step. -/
theorem released_worker (c : Cfg) (s s' : State) (a : Action) (i : Nat) (hstop : s.stop = true)
    (hflag : (if c.proc then s.mpstop else s.stop) = true) (hs : step c s a = some s') :
    (a.worker = some i → wrank s' i < wrank s i) ∧ (a.worker ≠ some i → wrank s' i ≤ wrank s i) ∧
    wrank s i ≤ 5 * (s.inq.length + 1) + 5 ∧
    (∀ p, s.wk[i]? = some p → p ≠ .exited → p ≠ .dead → 0 < wrank s i ∧
      ∃ b, b.worker = some i ∧ (step c s b).isSome = true) := by
  refine ⟨?_, ?_, ?_, ?_⟩
  · intro ha
    cases a <;> simp [Action.worker] at ha <;> simp only [step] at hs <;>
      exact released_worker_own i hflag (by simp [Action.worker, ha]) hs
  · intro ha
    cases a <;> simp only [step] at hs
    all_goals first
      | exact worker_rank_R i hstop hs
      | exact worker_rank_other_W i ha hs
      | exact worker_rank_S i hs
      | exact worker_rank_C i hs
  · unfold wrank wrankOf
    have : rp s.rpc ≤ 1 := by cases s.rpc <;> simp [rp]
    split <;> (try split) <;> omega
  · intro p hp h1 h2
    refine ⟨?_, worker_live c s i p hp h1 h2⟩
    unfold wrank wrankOf
    rw [hp]
    cases p <;> simp at h1 h2 ⊢
    split <;> omega

/-- **C17 sorter.** Once `_stop` is set, each own step of the sorter strictly decreases `srank ≤ |buffer| + 5` (it
finishes the message in its hand, releases the consecutive run from its buffer, and exits at its loop head); no other
thread changes it; a live sorter always has an enabled step. -/
theorem released_sorter (c : Cfg) (s s' : State) (a : Action) (hstop : s.stop = true) (hs : step c s a = some s') :
    (a ∈ [Action.sIsSet, .sGet, .sGetT, .sHave, .sDrain] → srank s' < srank s) ∧
    (a ∉ [Action.sIsSet, .sGet, .sGetT, .sHave, .sDrain] → s'.spc = s.spc ∧ s'.buf = s.buf) ∧
    srank s ≤ s.buf.length + 5 ∧ (srank s = 0 ↔ (s.spc = .exited ∨ s.spc = .off)) ∧
    (s.spc ≠ .exited → s.spc ≠ .off → ∃ b, b ∈ [Action.sIsSet, .sGet, .sGetT, .sHave, .sDrain] ∧
      (step c s b).isSome = true) := by
  refine ⟨?_, ?_, ?_, ?_, sorter_live c s⟩
  · intro ha
    cases a <;> simp at ha <;> simp only [step] at hs <;> exact released_sorter_step hstop hs
  · intro ha
    cases a <;> simp at ha <;> simp only [step] at hs
    all_goals first
      | exact sorter_frame_R hs
      | exact sorter_frame_W hs
      | exact sorter_frame_C hs
  · unfold srank; split <;> omega
  · unfold srank
    cases s.spc <;> simp

example : ∃ s, Reachable cfgE s ∧ s.stop = true ∧ s.mpstop = true ∧ s.rpc = .exited ∧ 0 < wrank s 0 ∧ 0 < srank s :=
  ⟨sE.get sE_isSome, sE_reachable, by decide, by decide, by decide, by decide, by decide⟩

/-! ## `Gen` — iterator generations (`_shutdown`, `__del__`, `reset`) -/

/-- Every generation — the live iterator and every abandoned one whose threads are still running — satisfies the whole
invariant (so the bookkeeping and the read-ahead bound hold per generation across `reset`), and abandoned generations
have both stop events set, so `released_*` applies to each of their threads: whatever the timed joins of `_shutdown`
did (returned or gave up), the old threads exit after a bounded number of their own steps. -/
theorem Gen.released (c : Cfg) (tr : List GAction) (g : GState) (hr : grun c (ginit c) tr = some g) :
    Inv c g.cur ∧ ∀ s ∈ g.old, Inv c s ∧ held s ≤ c.max ∧ s.cpc = .closed ∧ s.stop = true ∧ s.mpstop = true ∧
      (if c.proc then s.mpstop else s.stop) = true := by
  have h := ginv_run tr (ginv_init c) hr
  refine ⟨h.cur, ?_⟩
  intro s hs
  obtain ⟨h1, h2, h3, h4⟩ := h.old s hs
  refine ⟨h1, held_le_max h1, h2, h3, h4, ?_⟩
  cases c.proc <;> simp [h3, h4]

/-- non-vacuity: a reset after the first epoch of `cfgE`; the old generation is kept and a join may have given up. -/
example : ∃ g, grun cfgE (ginit cfgE) ((trE.map GAction.cur) ++ [.cur .cShutSet, .cur .cShutMpSet, .joinGiveUp, .renew]) = some g ∧
    g.old.length = 1 ∧ g.joinsGivenUp = 1 := by
  refine ⟨_, rfl, ?_, ?_⟩ <;> decide

end TDV.PM
