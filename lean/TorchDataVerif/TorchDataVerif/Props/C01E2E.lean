import TorchDataVerif.Proofs.E2EInst
import TorchDataVerif.Proofs.E2ESPIter
import TorchDataVerif.Proofs.E2ESDL
import TorchDataVerif.Proofs.E2EMP
import TorchDataVerif.Props.C13
/-!
# C01 end-to-end — the `StatefulDataLoader` façade composed with the real iterator models

`TDV.SDLApi` (C13) proves the façade's decision table over an ABSTRACT iterator whose `state_dict` /
`load_state_dict` are exact by assumption; `TDV.SP` and `TDV.MPR` prove exact resume for the REAL iterators alone.
Here the two are composed.

* `Proofs/E2EIface.lean`: `IterClass` (constructor from an optional state over the objects that outlive an
  iterator, `__next__`, `state_dict`, `_finished`), the façade `Fac.*` over any `IterClass`, the abstract iterator
  of `TDV.SDLApi` as the class `idealIC epochs`, the interface `Meets IC epochs` and the usage discipline
  `wellUsed` (a new iterator is built only between epochs or on a new loader that has been given a state; no
  `next()` after `StopIteration`; no use of a dropped iterator).
* `sp_map_meets`, `sp_iter_state_meets`, `sp_iter_ffwd_meets`: `_StatefulSingleProcessDataLoaderIter` (`spIC`)
  meets the interface under exactly the hypotheses of the `TDV.SP` theorems.
* `sdl_refines_ideal` … `sdl_state_dict_transparent`: the end-to-end theorems for every class that meets the
  interface; `sdl_sp_*`: the same spelled out for the single-process iterator.
* **Finding (model, not code)**: the interface can NOT be the one `TDV.SDLApi` literally has.  There the index of
  the next fresh stream is a counter of the loader OBJECT (`g`; `starts` in `SDLApi.Ref`), reset by `fresh` and
  untouched by `load_state_dict`; for the real iterators it lives in the objects a state dict restores (the
  sampler's generator), so after resuming epoch `e` the next stream is `e + 1` — which is what C01 asks for and
  what the Python code does.  `refines_sdlapi_statement` (false), `refines_sdlapi_partial` (all epochs alike).
-/
namespace TDV.E2E
open TDV.Node
open TDV.Loader (Obs Op)
open TDV.SDLApi (It)
open TDV.Sampler

/-! ## Any iterator class that meets the interface -/
section generic
variable {X T Wd : Type} {IC : IterClass X T Wd} {epochs : Nat → List Item} (M : Meets IC epochs)
variable (fw : Nat → Wd) (hfw : ∀ n, M.WN (fw n)) (w0 : Wd) (hw0 : M.AW w0 0)
include hfw hw0

/-- **The façade's assumption, discharged.**  For every iterator class that meets the interface, on every
well-used history, the façade over it observes exactly what the façade over the abstract iterator observes:
the items of `epochs` at the abstract positions, `StopIteration` at the ends. -/
theorem sdl_refines_ideal (ops : List Op) (hw : wellUsed epochs (Sys.init (some 0)) ops = true) :
    Fac.obs IC fw (Sys.init w0) ops = Fac.obs (idealIC epochs) ifw (Sys.init (some 0)) ops :=
  gen_refines M fw hfw w0 hw0 ops hw

/-- **The uninterrupted loader**: `E` complete `for` loops deliver `epochs 0, …, epochs (E-1)`. -/
theorem sdl_stream (E : Nat) :
    Fac.obs IC fw (Sys.init w0) (forLoops epochs 0 E ++ [.iter]) = forObss epochs 0 E ++ [.ok] :=
  gen_stream M fw hfw w0 hw0 E

/-- **C01, epoch by epoch.**  `e` complete epochs, `k ≤ length` batches of epoch `e`, `sd = state_dict()`; a
NEWLY built loader, `load_state_dict(sd)`, `iter()`, then `for` loops: `drop k (epochs e)`, `StopIteration`,
then `epochs (e+1), …, epochs (e+E)` in full. -/
theorem sdl_resume_exact (e k E : Nat) (hk : k ≤ (epochs e).length) :
    Fac.obs IC fw (Fac.exec IC fw (Sys.init w0)
        (prefixOps epochs e k ++ [.stateDict, .fresh, .load 0, .iter])) (restOps epochs e k E) =
      restObs epochs e k E :=
  gen_resume_epochs M fw hfw w0 hw0 e k E hk

/-- **C01 for every continuation** (rest of the epoch, further epochs, further checkpoints and resumes): after any
well-used history `H` that leaves the user iterating an unfinished iterator, the resumed new loader and the
original loader cannot be told apart. -/
theorem sdl_resume_exact_any (H cont : List Op) (x : X)
    (hH : wellUsed epochs (Sys.init (some 0)) H = true)
    (hx : (Fac.exec IC fw (Sys.init w0) H).st.iterator = some x) (hnf : IC.fin x = false)
    (hI : Iterating (Fac.exec IC fw (Sys.init w0) H).st)
    (hc : wellUsed epochs (Fac.exec (idealIC epochs) ifw (Sys.init (some 0)) (H ++ [.stateDict])) cont = true) :
    Fac.obs IC fw (Fac.exec IC fw (Sys.init w0)
        (H ++ [.stateDict, .fresh, .load (Fac.exec IC fw (Sys.init w0) H).toks.length, .iter])) cont =
      Fac.obs IC fw (Fac.exec IC fw (Sys.init w0) (H ++ [.stateDict])) cont :=
  gen_resume_exact M fw hfw w0 hw0 H cont x hH hx hnf hI hc

/-- … and from a state taken after the epoch's `StopIteration` (`_finished`): the new loader is where the
original is after its next `iter()`. -/
theorem sdl_resume_exact_finished (H cont : List Op) (x : X)
    (hH : wellUsed epochs (Sys.init (some 0)) H = true)
    (hx : (Fac.exec IC fw (Sys.init w0) H).st.iterator = some x) (hf : IC.fin x = true)
    (hI : Iterating (Fac.exec IC fw (Sys.init w0) H).st)
    (hc : wellUsed epochs (Fac.exec (idealIC epochs) ifw (Sys.init (some 0)) (H ++ [.stateDict, .iter])) cont = true) :
    Fac.obs IC fw (Fac.exec IC fw (Sys.init w0)
        (H ++ [.stateDict, .fresh, .load (Fac.exec IC fw (Sys.init w0) H).toks.length, .iter])) cont =
      Fac.obs IC fw (Fac.exec IC fw (Sys.init w0) (H ++ [.stateDict, .iter])) cont :=
  gen_resume_exact_fin M fw hfw w0 hw0 H cont x hH hx hf hI hc

/-- **Closed under repetition**: a chain of links "take the state, NEW loader, load, `iter()`, carry on with
`seg`" (each taken mid-epoch) is observed — by whatever follows — as the uninterrupted run that only takes
the states; by induction over the chain. -/
theorem sdl_chain (H cont : List Op) (segs : List (List Op))
    (hH : wellUsed epochs (Sys.init (some 0)) H = true)
    (hc : ChainOk epochs (Fac.exec (idealIC epochs) ifw (Sys.init (some 0)) H) segs)
    (hcont : wellUsed epochs (Fac.exec (idealIC epochs) ifw (Sys.init (some 0)) (H ++ plainOps segs)) cont = true) :
    Fac.obs IC fw (Fac.exec IC fw (Sys.init w0)
        (H ++ chainOps (Fac.exec IC fw (Sys.init w0) H).toks.length segs)) cont =
      Fac.obs IC fw (Fac.exec IC fw (Sys.init w0) (H ++ plainOps segs)) cont :=
  gen_chain M fw hfw w0 hw0 H cont segs hH hc hcont

/-- **Extra `state_dict()` calls change nothing** (C08 for façade + iterator). -/
theorem sdl_state_dict_transparent (ops : List Op) (g1 : wellUsed epochs (Sys.init (some 0)) ops = true)
    (g2 : wellUsed epochs (Sys.init (some 0)) (TDV.Loader.erasePeek ops) = true) :
    Fac.obsSkipPeek IC fw (Sys.init w0) ops = Fac.obs IC fw (Sys.init w0) (TDV.Loader.erasePeek ops) :=
  gen_transparent M fw hfw w0 hw0 ops g1 g2

end generic

/-! ## The single-process iterator, map-style datasets

`MapHyp S Da c f Same wS ixs` (`Proofs/E2ESP.lean`) = the hypotheses of `SP.resume_exact_map`/`resume_epochs`/
`resume_chain_map`: sampler law `IdxLaw` (plain sampler with the `islice` fast-forward, `Stateful` sampler object,
`RandomSampler` whose generator is not the loader's; bare or under `BatchSampler`), a dataset `idx ↦ f idx` and a
`collate_fn` that never raise; `ixs g` are the index batches of epoch `g`, `wS g` the sampler objects before it.
The loader is built over `(wS 0, d0)`; newly built loaders over `fw n` (same arguments: `Same`).
`epochsMap f ixs g` = the batches of epoch `g`. -/
section sp_map
variable {W SSt D Ds Dt : Type} (S : SP.IdxSrc W SSt) (Da : SP.Data D Ds Dt) (c : SP.Cfg) (f : Nat → Nat)
variable {Same : W → W → Prop} {wS : Nat → W} {ixs : Nat → List SP.Idx}
variable (H : MapHyp S Da c f Same wS ixs)
include H

/-- **The real single-process iterator provides what the façade assumes** (map-style). -/
theorem sp_map_meets : Nonempty (Meets (spIC S Da c) (epochsMap f ixs)) := ⟨meetsMap S Da c f H⟩

variable (d0 : D) (fw : Nat → W × D) (hfw : ∀ n e, Same (wS e) (fw n).1)
include hfw

/-- The uninterrupted `StatefulDataLoader(num_workers=0)` delivers the epochs `epochsMap f ixs`. -/
theorem sdl_sp_stream (E : Nat) :
    Fac.obs (spIC S Da c) fw (Sys.init (wS 0, d0)) (forLoops (epochsMap f ixs) 0 E ++ [.iter]) =
      forObss (epochsMap f ixs) 0 E ++ [.ok] :=
  gen_stream (meetsMap S Da c f H) fw hfw (wS 0, d0) rfl E

/-- **`sdl_sp_resume_exact` (C01, façade + single-process iterator).**  For every configuration in the scope
of the SP model, every epoch `e`, every `k ≤` length of epoch `e`: a freshly constructed loader,
`load_state_dict(sd)` with `sd` = the façade-level `state_dict()` of the original after `k` batches of epoch `e`,
then iterating epoch by epoch, yields `drop k (epoch e)`, then `epoch (e+1)`, …, for any number `E` of further
epochs — the streams the uninterrupted loader yields (`sdl_sp_stream`). -/
theorem sdl_sp_resume_exact (e k E : Nat) (hk : k ≤ (ixs e).length) :
    Fac.obs (spIC S Da c) fw (Fac.exec (spIC S Da c) fw (Sys.init (wS 0, d0))
        (prefixOps (epochsMap f ixs) e k ++ [.stateDict, .fresh, .load 0, .iter]))
        (restOps (epochsMap f ixs) e k E) =
      restObs (epochsMap f ixs) e k E :=
  gen_resume_epochs (meetsMap S Da c f H) fw hfw (wS 0, d0) rfl e k E (by simpa [epochsMap] using hk)

/-- **`sdl_sp_chain`**: closed under repetition (resume, carry on, checkpoint, resume again, …). -/
theorem sdl_sp_chain (H0 cont : List Op) (segs : List (List Op))
    (hH : wellUsed (epochsMap f ixs) (Sys.init (some 0)) H0 = true)
    (hc : ChainOk (epochsMap f ixs) (Fac.exec (idealIC (epochsMap f ixs)) ifw (Sys.init (some 0)) H0) segs)
    (hcont : wellUsed (epochsMap f ixs)
      (Fac.exec (idealIC (epochsMap f ixs)) ifw (Sys.init (some 0)) (H0 ++ plainOps segs)) cont = true) :
    Fac.obs (spIC S Da c) fw (Fac.exec (spIC S Da c) fw (Sys.init (wS 0, d0))
        (H0 ++ chainOps (Fac.exec (spIC S Da c) fw (Sys.init (wS 0, d0)) H0).toks.length segs)) cont =
      Fac.obs (spIC S Da c) fw (Fac.exec (spIC S Da c) fw (Sys.init (wS 0, d0)) (H0 ++ plainOps segs)) cont :=
  gen_chain (meetsMap S Da c f H) fw hfw (wS 0, d0) rfl H0 cont segs hH hc hcont

/-- **`sdl_sp_state_dict_transparent`** (C08 for this façade + iterator): extra `state_dict()` calls anywhere
in a well-used history change nothing. -/
theorem sdl_sp_state_dict_transparent (ops : List Op)
    (g1 : wellUsed (epochsMap f ixs) (Sys.init (some 0)) ops = true)
    (g2 : wellUsed (epochsMap f ixs) (Sys.init (some 0)) (TDV.Loader.erasePeek ops) = true) :
    Fac.obsSkipPeek (spIC S Da c) fw (Sys.init (wS 0, d0)) ops =
      Fac.obs (spIC S Da c) fw (Sys.init (wS 0, d0)) (TDV.Loader.erasePeek ops) :=
  gen_transparent (meetsMap S Da c f H) fw hfw (wS 0, d0) rfl ops g1 g2

end sp_map

/-- Non-vacuity of `MapHyp` (hence of all `sdl_sp_*`): map dataset of 5, `batch_size=2`, sequential sampler
(`Seq5.hyp`); and for ANY `RandomSampler` configuration over any generator (`mapHyp_random`: epochs differ). -/
example : MapHyp Seq5.S Seq5.Da Seq5.c id (fun b b' => b.w.1 = b'.w.1) Seq5.wS Seq5.ixs ∧
    (∀ n e, (Seq5.wS e).w.1 = (Seq5.fw n).1.w.1) := ⟨Seq5.hyp, fun _ _ => rfl⟩

/-- `sdl_sp_resume_exact` on that instance, computed on the REAL model: `k = 1` batch of epoch 0, two further
epochs (`10 :: items` = a batch, `[4]` = StopIteration, `[0]` = `iter()` returned). -/
example :
    (Fac.obs (spIC Seq5.S Seq5.Da Seq5.c) Seq5.fw (Fac.exec (spIC Seq5.S Seq5.Da Seq5.c) Seq5.fw
        (Sys.init (Seq5.wS 0, 0)) (prefixOps Seq5.epochs 0 1 ++ [.stateDict, .fresh, .load 0, .iter]))
        (restOps Seq5.epochs 0 1 2)).map flat =
      [[10, 2, 3], [10, 4], [4], [0], [10, 0, 1], [10, 2, 3], [10, 4], [4], [0], [10, 0, 1], [10, 2, 3], [10, 4], [4]] ∧
    (restObs Seq5.epochs 0 1 2).map flat =
      [[10, 2, 3], [10, 4], [4], [0], [10, 0, 1], [10, 2, 3], [10, 4], [4], [0], [10, 0, 1], [10, 2, 3], [10, 4], [4]] := by
  decide

/-- Non-vacuity of `sdl_sp_chain`: checkpoint after 1 batch, resume, 1 more batch, checkpoint, resume, the last
batch, `StopIteration`, next epoch; the chained run (3 loaders) and the plain run agree on what follows. -/
example :
    let H0 : List Op := [.iter, .next]
    let segs : List (List Op) := [[.next], [.next, .next, .iter, .next]]
    let cont : List Op := [.next, .next, .next]
    wellUsed Seq5.epochs (Sys.init (some 0)) H0 = true ∧
    ChainOk Seq5.epochs (Fac.exec (idealIC Seq5.epochs) ifw (Sys.init (some 0)) H0) segs ∧
    wellUsed Seq5.epochs (Fac.exec (idealIC Seq5.epochs) ifw (Sys.init (some 0)) (H0 ++ plainOps segs)) cont = true ∧
    chainOps 0 segs = [.stateDict, .fresh, .load 0, .iter, .next, .stateDict, .fresh, .load 1, .iter,
      .next, .next, .iter, .next] ∧
    (Fac.obs (spIC Seq5.S Seq5.Da Seq5.c) Seq5.fw (Fac.exec (spIC Seq5.S Seq5.Da Seq5.c) Seq5.fw
      (Sys.init (Seq5.wS 0, 0)) (H0 ++ chainOps 0 segs)) cont).map flat = [[10, 2, 3], [10, 4], [4]] := by
  refine ⟨by decide, ?_, by decide, rfl, by decide⟩
  exact ⟨⟨_, rfl, rfl⟩, ⟨rfl, rfl, rfl, rfl⟩, by simp, by decide,
    ⟨_, rfl, rfl⟩, ⟨rfl, rfl, rfl, rfl⟩, by simp, by decide, trivial⟩

/-- Non-vacuity of `sdl_sp_state_dict_transparent`: `state_dict()` before the first `iter()` (it creates the
iterator), mid-epoch, after `StopIteration`, and on the resumed loader. -/
example :
    let ops : List Op := [.peek, .iter, .peek, .next, .stateDict, .peek, .fresh, .load 0, .iter, .peek, .next,
      .next, .next, .peek, .iter, .next]
    wellUsed Seq5.epochs (Sys.init (some 0)) ops = true ∧
    wellUsed Seq5.epochs (Sys.init (some 0)) (TDV.Loader.erasePeek ops) = true ∧
    (Fac.obsSkipPeek (spIC Seq5.S Seq5.Da Seq5.c) Seq5.fw (Sys.init (Seq5.wS 0, 0)) ops).map flat =
      [[0], [10, 0, 1], [1], [0], [0], [0], [10, 2, 3], [10, 4], [4], [0], [10, 0, 1]] := by
  decide

/-! ## The single-process iterator, iterable datasets

`IterHyp S Da c L stream` (`Proofs/E2ESPIter.lean`) = the hypotheses of `SP.resume_exact_iter`/`resume_exact_ffwd`:
the index sampler of an iterable loader, a lawful dataset (`IterLaw`), a `collate_fn` that never raises; every
epoch is `stream` (`iterHyp_batch`, `iterHyp_one`: torch's chunking of the shard, from `SP.stream_eq_ref_iter*`).
Objects "between epochs" are `L.Good`. -/
section sp_iter
variable {W SSt D Ds Dt : Type} (S : SP.IdxSrc W SSt) (Da : SP.Data D Ds Dt) (c : SP.Cfg)
variable {items : List Nat} (L : SP.IterLaw Da items) {sh : SP.Shape} {stream : List SP.Obs}
variable (H : IterHyp S Da c L (sh := sh) stream)
include H

/-- **The real iterator provides what the façade assumes** — dataset and/or its iterator `Stateful`. -/
theorem sp_iter_state_meets (SL : SP.StateLaw Da items L) :
    Nonempty (Meets (spIC S Da c) (epochsIter stream)) :=
  ⟨meetsIter S Da c L H (resumes_state S Da c L H.src H.isIter SL stream)⟩

/-- … and a dataset without any state (resume by fast-forward; every dataset object is a valid start). -/
theorem sp_iter_ffwd_meets (hds : Da.dsState = none) (hits : Da.itState = none) (hgood : ∀ d, L.Good d) :
    Nonempty (Meets (spIC S Da c) (epochsIter stream)) :=
  ⟨meetsIter S Da c L H (resumes_ffwd S Da c L H hds hits hgood)⟩

variable (w0 : W × D) (hg0 : L.Good w0.2) (fw : Nat → W × D) (hfw : ∀ n, L.Good (fw n).2)
include hg0 hfw

/-- **C01, façade + single-process iterator, iterable dataset with state.** -/
theorem sdl_sp_iter_resume_exact (SL : SP.StateLaw Da items L) (e k E : Nat) (hk : k ≤ stream.length) :
    Fac.obs (spIC S Da c) fw (Fac.exec (spIC S Da c) fw (Sys.init w0)
        (prefixOps (epochsIter stream) e k ++ [.stateDict, .fresh, .load 0, .iter]))
        (restOps (epochsIter stream) e k E) =
      restObs (epochsIter stream) e k E :=
  gen_resume_epochs (meetsIter S Da c L H (resumes_state S Da c L H.src H.isIter SL stream)) fw hfw w0 hg0 e k E
    (by simpa [epochsIter] using hk)

/-- **C01, façade + single-process iterator, iterable dataset without state (fast-forward).** -/
theorem sdl_sp_ffwd_resume_exact (hds : Da.dsState = none) (hits : Da.itState = none) (hgood : ∀ d, L.Good d)
    (e k E : Nat) (hk : k ≤ stream.length) :
    Fac.obs (spIC S Da c) fw (Fac.exec (spIC S Da c) fw (Sys.init w0)
        (prefixOps (epochsIter stream) e k ++ [.stateDict, .fresh, .load 0, .iter]))
        (restOps (epochsIter stream) e k E) =
      restObs (epochsIter stream) e k E :=
  gen_resume_epochs (meetsIter S Da c L H (resumes_ffwd S Da c L H hds hits hgood)) fw hfw w0 hg0 e k E
    (by simpa [epochsIter] using hk)

/-- For iterable datasets all epochs are alike, so the façade over the real iterator is `TDV.SDLApi` itself
(hence its reference `SDLApi.Ref`, by `SDLApi.refines_ref`), on every well-used history without a dropped
iterator in use. -/
theorem sdl_sp_iter_refines_sdlapi (hres : Resumes S Da c L stream) (ops : List Op)
    (hw : wellUsed (epochsIter stream) (Sys.init (some 0)) ops = true)
    (ha : attached (epochsIter stream) SDLApi.Sys.init ops = true) :
    Fac.obs (spIC S Da c) fw (Sys.init w0) ops = SDLApi.Ref.obs (epochsIter stream) true SDLApi.Ref.RSys.init ops := by
  rw [gen_refines (meetsIter S Da c L H hres) fw hfw w0 hg0 ops hw,
    ideal_eq_sdlapi (epochsIter stream) (fun _ _ => rfl) ops hw ha, SDLApi.refines_ref]

end sp_iter

/-- Non-vacuity (iterable): the README dataset (5 items, `batch_size=2`) with its `StateLaw`, resumed after 1
batch of epoch 1, one further epoch; a plain generator dataset without state, resumed by fast-forward after 2
batches; both computed on the real model. -/
example :
    IterHyp Readme5.S Readme5.Da Readme5.c (SP.readmeLaw 5) (sh := .many 2) Readme5.stream ∧
    SP.StateLaw Readme5.Da (List.range 5) (SP.readmeLaw 5) ∧ (SP.readmeLaw 5).Good Readme5.w0.2 ∧
    (Fac.obs (spIC Readme5.S Readme5.Da Readme5.c) Readme5.fw (Fac.exec (spIC Readme5.S Readme5.Da Readme5.c) Readme5.fw
        (Sys.init Readme5.w0) (prefixOps Readme5.epochs 1 1 ++ [.stateDict, .fresh, .load 0, .iter]))
        (restOps Readme5.epochs 1 1 1)).map flat =
      [[10, 2, 3], [10, 4], [4], [0], [10, 0, 1], [10, 2, 3], [10, 4], [4]] ∧
    IterHyp Plain5.S Plain5.Da Plain5.c (SP.plainLaw 5) (sh := .many 2) Plain5.stream ∧
    (∀ d, (SP.plainLaw 5).Good d) ∧
    (Fac.obs (spIC Plain5.S Plain5.Da Plain5.c) Plain5.fw (Fac.exec (spIC Plain5.S Plain5.Da Plain5.c) Plain5.fw
        (Sys.init Plain5.w0) (prefixOps Plain5.epochs 0 2 ++ [.stateDict, .fresh, .load 0, .iter]))
        (restOps Plain5.epochs 0 2 1)).map flat =
      [[10, 4], [4], [0], [10, 0, 1], [10, 2, 3], [10, 4], [4]] :=
  ⟨Readme5.hyp, SP.readme_stateLaw 5, rfl, by decide, Plain5.hyp, fun _ => trivial, by decide⟩

/-! ## The façade of `TDV.SDLApi` itself: where its assumed iterator cannot be met -/

/-- **Full-strength statement (FALSE).**  Every iterator class that meets the interface makes the façade behave
as `TDV.SDLApi` (and so as its reference `SDLApi.Ref`, `SDLApi.refines_ref`) over the same `epochs`, on every
well-used history in which no dropped iterator is used. -/
def refines_sdlapi_statement : Prop :=
  ∀ (X T Wd : Type) (IC : IterClass X T Wd) (epochs : Nat → List Item) (M : Meets IC epochs) (fw : Nat → Wd)
    (w0 : Wd), (∀ n, M.WN (fw n)) → M.AW w0 0 → ∀ ops : List Op,
    wellUsed epochs (Sys.init (some 0)) ops = true → attached epochs SDLApi.Sys.init ops = true →
    Fac.obs IC fw (Sys.init w0) ops = SDLApi.obs epochs false SDLApi.Sys.init ops

/-- **Negation witness.**  Epoch `e` is `[e]`: one batch of epoch 0, `sd = state_dict()`, a NEW loader,
`load_state_dict(sd)`, `for` loop (nothing left, `StopIteration`), `for` loop: the iterator that restores the
sampler's generator starts epoch 1 (as C01 demands: "every following epoch"); `TDV.SDLApi` and `SDLApi.Ref` start
"the 0-th stream of this loader object", epoch 0 again.  The stream index `g` of `TDV.SDLApi` is a counter of the
loader object that `load_state_dict` does not touch; no real iterator with epoch-dependent streams can meet
that.  (The Python code behaves like the real iterator models — replayed by `harness/props/e2e_parts.py`.) -/
theorem refines_sdlapi_statement_false : ¬ refines_sdlapi_statement := by
  intro h
  have h1 := h _ _ _ _ TDV.Loader.epochIs (meetsIdeal _) ifw (some 0) (fun _ => trivial) rfl
    [.iter, .next, .stateDict, .fresh, .load 0, .iter, .next, .iter, .next] (by decide) (by decide)
  have h2 := congrArg (List.map TDV.Loader.Obs.code) h1
  revert h2
  decide

/-- **The provable restriction**: all epochs alike (sequential / fixed-order samplers, iterable datasets).  Then
the façade over the real iterator IS `TDV.SDLApi`, and by `SDLApi.refines_ref` its reference. -/
theorem refines_sdlapi_partial {X T Wd : Type} {IC : IterClass X T Wd} {epochs : Nat → List Item}
    (M : Meets IC epochs) (fw : Nat → Wd) (w0 : Wd) (hfw : ∀ n, M.WN (fw n)) (hw0 : M.AW w0 0)
    (hconst : ∀ e e', epochs e = epochs e') (ops : List Op)
    (hw : wellUsed epochs (Sys.init (some 0)) ops = true) (ha : attached epochs SDLApi.Sys.init ops = true) :
    Fac.obs IC fw (Sys.init w0) ops = SDLApi.obs epochs false SDLApi.Sys.init ops ∧
      Fac.obs IC fw (Sys.init w0) ops = SDLApi.Ref.obs epochs true SDLApi.Ref.RSys.init ops := by
  have h := gen_refines M fw hfw w0 hw0 ops hw
  rw [ideal_eq_sdlapi epochs hconst ops hw ha] at h
  exact ⟨h, by rw [h, SDLApi.refines_ref]⟩

/-- Non-vacuity of `refines_sdlapi_partial` (Seq5: all epochs alike), and the mismatch on the REAL single-process
model with a `RandomSampler` (`Rand3`: epoch 0 is `0,1,2`, epoch 1 is `1,2,0`; new loaders have another generator
state): after resuming epoch 0 into a new loader the following epoch is `1,2,0` — the original's epoch 1. -/
example :
    (∀ e e', Seq5.epochs e = Seq5.epochs e') ∧
    (Fac.obs (spIC Rand3.S Rand3.Da Rand3.c) Rand3.fw (Sys.init Rand3.w0)
      [.iter, .next, .next, .next, .next, .iter, .next, .next, .next, .next]).map flat =
      [[0], [11, 0], [11, 1], [11, 2], [4], [0], [11, 1], [11, 2], [11, 0], [4]] ∧
    (Fac.obs (spIC Rand3.S Rand3.Da Rand3.c) Rand3.fw (Sys.init Rand3.w0)
      [.iter, .next, .stateDict, .fresh, .load 0, .iter, .next, .next, .next, .iter, .next, .next, .next, .next]).map flat =
      [[0], [11, 0], [1], [0], [0], [0], [11, 1], [11, 2], [4], [0], [11, 1], [11, 2], [11, 0], [4]] :=
  ⟨fun _ _ => rfl, by decide, by decide⟩

/-- The `RandomSampler` configurations are in the scope of the `sdl_sp_*` theorems: for every generator and
every `RandomSampler` that never draws an empty permutation there are epoch worlds and index streams satisfying
`MapHyp` (the streams are the permutations drawn at each `iter()`). -/
example {G : Type} (R : Gen G) (rc : RCfg) (draw : G → G) (hne : ∀ g, (getPerm R rc g).1 ≠ []) (w0 : RIter G × G) :
    ∃ wS ixs, wS 0 = w0 ∧ (∀ g, ixs g = (RIter.epoch R rc (wS g).2).1.map .one) ∧
      MapHyp (SP.bareSrc (randomNested R rc) false (SP.randSeed draw false)) (SP.mapData (fun i => some i) false)
        ⟨false, fun _ => false⟩ id (fun _ _ => True) wS ixs :=
  mapHyp_random R rc draw hne _ _ id rfl (fun _ _ => rfl) (fun _ => rfl) w0

/-! ## The multi-process iterator, map-style, non-persistent workers -/
section mp
open TDV.MP TDV.MPR
variable (c : Cfg) (hv : c.Valid) (hm : c.iterable = false) (hio : c.inOrder = true) (he : errFree c)
include hv hm hio he

/-- **`sdl_mp_map_resume_exact`.**  `sd = state_dict()` of a multi-process iterator after any `k` batches under
any schedule.  With `persistent_workers = False` the façade (`Fac.getAssign`) builds the resumed loader's first
iterator from `sd` (`MPR.restore`, replaying `steps_since_snapshot` batches) and a FRESH instance for every
following epoch.  Whatever the schedules: the consumer of the resumed loader receives `drop k` of the reference
stream in the first epoch and the whole stream in each of the `E` following epochs. -/
theorem sdl_mp_map_resume_exact (as₁ : List Action) (s₁ : State) (hn₁ : NoReset as₁)
    (hr₁ : MP.run c (init c) as₁ = some s₁) (hd₁ : ¬ died s₁)
    (first : EpochRun c (restore c (stateDict s₁).1)) (rest : List (EpochRun c (init c))) :
    yields s₁.obs = (oks (refStream c)).take (yields s₁.obs).length ∧
    (yields first.s.obs).drop (stateDict s₁).2 :: rest.map (fun r => yields r.s.obs) =
      (oks (refStream c)).drop (yields s₁.obs).length :: List.replicate rest.length (oks (refStream c)) := by
  obtain ⟨h1, _, h3⟩ := resume_exact_map c hv hm hio he as₁ s₁ hn₁ hr₁ hd₁ first.as first.s first.noReset
    first.run first.alive
  exact ⟨h1, by rw [h3 first.stopped, mp_fresh_epochs c hv hm hio he rest]⟩

end mp

/-- Non-vacuity: the instance of `Props/C01MP.lean` (interval 3, two workers, 7 batches, checkpoint after
`k = 4` between two snapshots), the resumed run to `StopIteration` (1 batch replayed), then a fresh epoch. -/
example :
    ∃ (s₁ : MP.State) (_ : MP.run MPR.exMap (MP.init MPR.exMap) MPR.exMapSave = some s₁)
      (first : EpochRun MPR.exMap (MPR.restore MPR.exMap (MPR.stateDict s₁).1))
      (r : EpochRun MPR.exMap (MP.init MPR.exMap)),
      MP.yields s₁.obs = [100, 101, 102, 103] ∧ (MPR.stateDict s₁).2 = 1 ∧
      (MP.yields first.s.obs).drop (MPR.stateDict s₁).2 = [104, 105, 106] ∧
      MP.yields r.s.obs = [100, 101, 102, 103, 104, 105, 106] :=
  ⟨(MP.run MPR.exMap (MP.init MPR.exMap) MPR.exMapSave).get (by decide), (Option.some_get _).symm,
    EpochRun.ofSchedule _ _ MPR.exMapResume (by simp [MP.NoReset, MPR.exMapResume]) (by decide) (by decide) (by decide),
    EpochRun.ofSchedule _ _ exMapFull (by simp [MP.NoReset, exMapFull]) (by decide) (by decide) (by decide),
    by decide, by decide, by decide, by decide⟩

end TDV.E2E
