import TorchDataVerif.Props.C01MP
import TorchDataVerif.Proofs.MPRISound
/-!
# C01 (multi-process part, iterable datasets) — the open statements of `Props/C01MP.lean`, every snapshot interval

Model: `Model/MP.lean` + `Model/MPRestore.lean`.  Helper lemmas: `Proofs/MPRI*.lean` (the joint invariant `J`
with the ghost dispatch history of `Proofs/MPIter*.lean` and the ghost dispatch-time `_num_yielded` of
`Proofs/MPUSnap*.lean` exposed).  All theorems: `in_order = True`, no failing fetch (`NoErr`), every schedule.
-/
namespace TDV.MPR

open TDV.MP TDV.MPRI

/-- **`snapshot_sound_iter`** — `snapshot_sound_iter_statement` of `Props/C01MP.lean`, at full strength.  In
every reachable state of an iterable configuration (uneven / empty shards, workers retiring in any order, dead
tasks, every schedule and arrival order, `state_dict` calls anywhere, every snapshot interval), after the
`n`-th yield the stored snapshot is `idealAt c (stepOf c n)` up to the (meaningless) sampler position:
`last_yielded_worker_id` is the owner of the `stepOf c n`-th batch, every worker's state is the one after
exactly its fetches among the first `stepOf c n` batches, `ended` iff its end-of-shard notice was consumed
before that batch.  `idealAt` requires nothing of the sampler (`_InfiniteConstantSampler`): `SnapEq` ignores
`main` for iterable datasets.  Proof: every data task carries the dispatch-time window flag `flagW`; a task
dispatched at `_num_yielded = d` is yielded as batch `≤ d + 1 + W·P`; two consecutive live tasks of a worker
are fewer than `W` yields apart (`since_lt`); so a worker whose last yielded task carried no delta cannot be
stale at a boundary (`KS_boundary`); notices always carry `⟨b_w, true⟩`. -/
theorem snapshot_sound_iter : snapshot_sound_iter_statement := by
  intro c hv hit hio hne as s hnr hr hd
  have hvi : c.ValidI := ⟨hv.1, hv.2 hit⟩
  have hok := shardsOk_of_noErr c hit hvi.2 hne
  have hJ := fresh_J c hvi hit hio hok as s hnr hr hd
  obtain ⟨hny, hst, _⟩ := snapshot_fields c hv hio as s hnr hr hd
  have hse := sound_of_J c hit hvi.2 hok s hJ
  have hstep : s.snap.step = stepOf c s.numYielded := by rw [hst]; rfl
  rw [hstep] at hse
  exact ⟨hJ.2.1, hny, hse⟩

end TDV.MPR
