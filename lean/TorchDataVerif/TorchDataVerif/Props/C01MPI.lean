import TorchDataVerif.Props.C01MP
import TorchDataVerif.Proofs.MPRISound
import TorchDataVerif.Proofs.MPRIBack
/-!
# C01 (multi-process part, iterable datasets) — the open statements of `Props/C01MP.lean`, every snapshot interval

Model: `Model/MP.lean` + `Model/MPRestore.lean`.  Helper lemmas: `Proofs/MPRI*.lean` (the joint invariant `J`
with the ghost dispatch history of `Proofs/MPIter*.lean` and the ghost dispatch-time `_num_yielded` of
`Proofs/MPUSnap*.lean` exposed).  All theorems: `in_order = True`, no failing fetch (`NoErr`), every schedule.
-/
namespace TDV.MPR

open TDV.MP TDV.MPRI

/-- **`snapshot_sound_iter`** — `snapshot_sound_iter_statement` of `Props/C01MP.lean`, at full strength.  In
every reachable state of an iterable configuration (uneven / empty shards, workers retiring in any order, dead
tasks, every schedule and arrival order, `state_dict` calls anywhere, every snapshot interval), after the
`n`-th yield the stored snapshot is `idealAt c (stepOf c n)` up to the (meaningless) sampler position:
`last_yielded_worker_id` is the owner of the `stepOf c n`-th batch, every worker's state is the one after
exactly its fetches among the first `stepOf c n` batches, `ended` iff its end-of-shard notice was consumed
before that batch.  `idealAt` requires nothing of the sampler (`_InfiniteConstantSampler`): `SnapEq` ignores
`main` for iterable datasets.  Proof: every data task carries the dispatch-time window flag `flagW`; a task
dispatched at `_num_yielded = d` is yielded as batch `≤ d + 1 + W·P`; two consecutive live tasks of a worker
are fewer than `W` yields apart (`since_lt`); so a worker whose last yielded task carried no delta cannot be
stale at a boundary (`KS_boundary`); notices always carry `⟨b_w, true⟩`. -/
theorem snapshot_sound_iter : snapshot_sound_iter_statement := by
  intro c hv hit hio hne as s hnr hr hd
  have hvi : c.ValidI := ⟨hv.1, hv.2 hit⟩
  have hok := shardsOk_of_noErr c hit hvi.2 hne
  have hJ := fresh_J c hvi hit hio hok as s hnr hr hd
  obtain ⟨hny, hF⟩ := snapshot_fields c hv hio as s hnr hr hd
  obtain ⟨hst, _⟩ := hF (Or.inl hit)
  have hse := sound_of_J c hit hvi.2 hok s hJ
  have hstep : s.snap.step = stepOf c s.numYielded := by rw [hst]; rfl
  rw [hstep] at hse
  exact ⟨hJ.2.1, hny, hse⟩

/-- **`restore_ideal_iter`** — `restore_ideal_iter_statement` of `Props/C01MP.lean`, at full strength (any number
of workers retired inside the snapshot).  The state built by the restore constructor from (a snapshot equal, up
to the sampler position, to) the ideal state at a possible snapshot step `m` is observationally the original
iterator after `m` yields, for every schedule of the resumed run: its yields are a prefix of
`drop m (Ref.stream c)`, all of it once StopIteration is raised; the `_take_snapshot` assertion never fires;
`_num_yielded` continues from `m`; and its own stored snapshot is again `idealAt c (stepOf c n)`.
Proof: the restored state, with fetch positions shifted (`shift`, `run_shift`) and task indices shifted
(`lift`, `run_lift`), is a quiescent start state (`Base`) of the *virtual* configuration `padCfg c K` — `c` with
the shards of the workers that had ended padded in front so that they are just about to end again (they re-send
their notice, as the code does) — whose past is the canonical round robin of `K` slots; the joint invariant
`J` of `snapshot_sound_iter` runs from there (`base_J`, `run_J`), and `snap_back` / `yields_back` translate its
conclusions to `c` (`idealE_pad`, `dataItems_pad`). -/
theorem restore_ideal_iter : restore_ideal_iter_statement := by
  intro c hv hit hio hne m hms hmle sn hsn as s' hnr hr hd
  have hvi : c.ValidI := ⟨hv.1, hv.2 hit⟩
  have hok := shardsOk_of_noErr c hit hvi.2 hne
  have href : refStream c = Ref.interleave c.shards := by simp [refStream, hit]
  rw [href] at hmle ⊢
  exact restored_all c hvi hit hio hok m hms hmle sn hsn as s' hnr hr hd

/-- **`resume_exact_iter`** — full strength.  `state_dict()` after any number `k` of batches of any saving run,
restored and run under any schedule: after the constructor's replay of `steps_since_snapshot` batches the
consumer receives exactly `drop k (Ref.stream c)`; nothing lost, repeated or reordered — every snapshot
interval, uneven / empty shards, workers retired before the snapshot. -/
theorem resume_exact_iter : resume_exact_iter_statement :=
  resume_exact_iter_of snapshot_sound_iter restore_ideal_iter

/-- **`chain_iter`** — full strength.  The checkpoint of a resumed iterator after `j` consumer-visible batches
equals (up to the sampler position) the one of an uninterrupted run after `k + j` batches: checkpoint / resume
can be chained indefinitely. -/
theorem chain_iter : chain_iter_statement :=
  chain_iter_of snapshot_sound_iter restore_ideal_iter

/-! ### Non-vacuity.  `exIt 3` of `Props/C01MP.lean`: three workers with shards of 1, 5 and 3 batches (uneven),
prefetch factor 2, snapshot interval 3.  Saving run `exItSave` (workers answering in reverse order): checkpoint
after `k = 7` batches, i.e. between the snapshots at 6 and 9; the snapshot of step 6 holds the retired worker 0
(`⟨1, true⟩`: its end-of-shard notice was consumed before the 6th batch).  Resumed run `exItResume`: replays batch
22, delivers 13, 14, stop (worker 0 re-sends its notice).  `exItFull`: the saving run continued to 9 batches. -/

def exItFull : List Action :=
  exItSave ++ [.next, .work 1, .recv, .next, .work 2, .work 1, .recv, .recv]

theorem exIt_hyps : (exIt 3).WF ∧ (exIt 3).iterable = true ∧ (exIt 3).inOrder = true ∧ NoErr (exIt 3) ∧
    NoReset exItSave ∧ NoReset exItResume ∧ NoReset exItFull := by
  refine ⟨⟨⟨by decide, by decide⟩, fun _ => rfl⟩, rfl, rfl, by unfold NoErr; decide, by simp [NoReset, exItSave],
    by simp [NoReset, exItResume], by simp [NoReset, exItFull, exItSave]⟩

/-- The hypotheses of `snapshot_sound_iter` hold for the saving run, and what it then says: after 7 yields the
stored snapshot is the ideal state at step `stepOf 7 = 6`, with the retired worker 0 inside. -/
example : (run (exIt 3) (init (exIt 3)) exItSave).map (fun s => s.obs.contains Obs.workerDied) = some false ∧
    (run (exIt 3) (init (exIt 3)) exItSave).map
      (fun s => (s.numYielded, stepOf (exIt 3) s.numYielded, s.snap.step, s.snap.lastW, s.snap.ws)) =
      some (7, 6, 6, 1, [⟨1, true⟩, ⟨3, false⟩, ⟨2, false⟩]) ∧
    (∀ s, run (exIt 3) (init (exIt 3)) exItSave = some s → ¬ died s →
      SnapEq (exIt 3) s.snap (idealAt (exIt 3) (stepOf (exIt 3) s.numYielded))) := by
  obtain ⟨h1, h2, h3, h4, h5, _, _⟩ := exIt_hyps
  exact ⟨by decide, by decide, fun s hr hd => (snapshot_sound_iter (exIt 3) h1 h2 h3 h4 exItSave s h5 hr hd).2.2⟩

/-- The hypotheses of `restore_ideal_iter` hold for `m = 6` and the snapshot of the saving run (sampler position
8, irrelevant), and the resumed run is one of the schedules it covers. -/
example : SnapStep (exIt 3) 6 ∧ 6 ≤ (oks (refStream (exIt 3))).length ∧
    SnapEq (exIt 3) ⟨6, 1, 8, [⟨1, true⟩, ⟨3, false⟩, ⟨2, false⟩]⟩ (idealAt (exIt 3) 6) ∧
    (run (exIt 3) (restore (exIt 3) ⟨6, 1, 8, [⟨1, true⟩, ⟨3, false⟩, ⟨2, false⟩]⟩) exItResume).map
      (fun s => (s.obs, s.numYielded, s.snap.step, s.snap.lastW, s.snap.ws)) =
      some ([.item 22, .item 13, .item 14, .stop], 9, 9, 1, [⟨1, true⟩, ⟨5, false⟩, ⟨3, true⟩]) ∧
    (oks (refStream (exIt 3))).drop 6 = [22, 13, 14] ∧
    idealAt (exIt 3) 9 = ⟨9, 1, 0, [⟨1, true⟩, ⟨5, false⟩, ⟨3, true⟩]⟩ := by
  refine ⟨⟨by decide, fun _ => by decide⟩, by decide, ⟨rfl, by decide, by decide, fun h => by cases h⟩, by decide,
    by decide, by decide⟩

/-- `resume_exact_iter` and `chain_iter` applied to the three concrete runs: the checkpoint of the saving run
after 7 batches is `(snapshot of step 6, 1)`; the resumed consumer sees `drop 1 [22, 13, 14] = drop 7 stream`;
and after its 2 visible batches the resumed iterator's checkpoint equals the one of the uninterrupted run
`exItFull` after 9 batches. -/
example : (run (exIt 3) (init (exIt 3)) exItSave).map (fun s => (stateDict s).2) = some 1 ∧
    (run (exIt 3) (init (exIt 3)) exItFull).map (fun s => (yields s.obs, (stateDict s).1.step, (stateDict s).2)) =
      some ([0, 10, 20, 11, 21, 12, 22, 13, 14], 9, 0) ∧
    (∀ s₁ s₂, run (exIt 3) (init (exIt 3)) exItSave = some s₁ → ¬ died s₁ →
      run (exIt 3) (restore (exIt 3) (stateDict s₁).1) exItResume = some s₂ → ¬ died s₂ →
      (yields s₂.obs).drop (stateDict s₁).2 <+: (oks (refStream (exIt 3))).drop (yields s₁.obs).length) ∧
    (∀ s₁ s₂ s₃, run (exIt 3) (init (exIt 3)) exItSave = some s₁ → ¬ died s₁ →
      run (exIt 3) (restore (exIt 3) (stateDict s₁).1) exItResume = some s₂ → ¬ died s₂ →
      run (exIt 3) (init (exIt 3)) exItFull = some s₃ → ¬ died s₃ →
      (stateDict s₁).2 ≤ (yields s₂.obs).length →
      (yields s₃.obs).length = (yields s₁.obs).length + ((yields s₂.obs).length - (stateDict s₁).2) →
      SnapEq (exIt 3) (stateDict s₂).1 (stateDict s₃).1 ∧ (stateDict s₂).2 = (stateDict s₃).2) := by
  obtain ⟨h1, h2, h3, h4, h5, h6, h7⟩ := exIt_hyps
  refine ⟨by decide, by decide, ?_, ?_⟩
  · intro s₁ s₂ r1 d1 r2 d2
    exact (resume_exact_iter (exIt 3) h1 h2 h3 h4 exItSave s₁ h5 r1 d1 exItResume s₂ h6 r2 d2).2.1
  · intro s₁ s₂ s₃ r1 d1 r2 d2 r3 d3 hle hlen
    exact chain_iter (exIt 3) h1 h2 h3 h4 exItSave s₁ h5 r1 d1 exItResume s₂ h6 r2 d2 exItFull s₃ h7 r3 d3 hle hlen

end TDV.MPR
