import TorchDataVerif.Proofs.Sampler
/-!
# C15 — stateful samplers resume exactly and keep torch sampler semantics

Property theorems over the model `TDV.Sampler` (`Model/Sampler.lean`); helper lemmas are in
`Proofs/Sampler.lean`.  The torch RNG is an arbitrary `Gen G`; what is assumed of it is stated as a
hypothesis of the theorem that needs it.
-/
namespace TDV.Sampler

/-! ## RandomSampler -/
section random
variable {G : Type} (R : Gen G) (c : RCfg)

/-- **Closed form of an epoch.**  If every draw has `L > 0` entries (`L = n` for permutations, `32` with
replacement) the epoch is `num_samples / L` whole draws followed by the first `num_samples % L` indices
of one more draw — which is made only if that prefix is non-empty — and the shared generator ends
exactly after those draws. -/
theorem random_epoch_blocks (L : Nat) (hL : ∀ g, (getPerm R c g).1.length = L) (hL0 : 0 < L)
    (hpos : 0 < c.numSamples) (g0 : G) :
    (RIter.epoch R c g0).1 =
        (drawsSeq R c (c.numSamples / L) g0).1.flatten ++
          (getPerm R c (drawsSeq R c (c.numSamples / L) g0).2).1.take (c.numSamples % L) ∧
      (RIter.epoch R c g0).2.2 =
        (if c.numSamples % L = 0 then (drawsSeq R c (c.numSamples / L) g0).2
         else (getPerm R c (drawsSeq R c (c.numSamples / L) g0).2).2) ∧
      (RIter.epoch R c g0).1.length = c.numSamples := by
  have hdm : c.numSamples = c.numSamples / L * L + c.numSamples % L := by
    rw [Nat.mul_comm]; exact (Nat.div_add_mod _ _).symm
  obtain ⟨it', hs, hy, _⟩ := rsteps_epoch R c L hL _ _ hdm (Nat.mod_lt _ hL0) hpos g0
  have hlen : ∀ (ys : List Nat) (w' : RIter G × G), Steps (RIter.next R c) (RIter.create R c g0) ys w' →
      w'.1.yielded = c.numSamples → ys.length = c.numSamples := by
    intro ys w' hs hy
    have := (rsteps_yielded R c hs).1
    simp [RIter.create] at this
    omega
  rw [epoch_of_steps R c g0 _ _ hs hy]
  exact ⟨rfl, rfl, hlen _ _ hs hy⟩

example :
    let R : Gen Nat := { perm := fun g n => ((List.range n).reverse, g + 1), ints := fun g _ _ => ([], g) }
    let c : RCfg := { n := 3, replacement := false, numSamples := 7 }
    (∀ g, (getPerm R c g).1.length = 3) ∧ (RIter.epoch R c 0).1 = [2, 1, 0, 2, 1, 0, 2] ∧
      (RIter.epoch R c 0).2.2 = 3 := by
  refine ⟨fun g => by simp [getPerm], by decide, by decide⟩

/-- **Permutation semantics.**  Without replacement, if `randperm` returns permutations, an epoch of
`num_samples = n` indices is a permutation of `range n`; in general it is `num_samples / n` whole
permutations followed by a prefix (of length `num_samples % n`) of one more permutation. -/
theorem random_epoch_perm (hrep : c.replacement = false)
    (hperm : ∀ g n, (R.perm g n).1.Perm (List.range n)) (hn : 0 < c.n) (hpos : 0 < c.numSamples) (g0 : G) :
    (c.numSamples = c.n → (RIter.epoch R c g0).1.Perm (List.range c.n)) ∧
    ∃ (ps : List (List Nat)) (last : List Nat),
      ps.length = c.numSamples / c.n ∧ (∀ p ∈ ps, p.Perm (List.range c.n)) ∧ last.Perm (List.range c.n) ∧
      (RIter.epoch R c g0).1 = ps.flatten ++ last.take (c.numSamples % c.n) := by
  have hP : ∀ g, (getPerm R c g).1.Perm (List.range c.n) := fun g => by simp [getPerm, hrep, hperm]
  have hL : ∀ g, (getPerm R c g).1.length = c.n := fun g => by simpa using (hP g).length_eq
  have hb := random_epoch_blocks R c c.n hL hn hpos g0
  constructor
  · intro hns
    rw [hb.1, hns, Nat.div_self hn, Nat.mod_self]
    simpa [drawsSeq] using hP g0
  · exact ⟨_, _, drawsSeq_length R c _ _, drawsSeq_all R c _ hP _ _, hP _, hb.1⟩

example :
    let R : Gen Nat := { perm := fun g n => ((List.range n).reverse, g + 1), ints := fun g _ _ => ([], g) }
    (∀ g n, (R.perm g n).1.Perm (List.range n)) := by
  intro R g n
  exact List.reverse_perm _

/-- **With replacement:** exactly `num_samples` indices, each below `n` (if `randint` returns `count`
values below `high`), whatever the position of the 32-draw chunk boundaries. -/
theorem random_with_replacement_len (hrep : c.replacement = true)
    (hints : ∀ g high cnt, (R.ints g high cnt).1.length = cnt ∧ ∀ x ∈ (R.ints g high cnt).1, x < high)
    (hpos : 0 < c.numSamples) (g0 : G) :
    (RIter.epoch R c g0).1.length = c.numSamples ∧ ∀ x ∈ (RIter.epoch R c g0).1, x < c.n := by
  have hL : ∀ g, (getPerm R c g).1.length = chunkSize := fun g => by simp [getPerm, hrep, (hints _ _ _).1]
  have hb := random_epoch_blocks R c chunkSize hL (by decide) hpos g0
  refine ⟨hb.2.2, ?_⟩
  have hP : ∀ g, ∀ x ∈ (getPerm R c g).1, x < c.n := fun g => by
    simpa [getPerm, hrep] using (hints g c.n chunkSize).2
  intro x hx
  rw [hb.1, List.mem_append] at hx
  rcases hx with hx | hx
  · obtain ⟨p, hp, hxp⟩ := List.mem_flatten.mp hx
    exact drawsSeq_all R c (fun p => ∀ x ∈ p, x < c.n) hP _ _ p hp x hxp
  · exact hP _ x (List.mem_of_mem_take hx)

example :
    let R : Gen Nat := { perm := fun g _ => ([], g), ints := fun g high cnt => (List.replicate cnt (g % high), g + 1) }
    let c : RCfg := { n := 5, replacement := true, numSamples := 70 }
    (∀ g high cnt, 0 < high → (R.ints g high cnt).1.length = cnt ∧ ∀ x ∈ (R.ints g high cnt).1, x < high) ∧
      (RIter.epoch R c 3).1.length = 70 ∧ (RIter.epoch R c 3).2.2 = 6 := by
  refine ⟨fun g high cnt h => ⟨by simp, fun x hx => ?_⟩, by decide, by decide⟩
  simp only [List.mem_replicate] at hx
  rw [hx.2]; exact Nat.mod_lt _ h

/-- **Exact resume.**  Let the uninterrupted iterator (created when the shared generator was in state
`g0`) have yielded `k` indices (`skip … = some w`: the `k` calls returned indices) and be in state `w`.
Its `state_dict()` is `(k, g0)`, and loading that into a NEW iterator — created from any generator state
`g'`, its construction having already drawn from that generator — produces exactly `w`: same
permutation, same position in it, same shared generator state.  Chunk and permutation boundaries need
no case split: the fast-forward replays them. -/
theorem random_resume_exact (g0 g' : G) (k : Nat) (w : RIter G × G)
    (h : RIter.skip R c k (RIter.create R c g0) = some w) :
    w.1.stateDict = (k, g0) ∧ RIter.load R c (RIter.create R c g') (k, g0) = some w :=
  ⟨(load_fresh R c g0 g' k w h).2, (load_fresh R c g0 g' k w h).1⟩

/-- **Resume yields the remaining indices**, for every interruption point `k ≤ num_samples`, provided
draws are non-empty (`n > 0`): `load_state_dict` does not raise, the resumed iterator yields exactly
the indices the uninterrupted epoch had left, and ends in the same world (iterator and generator). -/
theorem random_resume_remaining (hne : ∀ g, (getPerm R c g).1 ≠ []) (g0 g' : G) (k : Nat)
    (hk : k ≤ c.numSamples) :
    ∃ w, RIter.load R c (RIter.create R c g') (k, g0) = some w ∧
      (drain (RIter.next R c) (c.numSamples + 1 - k) w).1 = (RIter.epoch R c g0).1.drop k ∧
      (drain (RIter.next R c) (c.numSamples + 1 - k) w).2 = (RIter.epoch R c g0).2 := by
  obtain ⟨w, hw⟩ := skip_some R c hne k (RIter.create R c g0).1 (RIter.create R c g0).2
    (by simp [RIter.create]) (by simpa [RIter.create] using hk)
  refine ⟨w, (load_fresh R c g0 g' k w hw).1, ?_⟩
  obtain ⟨ys, hl, hs⟩ := skip_steps R c k _ _ hw
  have e : c.numSamples + 1 = ys.length + (c.numSamples + 1 - k) := by omega
  rw [RIter.epoch, e, drain_steps _ hs]
  simp [← hl]

/-- **The following epoch is unaffected:** after the resumed epoch the generator shared with the
sampler is in the state the uninterrupted run leaves it in, so the next `iter(sampler)` (which draws
from it) and everything after coincide. -/
theorem random_next_epoch_unaffected (hne : ∀ g, (getPerm R c g).1 ≠ []) (g0 g' : G) (k : Nat)
    (hk : k ≤ c.numSamples) :
    ∃ w, RIter.load R c (RIter.create R c g') (k, g0) = some w ∧
      (drain (RIter.next R c) (c.numSamples + 1 - k) w).2.2 = (RIter.epoch R c g0).2.2 ∧
      RIter.epoch R c (drain (RIter.next R c) (c.numSamples + 1 - k) w).2.2 =
        RIter.epoch R c (RIter.epoch R c g0).2.2 := by
  obtain ⟨w, h1, _, h3⟩ := random_resume_remaining R c hne g0 g' k hk
  exact ⟨w, h1, by rw [h3], by rw [h3]⟩

/-- Non-vacuity: `n = 3`, `num_samples = 7` (two permutation boundaries), interrupted at `k = 4` (inside
the second permutation); the fresh iterator was built from generator state 5. -/
example :
    let R : Gen Nat := { perm := fun g n => ((List.range n).map (fun i => (i + g) % n), g + 1), ints := fun g _ _ => ([], g) }
    let c : RCfg := { n := 3, replacement := false, numSamples := 7 }
    (∀ g, (getPerm R c g).1 ≠ []) ∧
    (RIter.epoch R c 0).1 = [0, 1, 2, 1, 2, 0, 2] ∧
    (RIter.load R c (RIter.create R c 5) (4, 0)).map (fun w => (drain (RIter.next R c) 4 w).1) = some [2, 0, 2] := by
  refine ⟨fun g => by simp [getPerm], by decide, by decide⟩

end random

/-! ## BatchSampler -/
section batch
variable {W S T : Type} (N : Nested W S T) (c : BCfg)

/-- **Batches are the chunking of the index stream.**  If the nested iterator yields `xs` and then stops,
the batch iterator yields exactly torch's `BatchSampler` grouping of `xs`: consecutive groups of
`batch_size`, the shorter last group kept iff `drop_last` is false. -/
theorem batch_eq_chunk (hbs : 0 < c.batchSize) (b : BIter W) (xs : List Nat)
    (h : Emits N.next b.w xs) (fuel : Nat) (hf : xs.length + 1 ≤ fuel) :
    (BIter.drain N c fuel b).1 = chunkRef c.batchSize c.dropLast xs :=
  bdrain_chunk N c hbs fuel xs b h hf

example : chunkRef 2 false [5, 6, 7, 8, 9] = [[5, 6], [7, 8], [9]] ∧ chunkRef 2 true [5, 6, 7, 8, 9] = [[5, 6], [7, 8]] ∧
    (BIter.drain plainNested ⟨2, false⟩ 6 (BIter.create plainNested ([5, 6, 7, 8, 9], []))).1 = [[5, 6], [7, 8], [9]] := by
  decide

/-- **Resume reduces to the nested sampler.**  After `j` calls of `__next__` the uninterrupted batch
iterator `bj` has consumed `samples_yielded` indices and its remaining batches are the chunking of the
rest of the stream; any batch iterator whose nested iterator yields that same rest (this is what
`load_state_dict` has to achieve) yields exactly the same remaining batches. -/
theorem batch_resume_exact (hbs : 0 < c.batchSize) (b0 : BIter W) (h0 : b0.samplesYielded = 0) (xs : List Nat)
    (h : Emits N.next b0.w xs) (j : Nat) (b' : BIter W) (fuel : Nat) (hf : xs.length + 1 ≤ fuel)
    (h' : Emits N.next b'.w (xs.drop (BIter.nextN N c j b0).samplesYielded)) :
    (BIter.drain N c fuel (BIter.nextN N c j b0)).1 =
        chunkRef c.batchSize c.dropLast (xs.drop (BIter.nextN N c j b0).samplesYielded) ∧
      (BIter.drain N c fuel b').1 = (BIter.drain N c fuel (BIter.nextN N c j b0)).1 := by
  have hinv : BInv N b0.w xs b0 := by
    have := binv_start N b0.w xs h
    cases b0; simp only at h0; subst h0; exact this
  obtain ⟨_, _, _, he, _⟩ := binv_nextN N c hbs b0.w xs j b0 hinv
  have hl : (xs.drop (BIter.nextN N c j b0).samplesYielded).length + 1 ≤ fuel := by
    rw [List.length_drop]; omega
  rw [bdrain_chunk N c hbs fuel _ _ he hl, bdrain_chunk N c hbs fuel _ _ h' hl]
  exact ⟨rfl, rfl⟩

/-- Non-vacuity: a plain list sampler, interrupted after one batch; the other iterator is positioned by
skipping two indices by hand. -/
example :
    let N := plainNested
    let b0 := BIter.create N ([5, 6, 7, 8, 9], [])
    Emits N.next b0.w [5, 6, 7, 8, 9] ∧ (BIter.nextN N ⟨2, false⟩ 1 b0).samplesYielded = 2 ∧
      Emits N.next (([5, 6, 7, 8, 9], [7, 8, 9]) : List Nat × List Nat) ([5, 6, 7, 8, 9].drop 2) ∧
      (BIter.drain N ⟨2, false⟩ 6 (BIter.nextN N ⟨2, false⟩ 1 b0)).1 = [[7, 8], [9]] :=
  ⟨pemits _ _, by decide, pemits _ _, by decide⟩

end batch

section batch_random
variable {G : Type} (R : Gen G) (c : RCfg) (bc : BCfg)

/-- **Batch resume over a stateful nested iterator (RandomSampler).**  The state taken after any number
`j` of batches, loaded into a batch iterator over a NEW sampler (any generator state, two iterator
constructions having drawn from it), gives exactly the uninterrupted batch iterator's state: same
position, same nested permutation, same shared generator — hence the same remaining batches and the same
following epochs. -/
theorem batch_resume_random (hne : ∀ g, (getPerm R c g).1 ≠ []) (hbs : 0 < bc.batchSize)
    (w0 w0' : RIter G × G) (j : Nat) :
    BIter.load (randomNested R c) (BIter.create (randomNested R c) w0')
        (BIter.stateDict (randomNested R c) (BIter.nextN (randomNested R c) bc j (BIter.create (randomNested R c) w0))) =
      some (BIter.nextN (randomNested R c) bc j (BIter.create (randomNested R c) w0)) := by
  have hinv := binv_nextN (randomNested R c) bc hbs _ _ j _
    (binv_start (randomNested R c) (RIter.create R c w0.2) _ (remits R c hne w0.2))
  generalize hbj : BIter.nextN (randomNested R c) bc j (BIter.create (randomNested R c) w0) = bj
  have hbj' : BIter.nextN (randomNested R c) bc j { w := RIter.create R c w0.2, samplesYielded := 0 } = bj := hbj
  rw [hbj'] at hinv
  obtain ⟨wpre, hs, hle, _, hor⟩ := hinv
  have hw : bj.w = wpre := by
    rcases hor with h | ⟨_, h⟩
    · exact h
    · exact rstopReach R c _ _ h
  rw [← hw] at hs
  have hsk := steps_skip R c _ _ _ hs
  rw [List.length_take, Nat.min_eq_left hle] at hsk
  have hl := load_fresh R c w0.2 (RIter.create R c w0'.2).2 bj.samplesYielded bj.w hsk
  simp only [BIter.load, BIter.stateDict, BIter.create, randomNested, Option.map]
  rw [hl.2, hl.1]
  simp

example :
    let R : Gen Nat := { perm := fun g n => ((List.range n).map (fun i => (i + g) % n), g + 1), ints := fun g _ _ => ([], g) }
    let c : RCfg := { n := 3, replacement := false, numSamples := 7 }
    let N := randomNested R c
    let dummy : RIter Nat := ⟨0, 0, [], 0⟩
    (∀ g, (getPerm R c g).1 ≠ []) ∧
    (BIter.drain N ⟨2, false⟩ 9 (BIter.create N (dummy, 0))).1 = [[0, 1], [2, 1], [2, 0], [2]] ∧
    (BIter.load N (BIter.create N (dummy, 7)) (BIter.stateDict N (BIter.nextN N ⟨2, false⟩ 2 (BIter.create N (dummy, 0))))).map
      (fun b => (BIter.drain N ⟨2, false⟩ 9 b).1) = some [[2, 0], [2]] := by
  refine ⟨fun g => by simp [getPerm], by decide, by decide⟩

end batch_random

section batch_plain
variable (bc : BCfg)

/-- **Batch resume over a plain (non-stateful, deterministic) sampler: the skip-ahead fallback.**  The
state is just `samples_yielded`; loading re-creates the nested iterator and skips that many indices,
which reproduces the uninterrupted batch iterator's state exactly. -/
theorem batch_resume_plain (hbs : 0 < bc.batchSize) (xs r r' : List Nat) (j : Nat) :
    BIter.load plainNested (BIter.create plainNested (xs, r'))
        (BIter.stateDict plainNested (BIter.nextN plainNested bc j (BIter.create plainNested (xs, r)))) =
      some (BIter.nextN plainNested bc j (BIter.create plainNested (xs, r))) := by
  have hinv := binv_nextN plainNested bc hbs _ _ j _ (binv_start plainNested (xs, xs) xs (pemits xs xs))
  generalize hbj : BIter.nextN plainNested bc j (BIter.create plainNested (xs, r)) = bj
  have hbj' : BIter.nextN plainNested bc j { w := (xs, xs), samplesYielded := 0 } = bj := hbj
  rw [hbj'] at hinv
  obtain ⟨wpre, hs, hle, _, hor⟩ := hinv
  have hw : bj.w = wpre := by
    rcases hor with h | ⟨_, h⟩
    · exact h
    · exact pstopReach _ _ h
  rw [← hw] at hs
  have hsk := steps_skipN _ _ _ hs
  rw [List.length_take, Nat.min_eq_left hle] at hsk
  simp only [BIter.load, BIter.stateDict, BIter.create, plainNested, Option.map] at hsk ⊢
  simp [hsk]

example : (BIter.load plainNested (BIter.create plainNested ([5, 6, 7, 8, 9], []))
      (BIter.stateDict plainNested (BIter.nextN plainNested ⟨2, true⟩ 1 (BIter.create plainNested ([5, 6, 7, 8, 9], []))))).map
      (fun b => (BIter.drain plainNested ⟨2, true⟩ 6 b).1) = some [[7, 8]] := by
  decide

end batch_plain

/-! ## StatefulDistributedSampler -/
section dist
variable (c : DCfg) (shuf : Nat → List Nat)

/-- **Every rank gets `num_samples` indices** (so torch's two `AssertionError` checks never fire), for
every dataset size, replica count, rank and `drop_last`. -/
theorem dist_len (idx : List Nat) (hR : 0 < c.replicas) (hr : c.rank < c.replicas) (hn : idx.length = c.n) :
    (c.padded idx).length = c.totalSize ∧ (c.indices idx).length = c.numSamples :=
  ⟨padded_length c idx hR hn, slice_length _ _ _ _ hr (padded_length c idx hR hn)⟩

example : let c : DCfg := ⟨7, 3, 1, false⟩
    c.indices [6, 5, 4, 3, 2, 1, 0] = [5, 2, 6] ∧ c.numSamples = 3 ∧
    (⟨7, 3, 1, true⟩ : DCfg).indices [6, 5, 4, 3, 2, 1, 0] = [5, 2] ∧ (⟨1, 4, 2, false⟩ : DCfg).indices [0] = [0] := by
  decide

/-- **An epoch yields torch's index list**: the iterator of any sampler object yields the rank's list
of the current epoch from the loaded position on — from 0, i.e. the complete list, when no state is
pending, whatever `yielded` is left over from earlier epochs. -/
theorem dist_epoch (w : DWorld) :
    Emits DWorld.next (w.iter c shuf) ((c.indices (shuf w.s.epoch)).drop w.pos) ∧
    (w.s.nextYielded = none → Emits DWorld.next (w.iter c shuf) (c.indices (shuf w.s.epoch))) := by
  have h := demits_unstarted (w.iter c shuf) _ rfl
  refine ⟨h, fun hn => ?_⟩
  have hp : w.pos = 0 := by simp [DWorld.pos, hn]
  simpa [DWorld.iter, hp] using h

example :
    let c : DCfg := ⟨5, 2, 1, false⟩
    let w : DWorld := { s := { epoch := 3, yielded := 9, nextYielded := none }, gen := .finished }
    (drain DWorld.next 4 (w.iter c (fun e => [e, 1, 2, 0, 4]))).1 = [1, 0, 3] := by
  decide

/-- **Exact resume, at every interruption point.**  `w0` is any sampler object (fresh, re-used from
earlier epochs with a left-over `yielded`, or itself resumed: `pos` is where its next iterator starts).
After `iter()` and `k ≥ 0` indices — including `k = 0`, right after `iter()` — its `state_dict()` is
`pos + k`; the uninterrupted iterator yields the rest of the rank's list, and the state loaded into any
other sampler object `w'` set to the same epoch makes that object's next iterator yield exactly the same
rest. -/
theorem dist_resume_exact (w0 w' : DWorld) (k : Nat)
    (hk : w0.pos + k ≤ (c.indices (shuf w0.s.epoch)).length) (he : w'.s.epoch = w0.s.epoch) :
    (nextN DWorld.next k (w0.iter c shuf)).stateDict = w0.pos + k ∧
    Emits DWorld.next (nextN DWorld.next k (w0.iter c shuf)) ((c.indices (shuf w0.s.epoch)).drop (w0.pos + k)) ∧
    Emits DWorld.next ((w'.load (nextN DWorld.next k (w0.iter c shuf)).stateDict).iter c shuf)
      ((c.indices (shuf w0.s.epoch)).drop (w0.pos + k)) := by
  have hres : ∀ y, Emits DWorld.next ((w'.load y).iter c shuf) ((c.indices (shuf w0.s.epoch)).drop y) := by
    intro y
    have := (dist_epoch c shuf (w'.load y)).1
    simpa [DWorld.load, DWorld.pos, he] using this
  cases k with
  | zero =>
    have h0 := demits_unstarted (w0.iter c shuf) _ rfl
    exact ⟨rfl, h0, hres _⟩
  | succ k =>
    have hs := dsteps_unstarted (w0.iter c shuf) _ rfl (k + 1) (by omega) (by simpa [DWorld.iter] using hk)
    have hn := steps_nextN hs
    rw [List.length_take, List.length_drop] at hn
    have hy : (w0.iter c shuf).s.yielded = w0.pos := rfl
    rw [hy] at hn
    rw [Nat.min_eq_left (by omega)] at hn
    rw [hn]
    exact ⟨rfl, demits_running _ _, hres _⟩

/-- Non-vacuity, on the two interruption points that the original code got wrong: (a) a re-used object,
state taken right after `iter()` of epoch 1 (`k = 0`); (b) a state taken right after a resume. -/
example :
    let c : DCfg := ⟨7, 3, 1, false⟩
    let shuf : Nat → List Nat := fun e => if e = 0 then [0, 1, 2, 3, 4, 5, 6] else [6, 5, 4, 3, 2, 1, 0]
    let w0 : DWorld := (nextN DWorld.next 4 (DWorld.fresh.iter c shuf)).setEpoch 1
    w0.s.yielded = 3 ∧ (w0.iter c shuf).stateDict = 0 ∧
      (drain DWorld.next 4 (((DWorld.fresh.setEpoch 1).load (w0.iter c shuf).stateDict).iter c shuf)).1 = [5, 2, 6] ∧
      ((DWorld.fresh.load 2).iter c shuf).stateDict = 2 ∧
      (drain DWorld.next 4 ((DWorld.fresh.load ((DWorld.fresh.load 2).iter c shuf).stateDict).iter c shuf)).1 = [0] := by
  decide

/-- **The following epoch starts from 0 again.**  A loaded position is used up by the first `iter()`:
after the (possibly resumed, possibly partly consumed) epoch, the next epoch `e'` of the same object
yields torch's complete index list for `e'`. -/
theorem dist_following_epoch (w : DWorld) (k e' : Nat) :
    Emits DWorld.next (((nextN DWorld.next k (w.iter c shuf)).setEpoch e').iter c shuf) (c.indices (shuf e')) := by
  have h := (dnextN_fields k (w.iter c shuf)).1
  have := (dist_epoch c shuf ((nextN DWorld.next k (w.iter c shuf)).setEpoch e')).2
    (by simpa [DWorld.setEpoch, DWorld.iter] using h)
  simpa [DWorld.setEpoch] using this

example :
    let c : DCfg := ⟨5, 2, 0, false⟩
    let shuf : Nat → List Nat := fun e => if e = 0 then [0, 1, 2, 3, 4] else [4, 3, 2, 1, 0]
    (drain DWorld.next 4 ((DWorld.fresh.load 2).iter c shuf)).1 = [4] ∧
    (drain DWorld.next 4 (((nextN DWorld.next 2 ((DWorld.fresh.load 2).iter c shuf)).setEpoch 1).iter c shuf)).1 = [4, 2, 0] := by
  decide

end dist

section batch_dist
variable (c : DCfg) (shuf : Nat → List Nat) (bc : BCfg)

/-- **Batch resume over a StatefulDistributedSampler.**  The state after any number `j ≥ 0` of batches,
loaded into a batch iterator over another sampler object set to the same epoch, restores
`samples_yielded` and yields exactly the remaining batches. -/
theorem batch_resume_dist (hbs : 0 < bc.batchSize) (w0 w0' : DWorld) (j fuel : Nat)
    (he : w0'.s.epoch = w0.s.epoch) (hf : (c.indices (shuf w0.s.epoch)).length + 1 ≤ fuel) :
    ∃ b', BIter.load (distNested c shuf) (BIter.create (distNested c shuf) w0')
        (BIter.stateDict (distNested c shuf) (BIter.nextN (distNested c shuf) bc j (BIter.create (distNested c shuf) w0))) = some b' ∧
      b'.samplesYielded = (BIter.nextN (distNested c shuf) bc j (BIter.create (distNested c shuf) w0)).samplesYielded ∧
      (BIter.drain (distNested c shuf) bc fuel b').1 =
        (BIter.drain (distNested c shuf) bc fuel (BIter.nextN (distNested c shuf) bc j (BIter.create (distNested c shuf) w0))).1 := by
  have hb0 : BIter.create (distNested c shuf) w0 = { w := w0.iter c shuf, samplesYielded := 0 } := rfl
  have hem : Emits (distNested c shuf).next (w0.iter c shuf) ((c.indices (shuf w0.s.epoch)).drop w0.pos) :=
    (dist_epoch c shuf w0).1
  have hdi := dinv_bnextN c shuf bc w0.s.epoch w0.pos j { w := w0.iter c shuf, samplesYielded := 0 }
    ⟨rfl, rfl, rfl⟩
  rw [hb0]
  generalize hbj : BIter.nextN (distNested c shuf) bc j { w := w0.iter c shuf, samplesYielded := 0 } = bj at hdi
  have hy : bj.w.s.yielded = w0.pos + bj.samplesYielded := hdi.1
  refine ⟨{ w := ((BIter.create (distNested c shuf) w0').w.load bj.w.s.yielded).iter c shuf,
            samplesYielded := bj.samplesYielded }, ?_, rfl, ?_⟩
  · simp [BIter.load, BIter.stateDict, distNested, DWorld.stateDict]
  · have h' : Emits (distNested c shuf).next
        (((BIter.create (distNested c shuf) w0').w.load bj.w.s.yielded).iter c shuf)
        (((c.indices (shuf w0.s.epoch)).drop w0.pos).drop bj.samplesYielded) := by
      have := (dist_epoch c shuf ((BIter.create (distNested c shuf) w0').w.load bj.w.s.yielded)).1
      show Emits DWorld.next _ _
      have hep : ((BIter.create (distNested c shuf) w0').w.load bj.w.s.yielded).s.epoch = w0.s.epoch := he
      rw [hep] at this
      simpa [DWorld.load, DWorld.pos, hy, List.drop_drop] using this
    have hfl : ((c.indices (shuf w0.s.epoch)).drop w0.pos).length + 1 ≤ fuel := by
      rw [List.length_drop]; omega
    have := batch_resume_exact (distNested c shuf) bc hbs { w := w0.iter c shuf, samplesYielded := 0 } rfl _ hem j
      { w := ((BIter.create (distNested c shuf) w0').w.load bj.w.s.yielded).iter c shuf,
        samplesYielded := bj.samplesYielded } fuel hfl (by rw [hbj]; exact h')
    rw [hbj] at this
    exact this.2

example :
    let c : DCfg := ⟨7, 3, 1, false⟩
    let N := distNested c (fun _ => [6, 5, 4, 3, 2, 1, 0])
    (BIter.drain N ⟨2, false⟩ 4 (BIter.create N DWorld.fresh)).1 = [[5, 2], [6]] ∧
    (BIter.load N (BIter.create N DWorld.fresh) (BIter.stateDict N (BIter.nextN N ⟨2, false⟩ 1 (BIter.create N DWorld.fresh)))).map
      (fun b => (BIter.drain N ⟨2, false⟩ 4 b).1) = some [[6]] ∧
    (BIter.load N (BIter.create N DWorld.fresh) (BIter.stateDict N (BIter.create N (BIter.nextN N ⟨2, false⟩ 3 (BIter.create N DWorld.fresh)).w))).map
      (fun b => (BIter.drain N ⟨2, false⟩ 4 b).1) = some [[5, 2], [6]] := by
  decide

end batch_dist

/-! ## torch DistributedSampler index arithmetic: positions and partition -/
section dist_arith
variable (c : DCfg)

/-- **Which index a rank gets.**  The `j`-th index of rank `rank` is entry `rank + j * replicas` of the
epoch's list, read cyclically (padding repeats the list from its start) or, with `drop_last`, directly
(the tail is cut). -/
theorem dist_get (idx : List Nat) (hR : 0 < c.replicas) (hr : c.rank < c.replicas) (hn : idx.length = c.n)
    (j : Nat) (hj : j < c.numSamples) :
    (c.indices idx)[j]? =
      if c.dropLast then idx[c.rank + j * c.replicas]? else idx[(c.rank + j * c.replicas) % c.n]? := by
  have hp := padded_length c idx hR hn
  have hlt : c.rank + j * c.replicas < c.totalSize := by
    have h1 : (j + 1) * c.replicas ≤ c.numSamples * c.replicas := Nat.mul_le_mul_right _ hj
    rw [Nat.succ_mul] at h1
    unfold DCfg.totalSize; omega
  unfold DCfg.indices
  rw [show c.totalSize = c.numSamples * c.replicas from rfl, slice_get _ _ _ _ hr hp j hj]
  exact padded_get c idx hR hn _ hlt

example : let c : DCfg := ⟨2, 5, 4, false⟩
    c.numSamples = 1 ∧ c.padded [1, 0] = [1, 0, 1, 0, 1] ∧ c.indices [1, 0] = [1] ∧ (4 + 0 * 5) % 2 = 0 := by
  decide

/-- **The ranks partition the indices.**  When the dataset size is a multiple of the replica count
(nothing is padded or dropped) the index lists of ranks `0 … replicas-1` together are a permutation of
the epoch's list, each of length `n / replicas`. -/
theorem dist_partition (idx : List Nat) (hR : 0 < c.replicas) (hn : idx.length = c.n)
    (hdiv : c.n % c.replicas = 0) :
    ((List.range c.replicas).flatMap fun r => ({ c with rank := r } : DCfg).indices idx).Perm idx ∧
      c.numSamples = c.n / c.replicas := by
  have hcd := ceilDiv_of_dvd c.n c.replicas hR hdiv
  have hns : c.numSamples = ceilDiv c.n c.replicas := by
    unfold DCfg.numSamples
    simp [hdiv]
  have hts : c.totalSize = c.n := by unfold DCfg.totalSize; rw [hns, hcd]
  have hpad : c.padded idx = idx := by
    unfold DCfg.padded
    rw [hts, ← hn]
    cases c.dropLast <;> simp
  have hind : ∀ r, ({ c with rank := r } : DCfg).indices idx = slice idx r (c.numSamples * c.replicas) c.replicas := by
    intro r
    show slice (c.padded idx) r c.totalSize c.replicas = _
    rw [hpad]; rfl
  constructor
  · simp only [hind]
    exact slices_perm c.replicas hR c.numSamples idx (by rw [hn, ← hts]; rfl)
  · rw [hns]
    exact (Nat.div_eq_of_eq_mul_left hR hcd.symm).symm

example : let c : DCfg := ⟨6, 3, 0, false⟩
    (List.range 3).flatMap (fun r => ({ c with rank := r } : DCfg).indices [5, 3, 1, 0, 2, 4]) = [5, 0, 3, 2, 1, 4] := by
  decide

end dist_arith

end TDV.Sampler
