import TorchDataVerif.Proofs.MPRErrWin
import TorchDataVerif.Props.C01MP
/-!
# C01 (multi-process, map-style) WITH failing fetches — checkpoints taken after errors were raised to the user

`Props/C01MP.lean` assumes `errFree c`.  Here NO hypothesis on the fetches: any set of batches may raise (dataset
or collate error re-raised by `next()`, iteration goes on — C10).  The consumer's view is the OUTCOME stream
`outcomes c` (one entry per task: the batch, or the error); after `k` outcomes `rcvd_idx = k`.

What the current code (repo fix f1014eb) does, read off `_process_data` / `_snapshot_due` / `_take_snapshot` /
`_try_put_index` and proved below for every schedule, interval, `W`, `P` and every set of failing batches:
* `_num_yielded` counts yielded batches only (`okCount c k`), a snapshot is taken when a task that carries a main
  snapshot is YIELDED; a flagged task that fails takes none.  So `state_dict()` after `k` outcomes is `ckpt c k`:
  the snapshot of position `m = lastDue c k` and `steps_since_snapshot = okCount c k − okCount c m`.
* the restore constructor restarts the sampler at task `m` and calls `next(self)` `steps_since_snapshot` times.
  Hence the resumed iterator delivers the outcomes from position `m` on (`restore_ideal_map_err`), and
  **every failing task in the window `[m, k)` is raised AGAIN** — inside the constructor if a yielded batch of the
  window follows it, to the user otherwise.  `resume_exact_map_err_statement` is therefore FALSE
  (`resume_exact_map_err_false`, witness `exE`, replayed on the real code); it holds exactly when the window has
  no failing task (`resume_exact_map_err_partial`), wherever else fetches fail.
* a failing fetch sends no worker-state delta, so worker states in snapshots taken after an error lag behind:
  equality of `state_dict()`s along a chain holds in every field except the worker states (`chain_map_err_partial`,
  full statement refuted: `chain_map_err_false`).  For map-style datasets the worker states do not influence what
  the iterator delivers, so chains of resumes still satisfy the theorems above.
-/
namespace TDV.MPR

open TDV.MP

/-- What the consumer must see, task by task: the batch, or the error. -/
def outcomes (c : Cfg) : List Obs := c.batches.map expected

/-- The snapshot taken at task position `m` in an uninterrupted run. -/
def snapAt (c : Cfg) (m : Nat) : Snap := snapE c m (wsAfter c m)

/-- `state_dict()` after `k` outcomes: `(snapshot, steps_since_snapshot)`. -/
def ckpt (c : Cfg) (k : Nat) : Snap × Nat :=
  (snapAt c (lastDue c k), okCount c k - okCount c (lastDue c k))

/-- Equality of snapshots in every field except the worker states. -/
def SnapEqM (a b : Snap) : Prop := a.step = b.step ∧ a.lastW = b.lastW ∧ a.main = b.main

section Map

variable (c : Cfg) (hv : c.Valid) (hm : c.iterable = false) (hio : c.inOrder = true)
include hv hm hio

/-- **`snapshot_sound_map_err`.**  In every reachable state of a saving run, for every schedule and every set of
failing fetches: the consumer has received exactly the first `rcvd_idx` outcomes (batches and errors in place),
and `state_dict()` is `ckpt c rcvd_idx`, a function of the number of outcomes received alone. -/
theorem snapshot_sound_map_err (as : List Action) (s : State) (hnr : NoReset as)
    (hr : run c (init c) as = some s) (hd : ¬ died s) :
    taskObs s.obs = (outcomes c).take s.rcvdIdx ∧ s.rcvdIdx ≤ c.batches.length ∧
    s.numYielded = okCount c s.rcvdIdx ∧ stateDict s = ckpt c s.rcvdIdx := by
  have h := fresh_allM c hv hm hio as s hnr hr hd
  have h1 := (error_position_map c hv hm hio as s hnr hr hd).1
  simp only [refStream, hm, Bool.false_eq_true, if_false] at h1
  refine ⟨by rw [h1]; unfold outcomes; rw [List.map_take], h.sn.le, h.sn.cnt, ?_⟩
  exact snapshot_denotes_map c hv hm hio as s hnr hr hd

/-- **`restore_ideal_map_err`.**  The iterator built by the restore constructor from a snapshot taken at a
snapshot position `m` (`lastDue c m = m`; worker states `ws` arbitrary) is observationally the original iterator
after `m` outcomes, for every schedule of the resumed run and every set of failing fetches: it delivers the
outcomes from position `m` on (errors at their positions), all of them once StopIteration is raised, the
`_take_snapshot` assertion never fires, and its `state_dict()` after `j` outcomes is that of an uninterrupted run
after `m + j` outcomes in every field except the worker states. -/
theorem restore_ideal_map_err (m : Nat) (ws : List WSt) (hle : m ≤ c.batches.length) (hpos : lastDue c m = m)
    (as : List Action) (s' : State) (hnr : NoReset as) (hr : run c (restore c (snapE c m ws)) as = some s')
    (hd : ¬ died s') :
    taskObs s'.obs = ((outcomes c).drop m).take s'.rcvdIdx ∧
    (Obs.stop ∈ s'.obs → taskObs s'.obs = (outcomes c).drop m) ∧
    Obs.assertion ∉ s'.obs ∧
    (stateDict s').2 = (ckpt c (m + s'.rcvdIdx)).2 ∧ SnapEqM (stateDict s').1 (ckpt c (m + s'.rcvdIdx)).1 := by
  obtain ⟨hi, hs⟩ := resumedE c hv hm hio m ws hle hpos as s' hnr hr hd
  obtain ⟨f1, f2, f3, f4, f5, f6, f7, f8⟩ := liftedE_facts c m hle s' hi hs
  have e : ((outcomes c).drop m).take s'.rcvdIdx = ((c.batches.drop m).take s'.rcvdIdx).map expected := by
    unfold outcomes; rw [List.map_take, List.map_drop]
  rw [Nat.add_comm m]
  refine ⟨by rw [e]; exact f1, ?_, f2, ?_, ?_⟩
  · intro hst
    have := f5 hst
    rw [f1, List.take_of_length_le (by rw [List.length_drop]; omega)]
    unfold outcomes; rw [List.map_drop]
  · show s'.numYielded - s'.snap.step = okCount c (s'.rcvdIdx + m) - okCount c (lastDue c (s'.rcvdIdx + m))
    rw [f3, f7, f6]
  · refine ⟨?_, ?_, f6⟩
    · show s'.snap.step = okCount c (lastDue c (s'.rcvdIdx + m))
      rw [f7, f6]
    · show s'.snap.lastW = ownerAt c (lastDue c (s'.rcvdIdx + m))
      rw [f8, f6]

/-- The constructor argument of a resume is a snapshot at the snapshot position in force. -/
theorem ckpt_restore (k : Nat) (hk : k ≤ c.batches.length) (as : List Action) (s' : State) (hnr : NoReset as)
    (hr : run c (restore c (ckpt c k).1) as = some s') (hd : ¬ died s') :
    taskObs s'.obs = ((outcomes c).drop (lastDue c k)).take s'.rcvdIdx ∧
    (Obs.stop ∈ s'.obs → taskObs s'.obs = (outcomes c).drop (lastDue c k)) ∧
    Obs.assertion ∉ s'.obs ∧
    (stateDict s').2 = (ckpt c (lastDue c k + s'.rcvdIdx)).2 ∧
    SnapEqM (stateDict s').1 (ckpt c (lastDue c k + s'.rcvdIdx)).1 :=
  restore_ideal_map_err c hv hm hio (lastDue c k) (wsAfter c (lastDue c k))
    (Nat.le_trans (lastDue_le c k) hk) (lastDue_idem c k) as s' hnr hr hd

/-- **`resume_restart_map_err`** (every set of failing fetches, unconditional).  Take `state_dict()` after `k`
outcomes of a saving run, build a new iterator with the restore constructor, run it under any schedule: it
delivers the outcome stream from the position `m = lastDue c k` of the snapshot in force — the outcomes of the
window `[m, k)` again (its batches are the constructor's replay), then the remaining ones; nothing is lost or
reordered, and errors keep their positions. -/
theorem resume_restart_map_err (as₁ : List Action) (s₁ : State) (hn₁ : NoReset as₁)
    (hr₁ : run c (init c) as₁ = some s₁) (hd₁ : ¬ died s₁)
    (as₂ : List Action) (s₂ : State) (hn₂ : NoReset as₂)
    (hr₂ : run c (restore c (stateDict s₁).1) as₂ = some s₂) (hd₂ : ¬ died s₂) :
    taskObs s₁.obs = (outcomes c).take s₁.rcvdIdx ∧
    taskObs s₂.obs = ((outcomes c).drop (lastDue c s₁.rcvdIdx)).take s₂.rcvdIdx ∧
    (Obs.stop ∈ s₂.obs → taskObs s₂.obs = (outcomes c).drop (lastDue c s₁.rcvdIdx)) ∧
    Obs.assertion ∉ s₂.obs := by
  obtain ⟨h1, hk, _, hsd⟩ := snapshot_sound_map_err c hv hm hio as₁ s₁ hn₁ hr₁ hd₁
  rw [hsd] at hr₂
  obtain ⟨a1, a2, a3, _, _⟩ := ckpt_restore c hv hm hio s₁.rcvdIdx hk as₂ s₂ hn₂ hr₂ hd₂
  exact ⟨h1, a1, a2, a3⟩

/-- No failing task between the snapshot in force after `k` outcomes and the checkpoint. -/
def NoErrWindow (c : Cfg) (k : Nat) : Prop := ∀ i, lastDue c k ≤ i → i < k → okAt c i = true

/-- **`resume_exact_map_err_partial`** — C01 with failing fetches, the strongest true form.  If no task of the
window `[lastDue c k, k)` fails (fetches may fail anywhere else, before or after), then for every pair of
schedules: `steps_since_snapshot = k − lastDue c k`, the constructor's replay raises nothing, and what the
consumer of the resumed iterator then receives is exactly the remaining outcome stream `drop k (outcomes c)` —
remaining batches AND remaining errors at their positions; a prefix at any time, all of it at StopIteration. -/
theorem resume_exact_map_err_partial (as₁ : List Action) (s₁ : State) (hn₁ : NoReset as₁)
    (hr₁ : run c (init c) as₁ = some s₁) (hd₁ : ¬ died s₁)
    (as₂ : List Action) (s₂ : State) (hn₂ : NoReset as₂)
    (hr₂ : run c (restore c (stateDict s₁).1) as₂ = some s₂) (hd₂ : ¬ died s₂)
    (hwin : NoErrWindow c s₁.rcvdIdx) :
    taskObs s₁.obs = (outcomes c).take s₁.rcvdIdx ∧
    (stateDict s₁).2 = s₁.rcvdIdx - lastDue c s₁.rcvdIdx ∧
    (∀ o ∈ (taskObs s₂.obs).take (stateDict s₁).2, ∃ b, o = .item b) ∧
    (taskObs s₂.obs).drop (stateDict s₁).2 <+: (outcomes c).drop s₁.rcvdIdx ∧
    (Obs.stop ∈ s₂.obs → (taskObs s₂.obs).drop (stateDict s₁).2 = (outcomes c).drop s₁.rcvdIdx) := by
  obtain ⟨h1, a1, a2, _⟩ := resume_restart_map_err c hv hm hio as₁ s₁ hn₁ hr₁ hd₁ as₂ s₂ hn₂ hr₂ hd₂
  obtain ⟨_, hk, _, hsd⟩ := snapshot_sound_map_err c hv hm hio as₁ s₁ hn₁ hr₁ hd₁
  have hml := lastDue_le c s₁.rcvdIdx
  obtain ⟨j, hj⟩ := Nat.exists_eq_add_of_le hml
  have hcnt : okCount c s₁.rcvdIdx = okCount c (lastDue c s₁.rcvdIdx) + j := by
    have := okCount_window c (lastDue c s₁.rcvdIdx) j (fun i h1 h2 => hwin i h1 (by omega))
    rw [← hj] at this; exact this
  have hsince : (stateDict s₁).2 = j := by rw [hsd]; show okCount c _ - okCount c _ = j; omega
  have hdd : ((outcomes c).drop (lastDue c s₁.rcvdIdx)).drop j = (outcomes c).drop s₁.rcvdIdx := by
    rw [List.drop_drop]; congr 1; omega
  refine ⟨h1, by rw [hsince]; omega, ?_, ?_, ?_⟩
  · intro o ho
    rw [hsince, a1, List.take_take] at ho
    obtain ⟨i, hi, hoi⟩ := List.mem_iff_getElem.mp ho
    rw [List.getElem_take, List.getElem_drop] at hoi
    have hij : i < j := by
      have := hi
      simp only [List.length_take, List.length_drop] at this
      omega
    obtain ⟨b, hb⟩ := okAt_true c (lastDue c s₁.rcvdIdx + i) (hwin _ (by omega) (by omega))
    refine ⟨b, ?_⟩
    rw [← hoi]
    simp only [outcomes, List.getElem_map]
    have := List.getElem?_eq_some_iff.mp hb
    obtain ⟨_, hg⟩ := this
    rw [hg]; rfl
  · rw [hsince, a1, List.drop_take, hdd]
    exact List.take_prefix _ _
  · intro hst
    rw [hsince, a2 hst, hdd]

/-- **`chain_map_err_partial`.**  The `state_dict()` of a resumed iterator that has consumed `j` outcomes (replay
included) equals the one of an uninterrupted run after `lastDue c k + j` outcomes in every field except the worker
states (`snapshot_step`, `last_yielded_worker_id`, sampler position, `steps_since_snapshot`) — for every triple of
schedules and every set of failing fetches.  Since the restore constructor of a map-style iterator does not read
the worker states for what it delivers (`restore_ideal_map_err` holds for any `ws`), the theorems of this file
apply again to the next resume, and so on along any chain. -/
theorem chain_map_err_partial (as₁ : List Action) (s₁ : State) (hn₁ : NoReset as₁)
    (hr₁ : run c (init c) as₁ = some s₁) (hd₁ : ¬ died s₁)
    (as₂ : List Action) (s₂ : State) (hn₂ : NoReset as₂)
    (hr₂ : run c (restore c (stateDict s₁).1) as₂ = some s₂) (hd₂ : ¬ died s₂)
    (as₃ : List Action) (s₃ : State) (hn₃ : NoReset as₃)
    (hr₃ : run c (init c) as₃ = some s₃) (hd₃ : ¬ died s₃)
    (hlen : s₃.rcvdIdx = lastDue c s₁.rcvdIdx + s₂.rcvdIdx) :
    (stateDict s₂).2 = (stateDict s₃).2 ∧ SnapEqM (stateDict s₂).1 (stateDict s₃).1 := by
  obtain ⟨_, hk, _, hsd₁⟩ := snapshot_sound_map_err c hv hm hio as₁ s₁ hn₁ hr₁ hd₁
  obtain ⟨_, _, _, hsd₃⟩ := snapshot_sound_map_err c hv hm hio as₃ s₃ hn₃ hr₃ hd₃
  rw [hsd₁] at hr₂
  obtain ⟨_, _, _, b1, b2⟩ := ckpt_restore c hv hm hio s₁.rcvdIdx hk as₂ s₂ hn₂ hr₂ hd₂
  rw [hsd₃, hlen]
  exact ⟨b1, b2⟩

end Map

/-! ## The full-strength statements, and why they are false for the current code -/

/-- **`resume_exact_map_err`, full statement**: for every set of failing fetches, what the consumer of the resumed
iterator receives after the constructor's `steps_since_snapshot` replayed outcomes is (a prefix of) the remaining
outcome stream.  NOT a theorem of the current code. -/
def resume_exact_map_err_statement : Prop :=
  ∀ (c : Cfg), c.Valid → c.iterable = false → c.inOrder = true →
  ∀ (as₁ : List Action) (s₁ : State), NoReset as₁ → run c (init c) as₁ = some s₁ → ¬ died s₁ →
  ∀ (as₂ : List Action) (s₂ : State), NoReset as₂ → run c (restore c (stateDict s₁).1) as₂ = some s₂ → ¬ died s₂ →
    (taskObs s₂.obs).drop (stateDict s₁).2 <+: (outcomes c).drop s₁.rcvdIdx

/-- Witness: two workers, `snapshot_every_n_steps = 2`, the fourth batch fails. -/
def exE : Cfg :=
  { W := 2, P := 2, interval := 2, inOrder := true, iterable := false, persistent := false, shards := []
    batches := [.ok 10, .ok 11, .ok 12, .err, .ok 14, .ok 15] }

/-- The saving run: the consumer receives `10, 11, 12, error` (4 outcomes), then `state_dict()`. -/
def exESave : List Action :=
  [.work 0, .work 1, .work 0, .work 1, .next, .recv, .next, .recv, .next, .recv, .next, .recv]

/-- The snapshot in force then: position 2 (`snapshot_step = 2`); `steps_since_snapshot = 1`. -/
def exESnap : Snap := ⟨2, 1, 2, [⟨1, false⟩, ⟨1, false⟩]⟩

/-- The resumed run: three `next()` (the first one is the constructor's replay). -/
def exEResume : List Action :=
  [.work 0, .work 1, .work 0, .work 1, .next, .recv, .next, .recv, .next, .recv]

theorem exE_save :
    (run exE (init exE) exESave).map (fun s => (stateDict s, s.rcvdIdx, s.obs)) =
      some ((exESnap, 1), 4, [.item 10, .item 11, .item 12, .error]) := by decide

/-- The resumed iterator delivers `12` (replayed), then THE ERROR OF TASK 3 AGAIN, then `14`. -/
theorem exE_resume :
    (run exE (restore exE exESnap) exEResume).map (·.obs) = some [.item 12, .error, .item 14] := by decide

/-- **Negation witness** for `resume_exact_map_err_statement`: a checkpoint taken right after an error was raised
(more generally: with a failing task between the snapshot in force and the checkpoint) makes the resumed loader
raise that error a second time; the remaining stream is `14, 15`, the consumer gets `error, 14, 15`.  With one
more batch consumed before the checkpoint (`10, 11, 12, error, 14`: `steps_since_snapshot = 2`) the error is
raised inside the restore constructor.  Both replayed on the real code (f1014eb). -/
theorem resume_exact_map_err_false : ¬ resume_exact_map_err_statement := by
  intro h
  have h1 := exE_save
  match hr1 : run exE (init exE) exESave with
  | none => rw [hr1] at h1; cases h1
  | some s₁ =>
    rw [hr1] at h1
    simp only [Option.map_some, Option.some.injEq, Prod.mk.injEq] at h1
    obtain ⟨hsd, hk, hobs1⟩ := h1
    have h2 := exE_resume
    match hr2 : run exE (restore exE exESnap) exEResume with
    | none => rw [hr2] at h2; cases h2
    | some s₂ =>
      rw [hr2] at h2
      simp only [Option.map_some, Option.some.injEq] at h2
      have hr2' : run exE (restore exE (stateDict s₁).1) exEResume = some s₂ := by rw [hsd]; exact hr2
      have hp := h exE ⟨by decide, by decide⟩ rfl rfl exESave s₁ (by simp [NoReset, exESave]) hr1
        (by simp [died, hobs1]) exEResume s₂ (by simp [NoReset, exEResume]) hr2' (by simp [died, h2])
      rw [hsd, hk, h2] at hp
      have hne : ¬ (([Obs.item 12, Obs.error, Obs.item 14] : List Obs).drop 1 <+: (outcomes exE).drop 4) := by
        decide
      exact hne hp

/-- Non-vacuity of `resume_exact_map_err_partial` on the same configuration (a failing batch, `W = 2`, interval 2):
checkpoint after `10, 11, 12` (3 outcomes): the window `[2, 3)` has no failing task, `steps_since_snapshot = 1`;
the resumed iterator replays `12` and delivers `error, 14, 15, stop` = `drop 3 (outcomes exE)`: the error of
task 3 is raised to the resumed consumer exactly once, at its position. -/
example :
    exE.Valid ∧ exE.iterable = false ∧ exE.inOrder = true ∧ NoErrWindow exE 3 ∧ ¬ NoErrWindow exE 4 ∧
    (run exE (init exE) (exESave.take 10)).map (fun s => (stateDict s, s.rcvdIdx)) = some ((exESnap, 1), 3) ∧
    (run exE (restore exE exESnap) (exEResume ++ [.next, .recv, .next])).map (fun s => (taskObs s.obs).drop 1) =
      some ((outcomes exE).drop 3) ∧
    (outcomes exE).drop 3 = [.error, .item 14, .item 15] := by
  refine ⟨⟨by decide, by decide⟩, rfl, rfl, ?_, ?_, by decide, by decide, by decide⟩
  · intro i h1 h2
    have h3 : lastDue exE 3 = 2 := by decide
    rw [h3] at h1
    have : i = 2 := by omega
    subst this; decide
  · intro h
    have := h 3 (by decide) (by decide)
    revert this; decide

/-- **`chain_map_err`, full statement**: the `state_dict()` of a resumed iterator equals the one of an uninterrupted
run at the same outcome position.  NOT a theorem: the worker states differ. -/
def chain_map_err_statement : Prop :=
  ∀ (c : Cfg), c.Valid → c.iterable = false → c.inOrder = true →
  ∀ (as₁ : List Action) (s₁ : State), NoReset as₁ → run c (init c) as₁ = some s₁ → ¬ died s₁ →
  ∀ (as₂ : List Action) (s₂ : State), NoReset as₂ → run c (restore c (stateDict s₁).1) as₂ = some s₂ → ¬ died s₂ →
  ∀ (as₃ : List Action) (s₃ : State), NoReset as₃ → run c (init c) as₃ = some s₃ → ¬ died s₃ →
    s₃.rcvdIdx = lastDue c s₁.rcvdIdx + s₂.rcvdIdx → stateDict s₂ = stateDict s₃

/-- Witness `TDV.MP.c10a` (interval 2, task 2 of worker 0 fails).  Saving run: `10, 11, error, 13`, checkpoint =
the snapshot of position 4, in which worker 0 is recorded after ONE fetch (it made two; the failing one sent no
delta).  Resumed: `14, 15`. -/
def exCSnap : Snap := ⟨3, 1, 4, [⟨1, false⟩, ⟨2, false⟩]⟩

def exCResume : List Action := [.work 0, .work 1, .next, .recv, .next, .recv]

theorem exC_save :
    (run c10a (init c10a) (c10aRun.take 12)).map (fun s => (stateDict s, s.rcvdIdx, s.obs)) =
      some ((exCSnap, 0), 4, [.item 10, .item 11, .error, .item 13]) := by decide

theorem exC_resume :
    (run c10a (restore c10a exCSnap) exCResume).map (fun s => (stateDict s, s.rcvdIdx, s.obs)) =
      some ((⟨5, 1, 6, [⟨2, false⟩, ⟨3, false⟩]⟩, 0), 2, [.item 14, .item 15]) := by decide

theorem exC_full :
    (run c10a (init c10a) c10aRun).map (fun s => (stateDict s, s.rcvdIdx, s.obs)) =
      some ((⟨5, 1, 6, [⟨3, false⟩, ⟨3, false⟩]⟩, 0), 6,
        [.item 10, .item 11, .error, .item 13, .item 14, .item 15, .stop]) := by decide

/-- **Negation witness** for `chain_map_err_statement`: after the resume worker 0 restarts from the stale state
(1 fetch), so the next snapshot records it after 2 fetches where the uninterrupted run records 3.  (Real code: a
stateful map-style dataset whose state counts `__getitem__` calls shows `calls = 1` in the checkpoint.) -/
theorem chain_map_err_false : ¬ chain_map_err_statement := by
  intro h
  have h1 := exC_save
  have h2 := exC_resume
  have h3 := exC_full
  match hr1 : run c10a (init c10a) (c10aRun.take 12) with
  | none => rw [hr1] at h1; cases h1
  | some s₁ =>
    match hr2 : run c10a (restore c10a exCSnap) exCResume with
    | none => rw [hr2] at h2; cases h2
    | some s₂ =>
      match hr3 : run c10a (init c10a) c10aRun with
      | none => rw [hr3] at h3; cases h3
      | some s₃ =>
        rw [hr1] at h1; rw [hr2] at h2; rw [hr3] at h3
        simp only [Option.map_some, Option.some.injEq, Prod.mk.injEq] at h1 h2 h3
        obtain ⟨a1, a2, a3⟩ := h1
        obtain ⟨b1, b2, b3⟩ := h2
        obtain ⟨d1, d2, d3⟩ := h3
        have hr2' : run c10a (restore c10a (stateDict s₁).1) exCResume = some s₂ := by rw [a1]; exact hr2
        have hl : lastDue c10a 4 = 4 := by decide
        have := h c10a ⟨by decide, by decide⟩ rfl rfl (c10aRun.take 12) s₁ (by simp [NoReset, c10aRun]) hr1
          (by simp [died, a3]) exCResume s₂ (by simp [NoReset, exCResume]) hr2' (by simp [died, b3])
          c10aRun s₃ (by simp [NoReset, c10aRun]) hr3 (by simp [died, d3]) (by rw [d2, a2, b2, hl])
        rw [b1, d1] at this
        revert this; decide

end TDV.MPR
