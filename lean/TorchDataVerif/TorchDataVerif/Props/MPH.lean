import TorchDataVerif.Proofs.MPHRecv
/-!
# MPH — the persistent-worker resume handshake with failing epoch starts (serving C10, C17)

Model: `Model/MPHandshake.lean`.  Every statement quantifies over every number of workers, every set of failing
`(epoch, worker)` starts (early or late failures), every number of epochs and EVERY interleaving of the main
process with the workers (`runWith (stp c) (init c) as = some s`).  Each property is stated once, for an arbitrary
protocol `stp`; it is a theorem for `step` (the protocol of repo fix 32c63fa) and refuted by `decide` on a concrete
run for `stepOld` (the protocol before) — the refutations document the three repaired defects.
-/
namespace TDV.MPH

abbrev Proto := Cfg → State → Action → Option State

/-- (a) When the handshake of an epoch has ended — normally or by raising — the data queue holds no
acknowledgement (and no `_ResumeIteration` is left on an index queue). -/
def Drains (stp : Proto) : Prop :=
  ∀ (c : Cfg) (as : List Action) (s : State), runWith (stp c) (init c) as = some s → s.phase = .idle →
    s.queue = [] ∧ ∀ k ∈ s.workers, k.inbox = []

/-- (b) No worker dies in a handshake. -/
def Survive (stp : Proto) : Prop :=
  ∀ (c : Cfg) (as : List Action) (s : State), runWith (stp c) (init c) as = some s →
    s.workers.length = c.W ∧ ∀ k ∈ s.workers, k.alive = true

/-- (c) `iter()` of epoch `e` raises iff the start of THAT epoch failed in some worker, and then with the
exception of a worker whose start failed in that epoch (never a stale one, never "worker exited unexpectedly"). -/
def ErrorIff (stp : Proto) : Prop :=
  ∀ (c : Cfg) (as : List Action) (s : State), runWith (stp c) (init c) as = some s →
  ∀ e o, (e, o) ∈ s.log →
    (o = .finished ↔ ∀ w, w < c.W → failKind c e w = .none) ∧
    (∀ e' w', o = .raised e' w' → e' = e ∧ w' < c.W ∧ failKind c e w' ≠ .none) ∧
    o ≠ .workerDied

/-- (d) Whatever happened before (failed epoch starts included), a handshake that ends successfully leaves
exactly the state of a freshly started iterator (up to the epoch counter and the ghost log): all workers
alive with `init_exception = None` and empty index queues, empty data queue, main process idle. -/
def NextFresh (stp : Proto) : Prop :=
  ∀ (c : Cfg) (as : List Action) (s : State), runWith (stp c) (init c) as = some s →
    s.phase = .idle → (∃ e, s.log.getLast? = some (e, .finished)) →
    s = { init c with epoch := s.epoch, log := s.log }

theorem reach (c : Cfg) (as : List Action) (s : State) (hr : runWith (step c) (init c) as = some s) : Inv c s :=
  run_inv c as (init c) s (init_inv c) hr

/-- **`handshake_drains`** (fixed protocol). -/
theorem handshake_drains : Drains step := by
  intro c as s hr hph
  obtain ⟨h1, h2⟩ := (reach c as s hr).idle hph
  refine ⟨h1, fun k hk => ?_⟩
  obtain ⟨w, hw⟩ := List.mem_iff_getElem?.mp hk
  exact h2 w k hw

/-- **`workers_survive`** (fixed protocol). -/
theorem workers_survive : Survive step := by
  intro c as s hr
  have h := reach c as s hr
  refine ⟨h.wl, fun k hk => ?_⟩
  obtain ⟨w, hw⟩ := List.mem_iff_getElem?.mp hk
  exact (h.wk w k hw).1

/-- **`error_iff_failing_start`** (fixed protocol). -/
theorem error_iff_failing_start : ErrorIff step := by
  intro c as s hr e o hm
  obtain ⟨h1, h2, h3⟩ := (reach c as s hr).log e o hm
  refine ⟨⟨h1, fun hall => ?_⟩, h2, h3⟩
  cases o with
  | finished => rfl
  | raised e' w' =>
    obtain ⟨_, r2, r3⟩ := h2 e' w' rfl
    exact absurd (hall w' r2) r3
  | workerDied => exact absurd rfl h3

/-- **`next_epoch_fresh`** (fixed protocol). -/
theorem next_epoch_fresh : NextFresh step := by
  intro c as s hr hph ⟨e, hl⟩
  have h := reach c as s hr
  have he : e = s.epoch := h.last hph e _ hl
  subst he
  have hall := (h.log s.epoch .finished (List.mem_of_getLast? hl)).1 rfl
  obtain ⟨hq, hin⟩ := h.idle hph
  have hw : s.workers = List.replicate c.W ⟨true, none, []⟩ := by
    rw [List.eq_replicate_iff]
    refine ⟨h.wl, fun k hk => ?_⟩
    obtain ⟨w, hw⟩ := List.mem_iff_getElem?.mp hk
    have hwlt : w < c.W := by rw [← h.wl]; exact (List.getElem?_eq_some_iff.mp hw).1
    have h1 := (h.wk w k hw).1
    have h2 := hin w k hw
    have h4 : k.initExc = none := by
      rw [h.ie w k hw h2]
      split
      · rfl
      · exact excOf_none c _ _ (hall w hwlt)
    obtain ⟨a, b, d⟩ := k
    simp only at h1 h2 h4
    rw [h1, h2, h4]
  obtain ⟨ep, ws, q, ph, lg⟩ := s
  simp only at hw hq hph
  subst hw hq hph
  rfl

/-! ## The protocol before the fix: each property refuted on a concrete run -/

/-- Two workers; the start of epoch 2 fails in worker 0 (`iter(dataset)` raises: an early failure). -/
def cW : Cfg := { W := 2, early := [(2, 0)], late := [] }

/-- Epoch 2: both workers answer, the main process takes worker 0's acknowledgement (the exception) and raises. -/
def oldRun1 : List Action := [.start, .work 0, .work 1, .recv]

/-- Epoch 2 as above but worker 1 answers late; epoch 3: the main process takes worker 1's STALE acknowledgement,
then times out on the empty queue and finds worker 0 dead. -/
def oldRun2 : List Action := [.start, .work 0, .recv, .work 1, .start, .recv, .timeout]

theorem oldRun1_state :
    (runOld cW (init cW) oldRun1).map (fun s => (s.phase, s.queue, s.log)) =
      some (.idle, [⟨1, .ok⟩], [(2, .raised 2 0)]) := by decide

theorem oldRun1_alive :
    (runOld cW (init cW) oldRun1).map (fun s => s.workers.map (·.alive)) = some [false, true] := by decide

theorem oldRun2_log :
    (runOld cW (init cW) oldRun2).map (·.log) = some [(2, .raised 2 0), (3, .workerDied)] := by decide

/-- Defect 3 (the main process raised at the first failed acknowledgement): worker 1's acknowledgement of epoch 2
is still in the data queue when `iter()` has raised. -/
theorem handshake_drains_old_false : ¬ Drains stepOld := by
  intro h
  have h1 := oldRun1_state
  match hr : runOld cW (init cW) oldRun1 with
  | none => rw [hr] at h1; cases h1
  | some s =>
    rw [hr] at h1
    simp only [Option.map_some, Option.some.injEq, Prod.mk.injEq] at h1
    have := (h cW oldRun1 s hr h1.1).1
    rw [h1.2.1] at this
    cases this

/-- Defect 1 (`del initial_state` of an unbound name): worker 0 is dead after reporting its failed start. -/
theorem workers_survive_old_false : ¬ Survive stepOld := by
  intro h
  have h1 := oldRun1_alive
  match hr : runOld cW (init cW) oldRun1 with
  | none => rw [hr] at h1; cases h1
  | some s =>
    rw [hr] at h1
    simp only [Option.map_some, Option.some.injEq] at h1
    have h2 := (h cW oldRun1 s hr).2
    have h3 : (s.workers.map (·.alive)).all (· = true) = true := by
      simp only [List.all_map, List.all_eq_true]
      intro k hk
      simp [h2 k hk]
    rw [h1] at h3
    revert h3; decide

/-- Consequence for the NEXT epoch: no start fails in epoch 3, yet `iter()` raises ("worker exited unexpectedly"),
after having counted an acknowledgement of epoch 2 as one of epoch 3. -/
theorem error_iff_failing_start_old_false : ¬ ErrorIff stepOld := by
  intro h
  have h1 := oldRun2_log
  match hr : runOld cW (init cW) oldRun2 with
  | none => rw [hr] at h1; cases h1
  | some s =>
    rw [hr] at h1
    simp only [Option.map_some, Option.some.injEq] at h1
    have := (h cW oldRun2 s hr 3 .workerDied (by rw [h1]; decide)).2.2
    exact this rfl

/-- Defect 2 (`init_exception` never cleared), visible when the failure is a late one (the worker survives): the
exception of epoch 2 is raised AGAIN by `iter()` of epoch 3, in which no start fails. -/
def cL : Cfg := { W := 2, early := [], late := [(2, 0)] }

def oldRun3 : List Action := [.start, .work 0, .recv, .work 1, .start, .work 0, .recv, .recv]

theorem stale_exception_old :
    (runOld cL (init cL) oldRun3).map (fun s => (s.log, s.workers.map (·.alive))) =
      some ([(2, .raised 2 0), (3, .raised 2 0)], [true, true]) ∧
    failKind cL 3 0 = .none ∧ failKind cL 3 1 = .none := by decide

/-! ## Non-vacuity: the same configurations and schedules under the fixed protocol -/

/-- `cW`, schedule `oldRun1` continued: the main process takes BOTH acknowledgements, then raises worker 0's
exception; queue empty, both workers alive; epoch 3 succeeds and leaves the state of a fresh iterator. -/
example :
    (run cW (init cW) (oldRun1 ++ [.recv])).map (fun s => (s.phase, s.queue, s.log)) =
      some (.idle, [], [(2, .raised 2 0)]) ∧
    (run cW (init cW) (oldRun1 ++ [.recv])).map (fun s => s.workers.map (·.alive)) = some [true, true] ∧
    (run cW (init cW) oldRun1).map (·.phase) = some (.waiting 1 (some (2, 0))) ∧
    (run cW (init cW) (oldRun1 ++ [.recv, .start, .work 1, .work 0, .recv, .recv])).map
        (fun s => (decide (s = { init cW with epoch := 3, log := s.log }), s.log)) =
      some (true, [(2, .raised 2 0), (3, .finished)]) := by decide

/-- Both workers fail in epoch 2 (one early, one late), worker 1 answers first: its exception is the one raised. -/
example :
    (run { W := 2, early := [(2, 0)], late := [(2, 1)] } (init { W := 2, early := [(2, 0)], late := [(2, 1)] })
        [.start, .work 1, .recv, .timeout, .work 0, .recv]).map (fun s => (s.phase, s.queue, s.log)) =
      some (.idle, [], [(2, .raised 2 1)]) := by decide

/-- `cL` under the fixed protocol: the stale exception is gone, epoch 3 succeeds. -/
example :
    (run cL (init cL) (oldRun3.take 4 ++ [.recv, .start, .work 0, .work 1, .recv, .recv])).map (·.log) =
      some [(2, .raised 2 0), (3, .finished)] := by decide

end TDV.MPH
