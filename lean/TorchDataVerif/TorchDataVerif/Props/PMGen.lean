import TorchDataVerif.Proofs.PMGen2Silent
import TorchDataVerif.Proofs.PMGen2Live
/-!
# ParallelMapper across `reset()` — who is inside the source node (C12, second half) and what abandoned
generations can still do (C17)

Layer: `G2State` / `g2step` (`Proofs/PMGen2.lean`), a refinement of `GState` / `gstep` of `Model/PM.lean` with per-thread
joins in the order of `_ParallelMapperIter._shutdown` (reader, sorter, workers; each may give up after 0.5 s), the
consumer's `source.reset(...)` inside the new iterator's constructor, and the new reader's start-up
`source.state_dict()`.  `driversInSource` counts the threads inside `next()` / `reset()` / `state_dict()` of the ONE
source node that all generations share.  All statements quantify over every action sequence (every interleaving of
every thread of every generation, every timeout); no bound on the number of resets, workers or items.
-/
namespace TDV.PM

/-- 2 workers, max_concurrent 2, snapshot every item, in order, source [5, 7], map x ↦ x + 1 -/
def cfgG : Cfg :=
  { N := 2, max := 2, f := 1, inOrder := true, proc := false, src := [5, 7], term := .stop,
    fn := fun v => some (v + 1), base := 0 }

/-! ## The refinement is faithful to the coarse generation layer -/

/-- Every `g2step` is one `gstep` of `Model/PM.lean` (or leaves the `GState` unchanged), so everything proved about
`grun` — `Gen.released`: each generation satisfies `Inv`, abandoned generations have both stop events set — holds here. -/
theorem gen2_refines_gen (c : Cfg) (x y : G2State) (a : G2Action) (h : g2step c x a = some y) :
    match a.proj with
    | some ga => gstep c x.g ga = some y.g
    | none => y.g = x.g := g2_refines h

/-- non-vacuity of `gen2_refines_gen`: the constructor start is the coarse `renew` -/
example : ∃ x y, g2step cfgG x .ctorEnter = some y ∧ gstep cfgG x.g .renew = some y.g ∧ y.g.old.length = 1 := by
  refine ⟨{ g := { ginit cfgG with cur := { init cfgG with cpc := .closed } }, ph := .joinW 2, rinit := false }, _, rfl, ?_, ?_⟩ <;>
    decide

/-! ## C12 — the source is driven by one thread at a time: FALSE on the current code -/

/-- full-strength statement: in every reachable state at most one thread is inside the source node's
`next()` / `reset()` / `state_dict()` -/
def single_driver_statement : Prop :=
  ∀ (c : Cfg) (tr : List G2Action) (x : G2State), g2run c (g2init c) tr = some x → driversInSource x ≤ 1

/-- `reset()` while the reader is inside a slow `next(source)`: `del self._it` → `__del__` → `_shutdown` sets both
events; the reader's `join(timeout=0.5)` gives up; sorter and workers see the event and exit, their joins return. -/
def shutdownWhileInside : List G2Action :=
  [.ctorLeave, .rInitEnter, .cur .rInit, .cur .cBoot, .cur .rIsSet, .cur .rAcq, .cur .rEnter,
   .cur .cShutSet, .cur .cShutMpSet, .joinGiveUp .reader,
   .cur .sIsSet, .joinOk .sorter,
   .cur (.wIsSet 0), .cur (.wEmpty 0), .joinOk (.worker 0),
   .cur (.wIsSet 1), .cur (.wEmpty 1), .joinOk (.worker 1)]

/-- … then the new `_ParallelMapperIter.__init__` calls `source.reset()` in the consumer thread (old reader still
inside `next`), starts a new reader, which calls `source.state_dict()` and then `next(source)` itself. -/
def twoDriversRun : List G2Action :=
  shutdownWhileInside ++ [.ctorEnter, .ctorLeave, .rInitEnter, .cur .rInit, .cur .cBoot, .cur .rIsSet, .cur .rAcq, .cur .rEnter]

/-- the consumer is inside `source.reset()` while the abandoned reader is inside `next(source)` -/
theorem reset_overlaps_old_reader_witness :
    ∃ x, g2run cfgG (g2init cfgG) (shutdownWhileInside ++ [.ctorEnter]) = some x ∧ x.ph = .reset ∧
      (x.g.old.map readerInSource) = [true] ∧ driversInSource x = 2 := by
  refine ⟨_, rfl, ?_, ?_, ?_⟩ <;> decide

/-- the new reader is inside its start-up `source.state_dict()` while the abandoned reader is inside `next(source)` -/
theorem state_dict_overlaps_old_reader_witness :
    ∃ x, g2run cfgG (g2init cfgG) (shutdownWhileInside ++ [.ctorEnter, .ctorLeave, .rInitEnter]) = some x ∧
      x.rinit = true ∧ (x.g.old.map readerInSource) = [true] ∧ driversInSource x = 2 := by
  refine ⟨_, rfl, ?_, ?_, ?_⟩ <;> decide

/-- two reader threads are inside `next(source)` of the same source node; one timed join has given up -/
theorem two_drivers_witness :
    ∃ x, g2run cfgG (g2init cfgG) twoDriversRun = some x ∧ readersInSource x.g = 2 ∧ driversInSource x = 2 ∧
      x.g.joinsGivenUp = 1 := by
  refine ⟨_, rfl, ?_, ?_, ?_⟩ <;> decide

theorem single_driver_statement_false : ¬ single_driver_statement := by
  intro h
  obtain ⟨x, hx, _, h2, _⟩ := two_drivers_witness
  have := h cfgG twoDriversRun x hx
  omega

/-- C12 `single_driver_partial`: as long as the timed join of the READER never gives up (joins of the sorter and of the
workers may give up freely), at most one thread is ever inside the source node — the live reader inside `next`, or
the consumer inside the constructor's `source.reset`, or the new reader inside its start-up `state_dict` — over any
number of resets, and every abandoned generation's reader is done with the source for good. -/
theorem single_driver_partial (c : Cfg) (tr : List G2Action) (x : G2State) (hr : g2run c (g2init c) tr = some x)
    (hne : ∀ a ∈ tr, a ≠ .joinGiveUp .reader) :
    driversInSource x ≤ 1 ∧ ∀ s ∈ x.g.old, Silent s := by
  have hk := k_run tr (k_init c) (harmless_of_no_giveup tr _ hne) hr
  exact ⟨k_count hk, hk.old⟩

/-- The weakest hypothesis we can prove sufficient: the reader's join may give up, provided that at that moment the
reader is past its last `next(source)` (`pastSource`: at its loop head, or appending / putting the item it has; `_stop`
is set, so it will not acquire again).  A give-up while the reader is starved at `acquire`, about to call, or inside
`next(source)` is what `two_drivers_witness` uses. -/
theorem single_driver_partial_weak (c : Cfg) (tr : List G2Action) (x : G2State) (hr : g2run c (g2init c) tr = some x)
    (hh : harmless c (g2init c) tr) :
    driversInSource x ≤ 1 ∧ ∀ s ∈ x.g.old, Silent s := by
  have hk := k_run tr (k_init c) hh hr
  exact ⟨k_count hk, hk.old⟩

/-- a mid-epoch reset whose reader join waits for the reader (it finishes its item and sees the event) -/
def cleanResetRun : List G2Action :=
  [.ctorLeave, .rInitEnter, .cur .rInit, .cur .cBoot, .cur .rIsSet, .cur .rAcq, .cur .rEnter,
   .cur .cShutSet, .cur .cShutMpSet,
   .cur .rLeave, .cur .rAppend, .cur .rPut, .cur .rIsSet, .joinOk .reader,
   .joinGiveUp .sorter, .joinGiveUp (.worker 0), .joinGiveUp (.worker 1),
   .ctorEnter, .ctorLeave, .rInitEnter, .cur .rInit, .cur .cBoot, .cur .rIsSet, .cur .rAcq, .cur .rEnter,
   .old 0 (.wIsSet 1), .old 0 (.wEmpty 1), .old 0 (.wGet 1), .old 0 (.wPut 1)]

/-- non-vacuity of `single_driver_partial`: the reader is joined, the other three joins give up, the new reader is
inside the source while an abandoned worker still maps the old generation's item -/
example : (∀ a ∈ cleanResetRun, a ≠ .joinGiveUp .reader) ∧
    ∃ x, g2run cfgG (g2init cfgG) cleanResetRun = some x ∧ x.g.old.length = 1 ∧ x.g.joinsGivenUp = 3 ∧
      driversInSource x = 1 ∧ (x.g.old.map threadsLive) = [3] := by
  refine ⟨by decide, _, rfl, ?_, ?_, ?_, ?_⟩ <;> decide

/-- the reader's join gives up while the reader, starved for 0.5 s, is still at its loop head: harmless -/
def starvedResetRun : List G2Action :=
  [.ctorLeave, .rInitEnter, .cur .rInit, .cur .cBoot,
   .cur .cShutSet, .cur .cShutMpSet, .joinGiveUp .reader,
   .joinGiveUp .sorter, .joinGiveUp (.worker 0), .joinGiveUp (.worker 1),
   .ctorEnter, .ctorLeave, .rInitEnter, .cur .rInit, .cur .cBoot, .cur .rIsSet, .cur .rAcq, .cur .rEnter,
   .old 0 .rIsSet]

/-- non-vacuity of `single_driver_partial_weak`, outside the scope of `single_driver_partial` -/
example : harmless cfgG (g2init cfgG) starvedResetRun ∧ .joinGiveUp .reader ∈ starvedResetRun ∧
    ∃ x, g2run cfgG (g2init cfgG) starvedResetRun = some x ∧ x.g.joinsGivenUp = 4 ∧ driversInSource x = 1 ∧
      (x.g.old.map (·.rpc)) = [.exited] := by
  refine ⟨by decide, by decide, _, rfl, ?_, ?_, ?_⟩ <;> decide

/-- the witness run is (of course) not harmless -/
example : ¬ harmless cfgG (g2init cfgG) twoDriversRun := by decide

/-! ## C17 / C12 — what an abandoned generation can still do -/

/-- A join of the reader that returns means the reader has exited. -/
theorem joined_reader_exited (c : Cfg) (x y : G2State) (h : g2step c x (.joinOk .reader) = some y) :
    y.g.cur.rpc = .exited ∧ y.g.cur = x.g.cur := by
  obtain ⟨ph', hj, hc, rfl⟩ := g2_joinOk h
  refine ⟨?_, rfl⟩
  cases hp : x.ph with
  | run => simp [joinTarget, hp, hc] at hj; exact hj.1
  | joinS => simp [joinTarget, hp] at hj
  | joinW k => simp only [joinTarget, hp] at hj; split at hj <;> simp at hj
  | reset => simp [joinTarget, hp] at hj

/-- **`old_generation_silent`.**  Take any state (reachable or not) and an abandoned generation `old[i]` whose reader has
exited — in particular one whose reader was joined (`joined_reader_exited`) — or, more generally, is past its last
`next(source)` with `_stop` set.  Then along EVERY continuation `tr`: no action of that generation (it moves to index
`i + nCtor` as new iterators are constructed) is an operation on the source (`silentFrom`: no start-up `state_dict`, no
entering or leaving `next`), the generation's source position `pulled` never changes, an exited reader stays exited,
and the generation stays `Silent`. -/
theorem old_generation_silent (c : Cfg) (tr : List G2Action) (x y : G2State) (i : Nat) (s : State)
    (hi : x.g.old[i]? = some s) (hq : s.rpc = .exited ∨ (s.stop = true ∧ s.rpc.pastSource = true))
    (hr : g2run c x tr = some y) :
    silentFrom i tr ∧ ∃ s', y.g.old[i + nCtor tr]? = some s' ∧ Silent s' ∧ s'.pulled = s.pulled ∧
      (s.rpc = .exited → s'.rpc = .exited) :=
  old_silent_run tr x y i s hi hq hr

/-- non-vacuity: the abandoned generation of `cleanResetRun` (reader joined, 3 threads still alive) over a continuation
with another full reset: its workers and sorter keep working, it ends at index 1, its source position is unchanged -/
example : ∃ x s y, g2run cfgG (g2init cfgG) cleanResetRun = some x ∧ x.g.old[0]? = some s ∧ s.rpc = .exited ∧ s.pulled = 1 ∧
    g2run cfgG x [.old 0 .sIsSet, .old 0 (.wIsSet 0), .cur .cShutSet, .cur .cShutMpSet, .cur .rLeave, .cur .rAppend, .cur .rPut,
      .cur .rIsSet, .joinOk .reader, .joinGiveUp .sorter, .joinGiveUp (.worker 0), .joinGiveUp (.worker 1), .ctorEnter,
      .old 1 (.wEmpty 0)] = some y ∧
    (y.g.old.map (·.pulled)) = [1, 1] ∧ (y.g.old.map (·.rpc)) = [.exited, .exited] := by
  refine ⟨_, _, _, rfl, rfl, ?_, ?_, rfl, ?_, ?_⟩ <;> decide

/-- Under the hypothesis of `single_driver_partial_weak` every abandoned generation is silent from the moment it is
abandoned (so `old_generation_silent` applies to all of them), and so is the generation being shut down once the
reader's join is over. -/
theorem abandoned_generations_silent (c : Cfg) (tr : List G2Action) (x : G2State) (hr : g2run c (g2init c) tr = some x)
    (hh : harmless c (g2init c) tr) :
    (∀ s ∈ x.g.old, Silent s) ∧ (x.ph.joining = true → Silent x.g.cur) := by
  have hk := k_run tr (k_init c) hh hr
  exact ⟨hk.old, fun h => (hk.join h).1⟩

/-- Workers and sorter — of a live or of an abandoned generation, in any state — never operate on the source: their
actions are not source operations and change neither the reader's program counter nor the source position. -/
theorem workers_sorter_never_touch_source (c : Cfg) (s s' : State) (a : Action)
    (ha : a ∈ [Action.sIsSet, .sGet, .sGetT, .sHave, .sDrain] ∨
      ∃ i, a ∈ [Action.wIsSet i, .wEmpty i, .wGet i, .wGetT i, .wPut i, .wDie i])
    (h : step c s a = some s') : a.touchesSource = false ∧ s'.rpc = s.rpc ∧ s'.pulled = s.pulled :=
  worker_sorter_frame ha h

/-- non-vacuity: an abandoned worker taking the old generation's item -/
example : ∃ x s s', g2run cfgG (g2init cfgG) cleanResetRun = some x ∧ x.g.old[0]? = some s ∧
    step cfgG s (.wIsSet 0) = some s' ∧ s'.wk = [.chk, .top] := by
  refine ⟨_, _, _, rfl, rfl, rfl, ?_⟩; decide

/-! ## Each generation has its own queues

`_ParallelMapperIter.__init__` creates `_in_q`, `_intermed_q`, `_sort_q`, `_sem`, `_stop`, `_mp_stop` and the snapshot
store afresh and hands exactly these objects to its threads, so in the model every generation is a separate `State`.
The only object all generations share is the source node — which is where `single_driver_statement` fails. -/

/-- A step of a thread of an abandoned generation changes nothing of the live generation (its in-queue, intermediate
queue, sort queue, semaphore, snapshot store, events, counters) nor of any other abandoned generation: an abandoned
worker or sorter cannot deliver into the new iterator's queues. -/
theorem old_cannot_deliver_to_new (c : Cfg) (x y : G2State) (i : Nat) (a : Action)
    (h : g2step c x (.old i a) = some y) :
    y.g.cur = x.g.cur ∧ (∀ j, j ≠ i → y.g.old[j]? = x.g.old[j]?) ∧ y.ph = x.ph ∧ y.rinit = x.rinit := by
  obtain ⟨_, s0, s1, _, _, rfl⟩ := g2_old h
  refine ⟨rfl, ?_, rfl, rfl⟩
  intro j hj
  exact List.getElem?_set_ne (Ne.symm hj)

/-- … and conversely the live generation's threads and consumer never write into an abandoned generation. -/
theorem new_cannot_deliver_to_old (c : Cfg) (x y : G2State) (a : Action) (h : g2step c x (.cur a) = some y) :
    y.g.old = x.g.old := by
  obtain ⟨_, _, s1, _, rfl⟩ := g2_cur h
  rfl

/-- Run-level: whatever the abandoned threads do on their own, the live generation is exactly where it was. -/
theorem old_only_run_keeps_cur (c : Cfg) : ∀ (tr : List G2Action) (x y : G2State),
    (∀ a ∈ tr, ∃ i b, a = .old i b) → g2run c x tr = some y → y.g.cur = x.g.cur
  | [], x, y, _, hr => by simp [g2run] at hr; subst hr; rfl
  | a :: tr, x, y, ha, hr => by
    simp only [g2run] at hr
    cases hs : g2step c x a with
    | none => simp [hs] at hr
    | some x1 =>
      simp only [hs] at hr
      obtain ⟨i, b, rfl⟩ := ha a (by simp)
      have h1 := (old_cannot_deliver_to_new c x x1 i b hs).1
      have h2 := old_only_run_keeps_cur c tr x1 y (fun a' h' => ha a' (by simp [h'])) hr
      rw [h2, h1]

/-- non-vacuity: the abandoned generation of `cleanResetRun` delivers its item into ITS intermediate queue (its sorter has exited);
the new generation's queues stay empty -/
example : ∃ x y, g2run cfgG (g2init cfgG) cleanResetRun = some x ∧
    g2run cfgG x [.old 0 .sIsSet, .old 0 (.wIsSet 0), .old 0 (.wEmpty 0)] = some y ∧
    (y.g.old.map (fun s => (s.mid.length, threadsLive s))) = [(1, 1)] ∧
    y.g.cur.inq = [] ∧ y.g.cur.mid = [] ∧ y.g.cur.sq = [] ∧ y.g.cur.sem = 1 := by
  refine ⟨_, _, rfl, rfl, ?_, ?_, ?_, ?_, ?_⟩ <;> decide

/-! ## Sanity of the refinement: `_shutdown` is never stuck in the model -/

/-- In every reachable state, whenever `_shutdown` has a thread to join exactly the matching action is enabled (the join
returns iff the thread has exited, gives up iff it is alive), and past the last worker the constructor can start:
executing every step through the coarse `gstep` does not disable anything. -/
theorem shutdown_never_blocked (c : Cfg) (tr : List G2Action) (x : G2State) (hr : g2run c (g2init c) tr = some x) :
    (∀ t alive ph', joinTarget x.g.cur x.ph = some (t, alive, ph') →
      (g2step c x (if alive then .joinGiveUp t else .joinOk t)).isSome = true) ∧
    (∀ k, x.ph = .joinW k → x.g.cur.wk[k]? = none → (g2step c x .ctorEnter).isSome = true) := by
  have hj := j_run tr (j_init c) hr
  exact ⟨fun _ _ _ ht => join_enabled hj ht, fun _ hp hk => ctor_enabled hj hp hk⟩

example : ∃ x, g2run cfgG (g2init cfgG) (shutdownWhileInside.take 9) = some x ∧
    joinTarget x.g.cur x.ph = some (.reader, true, .joinS) := by
  refine ⟨_, rfl, ?_⟩; decide

end TDV.PM
