import TorchDataVerif.Proofs.MPRFFThm
/-!
# C01 (multi-process part) — the fast-forward restore branch: iterable datasets WITHOUT any `state_dict`

Model: `Model/MP.lean` (protocol), `Proofs/MPRFFModel.lean` (`ffStart`, `Replay`, `ffCheck`, `RestoreFF`: the
fast-forward branch of `_StatefulMultiProcessingDataLoaderIter.__init__`; the replay is the protocol itself).
Helper lemmas: `Proofs/MPRFFSim.lean` (the stored snapshot is dead data until overwritten), `Proofs/MPRFFLast.lean`
(`_last_yielded_worker_id` right after a snapshot), `Proofs/MPRFFThm.lean`.

All theorems: iterable configuration (uneven / empty shards, every `W`, `P`, snapshot interval incl. 0),
`in_order = True`, no failing fetch (`NoErr`), EVERY schedule of the saving run, of the two replay loops of the
constructor and of the continuation.  The replayed batches are discarded by the constructor; they remain in the
ghost list `obs`, so the consumer of the resumed loader sees `(yields s.obs).drop k`.  `_finished` is not modelled.
-/
namespace TDV.MPRFF

open TDV.MP TDV.MPR TDV.MPU

theorem prefix_drop {α : Type} (l L : List α) (k : Nat) (h : l <+: L) : l.drop k <+: L.drop k := by
  obtain ⟨t, ht⟩ := h
  rw [← ht]
  by_cases hl : k ≤ l.length
  · rw [List.drop_append_of_le_length hl]; exact List.prefix_append _ _
  · rw [List.drop_eq_nil_of_le (by omega)]; exact List.nil_prefix

section

variable (c : Cfg) (hv : c.WF) (hit : c.iterable = true) (hio : c.inOrder = true) (hne : NoErr c)
include hv hit hio hne

/-- **`ff_check`.**  The first replay loop of the fast-forward branch, for ANY checkpoint `sn` whose
`snapshot_step` is a possible one and any schedule: when its `snapshot_step` calls of `next` have returned,
`_num_yielded = snapshot_step` (counted once: it restarted from 0), `_last_yielded_worker_id` is the owner of the
`snapshot_step`-th batch of the dataset being replayed (`W − 1` for step 0), and the check passes iff that is the
saved `last_yielded_worker_id`. -/
theorem ff_check (sn : Snap) (hs : SnapStep c sn.step) (asA : List Action) (sA : State)
    (h : Replay c (ffStart c sn) sn.step asA sA) :
    sA.numYielded = sn.step ∧ sA.lastW = (idealAt c sn.step).lastW ∧
    (ffCheck sn sA = .pass ↔ sn.lastW = (idealAt c sn.step).lastW) := by
  have hlen : (yields sA.obs).length = sn.step := by
    have := h.returned
    rw [ffStart_obs] at this
    simpa [yields] using this
  obtain ⟨h1, h2, _⟩ := ff_replay c hv hit hio hne sn hs asA sA h.noReset h.noSD h.run h.alive hlen
  refine ⟨h2, h1, ?_⟩
  rw [ffCheck_pass, h1]
  exact ⟨fun e => e.symm, fun e => e.symm⟩

/-- **`ff_check_passes`.**  With the checkpoint of a saving run of the same dataset (any schedule, any `k`) the
`last_yielded_worker_id` check passes, for every schedule of the replay: the owner of the `snapshot_step`-th
batch is a function of the configuration alone. -/
theorem ff_check_passes (as₁ : List Action) (s₁ : State) (hn₁ : NoReset as₁)
    (hr₁ : run c (init c) as₁ = some s₁) (hd₁ : ¬ died s₁) (asA : List Action) (sA : State)
    (h : Replay c (ffStart c (stateDict s₁).1) (stateDict s₁).1.step asA sA) :
    ffCheck (stateDict s₁).1 sA = .pass := by
  obtain ⟨_, _, hse⟩ := snapshot_sound_iter c hv hit hio hne as₁ s₁ hn₁ hr₁ hd₁
  have hstep : s₁.snap.step = stepOf c s₁.numYielded := hse.1
  have hs : SnapStep c (stateDict s₁).1.step := by
    show SnapStep c s₁.snap.step
    rw [hstep]; exact stepOf_snapStep c _
  refine (ff_check c hv hit hio hne _ hs asA sA h).2.2.mpr ?_
  show s₁.snap.lastW = (idealAt c s₁.snap.step).lastW
  rw [hstep]
  exact hse.2.1

/-- **`resume_exact_ff`.**  `state_dict()` after any number `k` of batches of a saving run (any schedule), given
to the fast-forward constructor (`RestoreFF`: replay of `snapshot_step` batches, check, replay of
`steps_since_snapshot` batches, any schedules), then the resumed loader driven under any schedule:

* the constructor has replayed and discarded exactly the `k` batches of the saving run;
* when it returns, `_num_yielded`, the stored snapshot (up to the meaningless sampler counter of an iterable
  dataset) and `steps_since_snapshot` are those of the saving run after its `k` yields — `_num_yielded = k`, NOT
  `snapshot_step + k` (the double count fixed in repo commit 622b3a8);
* the consumer then receives exactly `drop k (Ref.stream c)`: a prefix of it at any time, all of it once
  StopIteration is raised — nothing lost, repeated or reordered. -/
theorem resume_exact_ff (as₁ : List Action) (s₁ : State) (hn₁ : NoReset as₁)
    (hr₁ : run c (init c) as₁ = some s₁) (hd₁ : ¬ died s₁)
    (asA asB : List Action) (sA s₂ : State) (h : RestoreFF c (stateDict s₁) asA asB sA s₂)
    (as₃ : List Action) (s₃ : State) (hn₃ : NoReset as₃) (hr₃ : run c s₂ as₃ = some s₃) (hd₃ : ¬ died s₃) :
    yields s₂.obs = yields s₁.obs ∧
    s₂.numYielded = s₁.numYielded ∧ s₂.numYielded = (yields s₁.obs).length ∧
    SnapEq c (stateDict s₂).1 (stateDict s₁).1 ∧ (stateDict s₂).2 = (stateDict s₁).2 ∧
    (yields s₃.obs).drop (yields s₁.obs).length <+: (oks (refStream c)).drop (yields s₁.obs).length ∧
    (Obs.stop ∈ s₃.obs →
      (yields s₃.obs).drop (yields s₁.obs).length = (oks (refStream c)).drop (yields s₁.obs).length) := by
  obtain ⟨ha₁, hny₁, hse₁⟩ := snapshot_sound_iter c hv hit hio hne as₁ s₁ hn₁ hr₁ hd₁
  have hstep : s₁.snap.step = stepOf c s₁.numYielded := hse₁.1
  have hle := stepOf_le c s₁.numYielded
  have hs : SnapStep c (stateDict s₁).1.step := by
    show SnapStep c s₁.snap.step
    rw [hstep]; exact stepOf_snapStep c _
  obtain ⟨hrun, hnr, hlen₂, _⟩ := restoreFF_run c hv hit hio hne (stateDict s₁) hs asA asB sA s₂ h
  have hlen₂' : (yields s₂.obs).length = (yields s₁.obs).length := by
    have e : (stateDict s₁).1.step + (stateDict s₁).2 = s₁.snap.step + (s₁.numYielded - s₁.snap.step) := rfl
    rw [hlen₂, e, ← hny₁]; omega
  obtain ⟨hp₂, _, _, hny₂, hse₂, _⟩ := r0_facts c hv hit hio hne (stateDict s₁).1 _ s₂ hnr hrun h.rest.alive
  have hp₁ := yields_prefix_ref c hv hio as₁ s₁ hn₁ hr₁ hd₁ ha₁
  have hnn : s₂.numYielded = s₁.numYielded := by rw [hny₂, hlen₂', ← hny₁]
  rw [hnn] at hse₂
  have hrun₃ : run c (restore c (sn0 c (stateDict s₁).1)) ((asA ++ asB) ++ as₃) = some s₃ := by
    rw [run_append, hrun]; exact hr₃
  obtain ⟨hp₃, hst₃, _⟩ := r0_facts c hv hit hio hne (stateDict s₁).1 _ s₃
    ((noReset_append _ _).mpr ⟨hnr, hn₃⟩) hrun₃ hd₃
  refine ⟨prefix_eq_of_length _ _ _ hp₂ hp₁ hlen₂', hnn, hnn.trans hny₁, ?_, ?_, prefix_drop _ _ _ hp₃,
    fun hstop => by rw [hst₃ hstop]⟩
  · exact ⟨hse₂.1.trans hse₁.1.symm, hse₂.2.1.trans hse₁.2.1.symm, hse₂.2.2.1.trans hse₁.2.2.1.symm,
      fun hf => by rw [hit] at hf; cases hf⟩
  · show s₂.numYielded - s₂.snap.step = s₁.numYielded - s₁.snap.step
    rw [hnn, hse₂.1, hse₁.1]

/-- **`chain_ff`.**  The `state_dict()` of a loader resumed through the fast-forward branch, taken after its
consumer has seen `j` batches, equals (up to the sampler counter) the one of an uninterrupted run after `k + j`
batches, for every quadruple of schedules; in particular `_num_yielded = k + j` and
`snapshot_step + steps_since_snapshot = k + j`: the replayed batches are counted ONCE.  So `resume_exact_ff`
applies again to the next resume, along any chain of checkpoint / resume. -/
theorem chain_ff (as₁ : List Action) (s₁ : State) (hn₁ : NoReset as₁)
    (hr₁ : run c (init c) as₁ = some s₁) (hd₁ : ¬ died s₁)
    (asA asB : List Action) (sA s₂ : State) (h : RestoreFF c (stateDict s₁) asA asB sA s₂)
    (as₃ : List Action) (s₃ : State) (hn₃ : NoReset as₃) (hr₃ : run c s₂ as₃ = some s₃) (hd₃ : ¬ died s₃)
    (as₄ : List Action) (s₄ : State) (hn₄ : NoReset as₄) (hr₄ : run c (init c) as₄ = some s₄) (hd₄ : ¬ died s₄)
    (j : Nat) (hj : (yields s₃.obs).length = (yields s₁.obs).length + j)
    (hlen : (yields s₄.obs).length = (yields s₁.obs).length + j) :
    s₃.numYielded = (yields s₁.obs).length + j ∧ s₃.numYielded = s₄.numYielded ∧
    (stateDict s₃).1.step + (stateDict s₃).2 = (yields s₁.obs).length + j ∧
    SnapEq c (stateDict s₃).1 (stateDict s₄).1 ∧ (stateDict s₃).2 = (stateDict s₄).2 := by
  obtain ⟨_, _, hse₁⟩ := snapshot_sound_iter c hv hit hio hne as₁ s₁ hn₁ hr₁ hd₁
  obtain ⟨_, hny₄, hse₄⟩ := snapshot_sound_iter c hv hit hio hne as₄ s₄ hn₄ hr₄ hd₄
  have hstep : s₁.snap.step = stepOf c s₁.numYielded := hse₁.1
  have hs : SnapStep c (stateDict s₁).1.step := by
    show SnapStep c s₁.snap.step
    rw [hstep]; exact stepOf_snapStep c _
  obtain ⟨hrun, hnr, _, _⟩ := restoreFF_run c hv hit hio hne (stateDict s₁) hs asA asB sA s₂ h
  have hrun₃ : run c (restore c (sn0 c (stateDict s₁).1)) ((asA ++ asB) ++ as₃) = some s₃ := by
    rw [run_append, hrun]; exact hr₃
  obtain ⟨_, _, _, hny₃, hse₃, _⟩ := r0_facts c hv hit hio hne (stateDict s₁).1 _ s₃
    ((noReset_append _ _).mpr ⟨hnr, hn₃⟩) hrun₃ hd₃
  have hnn : s₃.numYielded = s₄.numYielded := by rw [hny₃, hny₄, hj, hlen]
  have hle := stepOf_le c s₃.numYielded
  have e3 : s₃.snap.step = stepOf c s₃.numYielded := hse₃.1
  refine ⟨by rw [hny₃, hj], hnn, ?_, ?_, ?_⟩
  · show s₃.snap.step + (s₃.numYielded - s₃.snap.step) = _
    rw [e3, ← hj, ← hny₃]; omega
  · rw [hnn] at hse₃
    exact ⟨hse₃.1.trans hse₄.1.symm, hse₃.2.1.trans hse₄.2.1.symm, hse₃.2.2.1.trans hse₄.2.2.1.symm,
      fun hf => by rw [hit] at hf; cases hf⟩
  · show s₃.numYielded - s₃.snap.step = s₄.numYielded - s₄.snap.step
    have e4 : s₄.snap.step = stepOf c s₄.numYielded := hse₄.1
    rw [e3, e4, hnn]

end

/-- **`ff_mismatch_detected`.**  The checkpoint of a saving run over configuration `c` is given to a loader over a
CHANGED iterable dataset `c'` (same snapshot interval, or any for which `snapshot_step` is a possible step).  If
the worker that yields the `snapshot_step`-th batch differs between the two datasets, the constructor raises the
`ValueError`, for every schedule of the replay.  (Changes that keep that owner are NOT detected.) -/
theorem ff_mismatch_detected (c c' : Cfg) (hv : c.WF) (hit : c.iterable = true) (hio : c.inOrder = true)
    (hne : NoErr c) (hv' : c'.WF) (hit' : c'.iterable = true) (hio' : c'.inOrder = true) (hne' : NoErr c')
    (as₁ : List Action) (s₁ : State) (hn₁ : NoReset as₁) (hr₁ : run c (init c) as₁ = some s₁) (hd₁ : ¬ died s₁)
    (hs : SnapStep c' (stateDict s₁).1.step)
    (hdiff : (idealAt c' (stateDict s₁).1.step).lastW ≠ (idealAt c (stateDict s₁).1.step).lastW)
    (asA : List Action) (sA : State)
    (h : Replay c' (ffStart c' (stateDict s₁).1) (stateDict s₁).1.step asA sA) :
    ffCheck (stateDict s₁).1 sA = .valueError := by
  obtain ⟨_, _, hse⟩ := snapshot_sound_iter c hv hit hio hne as₁ s₁ hn₁ hr₁ hd₁
  have hstep : s₁.snap.step = stepOf c s₁.numYielded := hse.1
  have hl : (stateDict s₁).1.lastW = (idealAt c (stateDict s₁).1.step).lastW := by
    show s₁.snap.lastW = (idealAt c s₁.snap.step).lastW
    rw [hstep]; exact hse.2.1
  have hc := (ff_check c' hv' hit' hio' hne' _ hs asA sA h).2.2
  cases hk : ffCheck (stateDict s₁).1 sA with
  | valueError => rfl
  | pass => exact absurd ((hc.mp hk).symm.trans hl) hdiff

/-! ### Non-vacuity.  Three workers with shards of 3, 1 and 4 batches (uneven; `batch_size` folded into the batches),
prefetch factor 2, snapshot interval 3; `Ref.stream = 0, 10, 20, 1, 21, 2, 22, 23`.  Saving run `exSave` (workers
answering in reverse order), checkpoint after `k = 4` batches: snapshot of step 3 (`last_yielded_worker_id = 2`,
sampler counter 3), one step since.  Fast-forward constructor: `exA` replays 3 batches (workers in forward order),
the check compares worker 2 with worker 2, `exB` replays 1 batch.  `exC`: the consumer takes `j = 2` batches
(21, 2; a snapshot is taken at step 6); `exD`: to the end of the epoch.  `exFull`: an uninterrupted run of 6. -/

def exFF : Cfg :=
  { W := 3, P := 2, interval := 3, inOrder := true, iterable := true, persistent := false, batches := []
    shards := [[.ok 0, .ok 1, .ok 2], [.ok 10], [.ok 20, .ok 21, .ok 22, .ok 23]] }

def exSv : Snap := ⟨3, 2, 3, [⟨1, false⟩, ⟨1, false⟩, ⟨1, false⟩]⟩

def exSave : List Action :=
  [.next, .work 2, .recv, .work 2, .recv, .work 1, .recv, .work 1, .recv, .work 1, .work 0, .recv, .next, .next,
   .next, .work 2, .recv, .work 2, .recv, .work 0, .recv]

def exA : List Action :=
  [.next, .work 0, .recv, .next, .work 0, .recv, .work 0, .recv, .work 1, .recv, .next, .work 1, .recv, .work 1,
   .work 1, .work 2, .recv]

def exB : List Action := [.next]

def exC : List Action := [.next, .work 2, .recv, .next]

def exD : List Action := [.next, .work 2, .recv, .next, .work 2, .recv, .work 2, .recv, .work 2, .work 0, .recv, .next]

def exFull : List Action :=
  [.next, .work 0, .recv, .next, .work 0, .recv, .work 0, .recv, .work 1, .recv, .next, .work 1, .recv, .work 1,
   .work 1, .work 2, .recv, .next, .next, .work 0, .recv, .work 0, .work 2, .recv, .next]

theorem exFF_hyps : exFF.WF ∧ exFF.iterable = true ∧ exFF.inOrder = true ∧ NoErr exFF ∧ SnapStep exFF exSv.step ∧
    NoReset exSave ∧ NoReset exC ∧ NoReset (exC ++ exD) ∧ NoReset exFull := by
  refine ⟨⟨⟨by decide, by decide⟩, fun _ => rfl⟩, rfl, rfl, by unfold NoErr; decide, ⟨by decide, fun _ => by decide⟩,
    by simp [NoReset, exSave], by simp [NoReset, exC], by simp [NoReset, exC, exD], by simp [NoReset, exFull]⟩

/-- The saving run: 4 batches, checkpoint `(exSv, 1)`; and the ideal state of step 3. -/
example : (run exFF (init exFF) exSave).map (fun s => (yields s.obs, stateDict s, s.obs.contains Obs.workerDied)) =
      some ([0, 10, 20, 1], (exSv, 1), false) ∧
    idealAt exFF 3 = ⟨3, 2, 0, [⟨1, false⟩, ⟨1, false⟩, ⟨1, false⟩]⟩ ∧
    oks (refStream exFF) = [0, 10, 20, 1, 21, 2, 22, 23] := by
  refine ⟨by decide, by decide, by decide⟩

/-- The hypotheses of the theorems are satisfiable: `RestoreFF` holds for the two replay schedules.  After the first
loop `_num_yielded = 3`, `_last_yielded_worker_id = 2` = the saved one, and a snapshot of step 3 has been taken (its
sampler counter is 6 = 3 + 3: the counter restarts from the saved value; it is meaningless for an iterable dataset).
After the constructor `_num_yielded = 4` — not 7 — and `steps_since_snapshot = 1`, as in the saving run. -/
theorem exFF_restoreFF : ∃ sA s₂, RestoreFF exFF (exSv, 1) exA exB sA s₂ ∧
    (sA.numYielded, sA.lastW, stateDict sA) = (3, 2, (⟨3, 2, 6, [⟨1, false⟩, ⟨1, false⟩, ⟨1, false⟩]⟩, 0)) ∧
    (yields s₂.obs, s₂.numYielded, stateDict s₂) =
      ([0, 10, 20, 1], 4, (⟨3, 2, 6, [⟨1, false⟩, ⟨1, false⟩, ⟨1, false⟩]⟩, 1)) ∧
    run exFF (ffStart exFF exSv) (exA ++ exB) = some s₂ := by
  have pA : (run exFF (ffStart exFF exSv) exA).map (fun s => (s.phase, s.obs, s.numYielded, s.lastW, stateDict s)) =
      some (.idle, [.item 0, .item 10, .item 20], 3, 2, (⟨3, 2, 6, [⟨1, false⟩, ⟨1, false⟩, ⟨1, false⟩]⟩, 0)) := by
    decide
  have pB : (run exFF (ffStart exFF exSv) (exA ++ exB)).map (fun s => (s.phase, s.obs, s.numYielded, stateDict s)) =
      some (.idle, [.item 0, .item 10, .item 20, .item 1], 4, (⟨3, 2, 6, [⟨1, false⟩, ⟨1, false⟩, ⟨1, false⟩]⟩, 1)) := by
    decide
  cases hA : run exFF (ffStart exFF exSv) exA with
  | none => rw [hA] at pA; cases pA
  | some sA =>
    rw [hA] at pA
    rw [run_append, hA] at pB
    simp only [Option.bind_some] at pB
    cases hB : run exFF sA exB with
    | none => rw [hB] at pB; cases pB
    | some s₂ =>
      rw [hB] at pB
      simp only [Option.map_some, Option.some.injEq, Prod.mk.injEq] at pA pB
      obtain ⟨a1, a2, a3, a4, a5⟩ := pA
      obtain ⟨b1, b2, b3, b4⟩ := pB
      refine ⟨sA, s₂, ⟨⟨hA, by simp [NoReset, exA], by decide, a1, by unfold died; rw [a2]; decide,
          by rw [a2, ffStart_obs]; rfl⟩, by unfold ffCheck; rw [a4]; rfl,
        ⟨hB, by simp [NoReset, exB], by decide, b1, by unfold died; rw [b2]; decide, by rw [a2, b2]; rfl⟩⟩, ?_, ?_, ?_⟩
      · rw [a3, a4, a5]
      · rw [b2, b3, b4]; rfl
      · rw [run_append, hA]; exact hB

/-- The continuation of the resumed loader (from `ffStart`, whole schedule): the consumer sees `21, 2` after `exC`
(checkpoint then: snapshot of step 6, 0 steps since, `_num_yielded = 6`) and `21, 2, 22, 23, stop` after `exD`;
the uninterrupted run `exFull` after 6 batches has the same checkpoint up to the sampler counter (10 vs 7). -/
example :
    (run exFF (ffStart exFF exSv) (exA ++ exB ++ exC)).map (fun s => ((yields s.obs).drop 4, s.numYielded, stateDict s)) =
      some ([21, 2], 6, (⟨6, 0, 10, [⟨3, false⟩, ⟨1, true⟩, ⟨2, false⟩]⟩, 0)) ∧
    (run exFF (ffStart exFF exSv) (exA ++ exB ++ (exC ++ exD))).map (fun s => (s.obs.drop 4, s.numYielded)) =
      some ([.item 21, .item 2, .item 22, .item 23, .stop], 8) ∧
    (run exFF (init exFF) exFull).map (fun s => (yields s.obs, s.numYielded, stateDict s)) =
      some ([0, 10, 20, 1, 21, 2], 6, (⟨6, 0, 7, [⟨3, false⟩, ⟨1, true⟩, ⟨2, false⟩]⟩, 0)) ∧
    (oks (refStream exFF)).drop 4 = [21, 2, 22, 23] := by
  refine ⟨by decide, by decide, by decide, by decide⟩

/-- `ff_check_passes`, `resume_exact_ff` and `chain_ff` applied to the concrete runs (`k = 4`, `j = 2`). -/
example :
    (∀ s₁ sA, run exFF (init exFF) exSave = some s₁ → ¬ died s₁ →
      Replay exFF (ffStart exFF (stateDict s₁).1) (stateDict s₁).1.step exA sA → ffCheck (stateDict s₁).1 sA = .pass) ∧
    (∀ s₁ sA s₂ s₃, run exFF (init exFF) exSave = some s₁ → ¬ died s₁ →
      RestoreFF exFF (stateDict s₁) exA exB sA s₂ → run exFF s₂ (exC ++ exD) = some s₃ → ¬ died s₃ →
      s₂.numYielded = (yields s₁.obs).length ∧ (stateDict s₂).2 = (stateDict s₁).2 ∧
      (Obs.stop ∈ s₃.obs →
        (yields s₃.obs).drop (yields s₁.obs).length = (oks (refStream exFF)).drop (yields s₁.obs).length)) ∧
    (∀ s₁ sA s₂ s₃ s₄, run exFF (init exFF) exSave = some s₁ → ¬ died s₁ →
      RestoreFF exFF (stateDict s₁) exA exB sA s₂ → run exFF s₂ exC = some s₃ → ¬ died s₃ →
      run exFF (init exFF) exFull = some s₄ → ¬ died s₄ →
      (yields s₃.obs).length = (yields s₁.obs).length + 2 → (yields s₄.obs).length = (yields s₁.obs).length + 2 →
      s₃.numYielded = (yields s₁.obs).length + 2 ∧ SnapEq exFF (stateDict s₃).1 (stateDict s₄).1 ∧
      (stateDict s₃).2 = (stateDict s₄).2) := by
  obtain ⟨h1, h2, h3, h4, _, h5, h6, h7, h8⟩ := exFF_hyps
  refine ⟨fun s₁ sA r1 d1 hrep => ff_check_passes exFF h1 h2 h3 h4 exSave s₁ h5 r1 d1 exA sA hrep, ?_, ?_⟩
  · intro s₁ sA s₂ s₃ r1 d1 hR r3 d3
    obtain ⟨_, _, a3, _, a5, _, a7⟩ := resume_exact_ff exFF h1 h2 h3 h4 exSave s₁ h5 r1 d1 exA exB sA s₂ hR _ s₃ h7 r3 d3
    exact ⟨a3, a5, a7⟩
  · intro s₁ sA s₂ s₃ s₄ r1 d1 hR r3 d3 r4 d4 hj hl
    obtain ⟨a1, _, _, a4, a5⟩ := chain_ff exFF h1 h2 h3 h4 exSave s₁ h5 r1 d1 exA exB sA s₂ hR exC s₃ h6 r3 d3
      exFull s₄ h8 r4 d4 2 hj hl
    exact ⟨a1, a4, a5⟩

/-- Non-vacuity of `ff_mismatch_detected`: the dataset changed — worker 1's shard is now empty — so the third batch is
yielded by worker 0 instead of worker 2 (`0, 20, 1, …`): after the replay of 3 batches (`exM`)
`_last_yielded_worker_id = 0 ≠ 2`, the constructor raises the `ValueError`. -/
def exFF' : Cfg := { exFF with shards := [[.ok 0, .ok 1, .ok 2], [], [.ok 20, .ok 21, .ok 22, .ok 23]] }

def exM : List Action :=
  [.next, .work 0, .recv, .next, .work 0, .recv, .work 0, .recv, .work 1, .recv, .work 1, .work 1, .work 2, .recv, .next]

example : exFF'.WF ∧ exFF'.iterable = true ∧ exFF'.inOrder = true ∧ NoErr exFF' ∧ SnapStep exFF' exSv.step ∧
    (idealAt exFF' 3).lastW = 0 ∧ (idealAt exFF 3).lastW = 2 ∧
    (run exFF' (ffStart exFF' exSv) exM).map (fun s => (s.phase, s.obs, s.numYielded, s.lastW, ffCheck exSv s)) =
      some (.idle, [.item 0, .item 20, .item 1], 3, 0, .valueError) ∧
    NoReset exM ∧ Action.stateDict ∉ exM := by
  refine ⟨⟨⟨by decide, by decide⟩, fun _ => rfl⟩, rfl, rfl, by unfold NoErr; decide, ⟨by decide, fun _ => by decide⟩,
    by decide, by decide, by decide, by simp [NoReset, exM], by decide⟩

end TDV.MPRFF
