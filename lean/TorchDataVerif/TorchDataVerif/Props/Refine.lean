import TorchDataVerif.Proofs.RefinePFObs
import TorchDataVerif.Proofs.RefinePMObs
import TorchDataVerif.Proofs.RefinePMSeq
import TorchDataVerif.Proofs.RefinePFTransfer
/-!
# The link between the two levels: the thread protocols refine the sequential `buffered`

`Model/Nodes.lean` abstracts `Prefetcher` / in-order `ParallelMapper` by the sequential node `buffered sf src`
(theorems in Props/C02, Props/C04); `Model/PF.lean`, `Model/PM.lean` model the real thread protocols.
Here: for every interleaving, the results the CONSUMER sees from the protocol (`next()` → item / StopIteration / error,
`get_state()` → (snapshot position, steps)) are EQUAL to the results of the same consumer operations on `buffered`
through `rnext`/`rget`.  Observation functions: `pfObs` (Proofs/RefinePFObs.lean), `seqRun` (Proofs/RefinePFSeq.lean).

Scope: source = a finite list ending in StopIteration, whose state after `i` items is the number `i`
(`listSource`: `IterableWrapper(list)`); one generation (= one `_SingleThreadedMapper` object) per statement;
a new generation created by `reset(state)` is `pf_resume_refines`.  No hypothesis on `prefetch_factor`
(with 0 no call ever returns) nor on `snapshot_frequency` (0 included).
-/
namespace TDV.Refine
open TDV.Node

/-- **Prefetcher refines `buffered`** (generation started by `reset(None)`).  For every prefetch factor, every snapshot
frequency, every source list, every sequence of events from the start of the generation — every interleaving of reader
steps, consumer micro-steps, timeouts, `next()` calls and `get_state()` calls — the results of the consumer operations
that have returned are the results of the same operations on `buffered sf (listSource l)` after `reset(None)`
(from any runtime state `R` of the sequential node object). -/
theorem pf_refines_buffered (pf sf : Nat) (l : List Nat) (evs : List Ev) (s : PF.State) (obs : List Res)
    (R : Run (buffered sf (listSource (l.map Item.atom))))
    (h : pfRunObs pf sf l 0 evs = some (s, obs)) :
    obs.map Res.toS =
      seqRun (buffered sf (listSource (l.map Item.atom)))
        ((buffered sf (listSource (l.map Item.atom))).rreset R none) (obs.map Res.op) := by
  rw [seq_list_fresh, pfRunObs_spec h, List.drop_zero]

/-- non-vacuity.  `Prefetcher(IterableWrapper([7,8,9]), prefetch_factor=2, snapshot_frequency=2)`: the reader first runs
two items ahead (queue of 2, nothing delivered); the consumer alternates `get_state()` and `next()`; the reader pulls the
third item between the consumer's `release` and `pop_version`; the fourth `next()` first times out on the empty queue;
after the end marker, `next()` raises twice. -/
def exEvs : List Ev :=
  [.act .rInit, .act .cBoot, .act .rIsSet, .act .rAcq, .act .rEnter, .act .rLeave, .act .rPut,
   .act .rIsSet, .act .rAcq, .act .rEnter, .act .rLeave, .act .rAppend, .act .rPut, .act .rIsSet, .act .rAcqT,
   .getState,
   .act .cCall, .act .cIsSet, .act .cGet, .act .cRel, .act .cPop, .getState,
   .act .cCall, .act .cIsSet, .act .cGet, .act .cRel, .act .rIsSet, .act .rAcq, .act .rEnter, .act .rLeave, .act .cPop,
   .act .rPut, .getState,
   .act .cCall, .act .cIsSet, .act .cGet, .act .cRel, .act .cPop, .getState,
   .act .cCall, .act .cIsSet, .act .cGetT,
   .act .rIsSet, .act .rAcq, .act .rEnter, .act .rLeave, .act .rPut, .act .rExit,
   .act .cIsSet, .act .cGet, .act .cRel, .act .cSet,
   .act .cCall, .act .cIsSet, .getState]

def exObs : List Res :=
  [.state 0 0, .item 7, .state 0 1, .item 8, .state 2 0, .item 9, .state 2 1, .stop, .stop, .state 2 1]

-- PLACEHOLDER1

/-- the reader is ahead of the consumer: after the first 15 events two items are queued and none is delivered -/
example : (pfRunObs 2 2 [7, 8, 9] 0 (exEvs.take 15)).map (fun p => (p.1.q.length, PF.delivered p.1, p.2)) =
    some (2, [], []) := by decide

/-- … and the same operations on the sequential node give the same results -/
example : seqRun (buffered 2 (listSource ([7, 8, 9].map Item.atom)))
    ((buffered 2 (listSource ([7, 8, 9].map Item.atom))).rreset (Node.rfresh _) none) (exObs.map Res.op) =
    exObs.map Res.toS := rfl

/-- **A generation created by `reset((j, k))`** (`Prefetcher.reset(state)` = `_shutdown` + a new `_SingleThreadedMapper`
whose constructor resets the source to the snapshot `j`, starts a new reader and calls `next()` `k` times).  In the
protocol model this is a fresh run with `base = j`, `src = l.drop j` whose first `k` consumer operations are those
fast-forward calls (`hff`).  For a state `(j, k)` with `j + k ≤ |l|` (every state `get_state()` can return, see
`pf_checkpoint_in_range`): none of the fast-forward calls raises (so the constructor does not take its ValueError
branch), and the results of all later operations are those of `buffered` after `reset (some (j, k))`. -/
theorem pf_resume_refines (pf sf : Nat) (l : List Nat) (j k : Nat) (hjk : j + k ≤ l.length)
    (evs : List Ev) (s : PF.State) (obs : List Res)
    (R : Run (buffered sf (listSource (l.map Item.atom))))
    (h : pfRunObs pf sf l j evs = some (s, obs))
    (hff : ∀ x ∈ obs.take k, x.op = .next) :
    (∀ x ∈ obs.take k, ∃ v, x = .item v) ∧
    (obs.drop k).map Res.toS =
      seqRun (buffered sf (listSource (l.map Item.atom)))
        ((buffered sf (listSource (l.map Item.atom))).rreset R (some (j, k))) ((obs.drop k).map Res.op) := by
  have hs := pfRunObs_spec h
  rw [← List.take_append_drop k obs, List.map_append, List.map_append] at hs
  have hall : ∀ o ∈ (obs.take k).map Res.op, o = Op.next := by
    intro o ho
    obtain ⟨x, hx, rfl⟩ := List.mem_map.mp ho
    exact hff x hx
  rw [spec_append_nexts _ _ _ _ _ _ hall] at hs
  have hlen : ((obs.take k).map Res.toS).length =
      (spec sf j ((l.drop j).map Item.atom) 0 ((obs.take k).map Res.op)).length := by
    rw [spec_length]; simp
  obtain ⟨h1, h2⟩ := List.append_inj hs hlen
  constructor
  · intro x hx
    have hm : x.toS ∈ spec sf j ((l.drop j).map Item.atom) 0 ((obs.take k).map Res.op) := by
      rw [← h1]; exact List.mem_map_of_mem hx
    obtain ⟨i, _, hi, he⟩ := spec_nexts_mem _ _ _ _ _ hall _ hm
    have hk : i < ((l.drop j).map Item.atom).length := by
      have : ((obs.take k).map Res.op).length ≤ k := by simp [List.length_take]; omega
      simp only [List.length_map, List.length_drop]; omega
    rw [nextOut_lt hk] at he
    cases x <;> simp [Res.toS] at he
    exact ⟨_, rfl⟩
  · by_cases hlk : obs.length ≤ k
    · rw [List.drop_eq_nil_of_le hlk]; rfl
    · have htk : ((obs.take k).map Res.op).length = k := by simp [List.length_take]; omega
      rw [htk, Nat.zero_add] at h2
      rw [h2, seq_list_resume _ _ _ _ _ (by simpa using hjk), List.map_drop]

/-- non-vacuity: the generation created by `reset((2, 1))` (the checkpoint `exObs` ends with): the reader pulls the last
item and the end marker and exits before the constructor's single fast-forward call; then `get_state()`, `next()` (raises
StopIteration), `get_state()`. -/
def exEvsResume : List Ev :=
  [.act .rInit, .act .cBoot, .act .rIsSet, .act .rAcq, .act .rEnter, .act .rLeave, .act .rPut,
   .act .rIsSet, .act .rAcq, .act .rEnter, .act .rLeave, .act .rPut, .act .rExit,
   .act .cCall, .act .cIsSet, .act .cGet, .act .cRel, .act .cPop, .getState,
   .act .cCall, .act .cIsSet, .act .cGet, .act .cRel, .act .cSet, .getState]

example : (pfRunObs 2 2 [7, 8, 9] 2 exEvsResume).map Prod.snd = some [.item 9, .state 2 1, .stop, .state 2 1] := by
  decide

example : seqRun (buffered 2 (listSource ([7, 8, 9].map Item.atom)))
    ((buffered 2 (listSource ([7, 8, 9].map Item.atom))).rreset (Node.rfresh _) (some ((2, 1) : Nat × Nat))) [.get, .next, .get] =
    [Res.state 2 1, Res.stop, Res.state 2 1].map Res.toS := rfl

/-! ## ParallelMapper (in order, thread workers, total `map_fn`) refines `buffered sf (mapper f src)` -/

/-- **ParallelMapper refines `buffered ∘ mapper`** (generation started by `reset(None)`).  For every number of workers,
every `max_concurrent`, every snapshot frequency, every source list, every total `map_fn` `f`, every sequence of events
from the start of the generation — every interleaving of reader, worker, sorter steps, consumer micro-steps, timeouts,
`next()` and `get_state()` calls — the results of the consumer operations that have returned are the results of the same
operations on `buffered sf (mapper f (listSource l))` (the composition `Drv/Nodes.lean` uses for "pmap") after
`reset(None)`. -/
theorem pm_refines_buffered_mapper (N max sf : Nat) (l : List Nat) (f : Nat → Nat) (evs : List MEv) (s : PM.State)
    (obs : List Res) (R : Run (pmNode sf f (l.map Item.atom)))
    (h : pmRunObs N max sf l f 0 evs = some (s, obs)) :
    obs.map Res.toS =
      seqRun (pmNode sf f (l.map Item.atom)) ((pmNode sf f (l.map Item.atom)).rreset R none) (obs.map Res.op) := by
  rw [seq_map_fresh, pmRunObs_spec h, List.drop_zero, map_liftF]

/-- non-vacuity.  `ParallelMapper(IterableWrapper([5,7]), x ↦ x+1, num_workers=2, max_concurrent=2, snapshot_frequency=1)`
on the run `PM.trE` (both items are pulled, mapped — the second overtakes the first at the sorter — and sorted before the
consumer's first call), with `get_state()` before every `next()` and two calls after the end. -/
def exMEvs : List MEv :=
  (PM.trE.take 29).map .act ++ [.getState] ++ ((PM.trE.drop 29).take 7).map .act ++ [.getState] ++
  ((PM.trE.drop 36).take 7).map .act ++ [.getState] ++ (PM.trE.drop 43).map .act ++
  [.getState, .act .cCall, .act .cIsSet, .getState]

def exMObs : List Res :=
  [.state 0 0, .item 6, .state 1 0, .item 8, .state 2 0, .stop, .state 2 0, .stop, .state 2 0]

example : (pmRunObs 2 2 1 [5, 7] (· + 1) 0 exMEvs).map Prod.snd = some exMObs := by decide

/-- read-ahead: after the first 29 events both results wait in the sorter's queue and nothing is delivered -/
example : (pmRunObs 2 2 1 [5, 7] (· + 1) 0 (exMEvs.take 29)).map (fun p => (p.1.sq.length, p.1.outs, p.2)) =
    some (2, [], []) := by decide

example : seqRun (pmNode 1 (· + 1) ([5, 7].map Item.atom))
    ((pmNode 1 (· + 1) ([5, 7].map Item.atom)).rreset (Node.rfresh _) none) (exMObs.map Res.op) =
    exMObs.map Res.toS := rfl

/-- **A ParallelMapper generation created by `reset((j, k))`**: as `pf_resume_refines`. -/
theorem pm_resume_refines (N max sf : Nat) (l : List Nat) (f : Nat → Nat) (j k : Nat) (hjk : j + k ≤ l.length)
    (evs : List MEv) (s : PM.State) (obs : List Res) (R : Run (pmNode sf f (l.map Item.atom)))
    (h : pmRunObs N max sf l f j evs = some (s, obs))
    (hff : ∀ x ∈ obs.take k, x.op = .next) :
    (∀ x ∈ obs.take k, ∃ v, x = .item v) ∧
    (obs.drop k).map Res.toS =
      seqRun (pmNode sf f (l.map Item.atom)) ((pmNode sf f (l.map Item.atom)).rreset R (some (j, k)))
        ((obs.drop k).map Res.op) := by
  have hs := pmRunObs_spec h
  rw [← List.take_append_drop k obs, List.map_append, List.map_append] at hs
  have hall : ∀ o ∈ (obs.take k).map Res.op, o = Op.next := by
    intro o ho
    obtain ⟨x, hx, rfl⟩ := List.mem_map.mp ho
    exact hff x hx
  rw [spec_append_nexts _ _ _ _ _ _ hall] at hs
  have hlen : ((obs.take k).map Res.toS).length =
      (spec sf j (((l.drop j).map f).map Item.atom) 0 ((obs.take k).map Res.op)).length := by
    rw [spec_length]; simp
  obtain ⟨h1, h2⟩ := List.append_inj hs hlen
  constructor
  · intro x hx
    have hm : x.toS ∈ spec sf j (((l.drop j).map f).map Item.atom) 0 ((obs.take k).map Res.op) := by
      rw [← h1]; exact List.mem_map_of_mem hx
    obtain ⟨i, _, hi, he⟩ := spec_nexts_mem _ _ _ _ _ hall _ hm
    have hk : i < (((l.drop j).map f).map Item.atom).length := by
      have : ((obs.take k).map Res.op).length ≤ k := by simp [List.length_take]; omega
      simp only [List.length_map, List.length_drop]; omega
    rw [nextOut_lt hk] at he
    cases x <;> simp [Res.toS] at he
    exact ⟨_, rfl⟩
  · by_cases hlk : obs.length ≤ k
    · rw [List.drop_eq_nil_of_le hlk]; rfl
    · have htk : ((obs.take k).map Res.op).length = k := by simp [List.length_take]; omega
      rw [htk, Nat.zero_add] at h2
      rw [h2, seq_map_resume _ _ _ _ _ _ (by simpa using hjk), ← List.map_drop, map_liftF]

/-! ## Transfer: theorems about `buffered` hold of the consumer-visible behaviour of the protocols -/

/-- Every checkpoint `get_state()` can return in a generation started at position `j0 ≤ |l|` is in range:
`j0 ≤ j` and `j + k ≤ |l|` — the precondition of `pf_resume_refines`. -/
theorem pf_checkpoint_in_range (pf sf : Nat) (l : List Nat) (j0 : Nat) (hj0 : j0 ≤ l.length) (evs : List Ev)
    (s : PF.State) (obs : List Res) (h : pfRunObs pf sf l j0 evs = some (s, obs)) (j k : Nat)
    (hm : Res.state j k ∈ obs) : j0 ≤ j ∧ j + k ≤ l.length := by
  have hs := pfRunObs_spec h
  have hm' : SRes.state (j, k) ∈ obs.map Res.toS := List.mem_map.mpr ⟨_, hm, rfl⟩
  rw [hs] at hm'
  obtain ⟨m, hm1, rfl, rfl⟩ := spec_state_mem _ _ _ _ _ _ _ hm'
  have := PF.jstar_le sf m
  simp only [List.length_map, List.length_drop] at hm1
  omega

/-- the same for a ParallelMapper generation -/
theorem pm_checkpoint_in_range (N max sf : Nat) (l : List Nat) (f : Nat → Nat) (j0 : Nat) (hj0 : j0 ≤ l.length)
    (evs : List MEv) (s : PM.State) (obs : List Res) (h : pmRunObs N max sf l f j0 evs = some (s, obs)) (j k : Nat)
    (hm : Res.state j k ∈ obs) : j0 ≤ j ∧ j + k ≤ l.length := by
  have hs := pmRunObs_spec h
  have hm' : SRes.state (j, k) ∈ obs.map Res.toS := List.mem_map.mpr ⟨_, hm, rfl⟩
  rw [hs] at hm'
  obtain ⟨m, hm1, rfl, rfl⟩ := spec_state_mem _ _ _ _ _ _ _ hm'
  have := PF.jstar_le sf m
  simp only [List.length_map, List.length_drop] at hm1
  omega

/-- **`threaded_pipeline_sound`** — the glue between the two levels, as a theorem.  Whatever holds of the results of
every sequence of consumer operations on the sequential `buffered sf (listSource l)` after `reset(None)` (any property
`P` of operations and results: C02, C04, C06 statements about `buffered` are of this form) holds of the consumer-visible
behaviour of every run of the Prefetcher protocol, under every interleaving. -/
theorem threaded_pipeline_sound (pf sf : Nat) (l : List Nat)
    (R : Run (buffered sf (listSource (l.map Item.atom))))
    (P : List Op → List (SRes (Nat × Nat)) → Prop)
    (hP : ∀ ops, P ops (seqRun (buffered sf (listSource (l.map Item.atom)))
      ((buffered sf (listSource (l.map Item.atom))).rreset R none) ops))
    (evs : List Ev) (s : PF.State) (obs : List Res) (h : pfRunObs pf sf l 0 evs = some (s, obs)) :
    P (obs.map Res.op) (obs.map Res.toS) := by
  rw [pf_refines_buffered pf sf l evs s obs R h]; exact hP _

/-- the same for the ParallelMapper protocol (in order, thread workers, total `map_fn`) -/
theorem threaded_pipeline_sound_pm (N max sf : Nat) (l : List Nat) (f : Nat → Nat)
    (R : Run (pmNode sf f (l.map Item.atom)))
    (P : List Op → List (SRes (Nat × Nat)) → Prop)
    (hP : ∀ ops, P ops (seqRun (pmNode sf f (l.map Item.atom)) ((pmNode sf f (l.map Item.atom)).rreset R none) ops))
    (evs : List MEv) (s : PM.State) (obs : List Res) (h : pmRunObs N max sf l f 0 evs = some (s, obs)) :
    P (obs.map Res.op) (obs.map Res.toS) := by
  rw [pm_refines_buffered_mapper N max sf l f evs s obs R h]; exact hP _

/-- **A concrete transfer (C02 + C04 → the real protocol).**  A Prefetcher generation started by `reset(None)` delivers
the items `its1`, then `get_state()` returns `(j, k)`; a second Prefetcher generation (any prefetch factor) is created
by `reset((j, k))`: its constructor fast-forwards `k` calls (`ff`), then it delivers `its2` and raises StopIteration.
Then `its1 ++ its2` is exactly the source list — under every interleaving of both runs.  Proof: both runs are read as
runs of `buffered` (`pf_refines_buffered`, `pf_resume_refines`), where the statement is `buffered_list_resume_exact`,
i.e. `buffered_lawful_partial` (Props/C02) + `buffered_denote` (Props/C04). -/
theorem pf_checkpoint_resume_exact (pf1 pf2 sf : Nat) (l its1 its2 : List Nat) (j k : Nat)
    (evs1 evs2 : List Ev) (s1 s2 : PF.State) (ff : List Res)
    (h1 : pfRunObs pf1 sf l 0 evs1 = some (s1, its1.map Res.item ++ [.state j k]))
    (h2 : pfRunObs pf2 sf l j evs2 = some (s2, ff ++ (its2.map Res.item ++ [.stop])))
    (hff : ff.length = k) (hffn : ∀ x ∈ ff, x.op = .next) :
    its1 ++ its2 = l := by
  have hR : (buffered sf (listSource (l.map Item.atom))).Reach
      ((buffered sf (listSource (l.map Item.atom))).rreset (Node.rfresh _) none) := Node.Reach.initNone
  generalize (buffered sf (listSource (l.map Item.atom))).rreset (Node.rfresh _) none = R at hR
  -- first generation, read on `buffered`
  have e1 := pf_refines_buffered pf1 sf l evs1 s1 _ R h1
  rw [List.map_append, List.map_append, op_items, toS_items, seqRun_append, seqRun_nexts, seqAfter_nexts] at e1
  obtain ⟨e1a, e1b⟩ := List.append_inj' e1 rfl
  have ho1 := (out_map_inj e1a).symm
  have htok : ((buffered sf (listSource (l.map Item.atom))).rget
      ((buffered sf (listSource (l.map Item.atom))).after its1.length
        ((buffered sf (listSource (l.map Item.atom))).rreset R none))).1 = (j, k) := by
    have e1b' : [SRes.state (j, k)] = [SRes.state ((buffered sf (listSource (l.map Item.atom))).rget
      ((buffered sf (listSource (l.map Item.atom))).after its1.length
        ((buffered sf (listSource (l.map Item.atom))).rreset R none))).1] := e1b
    exact (SRes.state.inj (List.cons.inj e1b').1).symm
  -- the checkpoint is in range
  have hjk := (pf_checkpoint_in_range pf1 sf l 0 (Nat.zero_le _) evs1 s1 _ h1 j k (by simp)).2
  -- second generation, read on `buffered`
  have htake : (ff ++ (its2.map Res.item ++ [Res.stop])).take k = ff := by
    rw [← hff]; simp
  have hdrop : (ff ++ (its2.map Res.item ++ [Res.stop])).drop k = its2.map Res.item ++ [Res.stop] := by
    rw [← hff]; simp
  have e2 := (pf_resume_refines pf2 sf l j k hjk evs2 s2 _ R h2 (by rw [htake]; exact hffn)).2
  rw [hdrop, List.map_append, List.map_append, op_items, toS_items] at e2
  have hops : List.replicate its2.length Op.next ++ List.map Res.op [Res.stop] =
      List.replicate (its2.length + 1) Op.next := by
    rw [List.replicate_succ']; rfl
  rw [hops, seqRun_nexts] at e2
  have ho2 : (buffered sf (listSource (l.map Item.atom))).outs (its2.length + 1)
      ((buffered sf (listSource (l.map Item.atom))).rreset R (some (j, k))) =
      (its2.map Item.atom).map Out.item ++ [Out.stop] :=
    out_map_inj (e2.symm.trans (by rw [List.map_append]; rfl))
  have ho2' : (buffered sf (listSource (l.map Item.atom))).outs (its2.length + 1)
      ((buffered sf (listSource (l.map Item.atom))).rreset R
        (some ((buffered sf (listSource (l.map Item.atom))).rget
          ((buffered sf (listSource (l.map Item.atom))).after its1.length
            ((buffered sf (listSource (l.map Item.atom))).rreset R none))).1)) =
      (its2.map Item.atom).map Out.item ++ [Out.stop] := by
    rw [htok]; exact ho2
  have := buffered_list_resume_exact sf (l.map Item.atom) R R hR hR its1.length its2.length
    (its1.map Item.atom) (its2.map Item.atom) ho1 ho2'
  rw [← List.map_append] at this
  exact atom_map_inj this

/-- non-vacuity of `pf_checkpoint_resume_exact`: first generation = the reader two ahead, one `next()`, `get_state()`
= (0, 1); second generation created by `reset((0, 1))` = the run `exEvs` without its `get_state()` calls and its last call:
one fast-forward call (7), then 8, 9, StopIteration. -/
def exEvs1 : List Ev := exEvs.take 15 ++ (exEvs.drop 16).take 6
def exEvs2 : List Ev := ((exEvs.filter (fun e => e != .getState)).dropLast).dropLast

example : (pfRunObs 2 2 [7, 8, 9] 0 exEvs1).map Prod.snd = some ([7].map Res.item ++ [.state 0 1]) ∧
    (pfRunObs 2 2 [7, 8, 9] 0 exEvs2).map Prod.snd = some ([.item 7] ++ ([8, 9].map Res.item ++ [.stop])) := by
  constructor <;> decide

/-- non-vacuity of `threaded_pipeline_sound`: a property of `buffered` (the first operation, if it is `get_state()`,
returns position 0 with 0 steps) transferred to every Prefetcher run -/
example (pf sf : Nat) (l : List Nat) (evs : List Ev) (s : PF.State) (obs : List Res)
    (h : pfRunObs pf sf l 0 evs = some (s, obs)) :
    (obs.map Res.op).head? = some .get → (obs.map Res.toS).head? = some (.state (0, 0)) :=
  threaded_pipeline_sound pf sf l (Node.rfresh _)
    (fun ops rs => ops.head? = some .get → rs.head? = some (.state (0, 0)))
    (by intro ops; cases ops with
        | nil => intro h; cases h
        | cons o ops => cases o <;> intro h <;> first | cases h; done | rfl) evs s obs h

end TDV.Refine
