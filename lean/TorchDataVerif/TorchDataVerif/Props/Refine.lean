import TorchDataVerif.Proofs.RefinePFObs
/-!
# The link between the two levels: the thread protocols refine the sequential `buffered`

`Model/Nodes.lean` abstracts `Prefetcher` / in-order `ParallelMapper` by the sequential node `buffered sf src`
(theorems in Props/C02, Props/C04); `Model/PF.lean`, `Model/PM.lean` model the real thread protocols.
Here: for every interleaving, the results the CONSUMER sees from the protocol (`next()` → item / StopIteration / error,
`get_state()` → (snapshot position, steps)) are EQUAL to the results of the same consumer operations on `buffered`
through `rnext`/`rget`.  Observation functions: `pfObs` (Proofs/RefinePFObs.lean), `seqRun` (Proofs/RefinePFSeq.lean).

Scope: source = a finite list ending in StopIteration, whose state after `i` items is the number `i`
(`listSource`: `IterableWrapper(list)`); one generation (= one `_SingleThreadedMapper` object) per statement;
a new generation created by `reset(state)` is `pf_resume_refines`.  No hypothesis on `prefetch_factor`
(with 0 no call ever returns) nor on `snapshot_frequency` (0 included).
-/
namespace TDV.Refine
open TDV.Node

/-- **Prefetcher refines `buffered`** (generation started by `reset(None)`).  For every prefetch factor, every snapshot
frequency, every source list, every sequence of events from the start of the generation — every interleaving of reader
steps, consumer micro-steps, timeouts, `next()` calls and `get_state()` calls — the results of the consumer operations
that have returned are the results of the same operations on `buffered sf (listSource l)` after `reset(None)`
(from any runtime state `R` of the sequential node object). -/
theorem pf_refines_buffered (pf sf : Nat) (l : List Nat) (evs : List Ev) (s : PF.State) (obs : List Res)
    (R : Run (buffered sf (listSource (l.map Item.atom))))
    (h : pfRunObs pf sf l 0 evs = some (s, obs)) :
    obs.map Res.toS =
      seqRun (buffered sf (listSource (l.map Item.atom)))
        ((buffered sf (listSource (l.map Item.atom))).rreset R none) (obs.map Res.op) := by
  rw [seq_list_fresh, pfRunObs_spec h, List.drop_zero]

/-- non-vacuity.  `Prefetcher(IterableWrapper([7,8,9]), prefetch_factor=2, snapshot_frequency=2)`: the reader first runs
two items ahead (queue of 2, nothing delivered); the consumer alternates `get_state()` and `next()`; the reader pulls the
third item between the consumer's `release` and `pop_version`; the fourth `next()` first times out on the empty queue;
after the end marker, `next()` raises twice. -/
def exEvs : List Ev :=
  [.act .rInit, .act .cBoot, .act .rIsSet, .act .rAcq, .act .rEnter, .act .rLeave, .act .rPut,
   .act .rIsSet, .act .rAcq, .act .rEnter, .act .rLeave, .act .rAppend, .act .rPut, .act .rIsSet, .act .rAcqT,
   .getState,
   .act .cCall, .act .cIsSet, .act .cGet, .act .cRel, .act .cPop, .getState,
   .act .cCall, .act .cIsSet, .act .cGet, .act .cRel, .act .rIsSet, .act .rAcq, .act .rEnter, .act .rLeave, .act .cPop,
   .act .rPut, .getState,
   .act .cCall, .act .cIsSet, .act .cGet, .act .cRel, .act .cPop, .getState,
   .act .cCall, .act .cIsSet, .act .cGetT,
   .act .rIsSet, .act .rAcq, .act .rEnter, .act .rLeave, .act .rPut, .act .rExit,
   .act .cIsSet, .act .cGet, .act .cRel, .act .cSet,
   .act .cCall, .act .cIsSet, .getState]

def exObs : List Res :=
  [.state 0 0, .item 7, .state 0 1, .item 8, .state 2 0, .item 9, .state 2 1, .stop, .stop, .state 2 1]

-- PLACEHOLDER1

/-- the reader is ahead of the consumer: after the first 15 events two items are queued and none is delivered -/
example : (pfRunObs 2 2 [7, 8, 9] 0 (exEvs.take 15)).map (fun p => (p.1.q.length, PF.delivered p.1, p.2)) =
    some (2, [], []) := by decide

/-- … and the same operations on the sequential node give the same results -/
example : seqRun (buffered 2 (listSource ([7, 8, 9].map Item.atom)))
    ((buffered 2 (listSource ([7, 8, 9].map Item.atom))).rreset (Node.rfresh _) none) (exObs.map Res.op) =
    exObs.map Res.toS := rfl

/-- **A generation created by `reset((j, k))`** (`Prefetcher.reset(state)` = `_shutdown` + a new `_SingleThreadedMapper`
whose constructor resets the source to the snapshot `j`, starts a new reader and calls `next()` `k` times).  In the
protocol model this is a fresh run with `base = j`, `src = l.drop j` whose first `k` consumer operations are those
fast-forward calls (`hff`).  For a state `(j, k)` with `j + k ≤ |l|` (every state `get_state()` can return, see
`pf_checkpoint_in_range`): none of the fast-forward calls raises (so the constructor does not take its ValueError
branch), and the results of all later operations are those of `buffered` after `reset (some (j, k))`. -/
theorem pf_resume_refines (pf sf : Nat) (l : List Nat) (j k : Nat) (hjk : j + k ≤ l.length)
    (evs : List Ev) (s : PF.State) (obs : List Res)
    (R : Run (buffered sf (listSource (l.map Item.atom))))
    (h : pfRunObs pf sf l j evs = some (s, obs))
    (hff : ∀ x ∈ obs.take k, x.op = .next) :
    (∀ x ∈ obs.take k, ∃ v, x = .item v) ∧
    (obs.drop k).map Res.toS =
      seqRun (buffered sf (listSource (l.map Item.atom)))
        ((buffered sf (listSource (l.map Item.atom))).rreset R (some (j, k))) ((obs.drop k).map Res.op) := by
  have hs := pfRunObs_spec h
  rw [← List.take_append_drop k obs, List.map_append, List.map_append] at hs
  have hall : ∀ o ∈ (obs.take k).map Res.op, o = Op.next := by
    intro o ho
    obtain ⟨x, hx, rfl⟩ := List.mem_map.mp ho
    exact hff x hx
  rw [spec_append_nexts _ _ _ _ _ _ hall] at hs
  have hlen : ((obs.take k).map Res.toS).length =
      (spec sf j ((l.drop j).map Item.atom) 0 ((obs.take k).map Res.op)).length := by
    rw [spec_length]; simp
  obtain ⟨h1, h2⟩ := List.append_inj hs hlen
  constructor
  · intro x hx
    have hm : x.toS ∈ spec sf j ((l.drop j).map Item.atom) 0 ((obs.take k).map Res.op) := by
      rw [← h1]; exact List.mem_map_of_mem hx
    obtain ⟨i, _, hi, he⟩ := spec_nexts_mem _ _ _ _ _ hall _ hm
    have hk : i < ((l.drop j).map Item.atom).length := by
      have : ((obs.take k).map Res.op).length ≤ k := by simp [List.length_take]; omega
      simp only [List.length_map, List.length_drop]; omega
    rw [nextOut_lt hk] at he
    cases x <;> simp [Res.toS] at he
    exact ⟨_, rfl⟩
  · by_cases hlk : obs.length ≤ k
    · rw [List.drop_eq_nil_of_le hlk]; rfl
    · have htk : ((obs.take k).map Res.op).length = k := by simp [List.length_take]; omega
      rw [htk, Nat.zero_add] at h2
      rw [h2, seq_list_resume _ _ _ _ _ (by simpa using hjk), List.map_drop]

end TDV.Refine
