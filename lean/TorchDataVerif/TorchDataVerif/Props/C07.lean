import TorchDataVerif.Proofs.Incr
/-!
# C07 — worker dataset state in a checkpoint is exactly what the worker reported

Property theorems for the delta transfer of `incremental_state.py` (model `TDV.Incr`).
Only statements that decide the property live here; helper lemmas are in `Proofs/Incr.lean`.
-/
namespace TDV.Incr

/-- Flattening a well-formed value gives pairwise distinct path keys. -/
theorem flatten_keysNodup (v : Val) (h : v.WF) (p : Path) : KeysNodup (flatten v p) := by
  exact flatten_keysNodup_aux.1 v h p

/-- Flattening is faithful: looking a path up in the flat state is looking it up in the tree. -/
theorem lookup_flatten (v : Val) (h : v.WF) (q : Path) : lookup q (flatten v []) = v.get q := by
  simpa using lookup_flatten_aux.1 v h [] q

/-- `_unflatten(_flatten(v)) == v` (exactly, including dict order) for every well-formed value. -/
theorem unflatten_flatten (v : Val) (h : v.WF) : getState (flatten v []) = v := by
  exact unflatten_flatten_aux.1 v h _ (length_le_depth _)

/-- One transfer is lossless: if the main side denotes the same map as the worker's diff base, then
after applying the delta generated against any new flat state it denotes the new state — whatever keys
were added, removed or changed. -/
theorem apply_generate (base main new : Flat) (hb : KeysNodup base) (hm : KeysNodup main)
    (hn : KeysNodup new) (h : MapEq main base) :
    MapEq (applyDelta main (generateDelta base new)) new ∧ KeysNodup (applyDelta main (generateDelta base new)) := by
  exact ⟨apply_generate_aux base main new hb hm hn h, keysNodup_applyDelta _ _ hm⟩

/-- **Lossless for every history.**  Starting from a synchronised pair, after any finite sequence of
reports (each shipped as a delta and applied), the main side denotes exactly the last reported value. -/
theorem lossless (v0 : Val) (vs : List Val) (h0 : v0.WF) (hs : ∀ v ∈ vs, v.WF) (q : Path) :
    lookup q (vs.foldl Pair.report (Pair.init v0)).main = ((vs.getLast?).getD v0).get q := by
  exact lossless_aux v0 vs h0 hs q

/-- The state handed out by `get_state()` on the main side has exactly the content of the last report
(as a tree, path by path; dict order on the main side may differ because deltas are unordered). -/
theorem lossless_state (v0 : Val) (vs : List Val) (h0 : v0.WF) (hs : ∀ v ∈ vs, v.WF) (q : Path) :
    (getState (vs.foldl Pair.report (Pair.init v0)).main).get q = ((vs.getLast?).getD v0).get q := by
  rw [get_getState _ (prefixFree_of_lookup _ ((vs.getLast?).getD v0)
    (fun q => lossless_aux v0 vs h0 hs q))]
  exact lossless_aux v0 vs h0 hs q

/-- Non-vacuity: a nested well-formed value, a history that deletes a key, turns a leaf into a dict and
a dict into a leaf. -/
example :
    let v0 : Val := .dict [(1, .leaf 5), (2, .dict [(3, .leaf 7)])]
    let v1 : Val := .dict [(1, .dict [(4, .leaf 6)])]
    let v2 : Val := .leaf 0
    v0.WF ∧ v1.WF ∧ v2.WF ∧
      getState ([v1, v2].foldl Pair.report (Pair.init v0)).main = v2 ∧
      getState ([v1].foldl Pair.report (Pair.init v0)).main = v1 := by
  refine ⟨?_, ?_, ?_, ?_, ?_⟩
  · simp
  · simp
  · simp
  · rfl
  · rfl

end TDV.Incr
