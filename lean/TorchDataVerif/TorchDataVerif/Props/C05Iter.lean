import TorchDataVerif.Proofs.MPDeltaIter
import TorchDataVerif.Props.C01MPI
/-!
# C05, iterable datasets — `delta_at_yield` and `snapshot_fields` for the multi-process iterator

Counterpart of `TDV.MP.delta_at_yield_map` / `snapshot_fields_map` (`Props/MP.lean`) for iterable datasets:
`in_order = True`, every `W`, `P`, snapshot interval, uneven and empty shards, workers retiring at any time, every
schedule; no failing fetch (`NoErr`, as in `Props/C01MPI.lean`).

For map-style datasets the accumulated worker snapshots `_worker_snapshots` are a function of the number of consumed
results alone.  For iterable datasets THIS IS FALSE in general (`delta_at_yield_iter_false`): whether a batch carries
its worker's state delta is decided when its task is DISPATCHED, from `_num_yielded` at that moment
(`_try_put_index`: `x = _num_yielded % interval; snapshot = x + 1 + W·P + W ≥ interval`), and tasks are dispatched when
an end-of-shard notice ARRIVES (`_next_data`: `_mark_worker_as_unavailable` + `_try_put_index`), which the schedule
decides.  What does hold, for every schedule:
* `delta_at_yield_iter_partial`: the consumed results are a prefix (length `k`) of the canonical round-robin sequence;
  every worker's entry is either exactly its ideal state `idealE` after those results or lags behind by less than
  one dispatch window (`StaleE`: its worker has not ended, and `d + 1 + since ≤ _num_yielded ≤ d + 1 + W·P + since` for
  an unflagged dispatch time `d`); the entry of a worker whose notice was consumed is exact (`fetcher_ended` flags);
* `delta_at_yield_iter`: if `1 ≤ interval ≤ W·P + W + 1` (every task flagged) the entries are exact:
  `_worker_snapshots = wsIter c k`, a closed-form function of `k` alone;
* `snapshot_fields_iter`: what `state_dict()` returns after `n` yields is a function of `n` alone, for every interval
  (the staleness never reaches a snapshot: `TDV.MPR.snapshot_sound_iter`).
-/
namespace TDV.MP
open TDV.MPRI TDV.MPR

/-- **`delta_at_yield_iter`, full statement**: two reachable states of one configuration that have consumed the
same number of tasks and shown the consumer the same observations have the same accumulated worker snapshots. -/
def delta_at_yield_iter_statement : Prop :=
  ∀ (c : Cfg), c.WF → c.iterable = true → c.inOrder = true → NoErr c →
  ∀ (as₁ : List Action) (s₁ : State), NoReset as₁ → run c (init c) as₁ = some s₁ → ¬ died s₁ →
  ∀ (as₂ : List Action) (s₂ : State), NoReset as₂ → run c (init c) as₂ = some s₂ → ¬ died s₂ →
    s₁.rcvdIdx = s₂.rcvdIdx → s₁.obs = s₂.obs → s₁.wsnaps = s₂.wsnaps

/-- Witness: three workers, prefetch factor 1, `snapshot_every_n_steps = 8`, shards of 2, 0 and 2 batches. -/
def c05i : Cfg :=
  { W := 3, P := 1, interval := 8, inOrder := true, iterable := true, persistent := false
    shards := [[.ok 0, .ok 1], [], [.ok 20, .ok 21]]
    batches := [] }

/-- Worker 1's end-of-shard notice arrives BEFORE the first batch is consumed (`_num_yielded = 0`): task 4 (second
batch of worker 2) is dispatched at `_num_yielded = 0` without the snapshot flag. -/
def c05iA : List Action :=
  [.work 1, .next, .recv, .work 0, .recv, .next, .work 2, .recv, .next, .work 0, .recv, .next, .work 2, .recv]

/-- The notice arrives AFTER the first batch was consumed (`_num_yielded = 1`): task 4 is dispatched with the flag. -/
def c05iB : List Action :=
  [.work 0, .next, .recv, .work 1, .next, .recv, .work 2, .recv, .next, .work 0, .recv, .next, .work 2, .recv]

theorem c05iA_state :
    (run c05i (init c05i) c05iA).map (fun s => (s.obs, s.rcvdIdx, s.wsnaps)) =
      some ([.item 0, .item 20, .item 1, .item 21], 5, [⟨0, false⟩, ⟨0, true⟩, ⟨0, false⟩]) := by decide

theorem c05iB_state :
    (run c05i (init c05i) c05iB).map (fun s => (s.obs, s.rcvdIdx, s.wsnaps)) =
      some ([.item 0, .item 20, .item 1, .item 21], 5, [⟨0, false⟩, ⟨0, true⟩, ⟨2, false⟩]) := by decide

/-- **Negation witness.**  Same four batches `0, 20, 1, 21`, same `rcvd_idx = 5`, but worker 2's accumulated state
is "after 0 fetches" under one schedule and "after 2 fetches" under the other.  Observed on the real code
(`IterDsState`, sizes `[2, 0, 2]`, `num_workers=3, prefetch_factor=1, snapshot_every_n_steps=8`: `_worker_snapshots`
of worker 2 is `{'i': 2}` or `{'i': 0}` after the fourth batch depending on the schedule). -/
theorem delta_at_yield_iter_false : ¬ delta_at_yield_iter_statement := by
  intro h
  have hA := c05iA_state
  have hB := c05iB_state
  match hrA : run c05i (init c05i) c05iA with
  | none => rw [hrA] at hA; cases hA
  | some s₁ =>
    match hrB : run c05i (init c05i) c05iB with
    | none => rw [hrB] at hB; cases hB
    | some s₂ =>
      rw [hrA] at hA; rw [hrB] at hB
      simp only [Option.map_some, Option.some.injEq, Prod.mk.injEq] at hA hB
      obtain ⟨a1, a2, a3⟩ := hA
      obtain ⟨b1, b2, b3⟩ := hB
      have := h c05i ⟨⟨by decide, by decide⟩, fun _ => rfl⟩ rfl rfl (by unfold NoErr; decide)
        c05iA s₁ (by simp [NoReset, c05iA]) hrA (by simp [died, a1])
        c05iB s₂ (by simp [NoReset, c05iB]) hrB (by simp [died, b1]) (by rw [a2, b2]) (by rw [a1, b1])
      rw [a3, b3] at this
      revert this; decide

section Iter

variable (c : Cfg) (hv : c.WF) (hit : c.iterable = true) (hio : c.inOrder = true) (hne : NoErr c)
include hv hit hio hne

/-- **`delta_at_yield_iter_partial`** — every interval.  In every reachable state (before the iterator shut its
workers down) there is `k` — the number of live results consumed so far — such that `_num_yielded` is the number of
batches among the first `k` entries of the canonical sequence, and every worker's accumulated snapshot is its ideal
state after those `k` results or stale in the bounded sense `StaleE`; a worker whose end-of-shard notice has been
consumed is recorded exactly (`⟨b_w, true⟩`): the `fetcher_ended` flags never lag. -/
theorem delta_at_yield_iter_partial (as : List Action) (s : State) (hnr : NoReset as)
    (hr : run c (init c) as = some s) (hd : ¬ died s) (hsd : s.shutdown = false) :
    ∃ k, k ≤ (liveFrom c 0 0).length ∧ s.numYielded = ndE c ((liveFrom c 0 0).take k) ∧ s.wsnaps.length = c.W ∧
      (∀ w, w < c.W → s.wsnaps[w]? = some (idealE c (fun _ => false) ((liveFrom c 0 0).take k) w) ∨
        StaleE c s.numYielded ((liveFrom c 0 0).take k) w) ∧
      (∀ w, w < c.W → endE c ((liveFrom c 0 0).take k) w = true →
        s.wsnaps[w]? = some (idealE c (fun _ => false) ((liveFrom c 0 0).take k) w)) := by
  have hvi : c.ValidI := ⟨hv.1, hv.2 hit⟩
  have hok := shardsOk_of_noErr c hit hvi.2 hne
  have hJ := fresh_J c hvi hit hio hok as s hnr hr hd
  obtain ⟨k, h1, h2, h3, h4⟩ := J_wsnaps c s hJ hsd
  refine ⟨k, h1, h2, h3, h4, fun w hw he => ?_⟩
  rcases h4 w hw with h | h
  · exact h
  · rw [h.1] at he; cases he

/-- **`delta_at_yield_iter`** — intervals `1 … W·P + W + 1` (every task carries its delta).  Worker state deltas are
applied when their result is consumed, not when it arrives: in every reachable state the accumulated worker snapshots
equal `wsIter c k`, a closed-form function of the number `k` of live results consumed so far only — never of what the
workers have prefetched nor of the arrival order of results and end-of-shard notices. -/
theorem delta_at_yield_iter (hf : AlwaysFlag c) (as : List Action) (s : State) (hnr : NoReset as)
    (hr : run c (init c) as = some s) (hd : ¬ died s) (hsd : s.shutdown = false) :
    ∃ k, k ≤ (liveFrom c 0 0).length ∧ s.numYielded = ndE c ((liveFrom c 0 0).take k) ∧ s.wsnaps = wsIter c k := by
  obtain ⟨k, h1, h2, h3, h4, _⟩ := delta_at_yield_iter_partial c hv hit hio hne as s hnr hr hd hsd
  refine ⟨k, h1, h2, wsnaps_eq_wsIter c s.wsnaps k h3 (fun w hw => ?_)⟩
  rcases h4 w hw with h | h
  · exact h
  · obtain ⟨_, d, hd', _⟩ := h
    rw [flagW_always c hf d] at hd'; cases hd'

/-- **`snapshot_fields_iter`** — every interval.  What `state_dict()` returns after the `n`-th yield is a function of
`n` only: the snapshot is (up to the meaningless sampler position) `idealAt c (stepOf c n)` — `snapshot_step` the
largest multiple of the interval `≤ n`, `last_yielded_worker_id` the owner of that batch, every worker after exactly
its fetches among the first `snapshot_step` batches with its `fetcher_ended` flag — and
`steps_since_snapshot = n − snapshot_step`. -/
theorem snapshot_fields_iter (as : List Action) (s : State) (hnr : NoReset as)
    (hr : run c (init c) as = some s) (hd : ¬ died s) :
    s.numYielded = (yields s.obs).length ∧
    SnapEq c (stateDict s).1 (idealAt c (stepOf c s.numYielded)) ∧
    (stateDict s).2 = s.numYielded - stepOf c s.numYielded := by
  obtain ⟨_, hny, hse⟩ := snapshot_sound_iter c hv hit hio hne as s hnr hr hd
  refine ⟨hny, hse, ?_⟩
  show s.numYielded - s.snap.step = _
  rw [hse.1]
  rfl

/-- Two schedules that have yielded the same number of batches return `state_dict()`s that agree in every field
(up to the sampler position of the iterable dataset). -/
theorem snapshot_fields_iter_det (as₁ as₂ : List Action) (s₁ s₂ : State) (hn₁ : NoReset as₁) (hn₂ : NoReset as₂)
    (hr₁ : run c (init c) as₁ = some s₁) (hr₂ : run c (init c) as₂ = some s₂) (hd₁ : ¬ died s₁) (hd₂ : ¬ died s₂)
    (hlen : (yields s₁.obs).length = (yields s₂.obs).length) :
    (stateDict s₁).2 = (stateDict s₂).2 ∧ (stateDict s₁).1.step = (stateDict s₂).1.step ∧
    (stateDict s₁).1.lastW = (stateDict s₂).1.lastW ∧ (stateDict s₁).1.ws = (stateDict s₂).1.ws := by
  obtain ⟨a1, a2, a3⟩ := snapshot_fields_iter c hv hit hio hne as₁ s₁ hn₁ hr₁ hd₁
  obtain ⟨b1, b2, b3⟩ := snapshot_fields_iter c hv hit hio hne as₂ s₂ hn₂ hr₂ hd₂
  have hn : s₁.numYielded = s₂.numYielded := by rw [a1, b1, hlen]
  rw [hn] at a2 a3
  exact ⟨by rw [a3, b3], by rw [a2.1, b2.1], by rw [a2.2.1, b2.2.1], by rw [a2.2.2.1, b2.2.2.1]⟩

end Iter

/-! Non-vacuity: uneven shards `[3, 1]`, two workers, prefetch factor 2, `snapshot_every_n_steps = 2`.  Worker 1
answers both its tasks first — its batch `100` and its END-OF-SHARD NOTICE are in the main process before anything
is consumed.  After three yields (`0, 100, 1`; the notice, task 3, is not consumed yet) the accumulated snapshots are
`wsIter ex05i 3`: worker 0 after 2 fetches, worker 1 after 1 fetch and NOT ended — the notice's state is applied when
it is consumed, not when it arrived; `state_dict()` returns the snapshot of step 2 (`idealAt ex05i 2`), 1 step since. -/
def ex05i : Cfg :=
  { W := 2, P := 2, interval := 2, inOrder := true, iterable := true, persistent := false
    shards := [[.ok 0, .ok 1, .ok 2], [.ok 100]]
    batches := [] }

def ex05iRun : List Action :=
  [.work 1, .work 1, .next, .recv, .recv, .work 0, .recv, .next, .next, .work 0, .recv, .stateDict]

example : ex05i.WF ∧ ex05i.iterable = true ∧ ex05i.inOrder = true ∧ NoErr ex05i ∧ AlwaysFlag ex05i ∧ NoReset ex05iRun ∧
    (run ex05i (init ex05i) ex05iRun).map (fun s => (s.obs, s.wsnaps, s.shutdown)) =
      some ([.item 0, .item 100, .item 1, .sd 2 1 1 2 [⟨1, false⟩, ⟨1, false⟩]], [⟨2, false⟩, ⟨1, false⟩], false) ∧
    wsIter ex05i 3 = [⟨2, false⟩, ⟨1, false⟩] ∧ ndE ex05i ((liveFrom ex05i 0 0).take 3) = 3 ∧
    wsIter ex05i 4 = [⟨2, false⟩, ⟨1, true⟩] ∧
    (idealAt ex05i 2).ws = [⟨1, false⟩, ⟨1, false⟩] ∧ stepOf ex05i 3 = 2 := by
  refine ⟨⟨⟨by decide, by decide⟩, fun _ => rfl⟩, rfl, rfl, by unfold NoErr; decide, ⟨by decide, by decide⟩,
    by simp [NoReset, ex05iRun], by decide, by decide, by decide, by decide, by decide, by decide⟩

end TDV.MP
