import TorchDataVerif.Proofs.NodesErrFree
/-!
# C02 — checkpoint/resume exactness of every combinator (`Lawful`, NodeCore)

* Leaves are lawful outright (`listSource_lawful`, `samplerNode_lawful`; `statefulSource_lawful` under the laws
  `StLaws` of the user's `Stateful` iterable).
* `mapper_lawful`, `batcher_lawful`, `filter_lawful : Lawful src → Lawful (X src)`.
* `Unbatcher` and `Prefetcher`/`ParallelMapper` (`buffered`) are **not** lawful over a source that can raise: a
  checkpoint taken after the pipeline raised does not resume like the uninterrupted pipeline
  (`unbatcher_lawful_statement`/`buffered_lawful_statement` are refuted on concrete pipelines).  Over sources
  that never raise they are (`unbatcher_lawful_partial`, `buffered_lawful_partial`).  Their proofs need to chain
  facts about the source, so the hypothesis on the source is `IsGood src` (= `Lawful` with a witness that is a
  partial equivalence on reachable states, see Proofs/NodesGood.lean); every leaf and every combinator
  preserves it, and `IsGood n → Lawful n`.
* `built_lawful : Built n → Lawful n` for the inductive closure.
-/
namespace TDV.Node

/-! ## leaves -/

theorem listSource_lawful (l : List Item) : Lawful (listSource l) := (listSource_good l).lawful

theorem samplerNode_lawful (idx : Nat → List Item) (upd : Nat → Nat) (e0 : Nat) :
    Lawful (samplerNode idx upd e0) := (samplerNode_good idx upd e0).lawful

theorem statefulSource_lawful (it : StIter) {E : it.τ → it.τ → Prop} {I : it.τ → Prop} (L : StLaws it E I) :
    Lawful (statefulSource it) := (statefulSource_good it L).lawful

/-- the laws are satisfiable -/
example (l : List Item) : Lawful (statefulSource (listIter l)) := statefulSource_lawful _ (listIter_laws l)

/-! ## stateless combinators, from bare `Lawful` -/

theorem mapper_lawful (f : Item → Option Item) {src : Node} (h : Lawful src) : Lawful (mapper f src) := by
  obtain ⟨Rs, Qs, hb, hrefl, h1, h2, h2f⟩ := h
  refine ⟨fun a b => Rs (a.st : Run src) (b.st : Run src) ∧
      (a.nexted = true → (a.st : Run src).nexted = true) ∧ (b.nexted = true → (b.st : Run src).nexted = true),
    Qs, ⟨?_, ?_, ?_, ?_⟩, ?_, ?_, ?_, ?_⟩
  · rintro a b ⟨h, _, _⟩
    have e := hb.next _ _ h
    refine ⟨mapNext_fst_congr src f _ _ e.1, ?_, fun _ => ?_, fun _ => ?_⟩
    · have h' := e.2
      rw [← mapNext_snd src f (a.st : Run src), ← mapNext_snd src f (b.st : Run src)] at h'
      exact h'
    · exact (congrArg Run.nexted (mapNext_snd src f (a.st : Run src))).trans rfl
    · exact (congrArg Run.nexted (mapNext_snd src f (b.st : Run src))).trans rfl
  · rintro a b ⟨h, ha, hb'⟩
    have e := hb.get _ _ h
    exact ⟨e.1, e.2, ha, hb'⟩
  · rintro a b ⟨h, ha, hb'⟩ na nb
    exact ⟨hb.resetNone _ _ h (ha na) (hb' nb), (fun h => by cases h), (fun h => by cases h)⟩
  · rintro a b x y ⟨h, _, _⟩ hq
    exact ⟨hb.resetSome _ _ _ _ h hq, (fun h => by cases h), (fun h => by cases h)⟩
  · intro s hs
    exact ⟨hrefl _ (mapper_reach f src s hs), mapper_nexted f src s hs, mapper_nexted f src s hs⟩
  · intro s hs
    exact ⟨h1 _ (mapper_reach f src s hs), mapper_nexted f src _ (Node.Reach.get hs), mapper_nexted f src s hs⟩
  · intro s r hs hr
    exact ⟨h2 _ _ (mapper_reach f src s hs) (mapper_reach f src r hr), (fun h => by cases h),
      mapper_nexted f src _ (Node.Reach.get hs)⟩
  · intro s hs
    exact ⟨h2f _ (mapper_reach f src s hs), (fun h => by cases h), mapper_nexted f src _ (Node.Reach.get hs)⟩

theorem batcher_lawful (bs : Nat) (dl : Bool) (hbs : 1 ≤ bs) {src : Node} (h : Lawful src) :
    Lawful (batcher bs dl src) := by
  obtain ⟨Rs, Qs, hb, hrefl, h1, h2, h2f⟩ := h
  obtain ⟨k, rfl⟩ : ∃ k, bs = k + 1 := ⟨bs - 1, by omega⟩
  refine ⟨fun a b => Rs (a.st : Run src) (b.st : Run src) ∧
      (a.nexted = true → (a.st : Run src).nexted = true) ∧ (b.nexted = true → (b.st : Run src).nexted = true),
    Qs, ⟨?_, ?_, ?_, ?_⟩, ?_, ?_, ?_, ?_⟩
  · rintro a b ⟨h, _, _⟩
    have e := collect_congr hb.next (k + 1) _ _ h
    refine ⟨?_, e.2, fun _ => collect_nexted src k _, fun _ => collect_nexted src k _⟩
    show batchOut dl (collect src (k + 1) (a.st : Run src)).1 = batchOut dl (collect src (k + 1) (b.st : Run src)).1
    rw [e.1]
  · rintro a b ⟨h, ha, hb'⟩
    have e := hb.get _ _ h
    exact ⟨e.1, e.2, ha, hb'⟩
  · rintro a b ⟨h, ha, hb'⟩ na nb
    exact ⟨hb.resetNone _ _ h (ha na) (hb' nb), (fun h => by cases h), (fun h => by cases h)⟩
  · rintro a b x y ⟨h, _, _⟩ hq
    exact ⟨hb.resetSome _ _ _ _ h hq, (fun h => by cases h), (fun h => by cases h)⟩
  · intro s hs
    exact ⟨hrefl _ (batcher_reach _ dl src s hs), batcher_nexted _ dl hbs src s hs, batcher_nexted _ dl hbs src s hs⟩
  · intro s hs
    exact ⟨h1 _ (batcher_reach _ dl src s hs), batcher_nexted _ dl hbs src _ (Node.Reach.get hs),
      batcher_nexted _ dl hbs src s hs⟩
  · intro s r hs hr
    exact ⟨h2 _ _ (batcher_reach _ dl src s hs) (batcher_reach _ dl src r hr), (fun h => by cases h),
      batcher_nexted _ dl hbs src _ (Node.Reach.get hs)⟩
  · intro s hs
    exact ⟨h2f _ (batcher_reach _ dl src s hs), (fun h => by cases h), batcher_nexted _ dl hbs src _ (Node.Reach.get hs)⟩

theorem filter_lawful (fuel : Nat) (hf : 0 < fuel) (p : Item → Bool) {src : Node} (h : Lawful src) :
    Lawful (filter fuel p src) := by
  obtain ⟨Rs, Qs, hb, hrefl, h1, h2, h2f⟩ := h
  obtain ⟨k, rfl⟩ : ∃ k, fuel = k + 1 := ⟨fuel - 1, by omega⟩
  refine ⟨fun a b => Rs (a.st : FilSt src).inner (b.st : FilSt src).inner ∧
      (a.st : FilSt src).nf = (b.st : FilSt src).nf ∧ (a.st : FilSt src).ny = (b.st : FilSt src).ny ∧
      (a.nexted = true → (a.st : FilSt src).inner.nexted = true) ∧
      (b.nexted = true → (b.st : FilSt src).inner.nexted = true),
    fun x y => Qs x.1 y.1 ∧ x.2 = y.2, ⟨?_, ?_, ?_, ?_⟩, ?_, ?_, ?_, ?_⟩
  · rintro a b ⟨h, hf', hy, _, _⟩
    have e := filLoop_congr hb.next p (k + 1) _ _ h hf' hy
    exact ⟨e.1, e.2.1, e.2.2.1, e.2.2.2, fun _ => filLoop_nexted src p k _, fun _ => filLoop_nexted src p k _⟩
  · rintro a b ⟨h, hf', hy, ha, hb'⟩
    have e := hb.get _ _ h
    refine ⟨⟨e.1, ?_⟩, e.2, hf', hy, ha, hb'⟩
    show ((a.st : FilSt src).nf, (a.st : FilSt src).ny) = ((b.st : FilSt src).nf, (b.st : FilSt src).ny)
    rw [hf', hy]
  · rintro a b ⟨h, _, _, ha, hb'⟩ na nb
    exact ⟨hb.resetNone _ _ h (ha na) (hb' nb), rfl, rfl, (fun h => by cases h), (fun h => by cases h)⟩
  · rintro a b ⟨x, xf, xy⟩ ⟨y, yf, yy⟩ ⟨h, _, _, _, _⟩ ⟨hq, he⟩
    simp only [Prod.mk.injEq] at he
    exact ⟨hb.resetSome _ _ _ _ h hq, he.1, he.2, (fun h => by cases h), (fun h => by cases h)⟩
  · intro s hs
    exact ⟨hrefl _ (filter_reach _ p src s hs), rfl, rfl, filter_nexted _ hf p src s hs, filter_nexted _ hf p src s hs⟩
  · intro s hs
    exact ⟨h1 _ (filter_reach _ p src s hs), rfl, rfl, filter_nexted _ hf p src _ (Node.Reach.get hs),
      filter_nexted _ hf p src s hs⟩
  · intro s r hs hr
    exact ⟨h2 _ _ (filter_reach _ p src s hs) (filter_reach _ p src r hr), rfl, rfl, (fun h => by cases h),
      filter_nexted _ hf p src _ (Node.Reach.get hs)⟩
  · intro s hs
    exact ⟨h2f _ (filter_reach _ p src s hs), rfl, rfl, (fun h => by cases h),
      filter_nexted _ hf p src _ (Node.Reach.get hs)⟩

/-! ## `Unbatcher`, `Prefetcher`/`ParallelMapper`: not lawful over a source that raises -/

def unbatcher_lawful_statement : Prop :=
  ∀ (fuel : Nat) (src : Node), 0 < fuel → Lawful src → Lawful (unbatcher fuel src)

def buffered_lawful_statement : Prop :=
  ∀ (sf : Nat) (src : Node), Lawful src → Lawful (buffered sf src)

/-- `map_fn` that raises on the item `3`. -/
def errIf3 : Item → Option Item
  | .atom 3 => none
  | x => some x

/-- `Unbatcher(Mapper(IterableWrapper([[1], 3, [2]]), err_if_3))`: `next()` → 1, `next()` raises (the source
raised while the second batch was pulled), `state_dict()`.  The uninterrupted pipeline continues with 2; a
fresh pipeline raises inside `reset(state)`. -/
def unbWitness : Node := unbatcher 5 (mapper errIf3 (listSource [.list [.atom 1], .atom 3, .list [.atom 2]]))

theorem unbatcher_not_lawful : ¬ unbatcher_lawful_statement := by
  intro h
  have hl : Lawful unbWitness := h 5 _ (by decide) (mapper_lawful errIf3 (listSource_lawful _))
  obtain ⟨R, Q, hb, _, _, _, h2f⟩ := hl
  let s : Run unbWitness := (unbWitness.rnext (unbWitness.rnext (unbWitness.rreset unbWitness.rfresh none)).2).2
  have hs : unbWitness.Reach s := Node.Reach.next (Node.Reach.next Node.Reach.initNone)
  have hn := (hb.next _ _ (h2f s hs)).1
  have e1 : (unbWitness.rnext (unbWitness.rreset unbWitness.rfresh (some (unbWitness.rget s).1))).1 = .error errBad := rfl
  have e2 : (unbWitness.rnext (unbWitness.rget s).2).1 = .item (.atom 2) := rfl
  rw [e1, e2] at hn
  cases hn

/-- `Prefetcher(Mapper(IterableWrapper([1, 3, 5]), err_if_3), snapshot_frequency=1)`: `next()` → 1, `next()`
raises, `state_dict()`.  The uninterrupted pipeline is finished (`StopIteration`); a fresh pipeline loaded with
the state raises the error again. -/
def bufWitness : Node := buffered 1 (mapper errIf3 (listSource [.atom 1, .atom 3, .atom 5]))

theorem buffered_not_lawful : ¬ buffered_lawful_statement := by
  intro h
  have hl : Lawful bufWitness := h 1 _ (mapper_lawful errIf3 (listSource_lawful _))
  obtain ⟨R, Q, hb, _, _, _, h2f⟩ := hl
  let s : Run bufWitness := (bufWitness.rnext (bufWitness.rnext (bufWitness.rreset bufWitness.rfresh none)).2).2
  have hs : bufWitness.Reach s := Node.Reach.next (Node.Reach.next Node.Reach.initNone)
  have hn := (hb.next _ _ (h2f s hs)).1
  have e1 : (bufWitness.rnext (bufWitness.rreset bufWitness.rfresh (some (bufWitness.rget s).1))).1 = .error errMap := rfl
  have e2 : (bufWitness.rnext (bufWitness.rget s).2).1 = .stop := rfl
  rw [e1, e2] at hn
  cases hn

/-- Over a source that never raises (and when the unbatcher itself never raises: every batch is a
sequence and the loop fuel is not exhausted) `Unbatcher` is lawful. -/
theorem unbatcher_lawful_partial (fuel : Nat) (hf : 0 < fuel) {src : Node} (h : IsGood src) (he : ErrFree src)
    (heU : ErrFree (unbatcher fuel src)) : Lawful (unbatcher fuel src) := by
  obtain ⟨Rs, g⟩ := h
  exact (unbatcher_good g he fuel hf heU).lawful

/-- Over a source that never raises, `Prefetcher` / in-order `ParallelMapper` (sequential abstraction) is
lawful for every `snapshot_frequency`, 0 included. -/
theorem buffered_lawful_partial (sf : Nat) {src : Node} (h : IsGood src) (he : ErrFree src) :
    Lawful (buffered sf src) := by
  obtain ⟨Rs, g⟩ := h
  exact (buffered_good g he sf).lawful

/-! ## the inductive closure -/

/-- Pipelines built from the operators.  `ErrFree` (the node never raises on reachable states) is the side
condition under which `Unbatcher` and `Prefetcher`/`ParallelMapper` are lawful; sufficient conditions are in
Proofs/NodesErrFree.lean (`listSource_errFree`, `mapper_errFree`, `batcher_errFree`, `buffered_errFree`,
`unbatcher_errFree`, …). -/
inductive Built : Node → Prop
  | list (l : List Item) : Built (listSource l)
  | sampler (idx : Nat → List Item) (upd : Nat → Nat) (e0 : Nat) : Built (samplerNode idx upd e0)
  | stateful (it : StIter) (E : it.τ → it.τ → Prop) (I : it.τ → Prop) : StLaws it E I → Built (statefulSource it)
  | mapper (f : Item → Option Item) {n : Node} : Built n → Built (mapper f n)
  | batcher (bs : Nat) (dl : Bool) {n : Node} : 1 ≤ bs → Built n → Built (batcher bs dl n)
  | filter (fuel : Nat) (p : Item → Bool) {n : Node} : 0 < fuel → Built n → Built (filter fuel p n)
  | unbatcher (fuel : Nat) {n : Node} : 0 < fuel → Built n → ErrFree n → ErrFree (unbatcher fuel n) →
      Built (unbatcher fuel n)
  | buffered (sf : Nat) {n : Node} : Built n → ErrFree n → Built (buffered sf n)

theorem built_good {n : Node} (h : Built n) : IsGood n := by
  induction h with
  | list l => exact ⟨_, listSource_good l⟩
  | sampler idx upd e0 => exact ⟨_, samplerNode_good idx upd e0⟩
  | stateful it E I L => exact ⟨_, statefulSource_good it L⟩
  | mapper f _ ih => obtain ⟨R, g⟩ := ih; exact ⟨_, mapper_good f g⟩
  | batcher bs dl hbs _ ih => obtain ⟨R, g⟩ := ih; exact ⟨_, batcher_good bs dl hbs g⟩
  | filter fuel p hf _ ih => obtain ⟨R, g⟩ := ih; exact ⟨_, filter_good fuel hf p g⟩
  | unbatcher fuel hf _ he heU ih => obtain ⟨R, g⟩ := ih; exact ⟨_, unbatcher_good g he fuel hf heU⟩
  | buffered sf _ he ih => obtain ⟨R, g⟩ := ih; exact ⟨_, buffered_good g he sf⟩

/-- Every pipeline of the closure resumes exactly: `get_state`/`reset` is an exact inverse at item
granularity, for the rest of the epoch, all later epochs and every chain of checkpoint/resume. -/
theorem built_lawful {n : Node} (h : Built n) : Lawful n := (built_good h).lawful

/-- `ParallelMapper(num_workers=0, prebatch=pb)` over a source that never raises, with a `map_fn` that
never raises. -/
theorem prebatchMapper_lawful (fuel : Nat) (hf : 2 ≤ fuel) (f : Item → Option Item) (hft : ∀ x, (f x).isSome = true)
    (pb : Nat) (hpb : 1 ≤ pb) {src : Node} (h : Built src) (he : ErrFree src) :
    Lawful (prebatchMapper fuel f pb src) := by
  have hB : ItemsSat (batcher pb false src) IsNeList := batcher_itemsSat pb false hpb src
  have hsome : ∀ xs, (mapAll f xs).isSome = true := by
    intro xs
    induction xs with
    | nil => rfl
    | cons x xs ih =>
      cases hx : f x with
      | none => have := hft x; rw [hx] at this; cases this
      | some y =>
        cases hxs : mapAll f xs with
        | none => rw [hxs] at ih; cases ih
        | some ys => simp [mapAll, hx, hxs]
  have heM : ErrFree (mapper (overBatch f) (batcher pb false src)) := by
    apply mapper_errFree (overBatch f) (batcher_errFree pb false he)
    intro r hr v hv
    obtain ⟨x, xs, rfl⟩ := hB r hr v hv
    show ((mapAll f (x :: xs)).map Item.list).isSome = true
    have := hsome (x :: xs)
    cases hm : mapAll f (x :: xs) with
    | none => rw [hm] at this; cases this
    | some ys => rfl
  have hM : ItemsSat (mapper (overBatch f) (batcher pb false src)) IsNeList := by
    apply mapper_itemsSat (overBatch f) IsNeList IsNeList hB
    rintro v w ⟨x, xs, rfl⟩ hw
    have hw' : (mapAll f (x :: xs)).map Item.list = some w := hw
    cases hx : f x with
    | none => have := hft x; rw [hx] at this; cases this
    | some y =>
      cases hxs : mapAll f xs with
      | none => have := hsome xs; rw [hxs] at this; cases this
      | some ys =>
        simp only [mapAll, hx, hxs, Option.map_some, Option.some.injEq] at hw'
        exact ⟨y, ys, hw'.symm⟩
  exact built_lawful (Built.unbatcher fuel (by omega) (Built.mapper _ (Built.batcher pb false hpb h)) heM
    (unbatcher_errFree heM hM fuel hf))

/-! ## Non-vacuity -/

/-- `Prefetcher(Unbatcher(Batcher(Mapper(SamplerWrapper(…), f), 2, drop_last=False)), snapshot_frequency=3)` with a
total `f`, over any epoch-indexed sampler. -/
example (idx : Nat → List Item) (upd : Nat → Nat) (f : Item → Item) :
    Lawful (buffered 3 (unbatcher 2 (batcher 2 false (mapper (fun x => some (f x)) (samplerNode idx upd 0))))) := by
  have hs := samplerNode_errFree idx upd 0
  have hm : ErrFree (mapper (fun x => some (f x)) (samplerNode idx upd 0)) :=
    mapper_errFree _ hs (fun _ _ _ _ => rfl)
  have hb := batcher_errFree 2 false hm
  have hu := unbatcher_errFree hb (batcher_itemsSat 2 false (by omega) _) 2 (by omega)
  exact built_lawful (Built.buffered 3
    (Built.unbatcher 2 (by omega) (Built.batcher 2 false (by omega) (Built.mapper _ (Built.sampler idx upd 0))) hb hu) hu)

example (l : List Item) : Lawful (prebatchMapper 2 (fun x => some x) 3 (filter 7 (fun _ => true) (listSource l))) := by
  have hf : ErrFree (filter 7 (fun _ => true) (listSource l)) := by
    intro R hR e h
    have hr := filter_reach 7 (fun _ => true) (listSource l) R hR
    have h' : (filLoop (listSource l) (fun _ => true) 7 (R.st : FilSt (listSource l))).1 = .error e := h
    rcases hx : (listSource l).rnext (R.st : FilSt (listSource l)).inner with ⟨o, r'⟩
    cases o with
    | item v => simp [filLoop, hx] at h'
    | stop => simp [filLoop, hx] at h'
    | error e' => exact listSource_errFree l _ hr e' (by rw [hx])
  exact prebatchMapper_lawful 2 (by omega) _ (fun _ => rfl) 3 (by omega)
    (Built.filter 7 _ (by omega) (Built.list l)) hf

end TDV.Node
