import TorchDataVerif.Proofs.SPChain
/-!
# SP — the single-process iterator of `StatefulDataLoader`: property theorems for C01, C03, C10

Model: `Model/SP.lean` (`TDV.SP`).  Helper lemmas: `Proofs/SP*.lean`.

* **C03** (each epoch exactly once, in DataLoader order): `stream_eq_ref_*`.
* **C10** (errors at the right batch, iteration carries on): `error_position_*`.
* **C01** (a checkpoint at any batch resumes the exact remaining stream): `resume_exact_*`, `resume_epochs_*`,
  `resume_chain_*`, the sampler laws `idxLaw_*` and dataset laws (`readmeLaw`, …), and the one known exception
  `resume_next_epoch_statement` (false: `resume_next_epoch_statement_false`; proved without the shared generator:
  `resume_next_epoch_partial`).

Everything is universally quantified: any sampler order / generator, any dataset length, any `batch_size`
(`> 0`) and `drop_last`, any interruption point `k`, any `fuel` (number of `next` calls of the consumer).
-/
namespace TDV.SP
open TDV.Sampler

/-! ## C10 and C03, map-style -/
section mapstyle
variable {W SSt D Ds Dt : Type} (S : IdxSrc W SSt) (Da : Data D Ds Dt) (c : Cfg) (data : Nat → Option Nat)

/-- **C10, map-style.**  For every set of failing indices (`data i = none`) and every failing `collate_fn`: if
the index sampler yields the index batches `ixs` in this epoch, the consumer that catches and continues sees,
for every batch in order, either the batch or the exception it raises (`error 0` dataset, `error 1` collate) —
exactly at that batch's position, nothing else moved or lost — and then `StopIteration`; the sampler has moved
past all of them (`_sampler_iter_yielded`). -/
theorem error_position_map (hmap : Da.iterable = false) (hget : ∀ d i, (Da.get d i).1 = data i)
    (w w' : W) (d : D) (ixs : List Idx) (fuel : Nat)
    (hrun : IRun S.next (S.seed (S.iter w)) ixs w') (hf : ixs.length < fuel) :
    (epoch S Da c fuel (create S Da w d)).1 = refMap data c ixs ∧
      (epoch S Da c fuel (create S Da w d)).2.sw = w' ∧
      (epoch S Da c fuel (create S Da w d)).2.finished = true ∧
      (epoch S Da c fuel (create S Da w d)).2.siy = ixs.length := by
  have h := epoch_map S Da c data hmap hget ixs fuel (create S Da w d) w' hrun hf
  refine ⟨h.1, h.2.1, h.2.2.1, ?_⟩
  rw [h.2.2.2]
  show 0 + _ = _
  omega

/-- The reference when nothing fails: every index batch mapped through the dataset. -/
theorem refMap_total (f : Nat → Nat) (hd : ∀ i, data i = some (f i)) (hcf : ∀ v, c.collateFail v = false)
    (ixs : List Idx) :
    refMap data c ixs = ixs.map (fun ix => match ix with
      | .one i => Obs.single (f i)
      | .many l => Obs.batch (l.map f)) ++ [.stop] := by
  unfold refMap
  congr 1
  apply List.map_congr_left
  intro ix _
  cases ix with
  | one i => simp [refFetch, hd, collate1_ok c hcf]
  | many l =>
    have h1 : (l.all fun i => (data i).isSome) = true := by simp [hd]
    have h2 : ∀ l : List Nat, l.filterMap data = l.map f := by
      intro l
      induction l with
      | nil => rfl
      | cons a r ih => simp [hd, ih]
    simp [refFetch, h1, h2, collate_ok c hcf]

/-- **C03, map-style, auto-collation.**  With no state loaded, if the sampler's order in this epoch is `xs`, the
loader yields torch's `BatchSampler` chunking of `xs` (consecutive groups of `batch_size`, the shorter last one
kept iff not `drop_last`) mapped through the dataset, then stops — with failing indices: the same with the
failing batches replaced by their error (C10). -/
theorem stream_eq_ref_batch {W S T : Type} (N : Nested W S T) (bc : BCfg) (sd : W → W) (hbs : 0 < bc.batchSize)
    (hmap : Da.iterable = false) (hget : ∀ d i, (Da.get d i).1 = data i)
    (b : BIter W) (d : D) (xs : List Nat) (hem : Emits N.next (sd (N.iter b.w)) xs) (fuel : Nat)
    (hf : xs.length + 1 < fuel) :
    (epoch (batchSrc N bc sd) Da c fuel (create (batchSrc N bc sd) Da b d)).1 =
      refMap data c ((chunkRef bc.batchSize bc.dropLast xs).map .many) := by
  obtain ⟨b', hrun⟩ := irun_batch N bc hbs sd xs.length xs
    ((batchSrc N bc sd).seed ((batchSrc N bc sd).iter b)) (Nat.le_refl _) hem
  have hlen : ((chunkRef bc.batchSize bc.dropLast xs).map Idx.many).length < fuel := by
    have hceil : ∀ n b : Nat, 0 < b → (n + b - 1) / b ≤ n := by
      intro n b hb
      cases n with
      | zero => rw [Nat.zero_add, Nat.div_eq_of_lt (by omega)]; exact Nat.le_refl _
      | succ m =>
        apply Nat.div_le_of_le_mul
        have h5 : m ≤ b * m := Nat.le_mul_of_pos_left _ hb
        rw [Nat.mul_succ]
        omega
    have : (chunkRef bc.batchSize bc.dropLast xs).length ≤ xs.length := by
      unfold chunkRef
      simp only [List.length_map, List.length_range]
      cases bc.dropLast
      · simp only [Bool.false_eq_true, if_false]; exact hceil _ _ hbs
      · simp only [if_true]; exact Nat.div_le_self _ _
    simp only [List.length_map]; omega
  exact (error_position_map (batchSrc N bc sd) Da c data hmap hget b b' d _ fuel hrun hlen).1

/-- **C03, map-style, `batch_size=None`**: item by item in the sampler's order. -/
theorem stream_eq_ref_bare {W S T : Type} (N : Nested W S T) (inf : Bool) (sd : W → W)
    (hmap : Da.iterable = false) (hget : ∀ d i, (Da.get d i).1 = data i)
    (w : W) (d : D) (xs : List Nat) (hem : Emits N.next (sd (N.iter w)) xs) (fuel : Nat) (hf : xs.length < fuel) :
    (epoch (bareSrc N inf sd) Da c fuel (create (bareSrc N inf sd) Da w d)).1 = refMap data c (xs.map .one) := by
  obtain ⟨w', hrun⟩ := irun_bare N inf sd xs ((bareSrc N inf sd).seed ((bareSrc N inf sd).iter w)) hem
  exact (error_position_map (bareSrc N inf sd) Da c data hmap hget w w' d _ fuel hrun (by simpa using hf)).1

/-- **Every following epoch again** (a sampler with the same index batches every epoch; `R` is an invariant of
its between-epochs worlds): `E` epochs of the loader are `E` times the reference epoch. -/
theorem stream_eq_ref_epochs (hmap : Da.iterable = false) (hget : ∀ d i, (Da.get d i).1 = data i)
    (ixs : List Idx) (R : W → Prop)
    (hR : ∀ w, R w → ∃ w', IRun S.next (S.seed (S.iter w)) ixs w' ∧ R w') (fuel : Nat) (hf : ixs.length < fuel)
    (E : Nat) (x : It W D) (hx : R x.sw) :
    (Loader.epochs S Da c fuel E (Loader.at (SSt := SSt) (Ds := Ds) (Dt := Dt) x)).1 =
      List.replicate E (refMap data c ixs) :=
  epochs_map_const S Da c data hmap hget ixs R hR fuel hf E x hx

/-- Non-vacuity: 5 indices in a user order, `batch_size=2`, index 8 fails in `__getitem__`, item 70 fails in
`collate_fn`; then two epochs of a plain list sampler with `batch_size=None`. -/
example :
    let data : Nat → Option Nat := fun i => if i = 8 then none else some (10 * i)
    let c : Cfg := { dropLast := false, collateFail := fun v => v == 70 }
    let S := batchSrc plainNested ⟨2, false⟩ id
    let Da := mapData data false
    (epoch S Da c 9 (create S Da { w := ([5, 6, 7, 8, 9], []), samplesYielded := 0 } 0)).1 =
        [.batch [50, 60], .error 0, .batch [90], .stop] ∧
      refMap data c ((chunkRef 2 false [5, 6, 7, 8, 9]).map .many) = [.batch [50, 60], .error 0, .batch [90], .stop] ∧
      refMap data c ((chunkRef 2 false [5, 6, 7]).map .many) = [.batch [50, 60], .error 1, .stop] ∧
      (Loader.epochs (bareSrc plainNested false id) Da c 9 2 (Loader.fresh ([3, 1], []) 0)).1 =
        [[.single 30, .single 10, .stop], [.single 30, .single 10, .stop]] := by
  decide

end mapstyle

/-! ## C10 and C03, iterable -/
section iterable
variable {W SSt D Ds Dt : Type} (S : IdxSrc W SSt) (Da : Data D Ds Dt) (c : Cfg)

/-- **C10, iterable, auto-collation — what the code does for ANY dataset iterator.**  Let `tr` be the outcomes
of `next(dataset_iter)` called over and over up to its first `StopIteration` (items, exceptions).  The
consumer sees `refIterAuto` of `tr`: items grouped `batch_size` at a time; an exception is delivered at the
position of the batch being collected, whose already collected items are lost, and collecting starts again
with the next outcome; a shorter last group is kept iff not `drop_last`; then `StopIteration`. -/
theorem error_position_iter_auto (bs : Nat) (hbs : 0 < bs) (hit : Da.iterable = true) (hS : InfMany S bs)
    (w : W) (d dF : D) (tr : List DOut) (fuel : Nat) (hrun : DRun Da.next (Da.iter d) tr dF)
    (hf : tr.length + 1 ≤ fuel) :
    (epoch S Da c fuel (create S Da w d)).1 = refIterAuto c bs tr [] ∧
      (epoch S Da c fuel (create S Da w d)).2.dw = dF ∧ (epoch S Da c fuel (create S Da w d)).2.finished = true :=
  epoch_iter_auto S Da c bs hbs hit hS fuel tr (create S Da w d) dF hrun rfl hf

/-- **C10, iterable, `batch_size=None`**: outcome by outcome. -/
theorem error_position_iter_one (hit : Da.iterable = true) (hS : InfOne S)
    (w : W) (d dF : D) (tr : List DOut) (fuel : Nat) (hrun : DRun Da.next (Da.iter d) tr dF)
    (hf : tr.length ≤ fuel) :
    (epoch S Da c fuel (create S Da w d)).1 = refIterOne c tr ∧
      (epoch S Da c fuel (create S Da w d)).2.dw = dF ∧ (epoch S Da c fuel (create S Da w d)).2.finished = true :=
  epoch_iter_one S Da c hit hS fuel tr (create S Da w d) dF hrun rfl hf

/-- **C10, iterable, generator datasets.**  A Python generator is finished once an exception has left it, so the
outcome sequence of a generator `__iter__` whose item after `xs` raises is `xs, exception, StopIteration`.  The
consumer then sees: the COMPLETE batches of `xs`, the exception in place of the batch that was being collected
(its items are lost), and `StopIteration` — the rest of the epoch is not delivered.  (This is what the generator
semantics imply; the loader cannot do better.) -/
theorem error_position_generator (bs : Nat) (hbs : 0 < bs) (hit : Da.iterable = true) (hS : InfMany S bs)
    (hcf : ∀ v, c.collateFail v = false) (w : W) (d dF : D) (xs : List Nat) (fuel : Nat)
    (hrun : DRun Da.next (Da.iter d) (xs.map .item ++ [.err, .stop]) dF) (hf : xs.length + 3 ≤ fuel) :
    (epoch S Da c fuel (create S Da w d)).1 = (chunkRef bs true xs).map .batch ++ [.error 0, .stop] := by
  rw [(error_position_iter_auto S Da c bs hbs hit hS w d dF _ fuel hrun (by simp; omega)).1,
    refIterAuto_dies c hcf bs hbs xs [] hbs]
  simp

theorem error_position_generator_one (hit : Da.iterable = true) (hS : InfOne S)
    (hcf : ∀ v, c.collateFail v = false) (w : W) (d dF : D) (xs : List Nat) (fuel : Nat)
    (hrun : DRun Da.next (Da.iter d) (xs.map .item ++ [.err, .stop]) dF) (hf : xs.length + 2 ≤ fuel) :
    (epoch S Da c fuel (create S Da w d)).1 = xs.map .single ++ [.error 0, .stop] := by
  rw [(error_position_iter_one S Da c hit hS w d dF _ fuel hrun (by simp; omega)).1, refIterOne_dies c hcf xs]

/-- The hypothesis of `error_position_generator` for the plain generator dataset: first failing item `p`. -/
theorem plainGen_outcomes (n p : Nat) (fail : Nat → Bool) (hp : p < n) (hf : fail p = true)
    (hok : ∀ k, k < p → fail k = false) (d : Frame × Nat) :
    DRun (plainGen n fail).next ((plainGen n fail).iter d) ((List.range p).map .item ++ [.err, .stop]) (.dead, p) := by
  have := plainGen_dies n p fail hp hf p 0 .unstarted (by omega) (Nat.zero_le _) (by simp) (fun k _ h => hok k h)
  simpa [plainGen] using this

/-- Non-vacuity, and the other kind of iterable: 7 items, item 3 raises, `batch_size=2`.  A generator dataset ends
the epoch after the error (item 2 is lost with the failing batch); a dataset whose iterator is an ordinary object
carries on after the failing item (item 2 is still lost). -/
example :
    let c : Cfg := { dropLast := false, collateFail := fun _ => false }
    let S := batchSrc infNested ⟨2, false⟩ id
    let fail : Nat → Bool := fun i => i == 3
    (epoch S (plainGen 7 fail) c 9 (create S (plainGen 7 fail) { w := (), samplesYielded := 0 } (.dead, 0))).1 =
        [.batch [0, 1], .error 0, .stop] ∧
      (chunkRef 2 true [0, 1, 2]).map Obs.batch ++ [.error 0, .stop] = [.batch [0, 1], .error 0, .stop] ∧
      trace (itStateObj 7 fail) 9 0 = [.item 0, .item 1, .item 2, .err, .item 4, .item 5, .item 6, .stop] ∧
      (epoch S (itStateObj 7 fail) c 9 (create S (itStateObj 7 fail) { w := (), samplesYielded := 0 } 0)).1 =
        [.batch [0, 1], .error 0, .batch [4, 5], .batch [6], .stop] ∧
      refIterAuto c 2 (trace (itStateObj 7 fail) 9 0) [] = [.batch [0, 1], .error 0, .batch [4, 5], .batch [6], .stop] := by
  decide

variable {items : List Nat} (L : IterLaw Da items)

/-- **C03, iterable, auto-collation.**  With no state loaded, an iterator over a lawful dataset object that is
between epochs yields torch's chunking of the shard's items, then stops, and the dataset object is between
epochs again (so every following epoch is the same again: `stream_eq_ref_iter_epochs`). -/
theorem stream_eq_ref_iter (bs : Nat) (hbs : 0 < bs) (hit : Da.iterable = true) (hS : InfMany S bs)
    (hcf : ∀ v, c.collateFail v = false) (w : W) (d : D) (hg : L.Good d) (fuel : Nat)
    (hf : items.length + 2 ≤ fuel) :
    (epoch S Da c fuel (create S Da w d)).1 = (chunkRef bs c.dropLast items).map .batch ++ [.stop] ∧
      L.Good (epoch S Da c fuel (create S Da w d)).2.dw ∧
      (epoch S Da c fuel (create S Da w d)).2.finished = true := by
  obtain ⟨dF, hrun, hgF⟩ := drun_of_pos Da L items.length (Da.iter d) 0 (by omega) (Nat.zero_le _) (L.start d hg)
  rw [List.drop_zero] at hrun
  have h := error_position_iter_auto S Da c bs hbs hit hS w d dF _ fuel hrun (by simp; omega)
  rw [h.1, h.2.1, refIterAuto_items c hcf bs hbs items [] hbs]
  exact ⟨by simp, hgF, h.2.2⟩

/-- **C03, iterable, `batch_size=None`.** -/
theorem stream_eq_ref_iter_one (hit : Da.iterable = true) (hS : InfOne S)
    (hcf : ∀ v, c.collateFail v = false) (w : W) (d : D) (hg : L.Good d) (fuel : Nat)
    (hf : items.length + 1 ≤ fuel) :
    (epoch S Da c fuel (create S Da w d)).1 = items.map .single ++ [.stop] ∧
      L.Good (epoch S Da c fuel (create S Da w d)).2.dw ∧
      (epoch S Da c fuel (create S Da w d)).2.finished = true := by
  obtain ⟨dF, hrun, hgF⟩ := drun_of_pos Da L items.length (Da.iter d) 0 (by omega) (Nat.zero_le _) (L.start d hg)
  rw [List.drop_zero] at hrun
  have h := error_position_iter_one S Da c hit hS w d dF _ fuel hrun (by simp; omega)
  rw [h.1, h.2.1, refIterOne_items c hcf items]
  exact ⟨rfl, hgF, h.2.2⟩

/-- **Every following epoch again**, iterable. -/
theorem stream_eq_ref_iter_epochs (bs : Nat) (hbs : 0 < bs) (hit : Da.iterable = true) (hS : InfMany S bs)
    (hcf : ∀ v, c.collateFail v = false) (fuel : Nat) (hf : items.length + 2 ≤ fuel) :
    ∀ (E : Nat) (x : It W D), L.Good x.dw →
      (Loader.epochs S Da c fuel E (Loader.at (SSt := SSt) (Ds := Ds) (Dt := Dt) x)).1 =
        List.replicate E ((chunkRef bs c.dropLast items).map .batch ++ [.stop])
  | 0, _, _ => rfl
  | E + 1, x, hx => by
    have h := stream_eq_ref_iter S Da c L bs hbs hit hS hcf x.sw x.dw hx fuel hf
    rw [epochs_at_succ, h.1, stream_eq_ref_iter_epochs bs hbs hit hS hcf fuel hf E _ h.2.1]
    rfl

/-- Non-vacuity: the README dataset (5 items, `batch_size=2`) is an instance (`readmeLaw`), both `drop_last`. -/
example :
    let S := batchSrc infNested ⟨2, false⟩ id
    InfMany S 2 ∧ (readmeLaw 5).Good { i := 0, fr := .dead, idx := 0 } ∧
    (epoch S (readme 5 fun _ => false) ⟨false, fun _ => false⟩ 7
      (create S (readme 5 fun _ => false) { w := (), samplesYielded := 0 } { i := 0, fr := .dead, idx := 0 })).1 =
        [.batch [0, 1], .batch [2, 3], .batch [4], .stop] ∧
    (Loader.epochs S (readme 5 fun _ => false) ⟨true, fun _ => false⟩ 7 2
      (Loader.fresh { w := (), samplesYielded := 0 } { i := 0, fr := .dead, idx := 0 })).1 =
        [[.batch [0, 1], .batch [2, 3], .stop], [.batch [0, 1], .batch [2, 3], .stop]] := by
  refine ⟨fun w => ?_, rfl, by decide, by decide⟩
  obtain ⟨ix, w', h1, h2⟩ := (infSrc_batch ⟨2, false⟩ (by decide)).next w
  cases ix with
  | one i => simp [Idx.shape] at h2
  | many l => exact ⟨l, w', h1, by simpa [Idx.shape] using h2⟩

end iterable

/-! ## C01, map-style -/
section resume_map
variable {W SSt D Ds Dt : Type} (S : IdxSrc W SSt) (Da : Data D Ds Dt) (c : Cfg) (data : Nat → Option Nat)

/-- **C01, map-style: exact resume at every `k`.**  Sampler law `L` (instances below: plain sampler with the
`islice` fast-forward, `Stateful` sampler object, `RandomSampler` iterator; bare or batched).  The
uninterrupted iterator (over sampler/dataset objects `w`, `d` in any between-epochs state, i.e. in any epoch) has
made `k` calls — any `k`, failing batches included.  Its `state_dict()`, loaded into a NEWLY constructed
iterator over other objects `w'`, `d'` built with the same arguments (the construction has already drawn from
the generator), gives an iterator `x'` with the same sampler world and generator state, `_sampler_iter_yielded`,
`_num_yielded` and `_finished`; for every number `fuel` of further calls it yields exactly what the
uninterrupted iterator yields (the rest of the epoch, then stop), and both end with the same bookkeeping. -/
theorem resume_exact_map {Same : W → W → Prop} (L : IdxLaw S Same) (hmap : Da.iterable = false)
    (hget : ∀ d i, (Da.get d i).1 = data i) (w w' : W) (d d' : D) (hs : Same w w') (k : Nat) :
    ∃ x', restore S Da c w' d' (save S Da (nextN S Da c k (create S Da w d))) = .ok x' ∧
      SimM (nextN S Da c k (create S Da w d)) x' ∧
      ∀ fuel, (epoch S Da c fuel x').1 = (epoch S Da c fuel (nextN S Da c k (create S Da w d))).1 ∧
        SimM (epoch S Da c fuel (nextN S Da c k (create S Da w d))).2 (epoch S Da c fuel x').2 := by
  obtain ⟨x', hr, hsim⟩ := restore_simM S Da c L hmap w w' d d' hs k _ (simM_refl _)
  refine ⟨x', hr, hsim, fun fuel => ?_⟩
  have := simM_epoch S Da c data hmap hget fuel hsim
  exact ⟨this.1.symm, this.2⟩

/-- The same as "the epoch with the first `k` observations dropped" (`k` at most the epoch length: no stop
among the first `k` observations). -/
theorem resume_exact_map_drop {Same : W → W → Prop} (L : IdxLaw S Same) (hmap : Da.iterable = false)
    (hget : ∀ d i, (Da.get d i).1 = data i) (w w' : W) (d d' : D) (hs : Same w w') (k fuel : Nat)
    (hk : ∀ o ∈ obsN S Da c k (create S Da w d), o ≠ .stop) :
    ∃ x', restore S Da c w' d' (save S Da (nextN S Da c k (create S Da w d))) = .ok x' ∧
      (epoch S Da c fuel x').1 = (epoch S Da c (k + fuel) (create S Da w d)).1.drop k := by
  obtain ⟨x', hr, _, he⟩ := resume_exact_map S Da c data L hmap hget w w' d d' hs k
  refine ⟨x', hr, ?_⟩
  rw [(he fuel).1, epoch_split S Da c k fuel _ hk]
  simp [obsN_length]

/-- **C01, map-style, loader level: the rest of the epoch and every following epoch.** -/
theorem resume_epochs {Same : W → W → Prop} (L : IdxLaw S Same) (hmap : Da.iterable = false)
    (hget : ∀ d i, (Da.get d i).1 = data i) (w w' : W) (d d' : D) (hs : Same w w') (k fuel E : Nat)
    (hnf : (nextN S Da c k (create S Da w d)).finished = false) :
    (Loader.epochs S Da c fuel (E + 1)
        ((Loader.fresh w' d').loadStateDict (save S Da (nextN S Da c k (create S Da w d))))).1 =
      (epoch S Da c fuel (nextN S Da c k (create S Da w d))).1 ::
        (Loader.epochs S Da c fuel E (Loader.at (epoch S Da c fuel (nextN S Da c k (create S Da w d))).2)).1 :=
  resume_epochs_map S Da c data L hmap hget w w' d d' hs k fuel E hnf

/-- … and from a state taken after the epoch's `StopIteration`: the new loader starts the next epoch. -/
theorem resume_epochs_finished {Same : W → W → Prop} (L : IdxLaw S Same) (hmap : Da.iterable = false)
    (hget : ∀ d i, (Da.get d i).1 = data i) (w w' : W) (d d' : D) (hs : Same w w') (k fuel E : Nat)
    (hfin : (nextN S Da c k (create S Da w d)).finished = true) :
    (Loader.epochs S Da c fuel E
        ((Loader.fresh w' d').loadStateDict (save S Da (nextN S Da c k (create S Da w d))))).1 =
      (Loader.epochs S Da c fuel E (Loader.at (nextN S Da c k (create S Da w d)))).1 :=
  resume_epochs_map_fin S Da c data L hmap hget w w' d d' hs k fuel E hfin

/-- **C01, map-style: closed under repetition.**  For every list of `(k_i, new objects)`: resume after `k_1`,
run `k_2` more, take the state, resume into new objects, …; the iterator at the end is similar to the
uninterrupted iterator after `Σ k_i` calls (so `resume_exact_map` applies to it again). -/
theorem resume_chain_map {Same : W → W → Prop} (L : IdxLaw S Same) (hmap : Da.iterable = false)
    (hget : ∀ d i, (Da.get d i).1 = data i) (w : W) (d : D) (ks : List (Nat × W × D))
    (hs : ∀ e ∈ ks, Same w e.2.1) :
    ∃ xr, chain S Da c ks (create S Da w d) = some xr ∧
      SimM (nextN S Da c ((ks.map (·.1)).sum) (create S Da w d)) xr := by
  have := chain_simM S Da c data L hmap hget w d ks 0 (create S Da w d) hs (simM_refl _)
  simpa using this

end resume_map

/-! ### The sampler laws (each is an `IdxLaw`, so `resume_exact_map`, `resume_epochs*`, `resume_chain_map` apply) -/

/-- plain sampler, `batch_size=None`: `itertools.islice` fast-forward. -/
theorem law_plain_bare : IdxLaw (bareSrc plainNested false id) (fun w w' => w.1 = w'.1) := idxLaw_bare_plain
/-- plain sampler under `BatchSampler`: `_BatchSamplerIterator` skips `samples_yielded` indices. -/
theorem law_plain_batch (bc : BCfg) (hbs : 0 < bc.batchSize) :
    IdxLaw (batchSrc plainNested bc id) (fun b b' => b.w.1 = b'.w.1) := idxLaw_batch_plain bc hbs
/-- `Stateful` sampler object, `batch_size=None`. -/
theorem law_obj_bare : IdxLaw (bareSrc objNested false id) (fun w w' => w.order = w'.order) := idxLaw_bare_obj
/-- `Stateful` sampler object under `BatchSampler`. -/
theorem law_obj_batch (bc : BCfg) : IdxLaw (batchSrc objNested bc id) (fun b b' => b.w.order = b'.w.order) :=
  idxLaw_batch_obj bc
/-- `RandomSampler` (stateful ITERATOR) whose generator is not the loader's, `batch_size=None`. -/
theorem law_random_bare {G : Type} (R : Gen G) (rc : RCfg) (draw : G → G) (hne : ∀ g, (getPerm R rc g).1 ≠ []) :
    IdxLaw (bareSrc (randomNested R rc) false (randSeed draw false)) (fun _ _ => True) :=
  idxLaw_bare_random R rc draw hne
/-- `RandomSampler` under `BatchSampler`, generator not the loader's. -/
theorem law_random_batch {G : Type} (R : Gen G) (rc : RCfg) (draw : G → G) (hne : ∀ g, (getPerm R rc g).1 ≠ [])
    (bc : BCfg) (hbs : 0 < bc.batchSize) :
    IdxLaw (batchSrc (randomNested R rc) bc (randSeed draw false)) (fun _ _ => True) :=
  idxLaw_batch_random R rc draw hne bc hbs

/-- Non-vacuity of `resume_exact_map` on the three sampler kinds: `Stateful` object, `batch_size=2`, resumed after
1 batch; plain sampler, `batch_size=None`, resumed after 2 (`islice`); `RandomSampler`, 3 indices, resumed after 1
into an iterator built from generator state 9, then the next epoch (generator not shared). -/
example :
    let Da := mapData (fun i => some i) true
    let c : Cfg := ⟨false, fun _ => false⟩
    let So := batchSrc objNested ⟨2, false⟩ id
    let bo : BIter ObjS := { w := { order := [4, 2, 0, 3, 1], i := 0, done := false }, samplesYielded := 0 }
    let Sp := bareSrc plainNested false id
    let R : Gen Nat := { perm := fun g n => ((List.range n).map (fun i => (i + g) % n), g + 1), ints := fun g _ _ => ([], g) }
    let rc : RCfg := { n := 3, replacement := false, numSamples := 3 }
    let Sr := bareSrc (randomNested R rc) false (randSeed (fun g => g + 1) false)
    let dummy : RIter Nat := ⟨0, 0, [], 0⟩
    (epoch So Da c 9 (create So Da bo 0)).1 = [.batch [4, 2], .batch [0, 3], .batch [1], .stop] ∧
    (Loader.epochs So Da c 9 1 ((Loader.fresh bo 0).loadStateDict (save So Da (nextN So Da c 1 (create So Da bo 0))))).1 =
      [[.batch [0, 3], .batch [1], .stop]] ∧
    (Loader.epochs Sp Da c 9 2 ((Loader.fresh ([7, 5, 6], []) 0).loadStateDict
        (save Sp Da (nextN Sp Da c 2 (create Sp Da ([7, 5, 6], []) 0))))).1 =
      [[.single 6, .stop], [.single 7, .single 5, .single 6, .stop]] ∧
    (Loader.epochs Sr Da c 9 2 (Loader.fresh (dummy, 0) 0)).1 =
      [[.single 0, .single 1, .single 2, .stop], [.single 1, .single 2, .single 0, .stop]] ∧
    (Loader.epochs Sr Da c 9 2 ((Loader.fresh (dummy, 9) 0).loadStateDict
        (save Sr Da (nextN Sr Da c 1 (create Sr Da (dummy, 0) 0))))).1 =
      [[.single 1, .single 2, .stop], [.single 1, .single 2, .single 0, .stop]] := by
  decide

/-! ## The known exception: `shuffle=True` with an explicit `generator=` at `num_workers=0` -/

/-- **Full-strength statement (FALSE).**  For a loader over a `RandomSampler`, whether or not the sampler's
generator is also `loader.generator` (`shared`: then every iterator constructor draws `_base_seed` from it):
resuming mid-epoch gives the rest of the epoch AND the uninterrupted loader's following epoch. -/
def resume_next_epoch_statement : Prop :=
  ∀ (R : Gen Nat) (rc : RCfg) (draw : Nat → Nat) (shared : Bool) (g0 g0' k fuel : Nat),
    (∀ g, (getPerm R rc g).1 ≠ []) →
    (nextN (bareSrc (randomNested R rc) false (randSeed draw shared)) (mapData (fun i => some i) false)
      ⟨false, fun _ => false⟩ k
      (create (bareSrc (randomNested R rc) false (randSeed draw shared)) (mapData (fun i => some i) false)
        (⟨0, 0, [], 0⟩, g0) 0)).finished = false →
    (Loader.epochs (bareSrc (randomNested R rc) false (randSeed draw shared)) (mapData (fun i => some i) false)
        ⟨false, fun _ => false⟩ fuel 2
        ((Loader.fresh (⟨0, 0, [], 0⟩, g0') 0).loadStateDict
          (save (bareSrc (randomNested R rc) false (randSeed draw shared)) (mapData (fun i => some i) false)
            (nextN (bareSrc (randomNested R rc) false (randSeed draw shared)) (mapData (fun i => some i) false)
              ⟨false, fun _ => false⟩ k
              (create (bareSrc (randomNested R rc) false (randSeed draw shared)) (mapData (fun i => some i) false)
                (⟨0, 0, [], 0⟩, g0) 0))))).1 =
      (epoch (bareSrc (randomNested R rc) false (randSeed draw shared)) (mapData (fun i => some i) false)
          ⟨false, fun _ => false⟩ fuel
          (nextN (bareSrc (randomNested R rc) false (randSeed draw shared)) (mapData (fun i => some i) false)
            ⟨false, fun _ => false⟩ k
            (create (bareSrc (randomNested R rc) false (randSeed draw shared)) (mapData (fun i => some i) false)
              (⟨0, 0, [], 0⟩, g0) 0))).1 ::
        (Loader.epochs (bareSrc (randomNested R rc) false (randSeed draw shared)) (mapData (fun i => some i) false)
          ⟨false, fun _ => false⟩ fuel 1
          (Loader.at (epoch (bareSrc (randomNested R rc) false (randSeed draw shared))
            (mapData (fun i => some i) false) ⟨false, fun _ => false⟩ fuel
            (nextN (bareSrc (randomNested R rc) false (randSeed draw shared)) (mapData (fun i => some i) false)
              ⟨false, fun _ => false⟩ k
              (create (bareSrc (randomNested R rc) false (randSeed draw shared)) (mapData (fun i => some i) false)
                (⟨0, 0, [], 0⟩, g0) 0))).2)).1

/-- **Negation witness**: 3 indices, permutations = rotations by the generator state, every draw advances the
state by one, generator SHARED, checkpoint after 1 item.  Uninterrupted: `[0,1,2]`, then `[2,0,1]`; resumed:
`[1,2]`, then `[1,2,0]` — the `_base_seed` draw of the saving iterator's constructor is not replayed. -/
theorem resume_next_epoch_statement_false : ¬ resume_next_epoch_statement := by
  intro h
  have := h { perm := fun g n => ((List.range n).map (fun i => (i + g) % n), g + 1), ints := fun g _ _ => ([], g) }
    { n := 3, replacement := false, numSamples := 3 } (fun g => g + 1) true 0 0 1 5
    (fun g => by simp [getPerm]) (by decide)
  revert this
  decide

/-- **The provable restriction**: the same statement with the generator NOT shared (`shuffle=True` without
`generator=`, or a generator given only to the sampler). -/
theorem resume_next_epoch_partial (R : Gen Nat) (rc : RCfg) (draw : Nat → Nat) (g0 g0' k fuel : Nat)
    (hne : ∀ g, (getPerm R rc g).1 ≠ [])
    (hnf : (nextN (bareSrc (randomNested R rc) false (randSeed draw false)) (mapData (fun i => some i) false)
      ⟨false, fun _ => false⟩ k
      (create (bareSrc (randomNested R rc) false (randSeed draw false)) (mapData (fun i => some i) false)
        (⟨0, 0, [], 0⟩, g0) 0)).finished = false) :
    (Loader.epochs (bareSrc (randomNested R rc) false (randSeed draw false)) (mapData (fun i => some i) false)
        ⟨false, fun _ => false⟩ fuel 2
        ((Loader.fresh (⟨0, 0, [], 0⟩, g0') 0).loadStateDict
          (save (bareSrc (randomNested R rc) false (randSeed draw false)) (mapData (fun i => some i) false)
            (nextN (bareSrc (randomNested R rc) false (randSeed draw false)) (mapData (fun i => some i) false)
              ⟨false, fun _ => false⟩ k
              (create (bareSrc (randomNested R rc) false (randSeed draw false)) (mapData (fun i => some i) false)
                (⟨0, 0, [], 0⟩, g0) 0))))).1 =
      (epoch (bareSrc (randomNested R rc) false (randSeed draw false)) (mapData (fun i => some i) false)
          ⟨false, fun _ => false⟩ fuel
          (nextN (bareSrc (randomNested R rc) false (randSeed draw false)) (mapData (fun i => some i) false)
            ⟨false, fun _ => false⟩ k
            (create (bareSrc (randomNested R rc) false (randSeed draw false)) (mapData (fun i => some i) false)
              (⟨0, 0, [], 0⟩, g0) 0))).1 ::
        (Loader.epochs (bareSrc (randomNested R rc) false (randSeed draw false)) (mapData (fun i => some i) false)
          ⟨false, fun _ => false⟩ fuel 1
          (Loader.at (epoch (bareSrc (randomNested R rc) false (randSeed draw false))
            (mapData (fun i => some i) false) ⟨false, fun _ => false⟩ fuel
            (nextN (bareSrc (randomNested R rc) false (randSeed draw false)) (mapData (fun i => some i) false)
              ⟨false, fun _ => false⟩ k
              (create (bareSrc (randomNested R rc) false (randSeed draw false)) (mapData (fun i => some i) false)
                (⟨0, 0, [], 0⟩, g0) 0))).2)).1 :=
  resume_epochs _ _ _ (fun i => some i) (law_random_bare R rc draw hne) rfl (fun _ _ => rfl) _ _ 0 0 trivial k fuel 1 hnf

/-! ## C01, iterable -/
section resume_iter
variable {W SSt D Ds Dt : Type} (S : IdxSrc W SSt) (Da : Data D Ds Dt) (c : Cfg)
variable {items : List Nat} (L : IterLaw Da items) {sh : Shape}

/-- **C01, iterable dataset with state** (`state_dict`/`load_state_dict` on the dataset — restored BEFORE
`iter(dataset)` —, on its iterator — restored after —, or both; law `SL`).  `x` is the uninterrupted iterator at
any point, `x1` any iterator similar to it (itself, or one that was resumed).  `x1`'s state loaded into a newly
constructed iterator over a between-epochs object `d'` gives `x'` similar to `x`: same `_num_yielded`,
`_sampler_iter_yielded`, `ended`, `_finished`, same position of the dataset.  If the epoch is not over, `x'`
yields for every `fuel` exactly what `x` yields (the remaining batches, then stop) and they end similar. -/
theorem resume_exact_iter (hS : InfSrc S sh) (hit : Da.iterable = true) (hcf : ∀ v, c.collateFail v = false)
    (SL : StateLaw Da items L) (x x1 : It W D) (h : SimI L x x1) (w' : W) (d' : D) (hg' : L.Good d') :
    ∃ x', restore S Da c w' d' (save S Da x1) = .ok x' ∧ SimI L x x' ∧
      (x.finished = false → ∀ fuel, (epoch S Da c fuel x').1 = (epoch S Da c fuel x).1 ∧
        SimI L (epoch S Da c fuel x).2 (epoch S Da c fuel x').2) := by
  obtain ⟨x', hr, hsim⟩ := restore_simI S Da c L hS hit SL x x1 h w' d' hg'
  refine ⟨x', hr, hsim, fun hnf fuel => ?_⟩
  have := simI_epoch S Da c L hS hit hcf fuel x x' hsim hnf
  exact ⟨this.1.symm, this.2⟩

/-- **C01, iterable dataset without any state: fast-forward** (`next(self)` is called `_num_yielded` times on
the new iterator, then both counters are set again).  `k` calls, none of them a stop (`k` ≤ epoch length). -/
theorem resume_exact_ffwd (hS : InfSrc S sh) (hit : Da.iterable = true) (hcf : ∀ v, c.collateFail v = false)
    (hds : Da.dsState = none) (hits : Da.itState = none) (hgood : ∀ d, L.Good d)
    (w w' : W) (d d' : D) (k : Nat) (hobs : ∀ o ∈ obsN S Da c k (create S Da w d), o ≠ .stop)
    (x1 : It W D) (h : SimI L (nextN S Da c k (create S Da w d)) x1) :
    ∃ x', restore S Da c w' d' (save S Da x1) = .ok x' ∧ SimI L (nextN S Da c k (create S Da w d)) x' ∧
      ∀ fuel, (epoch S Da c fuel x').1 = (epoch S Da c fuel (nextN S Da c k (create S Da w d))).1 ∧
        SimI L (epoch S Da c fuel (nextN S Da c k (create S Da w d))).2 (epoch S Da c fuel x').2 := by
  obtain ⟨x', hr, hsim⟩ := restore_ffwd S Da c L hS hit hcf hds hits hgood w d k hobs x1 h w' d'
  refine ⟨x', hr, hsim, fun fuel => ?_⟩
  have hnf := (simI_nextN S Da c L hS hit hcf k _ _ (simI_create S Da L w w d d (hgood d) (hgood d)) rfl hobs).2
  have := simI_epoch S Da c L hS hit hcf fuel _ x' hsim hnf
  exact ⟨this.1.symm, this.2⟩

/-- … and from the state taken after the epoch's `StopIteration`. -/
theorem resume_exact_ffwd_finished (hS : InfSrc S sh) (hit : Da.iterable = true)
    (hcf : ∀ v, c.collateFail v = false) (hds : Da.dsState = none) (hits : Da.itState = none)
    (hgood : ∀ d, L.Good d) (w w' : W) (d d' : D) (k : Nat)
    (hobs : ∀ o ∈ obsN S Da c k (create S Da w d), o ≠ .stop)
    (hstop : (next S Da c (nextN S Da c k (create S Da w d))).1 = .stop)
    (x1 : It W D) (h : SimI L (next S Da c (nextN S Da c k (create S Da w d))).2 x1) :
    ∃ x', restore S Da c w' d' (save S Da x1) = .ok x' ∧
      SimI L (next S Da c (nextN S Da c k (create S Da w d))).2 x' :=
  restore_ffwd_fin S Da c L hS hit hcf hds hits hgood w d k hobs hstop x1 h w' d'

/-- **Following epochs agree**: similar finished iterators leave dataset objects between epochs, so the next
`__iter__` of both loaders (which, for a loader resumed from an end-of-epoch state, happens at once) creates
similar iterators again, to which `simI_epoch` applies — and so on. -/
theorem resume_next_epoch_iter (y y' : It W D) (h : SimI L y y') (hfin : y.finished = true) :
    SimI L (create S Da y.sw y.dw) (create S Da y'.sw y'.dw) := by
  obtain ⟨_, _, _, hc⟩ := h
  rcases hc with ⟨a, _⟩ | ⟨a, _⟩ | ⟨_, g, g'⟩
  · rw [hfin] at a; cases a
  · rw [hfin] at a; cases a
  · exact simI_create S Da L _ _ _ _ g g'

/-- **C01, iterable: closed under repetition** — dataset with state … -/
theorem resume_chain_iter (hS : InfSrc S sh) (hit : Da.iterable = true) (hcf : ∀ v, c.collateFail v = false)
    (SL : StateLaw Da items L) (w : W) (d : D) (hg : L.Good d) (ks : List (Nat × W × D))
    (hgs : ∀ e ∈ ks, L.Good e.2.2)
    (hobs : ∀ o ∈ obsN S Da c ((ks.map (·.1)).sum) (create S Da w d), o ≠ .stop) :
    ∃ xr, chain S Da c ks (create S Da w d) = some xr ∧
      SimI L (nextN S Da c ((ks.map (·.1)).sum) (create S Da w d)) xr := by
  have := chain_simI S Da c L hS hit hcf SL w d hg ks 0 (create S Da w d) hgs (by simpa using hobs)
    (simI_create S Da L w w d d hg hg)
  simpa using this

/-- … and without (every link of the chain is a fast-forward; this is what the double-counted `_num_yielded`
used to break). -/
theorem resume_chain_ffwd (hS : InfSrc S sh) (hit : Da.iterable = true) (hcf : ∀ v, c.collateFail v = false)
    (hds : Da.dsState = none) (hits : Da.itState = none) (hgood : ∀ d, L.Good d) (w : W) (d : D)
    (ks : List (Nat × W × D))
    (hobs : ∀ o ∈ obsN S Da c ((ks.map (·.1)).sum) (create S Da w d), o ≠ .stop) :
    ∃ xr, chain S Da c ks (create S Da w d) = some xr ∧
      SimI L (nextN S Da c ((ks.map (·.1)).sum) (create S Da w d)) xr := by
  have := chain_ffwd S Da c L hS hit hcf hds hits hgood w d ks 0 (create S Da w d) (by simpa using hobs)
    (simI_create S Da L w w d d (hgood d) (hgood d))
  simpa using this

end resume_iter

/-- The index sampler of iterable datasets satisfies `InfSrc` (bare and batched), the README dataset and a
dataset with a stateful iterator object and a dataset that is its own iterator satisfy `IterLaw` + `StateLaw`, a plain generator dataset satisfies
`IterLaw` with every object `Good` — so the iterable theorems are not vacuous. -/
example : InfSrc (bareSrc infNested true id) .one ∧ InfSrc (batchSrc infNested ⟨3, true⟩ id) (.many 3) ∧
    StateLaw (readme 10 fun _ => false) (List.range 10) (readmeLaw 10) ∧
    StateLaw (itStateObj 10 fun _ => false) (List.range 10) (itObjLaw 10) ∧
    StateLaw (selfIterObj 10 fun _ => false) (List.range 10) (selfIterLaw 10) ∧
    (∀ d, (plainLaw 10).Good d) ∧ (plainGen 10 fun _ => false).dsState = none ∧
    (plainGen 10 fun _ => false).itState = none :=
  ⟨infSrc_bare, infSrc_batch ⟨3, true⟩ (by decide), readme_stateLaw 10, itObj_stateLaw 10, selfIter_stateLaw 10,
    fun _ => trivial, rfl, rfl⟩

/-- Non-vacuity on runs: README dataset (7 items, `batch_size=2`) resumed after 2 batches, and after the partial
last batch (`ended`); plain generator dataset resumed after 2 batches by fast-forward, then a second resume one
batch later (chain), then the following epoch. -/
example :
    let c : Cfg := ⟨false, fun _ => false⟩
    let S := batchSrc infNested ⟨2, false⟩ id
    let b0 : BIter Unit := { w := (), samplesYielded := 0 }
    let Dr := readme 7 fun _ => false
    let r0 : Readme := { i := 0, fr := .dead, idx := 0 }
    let Dp := plainGen 7 fun _ => false
    (Loader.epochs S Dr c 9 2 ((Loader.fresh b0 r0).loadStateDict (save S Dr (nextN S Dr c 2 (create S Dr b0 r0))))).1 =
      [[.batch [4, 5], .batch [6], .stop], [.batch [0, 1], .batch [2, 3], .batch [4, 5], .batch [6], .stop]] ∧
    (Loader.epochs S Dr c 9 1 ((Loader.fresh b0 r0).loadStateDict (save S Dr (nextN S Dr c 4 (create S Dr b0 r0))))).1 =
      [[.stop]] ∧
    (chain S Dp c [(2, b0, (.dead, 0)), (1, b0, (.dead, 0))] (create S Dp b0 (.dead, 0))).map
        (fun x => ((epoch S Dp c 9 x).1, x.ny, x.siy)) = some ([.batch [6], .stop], 3, 3) := by
  decide

end TDV.SP
