import TorchDataVerif.Proofs.NodesLoaderJ
import TorchDataVerif.Props.C04
import TorchDataVerif.Props.C13
/-!
# C02 end to end — a `Loader` over any pipeline of operators resumes exactly

Composition of the node algebra (C02 `Built`/`Lawful`, C04 denotations) with the Loader development (C13
`resume_exact*`, `refines_ref`, `get_transparent`, `load_idempotent`), over a syntax of pipelines
`Pipe` (Proofs/NodesLoaderG.lean): `list | sampler | stateful | map f | batch bs dl | unbatch | filter q | buffered sf`
(+ `Pipe.prebatch` = `ParallelMapper(prebatch=…)` as derived syntax), `Pipe.node : Pipe → Node`,
`Pipe.epochs : Pipe → Nat → List Item` (the reference items of the `j`-th consecutive epoch).

* `errFree_iff_noError`: the "never raises" notions of the two developments are the same predicate.
* `pipe_ok_built`, `pipe_ok_errFree`: the syntactic side conditions `Pipe.Ok` (map function defined on every
  item of its source, batch sizes ≥ 1, unbatcher over non-empty sequences, loop fuel) put the pipeline into
  the closure `Built` and make it `ErrFree`; hence `Lawful` and `NoError`.
* `built_delivers`: `DeliversEpochs p.node p.epochs` for `Ok` pipelines that are `Aligned` (no `Unbatcher` /
  `Prefetcher` / `ParallelMapper` above an epoch-counting `SamplerWrapper`).  For the others the hypothesis is
  **false** (`built_delivers_statement_false`): `reset(state)` of those operators pulls from the source, so a
  `reset()` right after starts the next sampler epoch although no item was requested.
* `loader_pipe_resume_exact`, `…_obs`, `…_end`, `loader_pipe_state_dict_transparent`,
  `loader_pipe_load_idempotent`: for **every** `Ok` pipeline.
* `loader_pipe_refines_ref_partial`: for `Ok`, `Aligned` pipelines; `loader_pipe_refines_ref_statement` (all
  `Ok` pipelines) is refuted by `Unbatcher(Batcher(SamplerWrapper))` and `Prefetcher(SamplerWrapper)`.
-/
namespace TDV.E2EN
open TDV.Node TDV.Loader

/-! ## 1. the two "never raises" notions -/

/-- `TDV.Node.ErrFree` and `TDV.Loader.NoError` are the same predicate. -/
theorem errFree_iff_noError (n : Node) : ErrFree n ↔ NoError n := (noError_iff_errFree n).symm

/-! ## 2. `Pipe.Ok` is sufficient; the epochs of a pipeline -/

theorem pipe_ok_built (p : Pipe) (ok : p.Ok) : Built p.node := Pipe.built ok

theorem pipe_ok_errFree (p : Pipe) (ok : p.Ok) : ErrFree p.node := Pipe.errFree ok

theorem pipe_ok_lawful (p : Pipe) (ok : p.Ok) : Lawful p.node := Pipe.lawful ok

/-- The epochs of an `Ok`, `Aligned` pipeline are `Pipe.epochs` (epoch index: starts at 0, saved and restored
with the state, advances at a plain `reset()` exactly when an item was requested since the last reset). -/
theorem built_delivers (p : Pipe) (ok : p.Ok) (ha : p.Aligned) : DeliversEpochs p.node p.epochs :=
  Pipe.delivers ok ha

/-- The same without the alignment condition. -/
def built_delivers_statement : Prop := ∀ p : Pipe, p.Ok → DeliversEpochs p.node p.epochs

/-! ### example pipelines -/

/-- A `map_fn` that handles numbers and `None` and raises on sequences. -/
def incOrNone : Item → Option Item
  | .atom n => some (.atom (n + 1))
  | .none => some .none
  | .list _ => none

/-- `Unbatcher(Prefetcher(Batcher(Mapper(IterableWrapper([1, None, 3]), inc_or_none), 2), snapshot_frequency=2))` -/
def pipeA : Pipe :=
  .unbatch 4 (.buffered 2 (.batch 2 false (.map incOrNone (.list [.atom 1, .none, .atom 3]))))

theorem pipeA_ok : pipeA.Ok := by
  refine ⟨⟨⟨trivial, ?_⟩, by decide⟩, ?_, by decide, ?_⟩
  · intro v hv
    have hv' : v ∈ [Item.atom 1, Item.none, Item.atom 3] := hv
    simp at hv'
    rcases hv' with rfl | rfl | rfl <;> rfl
  · rintro v ⟨x, xs, rfl, _⟩
    exact ⟨x, xs, rfl⟩
  · intro e
    exact (by decide : (2 : Nat) < 4)

theorem pipeA_aligned : pipeA.Aligned := trivial

example : pipeA.epochs 7 = [.atom 2, .none, .atom 4] := rfl

/-- The epoch-dependent sampler whose epoch `e` is `[2e, 2e+1]`. -/
def twoPer : Nat → List Item := fun e => [.atom (2 * e), .atom (2 * e + 1)]

def notThree : Item → Bool
  | .atom 3 => false
  | _ => true

/-- `Filter(Mapper(SamplerWrapper(sampler), inc_or_none), not_three)`: epochs `[1,2], [4], [5,6], [7,8], …` -/
def pipeS : Pipe := .filter 3 notThree (.map incOrNone (.sampler twoPer (· + 1) 0))

theorem pipeS_ok : pipeS.Ok := by
  refine ⟨⟨trivial, ?_⟩, 2, by decide, ?_⟩
  · rintro v ⟨e, hv⟩
    have hv' : v ∈ [Item.atom (2 * e), Item.atom (2 * e + 1)] := hv
    simp at hv'
    rcases hv' with rfl | rfl <;> rfl
  · intro e
    exact Nat.le_refl 2

theorem pipeS_aligned : pipeS.Aligned := trivial

example : pipeS.epochs 0 = [.atom 1, .atom 2] ∧ pipeS.epochs 1 = [.atom 4] := ⟨rfl, rfl⟩

/-- `ParallelMapper(IterableWrapper([1, None]), inc_or_none, num_workers=0, prebatch=2)` under a `Filter`-free
`Prefetcher`. -/
def pipeP : Pipe := .buffered 0 (Pipe.prebatch 3 incOrNone 2 (.list [.atom 1, .none]))

theorem pipeP_ok : pipeP.Ok := by
  refine ⟨⟨⟨trivial, by decide⟩, ?_⟩, ?_, by decide, ?_⟩
  · rintro v ⟨x, xs, rfl, hall⟩
    have hsome : ∀ ys : List Item, (∀ y ∈ ys, y ∈ [Item.atom 1, Item.none]) → (mapAll incOrNone ys).isSome = true := by
      intro ys
      induction ys with
      | nil => intro _; rfl
      | cons y ys ih =>
        intro h
        have hy := h y List.mem_cons_self
        have := ih (fun z hz => h z (List.mem_cons_of_mem _ hz))
        cases hm : mapAll incOrNone ys with
        | none => rw [hm] at this; cases this
        | some zs =>
          simp at hy
          rcases hy with rfl | rfl <;> simp [mapAll, incOrNone, hm]
    have := hsome (x :: xs) hall
    show ((mapAll incOrNone (x :: xs)).map Item.list).isSome = true
    cases hm : mapAll incOrNone (x :: xs) with
    | none => rw [hm] at this; cases this
    | some zs => rfl
  · rintro w ⟨v, ⟨x, xs, rfl, _⟩, hw⟩
    have hw' : (mapAll incOrNone (x :: xs)).map Item.list = some w := hw
    cases hx : incOrNone x with
    | none => simp [mapAll, hx] at hw'
    | some y =>
      cases hxs : mapAll incOrNone xs with
      | none => simp [mapAll, hx, hxs] at hw'
      | some ys =>
        simp only [mapAll, hx, hxs, Option.map_some, Option.some.injEq] at hw'
        exact ⟨y, ys, hw'.symm⟩
  · intro e
    exact (by decide : (1 : Nat) < 3)

example : pipeP.node = Node.buffered 0 (prebatchMapper 3 incOrNone 2 (listSource [.atom 1, .none])) := rfl

example : pipeP.epochs 0 = [.atom 2, .none] := rfl

/-- `Unbatcher(Batcher(IterableWrapper(stateful_iterable), 2))` over the list-backed `Stateful` iterable. -/
def pipeI : Pipe :=
  .unbatch 3 (.batch 2 false (.stateful (listIter [.atom 1, .none, .atom 5]) [.atom 1, .none, .atom 5]))

theorem pipeI_ok : pipeI.Ok := by
  refine ⟨⟨listIter_stOk _, by decide⟩, ?_, by decide, ?_⟩
  · rintro v ⟨x, xs, rfl, _⟩
    exact ⟨x, xs, rfl⟩
  · intro e
    exact (by decide : (2 : Nat) < 3)

/-- non-vacuity of `built_delivers` -/
example : DeliversEpochs pipeA.node pipeA.epochs ∧ DeliversEpochs pipeS.node pipeS.epochs ∧
    DeliversEpochs pipeP.node pipeP.epochs ∧ DeliversEpochs pipeI.node pipeI.epochs :=
  ⟨built_delivers _ pipeA_ok pipeA_aligned, built_delivers _ pipeS_ok pipeS_aligned,
    built_delivers _ pipeP_ok trivial, built_delivers _ pipeI_ok trivial⟩

/-! ### the alignment condition is needed -/

/-- `Unbatcher(Batcher(SamplerWrapper(sampler), 2))` -/
def witU : Pipe := .unbatch 5 (.batch 2 false (.sampler twoPer (· + 1) 0))

/-- `Prefetcher(SamplerWrapper(sampler))` (any `snapshot_frequency`; 0 here) -/
def witB : Pipe := .buffered 0 (.sampler twoPer (· + 1) 0)

theorem witU_ok : witU.Ok := by
  refine ⟨⟨trivial, by decide⟩, ?_, by decide, ?_⟩
  · rintro v ⟨x, xs, rfl, _⟩
    exact ⟨x, xs, rfl⟩
  · intro e
    exact (by decide : (1 : Nat) < 5)

theorem witB_ok : witB.Ok := trivial

/-- `it = iter(ld); next(it); sd = ld.state_dict()`; new loader; `load_state_dict(sd); iter(ld); it = iter(ld);
next(it)` with `restart_on_stop_iteration=False`. -/
def witOps : List Op := [.iter, .next, .stateDict, .fresh, .load 0, .iter, .iter, .next]

/-- Over `SamplerWrapper` alone the last `next` returns item 0 of epoch 0 (as the reference says: nothing was
requested from the resumed epoch); under `Unbatcher` or `Prefetcher` it returns item 0 of epoch **1**: the
operator's `reset(state)` pulled from the sampler, so `_started` is set. -/
example :
    (obs (Pipe.sampler twoPer (· + 1) 0).node false (Sys.init _) witOps).map Obs.code = [0, 10, 1, 0, 0, 0, 0, 10] ∧
    (obs witU.node false (Sys.init _) witOps).map Obs.code = [0, 10, 1, 0, 0, 0, 0, 12] ∧
    (obs witB.node false (Sys.init _) witOps).map Obs.code = [0, 10, 1, 0, 0, 0, 0, 12] ∧
    (Ref.obs witU.epochs false false Ref.RSys.init witOps).map Obs.code = [0, 10, 1, 0, 0, 0, 0, 10] := by
  refine ⟨?_, ?_, ?_, ?_⟩ <;> decide

theorem built_delivers_statement_false : ¬ built_delivers_statement := by
  intro h
  have h1 := refines_ref witB.node witB.epochs false (Pipe.lawful witB_ok) (h witB witB_ok) witOps
  have h2 := congrArg (List.map Obs.code) h1
  revert h2
  decide

/-- … and for `Unbatcher` too. -/
theorem unbatcher_over_sampler_not_delivers : ¬ DeliversEpochs witU.node witU.epochs := by
  intro h
  have h1 := refines_ref witU.node witU.epochs false (Pipe.lawful witU_ok) h witOps
  have h2 := congrArg (List.map Obs.code) h1
  revert h2
  decide

/-! ## 3. C02 end to end: a Loader over any `Ok` pipeline resumes exactly -/

/-- **Resume is a bisimulation**, for every `Ok` pipeline `p`: `B` = the Loader over `p` after any history `H`
whose user is iterating and has just called `state_dict()`; `A` = a newly built Loader over a newly built `p`
that does `pre`, loads that state dict and calls `iter()`.  If the checkpoint is not at the end of its epoch
(or `restart` is off) `A` and `B` are bisimilar at the whole op alphabet (`okIter`: see C13). -/
theorem loader_pipe_resume_exact (p : Pipe) (ok : p.Ok) (restart : Bool)
    (H pre : List Op) (hpre : ∀ op ∈ pre, op ≠ Op.stateDict)
    (hit : (exec p.node restart (Sys.init p.node) H).st.it.isSome = true)
    (hp : (exec p.node restart (Sys.init p.node) H).st.pending = none)
    (hf : (exec p.node restart (Sys.init p.node) H).st.iterForSd = false)
    (hh : (exec p.node restart (Sys.init p.node) H).st.handle = true)
    (hmore : restart = false ∨
      (step p.node restart (exec p.node restart (Sys.init p.node) (H ++ [.stateDict])) .next).1 ≠ Obs.out Out.stop) :
    ∃ Rel : Sys p.node → Sys p.node → Prop,
      Rel (exec p.node restart (Sys.init p.node)
            (H ++ [.stateDict] ++ (.fresh :: pre) ++ [.load (exec p.node restart (Sys.init p.node) H).toks.length, .iter]))
          (exec p.node restart (Sys.init p.node) (H ++ [.stateDict])) ∧
      ∀ a b op, Rel a b → (op = Op.iter → okIter p.node a.st = true ∧ okIter p.node b.st = true) →
        (step p.node restart a op).1 = (step p.node restart b op).1 ∧
          Rel (step p.node restart a op).2 (step p.node restart b op).2 :=
  resume_exact p.node restart (Pipe.lawful ok) (Pipe.noError ok) H pre hpre hit hp hf hh hmore

/-- … hence **exactly what the uninterrupted Loader yields after item k**, for every continuation `ops`: the
rest of the epoch, all later epochs, further checkpoints and resumes. -/
theorem loader_pipe_resume_exact_obs (p : Pipe) (ok : p.Ok) (restart : Bool)
    (H pre : List Op) (hpre : ∀ op ∈ pre, op ≠ Op.stateDict)
    (hit : (exec p.node restart (Sys.init p.node) H).st.it.isSome = true)
    (hp : (exec p.node restart (Sys.init p.node) H).st.pending = none)
    (hf : (exec p.node restart (Sys.init p.node) H).st.iterForSd = false)
    (hh : (exec p.node restart (Sys.init p.node) H).st.handle = true)
    (hmore : restart = false ∨
      (step p.node restart (exec p.node restart (Sys.init p.node) (H ++ [.stateDict])) .next).1 ≠ Obs.out Out.stop)
    (ops : List Op)
    (ga : good p.node restart (exec p.node restart (Sys.init p.node)
      (H ++ [.stateDict] ++ (.fresh :: pre) ++ [.load (exec p.node restart (Sys.init p.node) H).toks.length, .iter])) ops = true)
    (gb : good p.node restart (exec p.node restart (Sys.init p.node) (H ++ [.stateDict])) ops = true) :
    obs p.node restart (exec p.node restart (Sys.init p.node)
      (H ++ [.stateDict] ++ (.fresh :: pre) ++ [.load (exec p.node restart (Sys.init p.node) H).toks.length, .iter])) ops =
    obs p.node restart (exec p.node restart (Sys.init p.node) (H ++ [.stateDict])) ops :=
  resume_exact_obs p.node restart (Pipe.lawful ok) (Pipe.noError ok) H pre hpre hit hp hf hh hmore ops ga gb

/-- A checkpoint taken after the last item of an epoch (`restart_on_stop_iteration`): the resumed Loader is
where the original is after its `StopIteration` and the next `iter()` — it continues with the next epoch. -/
theorem loader_pipe_resume_exact_end (p : Pipe) (ok : p.Ok)
    (H pre : List Op) (hpre : ∀ op ∈ pre, op ≠ Op.stateDict)
    (hit : (exec p.node true (Sys.init p.node) H).st.it.isSome = true)
    (hp : (exec p.node true (Sys.init p.node) H).st.pending = none)
    (hf : (exec p.node true (Sys.init p.node) H).st.iterForSd = false)
    (hh : (exec p.node true (Sys.init p.node) H).st.handle = true)
    (hend : (step p.node true (exec p.node true (Sys.init p.node) (H ++ [.stateDict])) .next).1 = Obs.out Out.stop)
    (ops : List Op)
    (ga : good p.node true (exec p.node true (Sys.init p.node)
      (H ++ [.stateDict] ++ (.fresh :: pre) ++ [.load (exec p.node true (Sys.init p.node) H).toks.length, .iter])) ops = true)
    (gb : good p.node true (exec p.node true (Sys.init p.node) (H ++ [.stateDict] ++ [.next, .iter])) ops = true) :
    obs p.node true (exec p.node true (Sys.init p.node)
      (H ++ [.stateDict] ++ (.fresh :: pre) ++ [.load (exec p.node true (Sys.init p.node) H).toks.length, .iter])) ops =
    obs p.node true (exec p.node true (Sys.init p.node) (H ++ [.stateDict] ++ [.next, .iter])) ops :=
  resume_exact_end p.node (Pipe.lawful ok) (Pipe.noError ok) H pre hpre hit hp hf hh hend ops ga gb

/-- Non-vacuity on the nested pipeline `pipeA`: checkpoint after 1 of 3 items (inside a batch; the next item is
`None`), the resumed loader does a `peek` first; continuation over two epochs with a further checkpoint. -/
example :
    let root := pipeA.node
    let H : List Op := [.iter, .next]
    let A := exec root true (Sys.init root) (H ++ [.stateDict] ++ (.fresh :: [.peek]) ++ [.load 0, .iter])
    let B := exec root true (Sys.init root) (H ++ [.stateDict])
    let ops : List Op := [.next, .next, .next, .iter, .next, .stateDict, .next]
    (exec root true (Sys.init root) H).st.it.isSome = true ∧
      (exec root true (Sys.init root) H).st.pending.isNone = true ∧
      (exec root true (Sys.init root) H).st.iterForSd = false ∧
      (exec root true (Sys.init root) H).st.handle = true ∧
      (exec root true (Sys.init root) H).toks.length = 0 ∧
      (step root true B .next).1.code = 6 ∧
      good root true A ops = true ∧ good root true B ops = true ∧
      (obs root true A ops).map Obs.code = [6, 14, 4, 0, 12, 1, 6] ∧
      (obs root true B ops).map Obs.code = [6, 14, 4, 0, 12, 1, 6] := by
  refine ⟨?_, ?_, ?_, ?_, ?_, ?_, ?_, ?_, ?_, ?_⟩ <;> decide

/-- Non-vacuity of `loader_pipe_resume_exact_end`: checkpoint after the last item (before `StopIteration`). -/
example :
    let root := pipeA.node
    let H : List Op := [.iter, .next, .next, .next]
    let A := exec root true (Sys.init root) (H ++ [.stateDict] ++ (.fresh :: []) ++ [.load 0, .iter])
    let B := exec root true (Sys.init root) (H ++ [.stateDict])
    let B' := exec root true (Sys.init root) (H ++ [.stateDict] ++ [.next, .iter])
    let ops : List Op := [.next, .next, .next, .next, .iter, .next]
    (step root true B .next).1.code = 4 ∧
      good root true A ops = true ∧ good root true B' ops = true ∧
      (obs root true A ops).map Obs.code = [12, 6, 14, 4, 0, 12] ∧
      (obs root true B' ops).map Obs.code = [12, 6, 14, 4, 0, 12] := by
  refine ⟨?_, ?_, ?_, ?_, ?_⟩ <;> decide

/-- The resume theorems do **not** need alignment: `Unbatcher(Batcher(SamplerWrapper))`, checkpoint inside
the single batch of epoch 1, continuation into epoch 2. -/
example :
    let root := witU.node
    let H : List Op := [.iter, .next, .next, .next, .iter, .next]
    let A := exec root true (Sys.init root) (H ++ [.stateDict] ++ (.fresh :: []) ++ [.load 0, .iter])
    let B := exec root true (Sys.init root) (H ++ [.stateDict])
    let ops : List Op := [.next, .next, .iter, .next, .next]
    (exec root true (Sys.init root) H).st.it.isSome = true ∧
      (exec root true (Sys.init root) H).st.pending.isNone = true ∧
      (exec root true (Sys.init root) H).st.iterForSd = false ∧
      (exec root true (Sys.init root) H).st.handle = true ∧
      (step root true B .next).1.code = 13 ∧
      good root true A ops = true ∧ good root true B ops = true ∧
      (obs root true A ops).map Obs.code = [13, 4, 0, 14, 15] ∧
      (obs root true B ops).map Obs.code = [13, 4, 0, 14, 15] := by
  refine ⟨?_, ?_, ?_, ?_, ?_, ?_, ?_, ?_, ?_⟩ <;> decide

/-! ## 4. C04/C13 end to end: the Loader over a pipeline is the list-based reference over `Pipe.epochs` -/

/-- Every API history over the Loader of pipeline `p` observes exactly what the list-based reference
(`TDV.Loader.Ref`, written from the property text) observes over the epochs `Pipe.epochs p` — at full
strength: for every `Ok` pipeline. -/
def loader_pipe_refines_ref_statement : Prop :=
  ∀ (p : Pipe), p.Ok → ∀ (restart : Bool) (ops : List Op),
    obs p.node restart (Sys.init p.node) ops = Ref.obs p.epochs restart restart Ref.RSys.init ops

/-- False for `Prefetcher(SamplerWrapper)` (and `Unbatcher(Batcher(SamplerWrapper))`, see above): after
`load_state_dict(sd); iter(); iter()` the Loader is one sampler epoch ahead of the reference. -/
theorem loader_pipe_refines_ref_statement_false : ¬ loader_pipe_refines_ref_statement := by
  intro h
  have h1 := h witB witB_ok false witOps
  have h2 := congrArg (List.map Obs.code) h1
  revert h2
  decide

/-- For every `Ok` pipeline without `Unbatcher`/`Prefetcher`/`ParallelMapper` above a `SamplerWrapper`
(`Aligned`; in particular every pipeline over list sources), both values of `restart_on_stop_iteration` and
every finite history. -/
theorem loader_pipe_refines_ref_partial (p : Pipe) (ok : p.Ok) (ha : p.Aligned) (restart : Bool) (ops : List Op) :
    obs p.node restart (Sys.init p.node) ops = Ref.obs p.epochs restart restart Ref.RSys.init ops :=
  refines_ref p.node p.epochs restart (Pipe.lawful ok) (built_delivers p ok ha) ops

/-- Non-vacuity: the nested list pipeline (checkpoint inside a batch, `None` next, resumed in a new loader,
two epochs) and the sampler pipeline (epochs `[1,2], [4], [5,6], [7,8]`; `state_dict()` before the first
`iter()`; a checkpoint at the end of epoch 1 resumes into epoch 2); the pipeline over a `Stateful` iterable. -/
example :
    (obs pipeA.node true (Sys.init _)
      [.iter, .next, .stateDict, .next, .next, .next, .iter, .next, .fresh, .load 0, .iter, .next, .next, .next,
        .iter, .next]).map Obs.code = [0, 12, 1, 6, 14, 4, 0, 12, 0, 0, 0, 6, 14, 4, 0, 12] ∧
    (obs pipeS.node true (Sys.init _)
      [.stateDict, .iter, .next, .next, .next, .iter, .next, .stateDict, .next, .fresh, .load 1, .iter, .next,
        .iter, .next, .next, .next]).map Obs.code = [1, 0, 11, 12, 4, 0, 14, 1, 4, 0, 0, 0, 15, 0, 17, 18, 4] ∧
    (obs pipeI.node true (Sys.init _)
      [.iter, .next, .next, .stateDict, .next, .next, .iter, .next, .fresh, .load 0, .iter, .next, .next,
        .iter, .next]).map Obs.code = [0, 11, 6, 1, 15, 4, 0, 11, 0, 0, 0, 15, 4, 0, 11] := by
  refine ⟨?_, ?_, ?_⟩ <;> decide

/-! ## 5. C08 end to end: `state_dict()` is transparent; loading is repeatable -/

/-- **Extra `state_dict()` calls change nothing** for the Loader over any `Ok` pipeline, wherever they are
made: removing all `peek`s from a history (after any prefix `H`) leaves every other observation as it was. -/
theorem loader_pipe_state_dict_transparent (p : Pipe) (ok : p.Ok) (restart : Bool) (H ops : List Op)
    (g1 : good p.node restart (exec p.node restart (Sys.init p.node) H) ops = true)
    (g2 : good p.node restart (exec p.node restart (Sys.init p.node) H) (erasePeek ops) = true) :
    obsSkipPeek p.node restart (exec p.node restart (Sys.init p.node) H) ops =
      obs p.node restart (exec p.node restart (Sys.init p.node) H) (erasePeek ops) :=
  get_transparent p.node restart (Pipe.lawful ok) (Pipe.noError ok) H ops g1 g2

example :
    let root := pipeA.node
    let H : List Op := [.iter, .next, .stateDict, .fresh]
    let ops : List Op := [.peek, .load 0, .peek, .iter, .peek, .next, .peek, .next, .next, .iter, .peek, .next]
    good root true (exec root true (Sys.init root) H) ops = true ∧
      good root true (exec root true (Sys.init root) H) (erasePeek ops) = true ∧
      (obsSkipPeek root true (exec root true (Sys.init root) H) ops).map Obs.code = [0, 0, 6, 14, 4, 0, 12] ∧
      (obs root true (exec root true (Sys.init root) H) (erasePeek ops)).map Obs.code = [0, 0, 6, 14, 4, 0, 12] := by
  refine ⟨?_, ?_, ?_, ?_⟩ <;> decide

/-- **Loading a state dict gives the same continuation every time**, for the Loader over any `Ok` pipeline. -/
theorem loader_pipe_load_idempotent (p : Pipe) (ok : p.Ok) (restart : Bool)
    (H1 H2 : List Op) (h2 : ∀ op ∈ H2, op ≠ Op.stateDict) (i : Nat)
    (hi : i < (exec p.node restart (Sys.init p.node) H1).toks.length) (ops : List Op)
    (ga : good p.node restart (exec p.node restart (Sys.init p.node) (H1 ++ [.load i, .iter])) ops = true)
    (gb : good p.node restart (exec p.node restart (Sys.init p.node) (H1 ++ H2 ++ [.load i, .iter])) ops = true) :
    obs p.node restart (exec p.node restart (Sys.init p.node) (H1 ++ [.load i, .iter])) ops =
      obs p.node restart (exec p.node restart (Sys.init p.node) (H1 ++ H2 ++ [.load i, .iter])) ops :=
  load_idempotent p.node restart (Pipe.lawful ok) (Pipe.noError ok) H1 H2 h2 i hi ops ga gb

example :
    let root := pipeA.node
    let H1 : List Op := [.iter, .next, .stateDict, .next]
    let H2 : List Op := [.load 0, .iter, .next, .next, .iter, .peek]
    let ops : List Op := [.next, .next, .next]
    0 < (exec root true (Sys.init root) H1).toks.length ∧
      good root true (exec root true (Sys.init root) (H1 ++ [.load 0, .iter])) ops = true ∧
      good root true (exec root true (Sys.init root) (H1 ++ H2 ++ [.load 0, .iter])) ops = true ∧
      (obs root true (exec root true (Sys.init root) (H1 ++ H2 ++ [.load 0, .iter])) ops).map Obs.code = [6, 14, 4] := by
  refine ⟨?_, ?_, ?_, ?_⟩ <;> decide

end TDV.E2EN
