import TorchDataVerif.Proofs.MPMapThm
/-!
# MP — property theorems for the multi-process protocol (serving C01, C03, C05, C09, C10)

Every theorem quantifies over ALL action sequences (`run c (init c) as = some s`): every schedule of
workers, every arrival order in the shared result queue, every placement of `state_dict` calls, kills
and liveness polls.  `NoReset as` restricts to one epoch of a freshly constructed iterator;
`¬ died s` = no `RuntimeError: DataLoader worker exited unexpectedly` has been raised so far.
Helper lemmas live in `Proofs/MP*.lean`.
-/
namespace TDV.MP

/-! ## Part 1 — map-style datasets, `in_order = True` -/

section Map

variable (c : Cfg) (hv : c.Valid) (hm : c.iterable = false) (hio : c.inOrder = true)
include hv hm hio

/-- **C03/C05 safety.**  In every reachable state, for every schedule, the batches yielded so far are a
prefix of the reference stream (as long as the `_take_snapshot` assertion has not fired — see
`take_snapshot_assertion_holds_map` for when it cannot). -/
theorem yields_prefix_ref_map (as : List Action) (s : State) (hnr : NoReset as)
    (hr : run c (init c) as = some s) (hd : ¬ died s) (ha : Obs.assertion ∉ s.obs) :
    yields s.obs <+: oks (refStream c) := by
  rw [yields_eq_map c hv hm hio as s hnr hr hd ha]
  simp only [refStream, hm]
  exact oks_take_prefix _ _

/-- **C05 determinism.**  Two schedules of the same configuration that both yield `n` batches yield the
same `n` batches. -/
theorem deterministic_map (as₁ as₂ : List Action) (s₁ s₂ : State) (hn₁ : NoReset as₁) (hn₂ : NoReset as₂)
    (hr₁ : run c (init c) as₁ = some s₁) (hr₂ : run c (init c) as₂ = some s₂)
    (hd₁ : ¬ died s₁) (hd₂ : ¬ died s₂) (ha₁ : Obs.assertion ∉ s₁.obs) (ha₂ : Obs.assertion ∉ s₂.obs)
    (hlen : (yields s₁.obs).length = (yields s₂.obs).length) : yields s₁.obs = yields s₂.obs :=
  prefix_eq_of_length _ _ _ (yields_prefix_ref_map c hv hm hio as₁ s₁ hn₁ hr₁ hd₁ ha₁)
    (yields_prefix_ref_map c hv hm hio as₂ s₂ hn₂ hr₂ hd₂ ha₂) hlen

/-- **C03 exactly once / epoch complete.**  Once `next()` has raised StopIteration, the consumer has
seen every task of the epoch answered, in order: batch or error at its position, nothing lost,
nothing duplicated. -/
theorem epoch_complete_map (as : List Action) (s : State) (hnr : NoReset as)
    (hr : run c (init c) as = some s) (hd : ¬ died s) (ha : Obs.assertion ∉ s.obs) (hstop : Obs.stop ∈ s.obs) :
    taskObs s.obs = (refStream c).map expected ∧ yields s.obs = oks (refStream c) := by
  obtain ⟨hi, _⟩ := reach_map c hv hm hio as s hnr hr hd
  have hN := hi.fin hstop
  have h1 := taskObs_eq_map c hv hm hio as s hnr hr hd ha
  have h2 := yields_eq_map c hv hm hio as s hnr hr hd ha
  rw [hN, List.take_length] at h1 h2
  simp only [refStream, hm]
  exact ⟨h1, h2⟩

/-- **C05/C10 `take_snapshot_assertion_holds`, map-style, full strength.**  `assert main_snapshot_idx ==
rcvd_idx - 1` in `_take_snapshot` never fires: for every snapshot interval, every set of failing fetches and
every schedule.  (Since repo fix f1014eb a snapshot is due when the batch being yielded is a task that
carries a main snapshot; before, yields were counted and a failing fetch broke the alignment — see `c10a`.) -/
theorem take_snapshot_assertion_holds_map (as : List Action) (s : State) (hnr : NoReset as)
    (hr : run c (init c) as = some s) (hd : ¬ died s) :
    Obs.assertion ∉ s.obs :=
  (reach_map c hv hm hio as s hnr hr hd).2.noas

/-- **C10 `error_position`, map-style, full strength.**  For every interval and every set of failing
fetches the consumer's observations (batches and re-raised errors) are exactly the reference stream with
the failing entries replaced by the error, position by position, for every schedule; nothing is lost. -/
theorem error_position_map (as : List Action) (s : State) (hnr : NoReset as)
    (hr : run c (init c) as = some s) (hd : ¬ died s) :
    taskObs s.obs = ((refStream c).take s.rcvdIdx).map expected ∧
    (Obs.stop ∈ s.obs → taskObs s.obs = (refStream c).map expected) := by
  have ha := take_snapshot_assertion_holds_map c hv hm hio as s hnr hr hd
  have h1 := taskObs_eq_map c hv hm hio as s hnr hr hd ha
  refine ⟨by simpa only [refStream, hm, Bool.false_eq_true, if_false] using h1, fun hstop => ?_⟩
  exact (epoch_complete_map c hv hm hio as s hnr hr hd ha hstop).1

/-- **C05 `snapshot_fields`, map-style, every interval and every set of failing fetches.**  What
`state_dict()` reports is a function of the number of tasks consumed (`rcvd_idx`) only: the snapshot in
force was taken when task `m - 1` was yielded, where `m = lastDue c rcvd_idx` is the largest `m ≤ rcvd_idx`
such that task `m - 1` carries a main snapshot (`m % interval = 0`) and did not fail (`m = 0`: the initial
snapshot).  Its sampler position is `m`, `snapshot_step` is the number of batches yielded up to and
including that task (`okCount c m`), `last_yielded_worker_id` is the owner of that task, and
`steps_since_snapshot = num_yielded − snapshot_step`.  (A flagged task that fails takes no snapshot: the
previous one stays in force.) -/
theorem snapshot_fields_map (as : List Action) (s : State) (hnr : NoReset as)
    (hr : run c (init c) as = some s) (hd : ¬ died s) :
    s.numYielded = (yields s.obs).length ∧ s.numYielded = okCount c s.rcvdIdx ∧
    s.snap.main = lastDue c s.rcvdIdx ∧ s.snap.step = okCount c s.snap.main ∧
    s.snap.lastW = (if s.snap.main = 0 then c.W - 1 else (s.snap.main - 1) % c.W) := by
  obtain ⟨_, hs⟩ := reach_map c hv hm hio as s hnr hr hd
  exact ⟨hs.ny, hs.cnt, hs.main, hs.step, hs.lastW⟩

/-- **C05 `snapshot_fields`, map-style, no failing fetch** (the pre-f1014eb formulation, a corollary): what
`state_dict()` reports after the `n`-th yield is a function of `n` only: `snapshot_step` is the largest
multiple of the interval `≤ n` (0 without interval), `last_yielded_worker_id` is the owner of the
`snapshot_step`-th batch and the sampler position in the snapshot is `snapshot_step`. -/
theorem snapshot_fields_map_errFree (as : List Action) (s : State) (hnr : NoReset as)
    (hr : run c (init c) as = some s) (hd : ¬ died s) (he : errFree c) :
    s.numYielded = (yields s.obs).length ∧
    s.snap.step = (if c.interval = 0 then 0 else c.interval * (s.numYielded / c.interval)) ∧
    s.snap.lastW = (if s.snap.step = 0 then c.W - 1 else (s.snap.step - 1) % c.W) ∧
    s.snap.main = s.snap.step := by
  obtain ⟨_, hs⟩ := reach_map c hv hm hio as s hnr hr hd
  refine ⟨hs.ny, ?_, hs.lw he⟩
  by_cases h0 : c.interval = 0
  · simp [h0, hs.st0 h0]
  · obtain ⟨⟨k, hk⟩, h2, h3⟩ := hs.st he h0
    simp only [h0, if_false]
    rw [hk] at h2 h3 ⊢
    congr 1
    have hpos : 0 < c.interval := Nat.pos_of_ne_zero h0
    have : c.interval * k ≤ s.numYielded ∧ s.numYielded < c.interval * (k + 1) := ⟨h2, by rw [Nat.mul_succ]; exact h3⟩
    exact (Nat.div_eq_of_lt_le (by rw [Nat.mul_comm]; exact this.1) (by rw [Nat.mul_comm]; exact this.2)).symm

/-- **C03 liveness, `progress`.**  Whenever the consumer is blocked inside `next()`, some worker can
handle a message, or a result can be received, or (a worker that still owes work is dead) the liveness
poll is enabled and raises the worker-died error: the protocol never deadlocks, for every schedule and
any number of kills. -/
theorem progress_map (as : List Action) (s : State) (hnr : NoReset as)
    (hr : run c (init c) as = some s) (hd : ¬ died s) (hph : s.phase = .waiting) :
    (∃ s', step c s .recv = some s') ∨ (∃ w s', step c s (.work w) = some s') ∨
    (∃ s', step c s .pollTimeout = some s' ∧ died s') := by
  obtain ⟨h1, _, h3⟩ := reach_map_all c hv hm hio as s hnr hr hd
  exact progress_of_inv c s hv h1 h3 hph

/-- **C03 liveness, decreasing measure.**  Every `work` step, and every `recv` step that leaves the
consumer blocked, strictly decreases `2·(queued index messages) + (results in flight)`; together with
`progress_map` every fair run of `next()` returns. -/
theorem variant_map (as : List Action) (s s' : State) (a : Action) (hnr : NoReset as)
    (hr : run c (init c) as = some s) (hd : ¬ died s) (hst : step c s a = some s')
    (ha : a = .recv ∨ ∃ w, a = .work w) (hph : s'.phase = .waiting) : measure s' < measure s := by
  rcases ha with rfl | ⟨w, rfl⟩
  · exact recv_decreases_map c s s' hv hm hio (reach_map c hv hm hio as s hnr hr hd).1 hst hph
  · exact work_decreases c s s' w hst

/-- **C09 `kill_safe`** (map-style): with any number of `kill` actions in the schedule, as long as no
worker death has been reported the yields are a prefix of the reference stream, and StopIteration is
only ever raised after every task of the epoch has been answered (in particular never while a task of
a dead, not yet retired worker is outstanding). -/
theorem kill_safe_map (as : List Action) (s : State) (hnr : NoReset as)
    (hr : run c (init c) as = some s) (hd : ¬ died s) (ha : Obs.assertion ∉ s.obs) :
    yields s.obs <+: oks (refStream c) ∧
    (Obs.stop ∈ s.obs → s.rcvdIdx = c.batches.length ∧ taskObs s.obs = (refStream c).map expected) := by
  refine ⟨yields_prefix_ref_map c hv hm hio as s hnr hr hd ha, fun hstop => ?_⟩
  exact ⟨(reach_map c hv hm hio as s hnr hr hd).1.fin hstop,
    (epoch_complete_map c hv hm hio as s hnr hr hd ha hstop).1⟩

/-- **C05 `delta_at_yield`** (map-style).  Worker state deltas are applied when their batch is consumed,
not when it arrives: in every reachable state the accumulated worker snapshots equal `wsAfter c rcvd_idx`,
a function of the number of tasks consumed so far only (= the number of yields when no fetch fails) — never
of what the workers have prefetched or of the arrival order; and the delta carried by the result of task
`idx` is `stOf c idx`, the state of worker `idx % W` after its `(idx / W + 1)`-th fetch. -/
theorem delta_at_yield_map (as : List Action) (s : State) (hnr : NoReset as)
    (hr : run c (init c) as = some s) (hd : ¬ died s) :
    s.wsnaps = wsAfter c s.rcvdIdx ∧ (errFree c → s.rcvdIdx = (yields s.obs).length) := by
  rcases run_deltaM c as (init c) s hv hm hio hnr
    (Or.inl ⟨init_invM c hv hm hio, init_deltaM c hv hm hio⟩) hr with h | h
  · obtain ⟨_, hs⟩ := reach_map c hv hm hio as s hnr hr hd
    exact ⟨h.2.ws, fun he => by rw [← hs.al he, hs.ny]⟩
  · exact absurd h hd

end Map

/-- **C09 `kill_detected`** (every configuration, every state): if the consumer is blocked with an empty
result queue and some worker that is still expected to work (`_workers_status` true) is not alive,
then the liveness poll is enabled, raises the worker-died error and returns control to the consumer. -/
theorem kill_detected (c : Cfg) (s : State) (w : Nat) (k : Worker) (hph : s.phase ≠ .idle) (hq : s.resQ = [])
    (hw : w < c.W) (hup : up s w = true) (hk : s.workers[w]? = some k) (hdead : k.alive = false) :
    ∃ s', step c s .pollTimeout = some s' ∧ died s' ∧ s'.phase = .idle := by
  obtain ⟨s', h1, h2, h3⟩ := pollTimeout_detects c s w k hph hq hw hup hk hdead
  exact ⟨s', h1, by unfold died; rw [h2]; simp, h3⟩

/-- **C10 `error_position`, full statement** (all intervals, all failing sets, every schedule). -/
def error_position_statement : Prop :=
  ∀ (c : Cfg), c.Valid → c.iterable = false → c.inOrder = true →
  ∀ (as : List Action) (s : State), NoReset as → run c (init c) as = some s → ¬ died s →
    taskObs s.obs = ((refStream c).take s.rcvdIdx).map expected

/-- The full statement is a theorem since repo fix f1014eb (it was refuted by `c10a` before: known
finding C10-a). -/
theorem error_position : error_position_statement :=
  fun c hv hm hio as s hnr hr hd => (error_position_map c hv hm hio as s hnr hr hd).1

/-- The former C10-a witness, kept as a regression example: `snapshot_every_n_steps = 2`, two workers, the
third task fails. -/
def c10a : Cfg :=
  { W := 2, P := 2, interval := 2, inOrder := true, iterable := false, persistent := false, shards := []
    batches := [.ok 10, .ok 11, .err, .ok 13, .ok 14, .ok 15] }

def c10aRun : List Action :=
  [.work 0, .work 1, .work 0, .work 1, .next, .recv, .next, .recv, .next, .recv, .next, .recv,
   .work 0, .work 1, .next, .recv, .next, .recv, .next]

/-- Regression example.  Before f1014eb the consumer saw `10, 11, error, 13, AssertionError, 15, stop`
(batch 14 lost: the yield count had drifted from the tasks carrying a main snapshot).  Now the observation
sequence is complete.  The `state_dict()` calls show the snapshots in force: after `13` (task 3, the second
flagged task) `snapshot_step = 3`, sampler position 4; after `15` (task 5) `snapshot_step = 5`, position 6. -/
example :
    (run c10a (init c10a) c10aRun).map (·.obs) =
      some [.item 10, .item 11, .error, .item 13, .item 14, .item 15, .stop] ∧
    (run c10a (init c10a) (c10aRun.take 12 ++ [.stateDict])).map (·.obs.getLast?) =
      some (some (.sd 3 0 1 4 [⟨1, false⟩, ⟨2, false⟩])) ∧
    (run c10a (init c10a) (c10aRun ++ [.stateDict])).map (·.obs.getLast?) =
      some (some (.sd 5 0 1 6 [⟨3, false⟩, ⟨3, false⟩])) ∧
    c10a.Valid ∧ NoReset c10aRun ∧ lastDue c10a 4 = 4 ∧ okCount c10a 4 = 3 ∧ lastDue c10a 3 = 2 := by
  refine ⟨by decide, by decide, by decide, ⟨by decide, by decide⟩, by simp [NoReset, c10aRun], by decide, by decide,
    by decide⟩

/-- Non-vacuity of `delta_at_yield_map`: interval 3, two workers: after four consumed tasks worker 0 has
reported its state after its 2nd fetch (task 2 carried a delta), worker 1 after its 1st (task 1 did,
task 3 did not). -/
example :
    let c : Cfg := { W := 2, P := 2, interval := 3, inOrder := true, iterable := false, persistent := false
                     shards := [], batches := [.ok 0, .ok 1, .ok 2, .ok 3, .ok 4] }
    wsAfter c 4 = [⟨2, false⟩, ⟨1, false⟩] ∧ stOf c 3 = none ∧ stOf c 2 = some ⟨2, false⟩ := by
  decide

/-! Non-vacuity: the hypotheses of the map-style theorems are satisfied by a run with out-of-order
arrival (worker 1 answers before worker 0), a `state_dict` call and a failing fetch at interval 1
(`c10a` above: a failing fetch at interval 2). -/

def exCfg : Cfg :=
  { W := 2, P := 1, interval := 1, inOrder := true, iterable := false, persistent := false, shards := []
    batches := [.ok 10, .err, .ok 12] }

def exRun : List Action :=
  [.work 1, .next, .work 0, .recv, .recv, .stateDict, .next, .work 0, .next, .recv, .next]

example : exCfg.Valid ∧ exCfg.iterable = false ∧ exCfg.inOrder = true ∧ NoReset exRun ∧
    (run exCfg (init exCfg) exRun).map (·.obs) =
      some [.item 10, .sd 1 0 0 1 [⟨1, false⟩, ⟨0, false⟩], .error, .item 12, .stop] := by
  refine ⟨⟨by decide, by decide⟩, rfl, rfl, by simp [NoReset, exRun], by decide⟩

/-- Non-vacuity of `kill_detected` / `kill_safe`: worker 0 is killed before it answers anything; the
consumer blocks in `next()`, the liveness poll raises the worker-died error, nothing was yielded. -/
example :
    (run exCfg (init exCfg) [.kill 0, .next]).map
        (fun s => (s.phase, s.resQ, up s 0, (s.workers[0]?).map (·.alive))) =
      some (.waiting, [], true, some false) ∧
    (run exCfg (init exCfg) [.kill 0, .next, .pollTimeout]).map (fun s => (s.obs, s.phase)) =
      some ([.workerDied], .idle) := by
  decide

/-! ## Part 2 — iterable datasets with worker retirement, `in_order = True` -/

section Iter

variable (c : Cfg) (hv : c.ValidI) (hit : c.iterable = true) (hio : c.inOrder = true)
include hv hit hio

/-- **C03/C05 safety, iterable.**  For every schedule — in particular whenever end-of-shard notices
arrive early, late or out of order, and however many dead tasks were dispatched to workers that had
ended but were not yet known to have ended — the batches yielded so far are a prefix of
`Ref.interleave shards` (torch's DataLoader order). -/
theorem yields_prefix_ref_iter (as : List Action) (s : State) (hnr : NoReset as)
    (hr : run c (init c) as = some s) (hd : ¬ died s) (ha : Obs.assertion ∉ s.obs) :
    yields s.obs <+: oks (refStream c) := by
  obtain ⟨D, hp, ho, _⟩ := taskObs_eq_iter c hv hit hio as s hnr hr hd ha
  rw [← yields_taskObs, ho, yields_map_expected]
  simp only [refStream, hit, if_true]
  exact oks_prefix _ _ hp

/-- **C05 determinism, iterable.** -/
theorem deterministic_iter (as₁ as₂ : List Action) (s₁ s₂ : State) (hn₁ : NoReset as₁) (hn₂ : NoReset as₂)
    (hr₁ : run c (init c) as₁ = some s₁) (hr₂ : run c (init c) as₂ = some s₂)
    (hd₁ : ¬ died s₁) (hd₂ : ¬ died s₂) (ha₁ : Obs.assertion ∉ s₁.obs) (ha₂ : Obs.assertion ∉ s₂.obs)
    (hlen : (yields s₁.obs).length = (yields s₂.obs).length) : yields s₁.obs = yields s₂.obs :=
  prefix_eq_of_length _ _ _ (yields_prefix_ref_iter c hv hit hio as₁ s₁ hn₁ hr₁ hd₁ ha₁)
    (yields_prefix_ref_iter c hv hit hio as₂ s₂ hn₂ hr₂ hd₂ ha₂) hlen

/-- **C10 `error_position`, iterable, safety half.**  As long as the `_take_snapshot` assertion has not
fired, what the consumer has seen (batches and re-raised errors) is a prefix of the reference stream
with the failing fetches replaced by the error — nothing moved, nothing lost, for every schedule. -/
theorem error_position_prefix_iter (as : List Action) (s : State) (hnr : NoReset as)
    (hr : run c (init c) as = some s) (hd : ¬ died s) (ha : Obs.assertion ∉ s.obs) :
    ∃ n, taskObs s.obs = ((refStream c).take n).map expected := by
  obtain ⟨D, hp, ho, _⟩ := taskObs_eq_iter c hv hit hio as s hnr hr hd ha
  refine ⟨D.length, ?_⟩
  simp only [refStream, hit, if_true]
  rw [ho]
  congr 1
  exact List.prefix_iff_eq_take.mp hp

/-- **C03 exactly once / epoch complete, iterable.**  Once `next()` has raised StopIteration — which
happens only after every worker has retired — the consumer has seen the whole of `Ref.interleave shards`,
each batch (or its error) exactly once and in order: the epoch cannot end early, whatever the arrival
order of the end-of-shard notices and however many dead tasks were dispatched. -/
theorem epoch_complete_iter (as : List Action) (s : State) (hnr : NoReset as)
    (hr : run c (init c) as = some s) (hd : ¬ died s) (ha : Obs.assertion ∉ s.obs) (hstop : Obs.stop ∈ s.obs) :
    taskObs s.obs = (refStream c).map expected ∧ yields s.obs = oks (refStream c) := by
  obtain ⟨D, _, ho, hf⟩ := taskObs_eq_iter c hv hit hio as s hnr hr hd ha
  have hD := hf hstop
  simp only [refStream, hit, if_true]
  refine ⟨by rw [ho, hD], ?_⟩
  rw [← yields_taskObs, ho, yields_map_expected, hD]

end Iter

/-- **`take_snapshot_assertion_holds`, iterable — statement only.**  For iterable datasets the dispatch-time
window `x + 1 + W·P ≥ interval` is claimed to cover every task that can be yielded at a snapshot step
(a task dispatched at `num_yielded = y` is yielded as batch `≤ y + 1 + W·P`), for every schedule and —
unlike map-style — also with failing fetches.  NOT proved here (needs a counting invariant on the number
of data tasks in flight); 433 real runs with failing items and intervals 2–7 never raised it, and the
trace acceptor would reject a run in which model and code disagree on it. -/
def take_snapshot_assertion_holds_iter_statement : Prop :=
  ∀ (c : Cfg), c.ValidI → c.iterable = true → c.inOrder = true →
  ∀ (as : List Action) (s : State), NoReset as → run c (init c) as = some s → ¬ died s →
    Obs.assertion ∉ s.obs

/-- Non-vacuity (iterable): two workers with shards of 1 and 3 batches, prefetch factor 2.  Worker 0's
end-of-shard notice (task 2) arrives before worker 1's first batch; tasks 4 and 6 are dead tasks of the
retired worker 0 and are skipped; the order is still torch's `0,1000,1001,1002`. -/
def exIter : Cfg :=
  { W := 2, P := 2, interval := 1, inOrder := true, iterable := true, persistent := false
    shards := [[.ok 0], [.ok 1000, .ok 1001, .ok 1002]], batches := [] }

def exIterRun : List Action :=
  [.work 0, .work 0, .next, .recv, .next, .recv, .work 1, .recv, .next, .work 1, .recv, .next, .work 1, .recv,
   .next, .work 1, .recv]

example : exIter.ValidI ∧ exIter.iterable = true ∧ exIter.inOrder = true ∧ NoReset exIterRun ∧
    (run exIter (init exIter) exIterRun).map (fun s => (yields s.obs, s.obs.getLast?)) =
      some ([0, 1000, 1001, 1002], some .stop) := by
  refine ⟨⟨⟨by decide, by decide⟩, rfl⟩, rfl, rfl, by simp [NoReset, exIterRun], by decide⟩

/-! ## Both dataset kinds -/

/-- Well-formed configuration: at least one worker, prefetch factor ≥ 1, one shard per worker. -/
def Cfg.WF (c : Cfg) : Prop := c.Valid ∧ (c.iterable = true → c.shards.length = c.W)

/-- **C03/C05 `yields_prefix_ref`.**  For every configuration (map-style or iterable), every schedule, every
reachable state: the batches yielded so far are a prefix of `Ref.stream cfg`. -/
theorem yields_prefix_ref (c : Cfg) (hv : c.WF) (hio : c.inOrder = true) (as : List Action) (s : State)
    (hnr : NoReset as) (hr : run c (init c) as = some s) (hd : ¬ died s) (ha : Obs.assertion ∉ s.obs) :
    yields s.obs <+: oks (refStream c) := by
  rcases Bool.eq_false_or_eq_true c.iterable with hit | hit
  · exact yields_prefix_ref_iter c ⟨hv.1, hv.2 hit⟩ hit hio as s hnr hr hd ha
  · exact yields_prefix_ref_map c hv.1 hit hio as s hnr hr hd ha

/-- **C05 `deterministic`.**  Two schedules of one configuration that both yield `n` batches yield the
same `n` batches. -/
theorem deterministic (c : Cfg) (hv : c.WF) (hio : c.inOrder = true) (as₁ as₂ : List Action) (s₁ s₂ : State)
    (hn₁ : NoReset as₁) (hn₂ : NoReset as₂)
    (hr₁ : run c (init c) as₁ = some s₁) (hr₂ : run c (init c) as₂ = some s₂)
    (hd₁ : ¬ died s₁) (hd₂ : ¬ died s₂) (ha₁ : Obs.assertion ∉ s₁.obs) (ha₂ : Obs.assertion ∉ s₂.obs)
    (hlen : (yields s₁.obs).length = (yields s₂.obs).length) : yields s₁.obs = yields s₂.obs :=
  prefix_eq_of_length _ _ _ (yields_prefix_ref c hv hio as₁ s₁ hn₁ hr₁ hd₁ ha₁)
    (yields_prefix_ref c hv hio as₂ s₂ hn₂ hr₂ hd₂ ha₂) hlen

/-- **C03 `exactly_once` / `epoch_complete`, both kinds.**  When `next()` returns stop, everything has
been delivered exactly once, in `Ref.stream` order. -/
theorem epoch_complete (c : Cfg) (hv : c.WF) (hio : c.inOrder = true) (as : List Action) (s : State)
    (hnr : NoReset as) (hr : run c (init c) as = some s) (hd : ¬ died s) (ha : Obs.assertion ∉ s.obs)
    (hstop : Obs.stop ∈ s.obs) :
    taskObs s.obs = (refStream c).map expected ∧ yields s.obs = oks (refStream c) := by
  rcases Bool.eq_false_or_eq_true c.iterable with hit | hit
  · exact epoch_complete_iter c ⟨hv.1, hv.2 hit⟩ hit hio as s hnr hr hd ha hstop
  · exact epoch_complete_map c hv.1 hit hio as s hnr hr hd ha hstop

/-- **C05 `snapshot_fields`, both kinds.**  `_num_yielded` is the number of batches yielded; and for iterable
datasets, or when no fetch fails, what `state_dict()` reports after the `n`-th yield depends on `n` only, for
every schedule: `snapshot_step = interval·⌊n / interval⌋` (0 without interval), `steps_since_snapshot =
n − snapshot_step`.  (Map-style with failing fetches: snapshots follow the tasks, not the yields, see
`snapshot_fields_map`; e.g. `c10a` reports `snapshot_step = 3` at interval 2.) -/
theorem snapshot_fields (c : Cfg) (hv : c.WF) (hio : c.inOrder = true) (as : List Action) (s : State)
    (hnr : NoReset as) (hr : run c (init c) as = some s) (hd : ¬ died s) :
    s.numYielded = (yields s.obs).length ∧
    (c.iterable = true ∨ errFree c →
      s.snap.step = (if c.interval = 0 then 0 else c.interval * (s.numYielded / c.interval)) ∧
      s.numYielded - s.snap.step = (if c.interval = 0 then s.numYielded else s.numYielded % c.interval)) := by
  have key : s.numYielded = (yields s.obs).length ∧ (c.interval = 0 → s.snap.step = 0) ∧
      (c.iterable = true ∨ errFree c → c.interval ≠ 0 →
        c.interval ∣ s.snap.step ∧ s.snap.step ≤ s.numYielded ∧ s.numYielded < s.snap.step + c.interval) := by
    rcases Bool.eq_false_or_eq_true c.iterable with hit | hit
    · rcases run_gs_iter c as (init c) s (hv.2 hit) hit hio hnr
        (Or.inl ⟨init_invI c ⟨hv.1, hv.2 hit⟩ hit hio, init_gs c hv.1⟩) hr with h | h
      · exact ⟨h.2.ny, h.2.st0, fun _ h0 => h.2.st h0 hit⟩
      · exact absurd h hd
    · obtain ⟨_, hs⟩ := reach_map c hv.1 hit hio as s hnr hr hd
      refine ⟨hs.ny, hs.st0, fun hF h0 => ?_⟩
      rcases hF with hF | hF
      · rw [hit] at hF; cases hF
      · exact hs.st hF h0
  obtain ⟨hny, hst0, hst⟩ := key
  refine ⟨hny, fun hF => ?_⟩
  by_cases h0 : c.interval = 0
  · simp [h0, hst0 h0]
  · obtain ⟨⟨k, hk⟩, h2, h3⟩ := hst hF h0
    simp only [h0, if_false]
    have hpos : 0 < c.interval := Nat.pos_of_ne_zero h0
    have hdiv : s.numYielded / c.interval = k := by
      rw [hk] at h2 h3
      exact Nat.div_eq_of_lt_le (by rw [Nat.mul_comm]; exact h2) (by rw [Nat.mul_comm, Nat.mul_succ]; exact h3)
    refine ⟨by rw [hdiv, hk], ?_⟩
    have := Nat.div_add_mod s.numYielded c.interval
    rw [hdiv, ← hk] at this
    omega

/-- **C03 liveness `progress`, both kinds.**  Whenever the consumer is blocked inside `next()`, a result
can be received, or some worker can handle a message, or a worker that still owes work is dead and the
liveness poll raises the worker-died error.  No deadlock, for every schedule, any number of kills, any
arrival order of end-of-shard notices. -/
theorem progress (c : Cfg) (hv : c.WF) (hio : c.inOrder = true) (as : List Action) (s : State)
    (hnr : NoReset as) (hr : run c (init c) as = some s) (hd : ¬ died s) (hph : s.phase = .waiting) :
    (∃ s', step c s .recv = some s') ∨ (∃ w s', step c s (.work w) = some s') ∨
    (∃ s', step c s .pollTimeout = some s' ∧ died s') := by
  rcases Bool.eq_false_or_eq_true c.iterable with hit | hit
  · exact progress_of_invI c s (reach_iter c ⟨hv.1, hv.2 hit⟩ hit hio as s hnr hr hd) hph
  · exact progress_map c hv.1 hit hio as s hnr hr hd hph

/-- **C03 liveness, decreasing measure, iterable.**  Every `work` step, and every `recv` step that leaves
the consumer blocked (including the receipt of an end-of-shard notice, which retires a worker and
dispatches one more task), strictly decreases
`5·(workers still expected to work) + 2·(queued index messages) + (results in flight)`.
With `progress`: every fair run of `next()` returns. -/
theorem variant_iter (c : Cfg) (hv : c.ValidI) (hit : c.iterable = true) (hio : c.inOrder = true)
    (as : List Action) (s s' : State) (a : Action) (hnr : NoReset as)
    (hr : run c (init c) as = some s) (hd : ¬ died s) (hst : step c s a = some s')
    (ha : a = .recv ∨ ∃ w, a = .work w) (hph : s'.phase = .waiting) : measureI s' < measureI s := by
  rcases ha with rfl | ⟨w, rfl⟩
  · exact recv_decreases_iter c s s' hio (reach_iter c hv hit hio as s hnr hr hd) hst hph
  · exact work_decreases_I c s s' w hst

/-- **C09 `kill_safe`, both kinds.**  `kill` actions may occur anywhere in the schedule: as long as no
worker death has been reported, the yields are a prefix of the reference stream, and StopIteration is
raised only after the complete stream was delivered — never while a task of a dead worker that has not
been retired is outstanding (the consumer blocks instead, and `kill_detected` applies). -/
theorem kill_safe (c : Cfg) (hv : c.WF) (hio : c.inOrder = true) (as : List Action) (s : State)
    (hnr : NoReset as) (hr : run c (init c) as = some s) (hd : ¬ died s) (ha : Obs.assertion ∉ s.obs) :
    yields s.obs <+: oks (refStream c) ∧ (Obs.stop ∈ s.obs → yields s.obs = oks (refStream c)) :=
  ⟨yields_prefix_ref c hv hio as s hnr hr hd ha, fun hstop => (epoch_complete c hv hio as s hnr hr hd ha hstop).2⟩

end TDV.MP
