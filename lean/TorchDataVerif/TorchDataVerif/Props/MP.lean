import TorchDataVerif.Proofs.MPMapThm
/-!
# MP — property theorems for the multi-process protocol (serving C01, C03, C05, C09, C10)

Every theorem quantifies over ALL action sequences (`run c (init c) as = some s`): every schedule of
workers, every arrival order in the shared result queue, every placement of `state_dict` calls, kills
and liveness polls.  `NoReset as` restricts to one epoch of a freshly constructed iterator;
`¬ died s` = no `RuntimeError: DataLoader worker exited unexpectedly` has been raised so far.
Helper lemmas live in `Proofs/MP*.lean`.
-/
namespace TDV.MP

/-! ## Part 1 — map-style datasets, `in_order = True` -/

section Map

variable (c : Cfg) (hv : c.Valid) (hm : c.iterable = false) (hio : c.inOrder = true)
include hv hm hio

/-- **C03/C05 safety.**  In every reachable state, for every schedule, the batches yielded so far are a
prefix of the reference stream (as long as the `_take_snapshot` assertion has not fired — see
`take_snapshot_assertion_holds_map` for when it cannot). -/
theorem yields_prefix_ref_map (as : List Action) (s : State) (hnr : NoReset as)
    (hr : run c (init c) as = some s) (hd : ¬ died s) (ha : Obs.assertion ∉ s.obs) :
    yields s.obs <+: oks (refStream c) := by
  rw [yields_eq_map c hv hm hio as s hnr hr hd ha]
  simp only [refStream, hm]
  exact oks_take_prefix _ _

/-- **C05 determinism.**  Two schedules of the same configuration that both yield `n` batches yield the
same `n` batches. -/
theorem deterministic_map (as₁ as₂ : List Action) (s₁ s₂ : State) (hn₁ : NoReset as₁) (hn₂ : NoReset as₂)
    (hr₁ : run c (init c) as₁ = some s₁) (hr₂ : run c (init c) as₂ = some s₂)
    (hd₁ : ¬ died s₁) (hd₂ : ¬ died s₂) (ha₁ : Obs.assertion ∉ s₁.obs) (ha₂ : Obs.assertion ∉ s₂.obs)
    (hlen : (yields s₁.obs).length = (yields s₂.obs).length) : yields s₁.obs = yields s₂.obs :=
  prefix_eq_of_length _ _ _ (yields_prefix_ref_map c hv hm hio as₁ s₁ hn₁ hr₁ hd₁ ha₁)
    (yields_prefix_ref_map c hv hm hio as₂ s₂ hn₂ hr₂ hd₂ ha₂) hlen

/-- **C03 exactly once / epoch complete.**  Once `next()` has raised StopIteration, the consumer has
seen every task of the epoch answered, in order: batch or error at its position, nothing lost,
nothing duplicated. -/
theorem epoch_complete_map (as : List Action) (s : State) (hnr : NoReset as)
    (hr : run c (init c) as = some s) (hd : ¬ died s) (ha : Obs.assertion ∉ s.obs) (hstop : Obs.stop ∈ s.obs) :
    taskObs s.obs = (refStream c).map expected ∧ yields s.obs = oks (refStream c) := by
  obtain ⟨hi, _⟩ := reach_map c hv hm hio as s hnr hr hd
  have hN := hi.fin hstop
  have h1 := taskObs_eq_map c hv hm hio as s hnr hr hd ha
  have h2 := yields_eq_map c hv hm hio as s hnr hr hd ha
  rw [hN, List.take_length] at h1 h2
  simp only [refStream, hm]
  exact ⟨h1, h2⟩

/-- **C05/C10.**  `assert main_snapshot_idx == rcvd_idx - 1` in `_take_snapshot` never fires when no
fetch fails, or when `snapshot_every_n_steps ≤ 1` — for every schedule. -/
theorem take_snapshot_assertion_holds_map (as : List Action) (s : State) (hnr : NoReset as)
    (hr : run c (init c) as = some s) (hd : ¬ died s) (hF : c.interval ≤ 1 ∨ errFree c) :
    Obs.assertion ∉ s.obs :=
  (reach_map c hv hm hio as s hnr hr hd).2.noas hF

/-- **C10 `error_position`, provable part.**  With `snapshot_every_n_steps ≤ 1` or no failing fetch, the
consumer's observations (batches and re-raised errors) are exactly the reference stream with the
failing entries replaced by the error, position by position, for every schedule. -/
theorem error_position_partial_map (as : List Action) (s : State) (hnr : NoReset as)
    (hr : run c (init c) as = some s) (hd : ¬ died s) (hF : c.interval ≤ 1 ∨ errFree c) :
    taskObs s.obs = ((refStream c).take s.rcvdIdx).map expected ∧
    (Obs.stop ∈ s.obs → taskObs s.obs = (refStream c).map expected) := by
  have ha := take_snapshot_assertion_holds_map c hv hm hio as s hnr hr hd hF
  have h1 := taskObs_eq_map c hv hm hio as s hnr hr hd ha
  refine ⟨by simpa only [refStream, hm, Bool.false_eq_true, if_false] using h1, fun hstop => ?_⟩
  exact (epoch_complete_map c hv hm hio as s hnr hr hd ha hstop).1

/-- **C05 `snapshot_fields`.**  What `state_dict()` reports after the `n`-th yield is a function of `n`
only: `snapshot_step` is the largest multiple of the interval `≤ n` (0 without interval),
`steps_since_snapshot = n − snapshot_step`; and when no fetch fails `last_yielded_worker_id` is the
owner of the `snapshot_step`-th batch and the sampler position in the snapshot is `snapshot_step`. -/
theorem snapshot_fields_map (as : List Action) (s : State) (hnr : NoReset as)
    (hr : run c (init c) as = some s) (hd : ¬ died s) :
    s.numYielded = (yields s.obs).length ∧
    s.snap.step = (if c.interval = 0 then 0 else c.interval * (s.numYielded / c.interval)) ∧
    (errFree c → s.snap.lastW = (if s.snap.step = 0 then c.W - 1 else (s.snap.step - 1) % c.W) ∧
                 s.snap.main = s.snap.step) := by
  obtain ⟨_, hs⟩ := reach_map c hv hm hio as s hnr hr hd
  refine ⟨hs.ny, ?_, hs.lw⟩
  by_cases h0 : c.interval = 0
  · simp [h0, hs.st0 h0]
  · obtain ⟨⟨k, hk⟩, h2, h3⟩ := hs.st h0
    simp only [h0, if_false]
    rw [hk] at h2 h3 ⊢
    congr 1
    have hpos : 0 < c.interval := Nat.pos_of_ne_zero h0
    have : c.interval * k ≤ s.numYielded ∧ s.numYielded < c.interval * (k + 1) := ⟨h2, by rw [Nat.mul_succ]; exact h3⟩
    exact (Nat.div_eq_of_lt_le (by rw [Nat.mul_comm]; exact this.1) (by rw [Nat.mul_comm]; exact this.2)).symm

/-- **C03 liveness, `progress`.**  Whenever the consumer is blocked inside `next()`, some worker can
handle a message, or a result can be received, or (a worker that still owes work is dead) the liveness
poll is enabled and raises the worker-died error: the protocol never deadlocks, for every schedule and
any number of kills. -/
theorem progress_map (as : List Action) (s : State) (hnr : NoReset as)
    (hr : run c (init c) as = some s) (hd : ¬ died s) (hph : s.phase = .waiting) :
    (∃ s', step c s .recv = some s') ∨ (∃ w s', step c s (.work w) = some s') ∨
    (∃ s', step c s .pollTimeout = some s' ∧ died s') := by
  obtain ⟨h1, _, h3⟩ := reach_map_all c hv hm hio as s hnr hr hd
  exact progress_of_inv c s hv h1 h3 hph

/-- **C03 liveness, decreasing measure.**  Every `work` step, and every `recv` step that leaves the
consumer blocked, strictly decreases `2·(queued index messages) + (results in flight)`; together with
`progress_map` every fair run of `next()` returns. -/
theorem variant_map (as : List Action) (s s' : State) (a : Action) (hnr : NoReset as)
    (hr : run c (init c) as = some s) (hd : ¬ died s) (hst : step c s a = some s')
    (ha : a = .recv ∨ ∃ w, a = .work w) (hph : s'.phase = .waiting) : measure s' < measure s := by
  rcases ha with rfl | ⟨w, rfl⟩
  · exact recv_decreases_map c s s' hv hm hio (reach_map c hv hm hio as s hnr hr hd).1 hst hph
  · exact work_decreases c s s' w hst

/-- **C09 `kill_safe`** (map-style): with any number of `kill` actions in the schedule, as long as no
worker death has been reported the yields are a prefix of the reference stream, and StopIteration is
only ever raised after every task of the epoch has been answered (in particular never while a task of
a dead, not yet retired worker is outstanding). -/
theorem kill_safe_map (as : List Action) (s : State) (hnr : NoReset as)
    (hr : run c (init c) as = some s) (hd : ¬ died s) (ha : Obs.assertion ∉ s.obs) :
    yields s.obs <+: oks (refStream c) ∧
    (Obs.stop ∈ s.obs → s.rcvdIdx = c.batches.length ∧ taskObs s.obs = (refStream c).map expected) := by
  refine ⟨yields_prefix_ref_map c hv hm hio as s hnr hr hd ha, fun hstop => ?_⟩
  exact ⟨(reach_map c hv hm hio as s hnr hr hd).1.fin hstop,
    (epoch_complete_map c hv hm hio as s hnr hr hd ha hstop).1⟩

end Map

/-- **C09 `kill_detected`** (every configuration, every state): if the consumer is blocked with an empty
result queue and some worker that is still expected to work (`_workers_status` true) is not alive,
then the liveness poll is enabled, raises the worker-died error and returns control to the consumer. -/
theorem kill_detected (c : Cfg) (s : State) (w : Nat) (k : Worker) (hph : s.phase ≠ .idle) (hq : s.resQ = [])
    (hw : w < c.W) (hup : up s w = true) (hk : s.workers[w]? = some k) (hdead : k.alive = false) :
    ∃ s', step c s .pollTimeout = some s' ∧ died s' ∧ s'.phase = .idle := by
  obtain ⟨s', h1, h2, h3⟩ := pollTimeout_detects c s w k hph hq hw hup hk hdead
  exact ⟨s', h1, by unfold died; rw [h2]; simp, h3⟩

/-- **C10 `error_position`, full statement** (all intervals, all failing sets, every schedule): not a
theorem of the current code. -/
def error_position_statement : Prop :=
  ∀ (c : Cfg), c.Valid → c.iterable = false → c.inOrder = true →
  ∀ (as : List Action) (s : State), NoReset as → run c (init c) as = some s → ¬ died s →
    taskObs s.obs = ((refStream c).take s.rcvdIdx).map expected

/-- The C10-a witness: `snapshot_every_n_steps = 2`, two workers, the third task fails. -/
def c10a : Cfg :=
  { W := 2, P := 2, interval := 2, inOrder := true, iterable := false, persistent := false, shards := []
    batches := [.ok 10, .ok 11, .err, .ok 13, .ok 14, .ok 15] }

def c10aRun : List Action :=
  [.work 0, .work 1, .work 0, .work 1, .next, .recv, .next, .recv, .next, .recv, .next, .recv,
   .work 0, .work 1, .next, .recv, .next, .recv, .next]

/-- On the witness the consumer sees: 10, 11, error, 13, AssertionError (batch 14 is lost), 15, stop. -/
theorem c10a_observed :
    (run c10a (init c10a) c10aRun).map (·.obs) =
      some [.item 10, .item 11, .error, .item 13, .assertion, .item 15, .stop] := by decide

/-- **Negation witness** for `error_position_statement` (known defect C10-a: an error does not advance
`_num_yielded`, so the dispatch-time snapshot flags and the yield-time snapshot test fall out of step). -/
theorem error_position_statement_false : ¬ error_position_statement := by
  intro h
  have hobs := c10a_observed
  match hrun : run c10a (init c10a) c10aRun with
  | none => rw [hrun] at hobs; cases hobs
  | some s =>
    rw [hrun] at hobs
    simp only [Option.map_some, Option.some.injEq] at hobs
    have hd : ¬ died s := by simp [died, hobs]
    have := h c10a ⟨by decide, by decide⟩ rfl rfl c10aRun s (by simp [NoReset, c10aRun]) hrun hd
    have hmem : Obs.assertion ∈ taskObs s.obs := by rw [hobs]; decide
    rw [this] at hmem
    exact assertion_not_mem_map_expected _ hmem

/-! Non-vacuity: the hypotheses of the map-style theorems are satisfied by a run with out-of-order
arrival (worker 1 answers before worker 0), a `state_dict` call and a failing fetch at interval 1. -/

def exCfg : Cfg :=
  { W := 2, P := 1, interval := 1, inOrder := true, iterable := false, persistent := false, shards := []
    batches := [.ok 10, .err, .ok 12] }

def exRun : List Action :=
  [.work 1, .next, .work 0, .recv, .recv, .stateDict, .next, .work 0, .next, .recv, .next]

example : exCfg.Valid ∧ exCfg.iterable = false ∧ exCfg.inOrder = true ∧ NoReset exRun ∧
    (exCfg.interval ≤ 1 ∨ errFree exCfg) ∧
    (run exCfg (init exCfg) exRun).map (·.obs) =
      some [.item 10, .sd 1 0 0 1 [⟨1, false⟩, ⟨0, false⟩], .error, .item 12, .stop] := by
  refine ⟨⟨by decide, by decide⟩, rfl, rfl, by simp [NoReset, exRun], Or.inl (by decide), by decide⟩

end TDV.MP
