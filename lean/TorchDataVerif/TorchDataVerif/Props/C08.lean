import TorchDataVerif.Proofs.Alias
/-! # C08 at the reference level: a state dict the user holds is never altered

Property theorems only (model: `Model/Alias.lean`, invariant: `Proofs/Alias.lean`). The quantifier is over EVERY history
of live updates, `state_dict()` calls, loads of any dict the user holds (the same one repeatedly, in any order) and dicts
the user built themselves, with no bound on its length, and over every content. -/
namespace TDV.Alias

/-- C08 (immutability): under a safe policy no history alters any dict the user holds — neither later iteration of the
producer, nor loading it, nor iterating after the load. -/
theorem immutable_of_safe (p : Policy) (hs : p.Safe = true) (v0 : Val) (ops : List Op) :
    Immutable (run p (init v0) ops) :=
  (inv_run p hs ops _ (inv_init p v0)).imm

/-- the criterion is exact: EVERY unsafe policy has a history that alters a dict the user holds (so a site that is observed
to follow an unsafe policy is a violation, not just an unproved case). -/
theorem unsafe_mutates (p : Policy) (hs : p.Safe = false) : ∃ ops, ¬ Immutable (run p (init 0) ops) := by
  obtain ⟨ci, co, ip⟩ := p
  cases ip
  · simp [Policy.Safe] at hs
  · cases co
    · exact ⟨[.get, .step 1], by rw [← immutableB_iff]; cases ci <;> decide⟩
    · cases ci
      · exact ⟨[.userNew 5, .load 0, .step 1], by rw [← immutableB_iff]; decide⟩
      · simp [Policy.Safe] at hs

/-- the two together: a site keeps every held dict intact on every history IF AND ONLY IF its policy is safe. -/
theorem immutable_iff_safe (p : Policy) :
    (∀ v0 ops, Immutable (run p (init v0) ops)) ↔ p.Safe = true := by
  constructor
  · intro h
    cases hs : p.Safe
    · obtain ⟨ops, hn⟩ := unsafe_mutates p hs
      exact absurd (h 0 ops) hn
    · rfl
  · intro hs v0 ops
    exact immutable_of_safe p hs v0 ops

/-- C08 (same continuation every time): in every reachable state of a safe policy, loading a dict the user holds makes the
component continue from the content the dict had when it was handed over — however often and whenever it is loaded. -/
theorem load_same_continuation (p : Policy) (hs : p.Safe = true) (v0 : Val) (ops : List Op) (h : Nat) (e : Addr × Val)
    (he : (run p (init v0) ops).user[h]? = some e) :
    content (step p (run p (init v0) ops) (.load h)) = e.2 := by
  have hi := inv_run p hs ops _ (inv_init p v0)
  have himm := hi.imm e (List.mem_of_getElem? he)
  generalize run p (init v0) ops = s at *
  obtain ⟨a, w⟩ := e
  cases hci : p.copyIn <;> simp_all [step, content, write]

/-- C08 (taking a state changes nothing): `state_dict()` moves neither the live object nor its content, under EVERY
policy. -/
theorem get_transparent (p : Policy) (s : St) :
    (step p s .get).cur = s.cur ∧ content (step p s .get) = content s := by
  cases hco : p.copyOut <;> simp [step, hco, content, write]

/-- …and the dict it hands out has the live content. -/
theorem get_returns_content (p : Policy) (s : St) :
    ∃ a, (step p s .get).user = s.user ++ [(a, content s)] := by
  cases hco : p.copyOut <;> simp [step, hco, content]

/-- the three policies found in the code are safe, the pre-fix weighted sampler (`reset` kept the loaded map) is not -/
example : (Policy.mk true true true).Safe = true ∧ (Policy.mk false false false).Safe = true
    ∧ (Policy.mk false true true).Safe = false := by decide

/-- non-vacuity: a history with shared objects (Unbatcher-like policy: nothing copied, rebinding updates) in which a
loaded dict IS the live object, and every user dict is intact. -/
example : let s := run ⟨false, false, false⟩ (init 3) [.get, .step 4, .get, .load 0, .get, .rebind 9, .load 1]
    aliased s 1 = true ∧ immutableB s = true ∧ content s = 4 ∧ s.user.length = 3 := by decide

/-- the pre-fix weighted sampler on the history of the repaired defect 9b5140a: load a checkpoint, iterate (a source gets
exhausted, in place), the checkpoint has changed. -/
example : immutableB (run ⟨false, true, true⟩ (init 0) [.get, .load 0, .step 1]) = false := by decide

end TDV.Alias
