import TorchDataVerif.Props.MP
import TorchDataVerif.Proofs.MPUEpoch
import TorchDataVerif.Proofs.MPUnFinal
import TorchDataVerif.Proofs.MPUnNoAssert
import TorchDataVerif.Proofs.MPUnIterFinal
import TorchDataVerif.Proofs.MPUSnapRun
/-!
# MPU — the multi-process protocol beyond one in-order epoch (serving C03, C17, C10)

Part A: **persistent workers across epochs** (`reset` = `_reset` with `_ResumeIteration`).  Unlike the
theorems of `Props/MP.lean` these quantify over ALL action sequences, `reset` included, issued at any
point (also in the middle of an epoch, with tasks queued and results in flight).
Helper lemmas live in `Proofs/MPU*.lean`.
-/
namespace TDV.MPU
open TDV.MP

/-! ## Part A — `_reset` with persistent workers -/

section Reset

variable (c : Cfg) (hp : c.persistent = true)
include hp

/-- **C17 `reset_fresh`.**  When the last of the `W` acknowledgements is received (the `recv` step that
ends `_reset`), the state is exactly the initial state of a freshly constructed iterator over the SAME
worker list `s.workers` (no worker created, none lost, dead ones still dead), with the observation
history in front (`rebase`): every main-process variable, every index queue, the result queue (empty),
the worker snapshots.  `initW c ws` is `init c` over the worker set `ws`, and it is reached from
`init c` by killing the workers that are dead in `ws`. -/
theorem reset_fresh (as : List Action) (s s' : State) (k : Nat) (hr : run c (init c) as = some s)
    (hd : ¬ died s') (hph : s.phase = .resuming k) (hst : step c s .recv = some s') (hidle : s'.phase = .idle) :
    FreshW c s.workers ∧ s' = rebase (s.obs ++ [.resetDone]) s.bad (initW c s.workers) ∧
    ∃ kills, (∀ a ∈ kills, IsKill a) ∧ run c (init c) kills = some (initW c s.workers) := by
  have hd0 : ¬ died s := fun hx => hd (died_step c s s' _ hst hx)
  rcases epoch_reach c hp as s hr hd0 with ⟨o, b, as', s0, _, hnr, hr0, rfl⟩ | ⟨k', L, h⟩
  · exfalso
    have hd00 : ¬ died s0 := fun hx => hd0 (died_rebase o b _ hx)
    rcases run_SN c hp as' (init c) s0 hnr (init_SN c) hr0 with h1 | h1
    · exact h1.ph k hph
    · exact hd00 h1
  · rcases RInv_recv c s s' k' L h hst with ⟨k2, L2, h1, _, _⟩ | ⟨hf, hs'⟩
    · rw [h1.ph] at hidle; cases hidle
    · exact ⟨hf, hs', kills_exist' c s.workers hf⟩

/-- **C17 `workers_constant`.**  Persistent workers are reused, never duplicated or dropped: in every
reachable state of every run — any number of epochs, resets at any point, kills — the iterator owns
exactly `W` workers and `W` worker snapshots. -/
theorem workers_constant (as : List Action) (s : State) (hr : run c (init c) as = some s) (hd : ¬ died s) :
    s.workers.length = c.W ∧ s.wsnaps.length = c.W := by
  rcases epoch_reach c hp as s hr hd with ⟨o, b, as', s0, _, hnr, hr0, rfl⟩ | ⟨k', L, h⟩
  · have hd0 : ¬ died s0 := fun hx => hd (died_rebase o b _ hx)
    rcases run_SN c hp as' (init c) s0 hnr (init_SN c) hr0 with h1 | h1
    · exact ⟨h1.wl, h1.wsl⟩
    · exact absurd h1 hd0
  · exact ⟨h.wl, h.wsl⟩

/-- **C03/C17 `epoch_fresh`** (the bisimulation behind `multi_epoch`).  Outside the `_reset` handshake,
every reachable state of a run with resets equals a state `s0` reachable from `init c` WITHOUT reset
(one epoch of a fresh iterator), up to the observation history `o` of the earlier epochs (which ends
with `resetDone` or is empty); the observations since the last reset are exactly those of `s0`. -/
theorem epoch_fresh (as : List Action) (s : State) (hr : run c (init c) as = some s) (hd : ¬ died s)
    (hph : ∀ k, s.phase ≠ .resuming k) :
    ∃ (o : List Obs) (b : Bool) (as' : List Action) (s0 : State),
      Boundary o ∧ NoReset as' ∧ run c (init c) as' = some s0 ∧ s = rebase o b s0 ∧ ¬ died s0 ∧
      epochObs s.obs = s0.obs := by
  obtain ⟨o, b, as', s0, h1, h2, h3, h4, h5, _, h7⟩ := epoch_bisim c hp as s hr hd hph
  exact ⟨o, b, as', s0, h1, h2, h3, h4, h5, h7⟩

/-- **C03 `multi_epoch`, safety.**  In every epoch of every run with resets (complete epochs, epochs
abandoned half-way, any schedule) the batches yielded since the last reset are a prefix of `Ref.stream`. -/
theorem multi_epoch_prefix (hv : c.WF) (hio : c.inOrder = true) (as : List Action) (s : State)
    (hr : run c (init c) as = some s) (hd : ¬ died s) (hph : ∀ k, s.phase ≠ .resuming k)
    (ha : Obs.assertion ∉ epochObs s.obs) : yields (epochObs s.obs) <+: oks (refStream c) := by
  obtain ⟨o, b, as', s0, _, hnr, hr0, _, hd0, _, he⟩ := epoch_bisim c hp as s hr hd hph
  rw [he] at ha ⊢
  exact yields_prefix_ref c hv hio as' s0 hnr hr0 hd0 ha

/-- **C03 `multi_epoch`, completeness.**  Whenever `next()` has raised StopIteration since the last reset,
that epoch delivered the whole of `Ref.stream`, each batch (or its error) exactly once, in order —
whatever happened in earlier epochs, including a reset in the middle of one. -/
theorem multi_epoch_complete (hv : c.WF) (hio : c.inOrder = true) (as : List Action) (s : State)
    (hr : run c (init c) as = some s) (hd : ¬ died s) (hph : ∀ k, s.phase ≠ .resuming k)
    (ha : Obs.assertion ∉ epochObs s.obs) (hstop : Obs.stop ∈ epochObs s.obs) :
    taskObs (epochObs s.obs) = (refStream c).map expected ∧ yields (epochObs s.obs) = oks (refStream c) := by
  obtain ⟨o, b, as', s0, _, hnr, hr0, _, hd0, _, he⟩ := epoch_bisim c hp as s hr hd hph
  rw [he] at ha hstop ⊢
  exact epoch_complete c hv hio as' s0 hnr hr0 hd0 ha hstop

/-- **C03/C17 `no_stale_yield`.**  `_reset` issued while results of the abandoned epoch are queued or still
being produced: (1) while the handshake lasts nothing is delivered to the consumer (the observations do
not change: stale results are taken from the queue and dropped); (2) when it ends the result queue is
empty and the `_task_info` table, the index queues and the counters are those of a fresh iterator —
nothing of the old epoch is left anywhere; hence (3) `multi_epoch_prefix`: what the new epoch yields is
a prefix of its own reference stream. -/
theorem no_stale_yield (as : List Action) (s s' : State) (k : Nat) (a : Action)
    (hr : run c (init c) as = some s) (hd : ¬ died s') (hph : s.phase = .resuming k)
    (hst : step c s a = some s') :
    (∀ k', s'.phase = .resuming k' → s'.obs = s.obs) ∧
    (s'.phase = .idle → s'.resQ = [] ∧ s'.obs = s.obs ++ [.resetDone] ∧
      s'.info = (initW c s.workers).info ∧ s'.workers = (initW c s.workers).workers ∧
      s'.sendIdx = (initW c s.workers).sendIdx ∧ s'.rcvdIdx = 0) := by
  have hd0 : ¬ died s := fun hx => hd (died_step c s s' _ hst hx)
  rcases epoch_reach c hp as s hr hd0 with ⟨o, b, as', s0, _, hnr, hr0, rfl⟩ | ⟨k', L, h⟩
  · exfalso
    have hd00 : ¬ died s0 := fun hx => hd0 (died_rebase o b _ hx)
    rcases run_SN c hp as' (init c) s0 hnr (init_SN c) hr0 with h1 | h1
    · exact h1.ph k hph
    · exact hd00 h1
  · have hfresh : ∀ ws, (initW c ws).resQ = [] ∧ (initW c ws).rcvdIdx = 0 := by
      intro ws
      have hc : SameCore (tailArg c (resetHead c (baseState c ws))) (initW c ws) := prime_sameCore c _ _
      exact ⟨hc.resQ, hc.rcvdIdx⟩
    cases a with
    | work w =>
      obtain ⟨h1, h2, _⟩ := RInv_work c s s' k' L w h hst
      exact ⟨fun _ _ => h2, fun hi => by rw [h1.ph] at hi; cases hi⟩
    | kill w =>
      obtain ⟨h1, h2, _⟩ := RInv_kill c s s' k' L w h hst
      exact ⟨fun _ _ => h2, fun hi => by rw [h1.ph] at hi; cases hi⟩
    | pollTimeout =>
      rcases RInv_poll c s s' k' L h hst with h1 | h1
      · have : s' = s := by
          simp only [step] at hst
          split at hst
          · cases hst
          · split at hst
            · cases hst; rfl
            · cases hst
              exfalso; apply hd; unfold died; simp
        subst this
        exact ⟨fun _ _ => rfl, fun hi => by rw [h1.ph] at hi; cases hi⟩
      · exact absurd h1 hd
    | next => simp [step, h.ph] at hst
    | stateDict => simp [step, h.ph] at hst
    | reset => simp [step, h.ph] at hst
    | recv =>
      rcases RInv_recv c s s' k' L h hst with ⟨k2, L2, h1, h2, _⟩ | ⟨_, hs'⟩
      · exact ⟨fun _ _ => h2, fun hi => by rw [h1.ph] at hi; cases hi⟩
      · subst hs'
        refine ⟨fun k2 hk2 => ?_, fun _ => ⟨(hfresh _).1, ?_, rfl, rfl, rfl, (hfresh _).2⟩⟩
        · have : (rebase (s.obs ++ [Obs.resetDone]) s.bad (initW c s.workers)).phase = .idle := initW_phase c _
          rw [this] at hk2; cases hk2
        · show (s.obs ++ [Obs.resetDone]) ++ (initW c s.workers).obs = _
          rw [initW_obs, List.append_nil]

end Reset

/-! Non-vacuity (Part A): two persistent workers, `reset` issued in the middle of the first epoch while
task 2 is still queued for worker 0 and the result of task 1 sits unconsumed in the result queue; both
stale results are dropped during the handshake, the second epoch delivers `10, 11, 12` and stops. -/

def exP : Cfg :=
  { W := 2, P := 1, interval := 0, inOrder := true, iterable := false, persistent := true, shards := []
    batches := [.ok 10, .ok 11, .ok 12] }

def exPRun : List Action :=
  [.work 0, .next, .recv, .work 1, .reset, .work 0, .work 0, .work 1, .recv, .recv, .recv, .recv,
   .work 0, .work 1, .next, .recv, .next, .recv, .work 0, .next, .recv, .next]

example : exP.persistent = true ∧ exP.WF ∧ exP.inOrder = true ∧
    (run exP (init exP) exPRun).map (·.obs) =
      some [.item 10, .resetDone, .item 10, .item 11, .item 12, .stop] ∧
    epochObs [.item 10, .resetDone, .item 10, .item 11, .item 12, .stop] = [.item 10, .item 11, .item 12, .stop] ∧
    -- at the `reset`: a stale result in the result queue and a stale task in an index queue
    (run exP (init exP) (exPRun.take 5)).map (fun s => (s.resQ.length, (s.workers.map (·.q.length)), s.phase)) =
      some (1, [2, 1], .resuming 2) ∧
    -- just before the last acknowledgement is received / just after
    (run exP (init exP) (exPRun.take 11)).map (fun s => (s.resQ.length, s.phase)) = some (1, .resuming 1) ∧
    (run exP (init exP) (exPRun.take 12)).map (fun s => (s.resQ, s.phase, s.obs)) =
      some ([], .idle, [.item 10, .resetDone]) := by
  refine ⟨rfl, ⟨⟨by decide, by decide⟩, by decide⟩, rfl, by decide, by decide, by decide, by decide, by decide⟩

/-! ## Part B — `in_order = False`

Out-of-order results are processed the moment they arrive (`_next_data`), the next worker is chosen by
capacity (`_workers_num_tasks[w] < max_tasks // sum(_workers_status)`), `_take_snapshot` returns early when
it has no main snapshot.  "Same multiset" is stated with `List.Perm`; "sub-multiset" as `∃ rest, (l ++ rest) ~ ref`. -/

section UnorderedMap

variable (c : Cfg) (hv : c.Valid) (hm : c.iterable = false) (hio : c.inOrder = false)
include hv hm hio

/-- **C03 `unordered_safe`, map-style.**  In every reachable state, for every schedule and every arrival order,
the batches yielded so far are a sub-multiset of the reference stream: every task is delivered at most
once and only tasks of the epoch are delivered — also when the `_take_snapshot` assertion fires. -/
theorem unordered_safe_map (as : List Action) (s : State) (hnr : NoReset as) (hr : run c (init c) as = some s)
    (hd : ¬ died s) : ∃ rest, (yields s.obs ++ rest).Perm (oks (refStream c)) := by
  rcases run_InvUM c hv hm hio as (init c) s hnr (init_InvUM c hv hm hio) hr with h | h
  · obtain ⟨D, h1, h2, h3, _⟩ := InvUM_goal c s h
    simp only [refStream, hm]
    exact goal_safe_map c s.obs D h1 h2 h3
  · exact absurd h hd

/-- **C03 `unordered_complete` / `exactly_once`, map-style, full strength.**  Once `next()` has raised
StopIteration, what the consumer has seen is a permutation of the reference stream (batch or error per
task), the yields a permutation of its `ok` batches: nothing lost, nothing duplicated, no index dropped
by the capacity rule (a worker with spare capacity always exists when `_try_put_index` runs: pigeonhole
at priming time, the worker just relieved afterwards) — for every snapshot interval. -/
theorem unordered_complete_map (as : List Action) (s : State) (hnr : NoReset as) (hr : run c (init c) as = some s)
    (hd : ¬ died s) (hstop : Obs.stop ∈ s.obs) :
    (taskObs s.obs).Perm ((refStream c).map expected) ∧ (yields s.obs).Perm (oks (refStream c)) := by
  have ha : Obs.assertion ∉ s.obs := run_na c hio as (init c) s (by rw [init_obs]; simp) hr
  rcases run_InvUM c hv hm hio as (init c) s hnr (init_InvUM c hv hm hio) hr with h | h
  · obtain ⟨D, h1, h2, h3, h4⟩ := InvUM_goal c s h
    simp only [refStream, hm]
    exact goal_complete_map c s.obs D h1 h2 (h4 hstop) h3 ha
  · exact absurd h hd

end UnorderedMap

/-- **C10/C03 `take_snapshot_assertion_holds`, `in_order = False`.**  The alignment assertion of
`_take_snapshot` never fires with `in_order = False`: for every dataset kind, every snapshot interval,
every schedule and every run (resets included).  (Before repo fix e083a8d it could: see `exU`.) -/
theorem take_snapshot_assertion_holds_unordered (c : Cfg) (hio : c.inOrder = false) (as : List Action) (s : State)
    (hr : run c (init c) as = some s) : Obs.assertion ∉ s.obs :=
  run_na c hio as (init c) s (by rw [init_obs]; simp) hr

/-- Regression example (the witness of the defect fixed by e083a8d): `StatefulDataLoader(range(8),
batch_size=1, num_workers=2, prefetch_factor=2, in_order=False, snapshot_every_n_steps=2)`, worker 1
slow on item 3, results arrive in the order 0, 2, 1, 4.  Before the fix the fourth `next()` raised
`AssertionError (1, 2)` and batch 4 was lost; now all eight batches are delivered. -/
def exU : Cfg :=
  { W := 2, P := 2, interval := 2, inOrder := false, iterable := false, persistent := false, shards := []
    batches := [.ok 10, .ok 11, .ok 12, .ok 13, .ok 14, .ok 15, .ok 16, .ok 17] }

def exURun : List Action :=
  [.work 0, .next, .recv, .work 0, .next, .recv, .work 1, .next, .recv, .work 0, .next, .recv,
   .work 0, .next, .recv, .work 0, .next, .recv, .work 1, .next, .recv, .work 1, .next, .recv, .next]

theorem exU_observed :
    (run exU (init exU) exURun).map (·.obs) =
      some [.item 10, .item 12, .item 11, .item 14, .item 15, .item 17, .item 13, .item 16, .stop] := by decide

/-- Non-vacuity of the map-style theorems: `exU` with its out-of-order schedule satisfies every hypothesis. -/
example : exU.Valid ∧ exU.iterable = false ∧ exU.inOrder = false ∧ NoReset exURun := by
  refine ⟨⟨by decide, by decide⟩, rfl, rfl, by simp [NoReset, exURun]⟩

section UnorderedIter

variable (c : Cfg) (hv : c.ValidI) (hit : c.iterable = true) (hio : c.inOrder = false)
include hv hit hio

/-- **C03 `unordered_safe`, iterable with worker retirement.**  In every reachable state, for every schedule
(end-of-shard notices early or late, any number of dead tasks), the batches yielded so far are a
sub-multiset of `Ref.interleave shards`: every fetch of every worker is delivered at most once. -/
theorem unordered_safe_iter (as : List Action) (s : State) (hnr : NoReset as) (hr : run c (init c) as = some s)
    (hd : ¬ died s) : ∃ rest, (yields s.obs ++ rest).Perm (oks (refStream c)) := by
  rcases run_InvUI c hv.1 hit hio as (init c) s hnr (init_InvUI c hv.1 hit hio) hr with h | h
  · obtain ⟨n, items, h1, h2, _⟩ := InvUI_goal c s h
    simp only [refStream, hit, if_true]
    exact goal_safe_iter c hv.2 s.obs n items h1 h2
  · exact absurd h hd

/-- **C03 `unordered_complete` / `exactly_once`, iterable.**  StopIteration is raised only after every worker
has retired, and then the consumer has seen a permutation of `Ref.interleave shards` (batch or error per
fetch): the capacity rule `_workers_num_tasks[w] < max_tasks // sum(_workers_status)` never strands a
worker — whenever some worker is active, an active worker has an outstanding task (every arrival
dispatches: to the relieved worker after a batch, to any active worker with no task after a
retirement, since then the capacity is ≥ 1), so the epoch cannot end early. -/
theorem unordered_complete_iter (as : List Action) (s : State) (hnr : NoReset as) (hr : run c (init c) as = some s)
    (hd : ¬ died s) (hstop : Obs.stop ∈ s.obs) :
    (taskObs s.obs).Perm ((refStream c).map expected) ∧ (yields s.obs).Perm (oks (refStream c)) := by
  have ha : Obs.assertion ∉ s.obs := run_na c hio as (init c) s (by rw [init_obs]; simp) hr
  rcases run_InvUI c hv.1 hit hio as (init c) s hnr (init_InvUI c hv.1 hit hio) hr with h | h
  · obtain ⟨n, items, h1, h2, h3⟩ := InvUI_goal c s h
    simp only [refStream, hit, if_true]
    exact goal_complete_iter c hv.2 s.obs n items h1 h2 (h3 hstop) ha
  · exact absurd h hd

end UnorderedIter

/-- **C03 `unordered_safe`, both dataset kinds.** -/
theorem unordered_safe (c : Cfg) (hv : c.WF) (hio : c.inOrder = false) (as : List Action) (s : State)
    (hnr : NoReset as) (hr : run c (init c) as = some s) (hd : ¬ died s) :
    ∃ rest, (yields s.obs ++ rest).Perm (oks (refStream c)) := by
  rcases Bool.eq_false_or_eq_true c.iterable with hit | hit
  · exact unordered_safe_iter c ⟨hv.1, hv.2 hit⟩ hit hio as s hnr hr hd
  · exact unordered_safe_map c hv.1 hit hio as s hnr hr hd

/-- **C03 `unordered_complete` ("the same multiset, each delivered exactly once"), both dataset kinds.** -/
theorem unordered_complete (c : Cfg) (hv : c.WF) (hio : c.inOrder = false) (as : List Action) (s : State)
    (hnr : NoReset as) (hr : run c (init c) as = some s) (hd : ¬ died s) (hstop : Obs.stop ∈ s.obs) :
    (taskObs s.obs).Perm ((refStream c).map expected) ∧ (yields s.obs).Perm (oks (refStream c)) := by
  rcases Bool.eq_false_or_eq_true c.iterable with hit | hit
  · exact unordered_complete_iter c ⟨hv.1, hv.2 hit⟩ hit hio as s hnr hr hd hstop
  · exact unordered_complete_map c hv.1 hit hio as s hnr hr hd hstop

/-- Non-vacuity (iterable): shards of 1 and 3 fetches (one failing), snapshot interval 2.  Worker 1 runs
ahead of worker 0 (torch's order would be `0, 1000, error, 1002`), worker 0's end-of-shard notice is
received while tasks of worker 1 are outstanding, the capacity of worker 1 grows from 2 to 4. -/
def exUI : Cfg :=
  { W := 2, P := 2, interval := 2, inOrder := false, iterable := true, persistent := false
    shards := [[.ok 0], [.ok 1000, .err, .ok 1002]], batches := [] }

def exUIRun : List Action :=
  [.work 1, .work 1, .next, .recv, .work 0, .work 0, .next, .recv, .next, .recv, .next, .recv,
   .work 1, .work 1, .recv, .next, .recv]

example : exUI.ValidI ∧ exUI.iterable = true ∧ exUI.inOrder = false ∧ NoReset exUIRun ∧
    (run exUI (init exUI) exUIRun).map (fun s => (s.obs, s.status, s.numTasks)) =
      some ([.item 1000, .error, .item 0, .item 1002, .stop], [false, false], [2, 3]) ∧
    refStream exUI = [.ok 0, .ok 1000, .err, .ok 1002] := by
  refine ⟨⟨⟨by decide, by decide⟩, rfl⟩, rfl, rfl, by simp [NoReset, exUIRun], by decide, by decide⟩

/-- **C03 `multi_epoch` with `in_order = False`** (persistent workers, any number of resets, also mid-epoch):
in every epoch the yields since the last reset are a sub-multiset of the reference stream, and once
`next()` has raised StopIteration in that epoch they are a permutation of it. -/
theorem multi_epoch_unordered (c : Cfg) (hp : c.persistent = true) (hv : c.WF) (hio : c.inOrder = false)
    (as : List Action) (s : State) (hr : run c (init c) as = some s) (hd : ¬ died s)
    (hph : ∀ k, s.phase ≠ .resuming k) :
    (∃ rest, (yields (epochObs s.obs) ++ rest).Perm (oks (refStream c))) ∧
    (Obs.stop ∈ epochObs s.obs → (yields (epochObs s.obs)).Perm (oks (refStream c))) := by
  obtain ⟨o, b, as', s0, _, hnr, hr0, _, hd0, _, he⟩ := epoch_bisim c hp as s hr hd hph
  rw [he]
  exact ⟨unordered_safe c hv hio as' s0 hnr hr0 hd0,
    fun hstop => (unordered_complete c hv hio as' s0 hnr hr0 hd0 hstop).2⟩

/-! ## Part C — `take_snapshot_assertion_holds`, iterable datasets, `in_order = True` -/

/-- **C05/C10 `take_snapshot_assertion_holds`, iterable** — the statement left open in `Props/MP.lean`
(`take_snapshot_assertion_holds_iter_statement`), at full strength: for iterable datasets with
`in_order = True` the assertion `main_snapshot_idx == rcvd_idx - 1` of `_take_snapshot` never fires, for
every snapshot interval, every schedule, every arrival order of results and end-of-shard notices, any
number of dead tasks, and — unlike map-style — also with failing fetches.
The window argument: entries of `_task_info` that are not stored notices number at most `W·P` (each
`_try_put_index` follows the removal of one, or the arrival of a notice, which stops counting), so a task
dispatched at `_num_yielded = d` is yielded as batch `≤ d + 1 + W·P`; if that batch number is a multiple
of the interval then `d % interval + 1 + W·P ≥ interval`, i.e. the task's main snapshot was recorded at
dispatch, and since the deque is increasing in the task index, popping up to `rcvd_idx - 1` ends on it. -/
theorem take_snapshot_assertion_holds_iter : take_snapshot_assertion_holds_iter_statement := by
  intro c hv hit hio as s hnr hr hd
  obtain ⟨Z0, hZ0⟩ := init_SW c hit
  rcases run_SW c hv.2 hit hio as (init c) s hnr
    (Or.inl ⟨init_invI c hv hit hio, by rw [init_obs]; simp, Z0, hZ0⟩) hr with ⟨_, h, _⟩ | h
  · exact h
  · exact absurd h hd

/-- **C10 `error_position`, iterable, full strength** (consequence): with `in_order = True` the consumer's
observations are exactly a prefix of the reference stream with the failing fetches replaced by the error
— no hypothesis on the assertion any more — and the whole stream once `next()` has stopped. -/
theorem error_position_iter (c : Cfg) (hv : c.ValidI) (hit : c.iterable = true) (hio : c.inOrder = true)
    (as : List Action) (s : State) (hnr : NoReset as) (hr : run c (init c) as = some s) (hd : ¬ died s) :
    (∃ n, taskObs s.obs = ((refStream c).take n).map expected) ∧
    (Obs.stop ∈ s.obs → taskObs s.obs = (refStream c).map expected ∧ yields s.obs = oks (refStream c)) := by
  have ha := take_snapshot_assertion_holds_iter c hv hit hio as s hnr hr hd
  exact ⟨error_position_prefix_iter c hv hit hio as s hnr hr hd ha,
    fun hstop => epoch_complete_iter c hv hit hio as s hnr hr hd ha hstop⟩

/-- Non-vacuity (Part C): interval 2, two workers, prefetch factor 1, a failing fetch (which does not advance
`_num_yielded`) and an empty shard: the snapshots at yields 2 and 4 are taken, no assertion. -/
def exS : Cfg :=
  { W := 2, P := 1, interval := 2, inOrder := true, iterable := true, persistent := false
    shards := [[.ok 0, .err, .ok 2, .ok 3, .ok 4], []], batches := [] }

def exSRun : List Action :=
  [.work 0, .work 1, .next, .recv, .next, .recv, .work 0, .recv, .next, .work 0, .recv, .next, .work 0, .recv,
   .next, .work 0, .recv, .next, .work 0, .recv, .stateDict]

example : exS.ValidI ∧ exS.iterable = true ∧ exS.inOrder = true ∧ NoReset exSRun ∧
    (run exS (init exS) exSRun).map (·.obs) =
      some [.item 0, .error, .item 2, .item 3, .item 4, .stop, .sd 4 0 0 6 [⟨5, false⟩, ⟨0, true⟩]] := by
  refine ⟨⟨⟨by decide, by decide⟩, rfl⟩, rfl, rfl, by simp [NoReset, exSRun], by decide⟩

end TDV.MPU
