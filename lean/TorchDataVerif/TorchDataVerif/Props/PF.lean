import TorchDataVerif.Proofs.PFInv3
import TorchDataVerif.Proofs.PFGen
/-!
# Property theorems of the Prefetcher thread protocol `TDV.PF` (serving C04, C06, C11, C12, C17)

Every theorem quantifies over every reachable state = every action sequence from `init c` = every interleaving of
reader and consumer (including every timeout of a timed wait).
-/
namespace TDV.PF

/-! ## C12 — read-ahead is bounded -/

/-- permits + (pulled and not yet taken, incl. the reader's hand and the end marker) + (taken, not yet released)
    = prefetch_factor, in every reachable state -/
theorem readahead_bound {c : Cfg} {s : State} (h : Reachable c s) :
    s.sem + (rHold s.rpc + s.q.length + cHold s.cpc) = c.pf :=
  (inv_reachable h).permits

/-- hence at most `prefetch_factor` results of the source are held at any time -/
theorem held_le {c : Cfg} {s : State} (h : Reachable c s) : held s ≤ c.pf := by
  have := (inv_reachable h).permits; omega

/-- `BoundedSemaphore.release` never raises: whenever the consumer is about to release, the value is below the bound -/
theorem release_never_overflows {c : Cfg} {s : State} (h : Reachable c s) (m : Msg) (hpc : s.cpc = .rel m) :
    (step c s .cRel).isSome := by
  have := (inv_reachable h).permits
  have hlt : s.sem < c.pf := by simp [held, cHold, hpc] at this; omega
  simp [step, Action.isReader, stepC, hpc, hlt]

/-- non-vacuity: with prefetch_factor 2 the reader does get two items ahead (queue of 2, no permit left) -/
def cfgEx : Cfg := { pf := 2, f := 2, src := [7, 8, 9], term := .stop, base := 0, startErr := false }

def aheadRun : List Action :=
  [.rInit, .rIsSet, .rAcq, .rEnter, .rLeave, .rPut, .rIsSet, .rAcq, .rEnter, .rLeave, .rAppend, .rPut, .rIsSet, .rAcqT]

example : ∃ s, run cfgEx (init cfgEx) aheadRun = some s ∧ held s = 2 ∧ s.sem = 0 ∧ s.q.length = 2 := by
  refine ⟨_, rfl, ?_⟩; decide

/-! ## C04 — the consumer receives exactly the source sequence -/

/-- the items delivered so far are always a prefix of the source list, in order, without loss or duplication -/
theorem delivered_prefix {c : Cfg} {s : State} (h : Reachable c s) :
    delivered s = c.src.take (delivered s).length := by
  have e := delivered_eq (inv_reachable h)
  rw [e]; simp

theorem delivered_isPrefix {c : Cfg} {s : State} (h : Reachable c s) : delivered s <+: c.src := by
  rw [delivered_eq (inv_reachable h)]; exact List.take_prefix _ _

/-- once `next()` has raised StopIteration (or the source's error), everything was delivered -/
theorem complete {c : Cfg} {s : State} (h : Reachable c s) (hend : 0 < s.nstop + s.errs) :
    delivered s = c.src := by
  have hg := (inv2_reachable h).ended hend
  rw [delivered_eq (inv_reachable h), hg]; exact List.take_of_length_le (by omega)

/-- a source that ends normally never produces an error at the consumer, and StopIteration is only raised at the end -/
theorem stop_only_at_end {c : Cfg} {s : State} (h : Reachable c s) (hn : 0 < s.nstop) :
    delivered s = c.src ∧ (c.term = .stop → s.errs = 0) := by
  refine ⟨complete h (by omega), fun ht => ?_⟩
  have := (inv2_reachable h).errs_term
  cases he : s.errs with
  | zero => rfl
  | succ n => have := this (by omega); simp [ht] at this

/-- C11: the source's error is raised after exactly the whole item prefix, exactly once, and only if the source failed -/
theorem error_after_prefix {c : Cfg} {s : State} (h : Reachable c s) (he : 0 < s.errs) :
    c.term = .error ∧ delivered s = c.src ∧ s.errs = 1 := by
  have i2 := inv2_reachable h
  exact ⟨i2.errs_term he, complete h (by omega), by have := i2.errs_le; omega⟩

/-- C11: the terminal of the source is surfaced, never swallowed: once the consumer has processed the end marker,
    an error source has raised its error exactly once and a normal source has raised StopIteration -/
theorem terminal_surfaced {c : Cfg} {s : State} (h : Reachable c s) (hg : s.got.length = c.src.length + 1) :
    (c.term = .error → s.errs = 1) ∧ (c.term = .stop → 0 < s.nstop) :=
  ⟨((inv2_reachable h).surfaced hg).1, ((inv2_reachable h).surfaced hg).2.1⟩

def exhaustRun : List Action :=
  [.rInit, .cBoot, .rIsSet, .rAcq, .rEnter, .rLeave, .rAppend, .rPut, .cCall, .cIsSet, .cGet, .cRel, .cPop,
   .rIsSet, .rAcq, .rEnter, .rLeave, .rPut, .rExit, .cCall, .cIsSet, .cGet, .cRel, .cSet, .cCall, .cIsSet]

def cfgErr : Cfg := { pf := 1, f := 1, src := [5], term := .error, base := 0, startErr := false }

/-- non-vacuity: a run that delivers [5], raises the source error, then StopIteration -/
example : ∃ s, run cfgErr (init cfgErr) exhaustRun = some s ∧ delivered s = [5] ∧ s.errs = 1 ∧ s.nstop = 1 := by
  refine ⟨_, rfl, ?_⟩; decide

/-! ## C06 — the checkpoint tracks the consumer position under every interleaving -/

/-- Whenever the consumer is outside `next()`, with `m` items delivered, `get_state()` is
    (source state after `j*` items, `m − j*`) where `j* = f·⌊m/f⌋` if that is positive, else (initial state, `m`):
    a function of `m` alone, whatever the reader has done in the meantime. -/
theorem state_tracks_consumer {c : Cfg} {s : State} (h : Reachable c s) (_hidle : s.cpc = .idle) :
    let m := (delivered s).length
    (s.snap, s.steps) =
      if 0 < c.f ∧ 0 < c.f * (m / c.f) then (c.base + c.f * (m / c.f), m - c.f * (m / c.f)) else (c.base, m) := by
  have i := inv_reachable h
  have hm : (delivered s).length = min s.got.length c.src.length := by
    rw [delivered_eq i]; simp
  have h1 := i.snap_eq
  have h2 := i.steps_eq
  intro m
  have hm' : m = min s.got.length c.src.length := hm
  rw [← hm'] at h1 h2
  by_cases hf : 0 < c.f
  · have hj := jstar_closed c.f m hf
    rw [hj] at h1 h2
    by_cases hp : 0 < c.f * (m / c.f)
    · simp only [hf, hp, and_self, if_true, Prod.mk.injEq]; omega
    · simp only [hp, and_false, if_false, Prod.mk.injEq]; omega
  · have : c.f = 0 := by omega
    rw [this, jstar_zero] at h1 h2
    simp only [hf, false_and, if_false, Prod.mk.injEq]; omega

/-- the same closed form holds at every control point of the consumer except between the `pop_version` and the return,
    in particular it does not depend on how far ahead the reader is -/
theorem state_closed_form_everywhere {c : Cfg} {s : State} (h : Reachable c s) :
    s.snap = c.base + jstar c.f (delivered s).length ∧ s.steps + jstar c.f (delivered s).length = (delivered s).length := by
  have i := inv_reachable h
  have hm : (delivered s).length = min s.got.length c.src.length := by
    rw [delivered_eq i]; simp
  rw [hm]; exact ⟨i.snap_eq, i.steps_eq⟩

def sdRun : List Action :=
  [.rInit, .cBoot, .rIsSet, .rAcq, .rEnter, .rLeave, .rPut, .rIsSet, .rAcq, .rEnter, .rLeave, .rAppend, .rPut,
   .cCall, .cIsSet, .cGet, .cRel, .cPop, .cCall, .cIsSet, .cGet, .cRel, .rIsSet, .rAcq, .rEnter, .rLeave, .cPop,
   .rPut, .cCall, .cIsSet, .cGet, .cRel, .cPop]

/-- non-vacuity: f = 2, three items delivered while the reader ran ahead: state = (snapshot after 2 items, 1 step) -/
example : ∃ s, run cfgEx (init cfgEx) sdRun = some s ∧ s.cpc = .idle ∧ delivered s = [7, 8, 9] ∧
    (s.snap, s.steps) = (2, 1) := by
  refine ⟨_, rfl, ?_⟩; decide

/-! ## C11 — `next()` always terminates -/

/-- C11 progress: while the consumer is inside `next()` (and prefetch_factor ≥ 1) some non-timeout action is enabled:
    the system can never be in a state where only timeouts can fire, i.e. `next()` cannot wait forever. -/
theorem progress {c : Cfg} {s : State} (h : Reachable c s) (hpf : 0 < c.pf) (hin : inNext s.cpc = true) :
    ∃ a : Action, a.isTimeout = false ∧ (step c s a).isSome = true := by
  have i := inv_reachable h
  cases hc : s.cpc <;> simp [hc, inNext] at hin
  · exact ⟨.cIsSet, rfl, by simp [step, Action.isReader, stepC, hc]; split <;> rfl⟩
  · -- get
    cases hq : s.q with
    | cons m r => exact ⟨.cGet, rfl, by simp [step, Action.isReader, stepC, hc, hq]⟩
    | nil =>
      have hstop := i.cons_stop (Or.inl hc)
      have hperm := i.permits
      have hlen := congrArg List.length i.hist_eq
      simp [hist, hc, cMsg, hq, npro] at hlen
      have hge := i.got_end hstop
      have hserr := i.serr
      have hrd := i.rdone
      cases hr : s.rpc
      · exact ⟨.rInit, rfl, by simp [step, Action.isReader, stepR, hr]⟩
      · exact ⟨.rIsSet, rfl, by simp [step, Action.isReader, stepR, hr]⟩
      · refine ⟨.rAcq, rfl, ?_⟩
        simp [held, hr, rHold, hq, hc, cHold] at hperm
        simp [step, Action.isReader, stepR, hr]; omega
      · exact ⟨.rEnter, rfl, by simp [step, Action.isReader, stepR, hr]⟩
      · refine ⟨.rLeave, rfl, ?_⟩
        simp [step, Action.isReader, stepR, hr]; split <;> rfl
      · exact ⟨.rAppend, rfl, by simp [step, Action.isReader, stepR, hr]⟩
      · exact ⟨.rPut, rfl, by simp [step, Action.isReader, stepR, hr]⟩
      · exfalso
        simp [hr, hstop, hc] at hrd hserr
        simp [hr, rMsg] at hlen
        cases hrt : s.rterm <;> simp_all
        omega
      · exfalso
        simp [hr, hstop, hc] at hrd hserr
        simp [hr, rMsg] at hlen
        cases hrt : s.rterm <;> simp_all
        omega
  · rename_i m
    exact ⟨.cRel, rfl, release_never_overflows h m hc⟩
  · exact ⟨.cSet, rfl, by simp [step, Action.isReader, stepC, hc]⟩
  · refine ⟨.cPop, rfl, ?_⟩
    simp [step, Action.isReader, stepC, hc]; split <;> rfl

def rRank : RPc → Nat
  | .exited => 0 | .ret => 1 | .insrc => 2 | .next => 3 | .acq => 4 | .top => 5 | .init => 6 | .put _ => 7 | .app _ _ => 8

def cRank : CPc → Nat
  | .idle | .dead | .closed => 0
  | .boot | .join | .pop _ | .set _ => 1
  | .rel _ => 2 | .get => 3 | .top => 4

/-- termination measure: work left for the reader + the consumer's position inside the current call -/
def measure (c : Cfg) (s : State) : Nat := 9 * (c.src.length + 1 - npro s) + rRank s.rpc + cRank s.cpc

/-- the two actions by which the consumer's caller starts a new operation -/
def Action.isCall : Action → Bool
  | .cCall | .cShut => true
  | _ => false

/-- C11 variant: every action that is neither a timeout nor the start of a new consumer operation strictly decreases
    `measure`; so between two timeouts only finitely many steps happen, and a `next()` call consists of finitely many
    steps plus timeouts — together with `progress`: no livelock, no deadlock. -/
theorem variant {c : Cfg} {s s' : State} (h : Reachable c s) (a : Action) (hs : step c s a = some s')
    (ht : a.isTimeout = false) (hc : a.isCall = false) : measure c s' < measure c s := by
  have i := inv_reachable h
  have h3 := i.pulled_le
  have h4 := i.rterm_pulled
  have h5 := i.rterm_pc
  cases a <;> simp [Action.isTimeout, Action.isCall] at ht hc <;>
    simp only [step, Action.isReader, stepR, stepC, if_true, Bool.false_eq_true, if_false] at hs <;>
    (repeat' split at hs) <;> cases hs <;>
    simp_all [measure, npro, rRank, cRank] <;> (try split) <;> (try split) <;> (try simp_all [rRank, cRank]) <;> (try omega)

/-- non-vacuity of `progress`/`variant`: a state inside `next()` with an empty queue (the consumer is waiting), where the
    only enabled consumer action is the timeout but the reader can move; the reader step decreases the measure -/
example : ∃ s s', run cfgEx (init cfgEx) [.rInit, .cBoot, .cCall, .cIsSet] = some s ∧ inNext s.cpc = true ∧ s.q = [] ∧
    (step cfgEx s .cGet) = none ∧ step cfgEx s .rIsSet = some s' ∧ measure cfgEx s' < measure cfgEx s := by
  refine ⟨_, _, rfl, ?_, ?_, ?_, rfl, ?_⟩ <;> decide

/-- C11: after the end (or the error) has been observed, every further `next()` raises StopIteration in two consumer
    steps, without touching the queue or waiting for anything -/
theorem next_after_end_prompt {c : Cfg} {s : State} (h : Reachable c s) (hidle : s.cpc = .idle)
    (hend : 0 < s.nstop + s.errs) :
    ∃ s', run c s [.cCall, .cIsSet] = some s' ∧ s'.cpc = .idle ∧ s'.nstop = s.nstop + 1 ∧ s'.errs = s.errs ∧
      s'.got = s.got := by
  have i2 := inv2_reachable h
  have hstop := (i2.surfaced (i2.ended hend)).2.2
  refine ⟨{ s with cpc := .idle, nstop := s.nstop + 1 }, ?_, rfl, rfl, rfl, rfl⟩
  simp [run, step, Action.isReader, stepC, hidle, hstop]

/-- C11: a `state_dict()` failure of the source at a due position `p` is surfaced in-band: once the consumer has processed
    the marker, it has raised the error exactly once, after exactly the `p-1` items preceding the failed one, and
    (`next_after_end_prompt`) every later `next()` raises StopIteration; `progress`/`variant` apply unchanged. -/
theorem snapshot_error_surfaced {c : Cfg} {p : Nat} {s : State} (h : Reachable (c.withSnapErr p) s)
    (hg : s.got.length = (c.src.take (p - 1)).length + 1) : s.errs = 1 ∧ delivered s = c.src.take (p - 1) := by
  have he := (terminal_surfaced h hg).1 rfl
  exact ⟨he, complete h (by omega)⟩

example : ∃ s, run (cfgEx.withSnapErr 2) (init (cfgEx.withSnapErr 2))
      [.rInit, .cBoot, .rIsSet, .rAcq, .rEnter, .rLeave, .rPut, .rIsSet, .rAcq, .rEnter, .rLeave, .rPut, .rExit,
       .cCall, .cIsSet, .cGet, .cRel, .cPop, .cCall, .cIsSet, .cGet, .cRel, .cSet] = some s ∧
    delivered s = [7] ∧ s.errs = 1 := by
  refine ⟨_, rfl, ?_⟩; decide

/-! ## C17 — the reader thread is always released -/

/-- distance of the reader from `exited` once the stop event is set -/
def stopRank : RPc → Nat
  | .exited => 0 | .ret => 1 | .top => 2 | .init => 3 | .put _ => 3 | .app _ _ => 4 | .insrc => 5 | .next => 6 | .acq => 7

/-- the stop event is never cleared -/
theorem stop_stable {c : Cfg} {s s' : State} (a : Action) (hs : step c s a = some s') (hstop : s.stop = true) :
    s'.stop = true := by
  cases a <;>
    simp only [step, Action.isReader, stepR, stepC, if_true, Bool.false_eq_true, if_false] at hs <;>
    (repeat' split at hs) <;> cases hs <;> simp_all

/-- C17 `released`: once shutdown is requested (stop set), EVERY step of the reader (timeouts included) brings it
    strictly closer to `exited`: it exits within 7 of its own steps, the only step that depends on user code being
    the return of `next(source)` (`rLeave`, from `insrc`). -/
theorem released {c : Cfg} {s s' : State} (a : Action) (ha : a.isReader = true) (hs : step c s a = some s')
    (hstop : s.stop = true) : stopRank s'.rpc < stopRank s.rpc := by
  cases a <;> simp [Action.isReader] at ha <;>
    simp only [step, Action.isReader, stepR, if_true] at hs <;>
    (repeat' split at hs) <;> cases hs <;> simp_all [stopRank] <;> (try split) <;> simp_all [stopRank]

/-- the reader never blocks without a timeout: unless it has exited, one of its actions is enabled -/
theorem reader_never_stuck (c : Cfg) (s : State) (hr : s.rpc ≠ .exited) :
    ∃ a : Action, a.isReader = true ∧ (step c s a).isSome = true := by
  cases hp : s.rpc
  · exact ⟨.rInit, rfl, by simp [step, Action.isReader, stepR, hp]⟩
  · exact ⟨.rIsSet, rfl, by simp [step, Action.isReader, stepR, hp]⟩
  · by_cases h0 : 0 < s.sem
    · exact ⟨.rAcq, rfl, by simp [step, Action.isReader, stepR, hp, h0]⟩
    · exact ⟨.rAcqT, rfl, by simp [step, Action.isReader, stepR, hp]; omega⟩
  · exact ⟨.rEnter, rfl, by simp [step, Action.isReader, stepR, hp]⟩
  · refine ⟨.rLeave, rfl, ?_⟩
    simp [step, Action.isReader, stepR, hp]; split <;> rfl
  · exact ⟨.rAppend, rfl, by simp [step, Action.isReader, stepR, hp]⟩
  · exact ⟨.rPut, rfl, by simp [step, Action.isReader, stepR, hp]⟩
  · exact ⟨.rExit, rfl, by simp [step, Action.isReader, stepR, hp]⟩
  · exact absurd hp hr

/-- after `_shutdown` has set the event, a reader outside the source exits by its own steps alone:
    the run `rAcqT/rAcq …` to `exited` never needs the consumer -/
theorem released_without_consumer {c : Cfg} {s s' : State} (a : Action) (ha : a.isReader = true)
    (hs : step c s a = some s') : s'.cpc = s.cpc ∧ s'.stop = s.stop := by
  cases a <;> simp [Action.isReader] at ha <;>
    simp only [step, Action.isReader, stepR, if_true] at hs <;>
    (repeat' split at hs) <;> cases hs <;> simp

/-- non-vacuity of `released`: shutdown while the reader waits for a permit (queue full): timeout, stop test, return, exit -/
example : ∃ s s', run cfgEx (init cfgEx) (aheadRun ++ [.cBoot, .rIsSet, .cShut]) = some s ∧ s.stop = true ∧ s.rpc = .acq ∧
    run cfgEx s [.rAcqT, .rIsSet, .rExit] = some s' ∧ s'.rpc = .exited := by
  refine ⟨_, _, rfl, ?_, ?_, rfl, ?_⟩ <;> decide

/-- non-vacuity of `next_after_end_prompt` -/
example : ∃ s, run cfgErr (init cfgErr) exhaustRun = some s ∧ s.cpc = .idle ∧ 0 < s.nstop + s.errs := by
  refine ⟨_, rfl, ?_⟩; decide

/-! ## C12 — the source is driven by one thread at a time: FALSE on the current code -/

/-- full-strength statement: in every reachable state of the generation layer at most one thread is inside the source -/
def single_driver_statement : Prop :=
  ∀ (c0 : Cfg) (as : List GAction) (g : GState), grun (ginit c0) as = some g → readersInSource g ≤ 1

/-- `Prefetcher.reset()` while the reader is inside a slow `next(source)`: both timed joins (`_shutdown`, then `__del__`
    → `_shutdown`) give up, the consumer resets the source and starts a second reader, which enters the source too. -/
def twoDriversRun : List GAction :=
  [.cur .rInit, .cur .cBoot, .cur .rIsSet, .cur .rAcq, .cur .rEnter,
   .cur .cShut, .cur .cJoinT, .cur .cShut, .cur .cJoinT, .reset cfgEx,
   .cur .rInit, .cur .cBoot, .cur .rIsSet, .cur .rAcq, .cur .rEnter]

theorem two_drivers_witness :
    ∃ g, grun (ginit cfgEx) twoDriversRun = some g ∧ readersInSource g = 2 ∧ liveReaders g = 2 := by
  refine ⟨_, rfl, ?_⟩; decide

theorem single_driver_statement_false : ¬ single_driver_statement := by
  intro h
  obtain ⟨g, hg, h2, _⟩ := two_drivers_witness
  have := h cfgEx twoDriversRun g hg
  omega

/-- C12 `single_driver_partial`: as long as no timed join gives up (which by `released` can only happen while the reader
    is inside a slow source, or is starved for 0.5 s), every abandoned reader has exited before the source is reset, so at
    most one thread is ever inside the source and at most one reader thread is alive. -/
theorem single_driver_partial (c0 : Cfg) (as : List GAction) (g : GState) (hr : grun (ginit c0) as = some g)
    (hne : ∀ a ∈ as, a.isJoinGiveUp = false) : readersInSource g ≤ 1 ∧ liveReaders g ≤ 1 := by
  have hi : GInv (ginit c0) := ⟨by simp [Joined, ginit, init], by simp [ginit]⟩
  obtain ⟨_, ho⟩ := ginv_run as hi hr hne
  have z1 : (g.old.map fun p => inSource p.2).sum = 0 :=
    sum_map_zero _ _ (fun p hp => by simp [inSource, ho p hp])
  have z2 : (g.old.map fun p => if p.2.rpc = .exited then 0 else 1).sum = 0 :=
    sum_map_zero _ _ (fun p hp => by simp [ho p hp])
  unfold readersInSource liveReaders
  rw [z1, z2]
  unfold inSource
  constructor <;> split <;> omega

def cleanResetRun : List GAction :=
  [.cur .rInit, .cur .cBoot, .cur .rIsSet, .cur .rAcq, .cur .rEnter, .cur .rLeave, .cur .rPut,
   .cur .cShut, .cur .rIsSet, .cur .rExit, .cur .cJoin, .cur .cShut, .cur .cJoin, .reset cfgEx,
   .cur .rInit, .cur .cBoot, .cur .rIsSet, .cur .rAcq, .cur .rEnter]

/-- non-vacuity of `single_driver_partial`: a mid-epoch reset whose joins wait for the reader -/
example : (∀ a ∈ cleanResetRun, a.isJoinGiveUp = false) ∧
    ∃ g, grun (ginit cfgEx) cleanResetRun = some g ∧ g.old.length = 1 ∧ readersInSource g = 1 := by
  refine ⟨by decide, _, rfl, ?_⟩; decide

end TDV.PF
