import TorchDataVerif.Proofs.PFInv3
/-!
# Property theorems of the Prefetcher thread protocol `TDV.PF` (serving C04, C06, C11, C12, C17)

Every theorem quantifies over every reachable state = every action sequence from `init c` = every interleaving of
reader and consumer (including every timeout of a timed wait).
-/
namespace TDV.PF

/-! ## C12 — read-ahead is bounded -/

/-- permits + (pulled and not yet taken, incl. the reader's hand and the end marker) + (taken, not yet released)
    = prefetch_factor, in every reachable state -/
theorem readahead_bound {c : Cfg} {s : State} (h : Reachable c s) :
    s.sem + (rHold s.rpc + s.q.length + cHold s.cpc) = c.pf :=
  (inv_reachable h).permits

/-- hence at most `prefetch_factor` results of the source are held at any time -/
theorem held_le {c : Cfg} {s : State} (h : Reachable c s) : held s ≤ c.pf := by
  have := (inv_reachable h).permits; omega

/-- `BoundedSemaphore.release` never raises: whenever the consumer is about to release, the value is below the bound -/
theorem release_never_overflows {c : Cfg} {s : State} (h : Reachable c s) (m : Msg) (hpc : s.cpc = .rel m) :
    (step c s .cRel).isSome := by
  have := (inv_reachable h).permits
  have hlt : s.sem < c.pf := by simp [held, cHold, hpc] at this; omega
  simp [step, Action.isReader, stepC, hpc, hlt]

/-- non-vacuity: with prefetch_factor 2 the reader does get two items ahead (queue of 2, no permit left) -/
def cfgEx : Cfg := { pf := 2, f := 2, src := [7, 8, 9], term := .stop, base := 0, startErr := false }

def aheadRun : List Action :=
  [.rInit, .rIsSet, .rAcq, .rEnter, .rLeave, .rPut, .rIsSet, .rAcq, .rEnter, .rLeave, .rAppend, .rPut, .rIsSet, .rAcqT]

example : ∃ s, run cfgEx (init cfgEx) aheadRun = some s ∧ held s = 2 ∧ s.sem = 0 ∧ s.q.length = 2 := by
  refine ⟨_, rfl, ?_⟩; decide

end TDV.PF
