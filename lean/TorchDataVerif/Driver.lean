import TorchDataVerif.Drv.Incr
/-! Line-protocol driver: one JSON request per line on stdin, one JSON answer per line on stdout.
Run with `lake env lean --run Driver.lean`. -/
open Lean

def handlers : List (String × (Json → Except String Json)) := [
  ("incr", TDV.Drv.Incr.handle)
]

def answer (line : String) : Json :=
  match Json.parse line with
  | .error e => Json.mkObj [("error", Json.str s!"parse: {e}")]
  | .ok j =>
    match j.getObjValAs? String "m" with
    | .error e => Json.mkObj [("error", Json.str s!"no model: {e}")]
    | .ok m =>
      match handlers.lookup m with
      | none => Json.mkObj [("error", Json.str s!"unknown model {m}")]
      | some h =>
        match h j with
        | .ok r => r
        | .error e => Json.mkObj [("error", Json.str e)]

partial def loop (h : IO.FS.Stream) : IO Unit := do
  let line ← h.getLine
  if line.isEmpty then return ()
  if line.trimAscii.toString.isEmpty then loop h else
  IO.println (answer line).compress
  loop h

def main : IO Unit := do loop (← IO.getStdin)
