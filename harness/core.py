"""Shared machinery of every check: context, coverage accounting, findings, verdict, evidence.

The verdict logic is DESIGN.md section 4.5.  A per-property module (harness/props/cXX.py) exposes

    THEOREMS : list[str]      fully qualified Lean theorem names that decide the property
    LEAN_MODULES : list[str]  Lean modules that must build (e.g. "TorchDataVerif.Props.C07")
    KNOWN : dict[str, callable(input_dict) -> bool]   classifiers for known-finding regions
    run(ctx)                  corpus + correspondence legs + property oracle on the real code
    escalate(ctx)             deeper failing-input search (called when proof/correspondence broke)
    replay(ctx, input_dict)   re-run one failing input (used by --replay and by `fixed:` witnesses)

and reports through the Ctx methods below.  Nothing here ever writes known_findings.txt.
"""
from __future__ import annotations

import hashlib
import json
import os
import random
import sys
import time
import traceback
from typing import Any, Callable, Dict, List, Optional

VERIF = os.path.dirname(os.path.dirname(os.path.abspath(__file__)))
REPO = os.environ.get("VERIF_REPO", "/repo")
EVIDENCE_DIR = os.path.join(VERIF, "evidence")
REPLAY_DIR = os.path.join(VERIF, "replays")
CORPUS_DIR = os.path.join(VERIF, "corpus")
KNOWN_FILE = os.path.join(VERIF, "known_findings.txt")


def canon(obj: Any) -> str:
    return json.dumps(obj, sort_keys=True, default=repr, separators=(",", ":"))


class Failure:
    """A concrete input on which the property fails on the REAL code."""

    def __init__(self, kind: str, inp: Dict[str, Any], what: str):
        self.kind = kind  # sub-oracle name, used by replay()
        self.inp = inp
        self.what = what

    def to_json(self):
        return {"kind": self.kind, "input": self.inp, "what": self.what}


class Divergence:
    """Model and implementation disagree on an input (broken correspondence)."""

    def __init__(self, leg: str, inp: Dict[str, Any], detail: str):
        self.leg = leg
        self.inp = inp
        self.detail = detail

    def to_json(self):
        return {"leg": self.leg, "input": self.inp, "detail": self.detail}


class Ctx:
    def __init__(self, prop: str, tier: str, seed: int):
        self.prop = prop
        self.tier = tier
        self.seed = seed
        self.rng = random.Random((seed * 1000003) ^ int(hashlib.sha1(prop.encode()).hexdigest()[:8], 16))
        self.t0 = time.time()
        self.evaluations = 0
        self.nontrivial: set = set()
        self.hist: Dict[str, int] = {}
        self.samples: List[Any] = []
        self.failures: List[Failure] = []
        self.divergences: List[Divergence] = []
        self.traces_validated = 0
        self.model_lines = 0
        self.notes: List[str] = []
        self.escalated = False
        self.legs: Dict[str, Dict[str, int]] = {}
        self.deadline: Optional[float] = None

    # ----- budgets -----
    def n(self, quick: int, thorough: int) -> int:
        base = quick if self.tier == "quick" else thorough
        if self.escalated:
            base *= 4
        return base

    def time_left(self) -> float:
        if self.deadline is None:
            return 1e9
        return self.deadline - time.time()

    def sub_rng(self, *tag) -> random.Random:
        return random.Random(canon([self.seed, self.prop, tag]))

    # ----- coverage accounting -----
    def count(self, key: str, n: int = 1):
        self.hist[key] = self.hist.get(key, 0) + n

    def case(self, leg: str, sig: Any = None, nontrivial: bool = False):
        """One executed case of leg `leg`. `sig` identifies it for distinctness; nontrivial by the
        leg's stated rule."""
        self.evaluations += 1
        d = self.legs.setdefault(leg, {"cases": 0, "nontrivial": 0})
        d["cases"] += 1
        if nontrivial:
            key = hashlib.sha1(canon([leg, sig]).encode()).hexdigest()[:16]
            if key not in self.nontrivial:
                self.nontrivial.add(key)
                d["nontrivial"] += 1

    def sample(self, obj: Any, limit: int = 6):
        if len(self.samples) < limit:
            self.samples.append(obj)

    def note(self, s: str):
        self.notes.append(s)

    # ----- results -----
    def fail(self, kind: str, inp: Dict[str, Any], what: str):
        # keep at most a few distinct failures per kind; identical inputs once
        key = canon([kind, inp])
        for f in self.failures:
            if canon([f.kind, f.inp]) == key:
                return
        self.failures.append(Failure(kind, inp, what))

    def diverge(self, leg: str, inp: Dict[str, Any], detail: str):
        if len(self.divergences) < 20:
            self.divergences.append(Divergence(leg, inp, detail))


# ---------------------------------------------------------------------------------------------
# known findings


class KnownEntry:
    def __init__(self, status: str, prop: str, fid: str, text: str):
        self.status = status  # "finding" | "fixed"
        self.prop = prop
        self.fid = fid
        self.text = text


def load_known() -> List[KnownEntry]:
    out: List[KnownEntry] = []
    if not os.path.exists(KNOWN_FILE):
        return out
    for line in open(KNOWN_FILE):
        line = line.strip()
        if not line or line.startswith("#"):
            continue
        status, _, rest = line.partition(":")
        status = status.strip()
        if status not in ("finding", "fixed"):
            continue
        fields = rest.strip().split()
        prop = fid = ""
        for f in fields:
            if f.startswith("property="):
                prop = f[len("property="):]
            if f.startswith("id="):
                fid = f[len("id="):]
        out.append(KnownEntry(status, prop, fid, rest.strip()))
    return out


# ---------------------------------------------------------------------------------------------
# evidence / replay files


def write_replay(prop: str, payload: Dict[str, Any]) -> str:
    os.makedirs(REPLAY_DIR, exist_ok=True)
    h = hashlib.sha1(canon(payload).encode()).hexdigest()[:12]
    path = os.path.join(REPLAY_DIR, f"{prop}-{h}.json")
    with open(path, "w") as f:
        json.dump(payload, f, indent=1, sort_keys=True, default=repr)
    return os.path.relpath(path, VERIF)


def write_evidence(ctx: Ctx, proof: Dict[str, Any], violations: int, known_hits: List[str], extra: Dict[str, Any]):
    os.makedirs(EVIDENCE_DIR, exist_ok=True)
    cov: Dict[str, Any] = {
        "obligations": proof.get("obligations", 0),
        "discharged": proof.get("discharged", 0),
        "checker_cmd": proof.get("checker_cmd", ""),
        "trusted_base": proof.get("trusted_base", []),
        "theorems": proof.get("theorems", []),
        "evaluations": ctx.evaluations,
        "distinct_nontrivial": len(ctx.nontrivial),
        "rule": extra.get("rule", ""),
        "samples": ctx.samples[:6],
        "traces_validated_against_impl": ctx.traces_validated,
        "model_lines_compared": ctx.model_lines,
        "legs": ctx.legs,
        "input_distribution": dict(sorted(ctx.hist.items())),
        "explanation": extra.get("explanation", ""),
        "known_findings_hit": known_hits,
        "notes": ctx.notes[:20],
        "exhaustive": False,
    }
    ev = {
        "property_id": ctx.prop,
        "tier": ctx.tier,
        "seed": ctx.seed,
        "level": "proof",
        "coverage": cov,
        "assumptions": extra.get("assumptions", []),
        "wall_s": round(time.time() - ctx.t0, 2),
        "violations": violations,
    }
    path = os.path.join(EVIDENCE_DIR, f"{ctx.prop}.json")
    tmp = path + ".tmp"
    with open(tmp, "w") as f:
        json.dump(ev, f, indent=1, default=repr)
    os.replace(tmp, path)
