"""Shared machinery of every check: context, coverage accounting, findings, verdict, evidence.

The verdict logic is DESIGN.md section 4.5.  A per-property module (harness/props/cXX.py) exposes

    THEOREMS : list[str]      fully qualified Lean theorem names that decide the property
    LEAN_MODULES : list[str]  Lean modules that must build (e.g. "TorchDataVerif.Props.C07")
    KNOWN : dict[str, callable(input_dict) -> bool]   classifiers for known-finding regions
    run(ctx)                  corpus + correspondence legs + property oracle on the real code
    escalate(ctx)             deeper failing-input search (called when proof/correspondence broke)
    replay(ctx, input_dict)   re-run one failing input (used by --replay and by `fixed:` witnesses)

and reports through the Ctx methods below.  Nothing here ever writes known_findings.txt.
"""
from __future__ import annotations

import hashlib
import json
import os
import random
import sys
import time
import traceback
from typing import Any, Callable, Dict, List, Optional

VERIF = os.path.dirname(os.path.dirname(os.path.abspath(__file__)))
REPO = os.environ.get("VERIF_REPO", "/repo")
EVIDENCE_DIR = os.path.join(VERIF, "evidence")
REPLAY_DIR = os.path.join(VERIF, "replays")
CORPUS_DIR = os.path.join(VERIF, "corpus")
KNOWN_FILE = os.path.join(VERIF, "known_findings.txt")


def fingerprint_files(files: List[str]) -> Dict[str, str]:
    """sha1 of the normalised AST (no positions, no docstrings) of each anchored source file of REPO."""
    import ast

    out = {}
    for f in files:
        path = os.path.join(REPO, f)
        try:
            tree = ast.parse(open(path).read())
            for node in ast.walk(tree):
                body = getattr(node, "body", None)
                if isinstance(body, list) and body and isinstance(body[0], ast.Expr) and isinstance(getattr(body[0], "value", None), ast.Constant) \
                        and isinstance(body[0].value.value, str):
                    body.pop(0)
            out[f] = hashlib.sha1(ast.dump(tree, include_attributes=False).encode()).hexdigest()[:16]
        except Exception as e:  # unreadable / syntax error: counts as changed
            out[f] = "error:" + type(e).__name__
    return out


def anchors_changed(prop: str) -> List[str]:
    """Anchored files of `prop` whose fingerprint differs from the committed baseline."""
    try:
        base = json.load(open(os.path.join(VERIF, "fingerprints.json"))).get(prop, {})
    except Exception:
        return []
    cur = fingerprint_files(list(base))
    return [f for f in base if cur.get(f) != base[f]]


def canon(obj: Any) -> str:
    return json.dumps(obj, sort_keys=True, default=repr, separators=(",", ":"))


class Failure:
    """A concrete input on which the property fails on the REAL code."""

    def __init__(self, kind: str, inp: Dict[str, Any], what: str):
        self.kind = kind  # sub-oracle name, used by replay()
        self.inp = inp
        self.what = what

    def to_json(self):
        return {"kind": self.kind, "input": self.inp, "what": self.what}


class Divergence:
    """Model and implementation disagree on an input (broken correspondence)."""

    def __init__(self, leg: str, inp: Dict[str, Any], detail: str):
        self.leg = leg
        self.inp = inp
        self.detail = detail

    def to_json(self):
        return {"leg": self.leg, "input": self.inp, "detail": self.detail}


class Ctx:
    def __init__(self, prop: str, tier: str, seed: int):
        self.prop = prop
        self.tier = tier
        self.seed = seed
        self.rng = random.Random((seed * 1000003) ^ int(hashlib.sha1(prop.encode()).hexdigest()[:8], 16))
        self.t0 = time.time()
        self.evaluations = 0
        self.nontrivial: set = set()
        self.hist: Dict[str, int] = {}
        self.samples: List[Any] = []
        self.failures: List[Failure] = []
        self.divergences: List[Divergence] = []
        self.traces_validated = 0
        self.model_lines = 0
        self.notes: List[str] = []
        self.escalated = False
        self.legs: Dict[str, Dict[str, int]] = {}
        self.deadline: Optional[float] = None

    # ----- budgets -----
    def n(self, quick: int, thorough: int) -> int:
        base = quick if self.tier == "quick" else thorough
        if self.escalated:
            base *= 4
        return base

    def time_left(self) -> float:
        if self.deadline is None:
            return 1e9
        return self.deadline - time.time()

    def sub_rng(self, *tag) -> random.Random:
        return random.Random(canon([self.seed, self.prop, tag]))

    # ----- coverage accounting -----
    def count(self, key: str, n: int = 1):
        self.hist[key] = self.hist.get(key, 0) + n

    def case(self, leg: str, sig: Any = None, nontrivial: bool = False):
        """One executed case of leg `leg`. `sig` identifies it for distinctness; nontrivial by the
        leg's stated rule."""
        self.evaluations += 1
        d = self.legs.setdefault(leg, {"cases": 0, "nontrivial": 0})
        d["cases"] += 1
        if nontrivial:
            key = hashlib.sha1(canon([leg, sig]).encode()).hexdigest()[:16]
            if key not in self.nontrivial:
                self.nontrivial.add(key)
                d["nontrivial"] += 1

    def sample(self, obj: Any, limit: int = 6):
        if len(self.samples) < limit:
            self.samples.append(obj)

    def note(self, s: str):
        self.notes.append(s)

    # ----- results -----
    def fail(self, kind: str, inp: Dict[str, Any], what: str):
        # keep at most a few distinct failures per kind; identical inputs once
        key = canon([kind, inp])
        for f in self.failures:
            if canon([f.kind, f.inp]) == key:
                return
        self.failures.append(Failure(kind, inp, what))

    def diverge(self, leg: str, inp: Dict[str, Any], detail: str):
        if len(self.divergences) < 20:
            self.divergences.append(Divergence(leg, inp, detail))


    # ----- parallel map over forked worker processes -----
    def export(self) -> Dict[str, Any]:
        return {"evaluations": self.evaluations, "nontrivial": list(self.nontrivial), "hist": self.hist,
                "samples": self.samples, "failures": [f.to_json() for f in self.failures],
                "divergences": [d.to_json() for d in self.divergences], "traces_validated": self.traces_validated,
                "model_lines": self.model_lines, "notes": self.notes, "legs": self.legs}

    def merge(self, d: Dict[str, Any]):
        self.evaluations += d["evaluations"]
        for leg, v in d["legs"].items():
            t = self.legs.setdefault(leg, {"cases": 0, "nontrivial": 0})
            t["cases"] += v["cases"]
            t["nontrivial"] += v.get("nontrivial", 0)  # per-leg counts are summed over workers (distinctness is global only)
        new = set(d["nontrivial"]) - self.nontrivial
        self.nontrivial |= new
        for k, v in d["hist"].items():
            self.hist[k] = self.hist.get(k, 0) + v
        for x in d["samples"]:
            self.sample(x)
        for f in d["failures"]:
            self.fail(f["kind"], f["input"], f["what"])
        for x in d["divergences"]:
            self.diverge(x["leg"], x["input"], x["detail"])
        self.traces_validated += d["traces_validated"]
        self.model_lines += d["model_lines"]
        self.notes.extend(d["notes"])

    def pmap(self, fn: Callable[["Ctx", Any], Any], items: List[Any], nproc: Optional[int] = None) -> List[Any]:
        """Runs fn(sub_ctx, item) for every item in forked worker processes; the sub-contexts'
        accounting is merged into this one.  Returns the list of fn's results (must be picklable)."""
        import multiprocessing as mp

        nproc = nproc or int(os.environ.get("VERIF_NPROC", "0")) or min(14, os.cpu_count() or 1)
        if nproc <= 1 or len(items) <= 1:
            out = []
            for it in items:
                r, stop = _guarded_call(self, fn, it, reraise_internal=True)
                out.append(r)
                if stop:
                    out += [None] * (len(items) - len(out))
                    break
            return out
        chunks = [items[i::nproc] for i in range(nproc)]
        chunks = [c for c in chunks if c]
        fctx = mp.get_context("fork")
        with fctx.Pool(len(chunks)) as pool:
            parts = pool.map(_pmap_worker, [(fn, self.prop, self.tier, self.seed, self.escalated, c) for c in chunks])
        results: List[Any] = [None] * len(items)
        for ci, (exp, res) in enumerate(parts):
            self.merge(exp)
            for j, r in enumerate(res):
                results[ci + j * len(chunks)] = r
        # per-leg nontrivial counters are recomputed from the merged set size elsewhere; keep totals
        return results


def raised_in_code_under_test(e: BaseException) -> bool:
    """True iff the innermost frames of the exception's traceback lie in the tree under test (torchdata/...)."""
    import traceback
    frames = traceback.extract_tb(e.__traceback__)
    root = os.path.join(os.path.realpath(REPO), "torchdata") + os.sep
    mine = os.path.dirname(os.path.dirname(os.path.realpath(__file__))) + os.sep
    if not frames or os.path.realpath(frames[-1].filename).startswith(mine):
        return False  # raised by the harness itself (or by one of its datasets / callbacks)
    return any(os.path.realpath(f.filename).startswith(root) for f in frames)


class CaseTimeout(BaseException):
    """raised by the per-case watchdog (BaseException: `except Exception` in the code under test must not swallow it)"""


# limits for ONE item handed to pmap (a case, or a batch of a few dozen cases of a trace leg): CPU seconds of this process
# (independent of machine load) and wall-clock seconds
_THOROUGH = os.environ.get("VERIF_TIER") == "thorough" or "thorough" in sys.argv
CASE_CPU_LIMIT = float(os.environ.get("VERIF_CASE_CPU_LIMIT", "1800" if _THOROUGH else "300"))
CASE_WALL_LIMIT = float(os.environ.get("VERIF_CASE_WALL_LIMIT", "7200" if _THOROUGH else "3000"))


def _guarded_call(sub: "Ctx", fn, it, reraise_internal=False):
    """fn(sub, it) under a watchdog.  A case normally takes milliseconds to seconds; one that burns CASE_CPU_LIMIT CPU
    seconds (a loop in the code under test that never reaches a switch point of the virtual scheduler, e.g. a sequential
    node spinning in next()) or CASE_WALL_LIMIT wall seconds is reported as a failing input: next() never returned.
    Returns (result, stop): stop = the process state can no longer be trusted, skip the rest of this worker's chunk."""
    import signal
    import traceback

    def on_alarm(signum, frame):
        stack = "".join(traceback.format_stack(frame)[-8:])
        raise CaseTimeout(("CPU" if signum == signal.SIGPROF else "wall clock") + " limit; innermost frames:\n" + stack)

    can = hasattr(signal, "setitimer") and __import__("threading").current_thread() is __import__("threading").main_thread()
    if can:
        old1 = signal.signal(signal.SIGPROF, on_alarm)
        old2 = signal.signal(signal.SIGALRM, on_alarm)
        signal.setitimer(signal.ITIMER_PROF, CASE_CPU_LIMIT)
        signal.setitimer(signal.ITIMER_REAL, CASE_WALL_LIMIT)
    try:
        try:
            return fn(sub, it), False
        finally:
            if can:
                signal.setitimer(signal.ITIMER_PROF, 0)
                signal.setitimer(signal.ITIMER_REAL, 0)
                signal.signal(signal.SIGPROF, old1)
                signal.signal(signal.SIGALRM, old2)
    except CaseTimeout as e:
        inp = it if isinstance(it, dict) else {"case": it}
        try:
            json.dumps(inp, default=repr)
        except Exception:
            inp = {"case": repr(it)[:3000]}
        sub.fail("case_never_returned", inp,
                 f"the case did not finish within {CASE_CPU_LIMIT:.0f} CPU s / {CASE_WALL_LIMIT:.0f} wall s (cases take milliseconds to seconds): a call into the code under test never returned. " + str(e)[-1200:])
        return None, True
    except Exception as e:
        tb = traceback.format_exc()
        if raised_in_code_under_test(e):
            # the harness did not expect the API to raise here: its picture of the code no longer holds
            try:
                json.dumps(it, default=repr)
                inp = {"case": it}
            except Exception:
                inp = {"case": repr(it)[:2000]}
            sub.diverge("uncaught_exception", inp, "the code under test raised where the harness expects no exception: " + tb[-900:])
        elif reraise_internal:
            raise
        else:  # machinery error inside a case: surface it as a note, not a verdict
            sub.note("internal error in case: " + tb[-600:])
            sub.hist["internal_errors"] = sub.hist.get("internal_errors", 0) + 1
        return None, False


def _pmap_worker(args):
    fn, prop, tier, seed, escalated, chunk = args
    try:
        # pool workers are daemonic and "daemonic processes are not allowed to have children": the real-process slices
        # (thorough tier) start real DataLoader workers from inside a case
        import multiprocessing as _mp
        _mp.current_process()._config["daemon"] = False
    except Exception:
        pass
    sub = Ctx(prop, tier, seed)
    sub.escalated = escalated
    out = []
    for it in chunk:
        r, stop = _guarded_call(sub, fn, it)
        out.append(r)
        if stop:
            sub.hist["cases_skipped_after_hang"] = sub.hist.get("cases_skipped_after_hang", 0) + len(chunk) - len(out)
            out += [None] * (len(chunk) - len(out))
            break
    return sub.export(), out


# ---------------------------------------------------------------------------------------------
# known findings


class KnownEntry:
    def __init__(self, status: str, prop: str, fid: str, text: str):
        self.status = status  # "finding" | "fixed"
        self.prop = prop
        self.fid = fid
        self.text = text


def load_known() -> List[KnownEntry]:
    out: List[KnownEntry] = []
    if not os.path.exists(KNOWN_FILE):
        return out
    for line in open(KNOWN_FILE):
        line = line.strip()
        if not line or line.startswith("#"):
            continue
        status, _, rest = line.partition(":")
        status = status.strip()
        if status not in ("finding", "fixed"):
            continue
        fields = rest.strip().split()
        prop = fid = ""
        for f in fields:
            if f.startswith("property="):
                prop = f[len("property="):]
            if f.startswith("id="):
                fid = f[len("id="):]
        out.append(KnownEntry(status, prop, fid, rest.strip()))
    return out


# ---------------------------------------------------------------------------------------------
# evidence / replay files


def write_replay(prop: str, payload: Dict[str, Any]) -> str:
    os.makedirs(REPLAY_DIR, exist_ok=True)
    h = hashlib.sha1(canon(payload).encode()).hexdigest()[:12]
    path = os.path.join(REPLAY_DIR, f"{prop}-{h}.json")
    with open(path, "w") as f:
        json.dump(payload, f, indent=1, sort_keys=True, default=repr)
    return os.path.relpath(path, VERIF)


def write_evidence(ctx: Ctx, proof: Dict[str, Any], violations: int, known_hits: List[str], extra: Dict[str, Any]):
    os.makedirs(EVIDENCE_DIR, exist_ok=True)
    cov: Dict[str, Any] = {
        "obligations": proof.get("obligations", 0),
        "discharged": proof.get("discharged", 0),
        "checker_cmd": proof.get("checker_cmd", ""),
        "trusted_base": proof.get("trusted_base", []),
        "theorems": proof.get("theorems", []),
        "evaluations": ctx.evaluations,
        "distinct_nontrivial": len(ctx.nontrivial),
        "rule": extra.get("rule", ""),
        "samples": ctx.samples[:6],
        "traces_validated_against_impl": ctx.traces_validated,
        "model_lines_compared": ctx.model_lines,
        "legs": ctx.legs,
        "input_distribution": dict(sorted(ctx.hist.items())),
        "explanation": extra.get("explanation", ""),
        "known_findings_hit": known_hits,
        "notes": ctx.notes[:20],
        "exhaustive": False,
    }
    ev = {
        "property_id": ctx.prop,
        "tier": ctx.tier,
        "seed": ctx.seed,
        "level": "proof",
        "coverage": cov,
        "assumptions": extra.get("assumptions", []),
        "wall_s": round(time.time() - ctx.t0, 2),
        "violations": violations,
    }
    path = os.path.join(EVIDENCE_DIR, f"{ctx.prop}.json")
    tmp = path + ".tmp"
    with open(tmp, "w") as f:
        json.dump(ev, f, indent=1, default=repr)
    os.replace(tmp, path)
