"""Virtual scheduler: runs the REAL torchdata code on virtual threading / queue / time / multiprocessing
primitives under a deterministic, seeded scheduler (DESIGN.md section 5).

Every virtual thread (VT) is a real thread, but exactly one holds the baton.  Every operation on a
virtual primitive is a switch point.  A blocked operation with a timeout is enabled as a *timeout step*
which advances the virtual clock; time never passes otherwise.  Virtual processes are VTs started on a
deep copy of their arguments (queues/events shared by identity; mp queues pickle their payload), with
their own `get_worker_info()` and their own global RNG state.

Nothing in /repo is modified: `install_nodes()` replaces the names `threading`, `queue`, `time`, `mp`
inside the torchdata.nodes modules of THIS process, and `VCtx` is passed to StatefulDataLoader through
its public `multiprocessing_context=` argument.
"""
from __future__ import annotations

import collections
import copy
import pickle
import queue as _rq
import random
import sys
import threading as _rt
import time as _rtime
import types
from typing import Any, Callable, Dict, List, Optional

import multiprocessing.context as _mpc


class VHang(BaseException):
    """Raised inside the consumer (main VT) when an operation exceeds its virtual-time budget."""


class VKill(BaseException):
    """Raised inside a VT that has been killed / abandoned, to unwind its real thread."""


CUR: Optional["Sched"] = None  # scheduler of the case currently running


class VT:
    __slots__ = ("name", "go", "state", "cond", "deadline", "timed_out", "exc", "killed", "real", "domain",
                 "is_proc", "prio", "pid", "rng_state", "py_rng_state", "worker_info", "fn_done", "gen", "exitcode", "self_kill", "planned_exit")

    def __init__(self, name, domain, is_proc=False):
        self.name = name
        self.go = _rt.Semaphore(0)
        self.state = "ready"  # ready | blocked | running | done
        self.cond = None
        self.deadline = None
        self.timed_out = False
        self.exc = None
        self.killed = False
        self.real = None
        self.domain = domain  # process domain (int); main = 0
        self.is_proc = is_proc
        self.prio = 1.0
        self.pid = None
        self.rng_state = None
        self.py_rng_state = None
        self.worker_info = None
        self.gen = 0
        self.exitcode = None
        self.planned_exit = -9
        self.self_kill = False


class Sched:
    def __init__(self, seed: int = 0, adversarial: bool = False, weights: Optional[Dict[str, float]] = None,
                 op_budget: float = 400.0, log: bool = False, flush_delay: bool = False, max_steps: int = 2_000_000):
        self.rng = random.Random(seed)
        self.adversarial = adversarial
        self.weights = weights or {}
        self.clock = 1000.0
        self.vts: List[VT] = []
        self.by_ident: Dict[int, VT] = {}
        self.main = VT("main", 0)
        self.main.state = "running"
        self.main.real = _rt.current_thread()
        self.vts.append(self.main)
        self.by_ident[_rt.get_ident()] = self.main
        self.cur = self.main
        self.op_budget = op_budget
        self.op_start = self.clock
        self.hang = None  # description of a recorded hang
        self.events: List[tuple] = []
        self.logging = log
        self.steps = 0
        self.max_steps = max_steps
        self.next_domain = 1
        self.next_pid = 4_000_000
        self.flush_delay = flush_delay
        self.pending_flush: List["VQueue"] = []
        self.closed = False
        self.n_switch = 0
        self.n_timeouts = 0
        self.hooks: List[Callable[["Sched"], None]] = []  # called at every switch point (invariant probes)
        self.kill_plan: Optional[Callable[["Sched", VT], bool]] = None
        self.objs = 0
        self.leaked_real = 0
        self.dom_rng: Dict[int, Any] = {}

    # ------------------------------------------------------------------ basics
    def me(self) -> Optional[VT]:
        return self.by_ident.get(_rt.get_ident())

    def ev(self, *a):
        if self.logging:
            vt = self.me()
            self.events.append((vt.name if vt else "?",) + a)

    def begin_op(self):
        """Consumer-side operation boundary: resets the virtual-time budget."""
        self.op_start = self.clock

    def _weight(self, vt: VT) -> float:
        w = vt.prio
        for pre, x in self.weights.items():
            if vt.name.startswith(pre):
                w *= x
        return max(w, 1e-9)

    def _enabled(self):
        run, tmo = [], []
        for vt in self.vts:
            if vt.state == "ready":
                run.append(vt)
            elif vt.state == "blocked":
                try:
                    ok = vt.cond is not None and vt.cond()
                except Exception:
                    ok = True
                if ok:
                    run.append(vt)
                elif vt.deadline is not None:
                    tmo.append(vt)
        return run, tmo

    def _pick(self):
        """Returns (vt, is_timeout) or None."""
        run, tmo = self._enabled()
        flushes = [q for q in self.pending_flush if q.pending]
        if run or flushes:
            if self.adversarial and tmo and self.rng.random() < 0.25:
                vt = self.rng.choice(tmo)
                return vt, True
            cands = run + flushes
            ws = [self._weight(c) if isinstance(c, VT) else 1.0 for c in cands]
            c = self.rng.choices(cands, weights=ws)[0]
            return c, False
        if tmo:
            vt = min(tmo, key=lambda v: (v.deadline, v.name))
            return vt, True
        return None

    def _dispatch(self, me: VT):
        """Called by the baton holder `me` after it recorded its own state. Hands the baton on and waits
        until `me` is scheduled again."""
        while True:
            self.steps += 1
            for h in self.hooks:
                h(self)
            if self.steps > self.max_steps:
                self.hang = self.hang or f"step bound {self.max_steps} exceeded"
                nxt = (self.main, self.main.deadline is not None and self.main.state == "blocked")
            else:
                nxt = self._pick()
            if nxt is None:
                # nothing can ever run again: true deadlock. Wake the main VT so the driver can see it.
                self.hang = self.hang or "deadlock: no enabled step"
                nxt = (self.main, False)
                if self.main.state == "done":
                    return
            c, is_tmo = nxt
            if not isinstance(c, VT):
                c.flush_one()
                continue
            if is_tmo:
                self.n_timeouts += 1
                if c.deadline is not None and c.deadline > self.clock:
                    self.clock = c.deadline
                c.timed_out = True
            else:
                c.timed_out = False
            # virtual-time budget of the current consumer operation
            if self.clock - self.op_start > self.op_budget and self.hang is None:
                self.hang = f"operation exceeded {self.op_budget} virtual seconds"
            c.state = "running"
            c.cond = None
            c.deadline = None
            self.cur = c
            if c is me:
                return
            self._swap_domain(me.domain, c.domain)
            c.go.release()
            me.go.acquire()
            return

    def switch(self, cond: Optional[Callable[[], bool]] = None, timeout: Optional[float] = None) -> bool:
        """Switch point. With `cond`: block until cond() holds (or `timeout` virtual seconds pass).
        Returns False iff it timed out."""
        me = self.me()
        if me is None or self.closed:
            # foreign real thread (e.g. late __del__): never block
            return bool(cond()) if cond is not None else True
        if me.killed:
            raise VKill()
        self.n_switch += 1
        kp = self.kill_plan(self, me) if (self.kill_plan is not None and me is not self.main) else False
        if kp is not False and kp is not None and (kp is True or isinstance(kp, int)):
            # SIGKILL of the running VT at this switch point: unwind first (further switch points raise
            # VKill at once), the baton is passed on by the thread body's `finally`.
            me.killed = True
            me.self_kill = True
            # True = SIGKILL (exit code -9); an int = the process ends itself with that status (os._exit(n) in user code)
            me.exitcode = -9 if kp is True else int(kp)
            me.planned_exit = me.exitcode
            raise VKill()
        if cond is None:
            me.state = "ready"
        else:
            me.state = "blocked"
            me.cond = cond
            me.deadline = None if timeout is None else self.clock + max(timeout, 0.0)
        self._dispatch(me)
        if me.killed:
            raise VKill()
        if me is self.main and self.hang is not None and not getattr(self, "_hang_raised", False):
            self._hang_raised = True
            raise VHang(self.hang)
        return not me.timed_out

    def _dispatch_away(self, me: VT):
        """`me` is done/killed: pass the baton on without waiting to get it back."""
        nxt = self._pick()
        while nxt is not None and not isinstance(nxt[0], VT):
            nxt[0].flush_one()
            nxt = self._pick()
        if nxt is None:
            self.hang = self.hang or "deadlock: no enabled step"
            if self.main.state != "done" and self.main is not me:
                c, is_tmo = self.main, False
            else:
                return
        else:
            c, is_tmo = nxt
        if is_tmo:
            self.n_timeouts += 1
            if c.deadline is not None and c.deadline > self.clock:
                self.clock = c.deadline
            c.timed_out = True
        else:
            c.timed_out = False
        c.state = "running"
        c.cond = None
        c.deadline = None
        self.cur = c
        self._swap_domain(me.domain, c.domain)
        c.go.release()

    def _swap_domain(self, old: int, new: int):
        """Per-virtual-process global RNG state (torch default generator, python `random`, numpy's global RNG)."""
        if old == new:
            return
        try:
            import torch
            import numpy as np
            self.dom_rng[old] = (torch.get_rng_state(), random.getstate(), np.random.get_state())
            st = self.dom_rng.get(new)
            if st is not None:
                torch.set_rng_state(st[0])
                random.setstate(st[1])
                np.random.set_state(st[2])
        except Exception:
            pass

    # ------------------------------------------------------------------ threads / processes
    def spawn(self, name: str, fn: Callable[[], None], domain: Optional[int] = None, is_proc=False) -> VT:
        parent = self.me() or self.main
        vt = VT(name, parent.domain if domain is None else domain, is_proc)
        vt.gen = getattr(parent, "gen", 0)
        vt.state = "new"  # not schedulable until its real thread is parked on `go` (a __del__ run by the
        # garbage collector inside Thread.start() may reach a switch point in the meantime)
        self.vts.append(vt)
        started = _rt.Event()

        def body():
            self.by_ident[_rt.get_ident()] = vt
            started.set()
            vt.go.acquire()
            try:
                if vt.killed:
                    raise VKill()
                _tls.worker_info = None
                fn()
                vt.exitcode = 0
            except VKill:
                vt.exitcode = vt.planned_exit
            except BaseException as e:  # noqa
                vt.exc = e
                vt.exitcode = 1
            finally:
                was_killed = vt.killed and not vt.self_kill
                vt.state = "done"
                if not was_killed and not self.closed:
                    self._dispatch_away(vt)

        t = _rt.Thread(target=body, name="vt-" + name, daemon=True)
        vt.real = t
        t.start()
        started.wait()
        if vt.state == "new":
            vt.state = "ready"
        return vt

    def kill(self, vt: VT):
        """Kill a VT that is not currently running (SIGKILL of a virtual process)."""
        if vt.state == "done":
            return
        vt.killed = True
        vt.state = "done"
        vt.exitcode = -9
        vt.go.release()
        if vt.real is not None and vt.real is not _rt.current_thread():
            vt.real.join(timeout=5)
            if vt.real.is_alive():
                self.leaked_real += 1

    def close(self):
        """End of case: unwind every remaining VT."""
        self.closed = True
        for vt in self.vts:
            if vt is not self.main and vt.state != "done":
                vt.killed = True
                vt.state = "done"
                vt.go.release()
        for vt in self.vts:
            if vt is not self.main and vt.real is not None:
                vt.real.join(timeout=2)
                if vt.real.is_alive():
                    self.leaked_real += 1
        self.by_ident.clear()

    def alive(self, prefix: str = "") -> List[VT]:
        return [v for v in self.vts if v is not self.main and v.state != "done" and v.name.startswith(prefix)]

    def idle_until_quiet(self, limit: float = 30.0) -> bool:
        """Let background VTs run (consumer idle) until all are done or `limit` virtual seconds passed."""
        end = self.clock + limit
        self.begin_op()
        while self.alive() and self.clock < end:
            self.switch(lambda: False, min(0.5, end - self.clock))
            self.begin_op()
        return not self.alive()


_tls = _rt.local()


def S() -> Sched:
    s = CUR
    if s is None:
        raise RuntimeError("no virtual scheduler active")
    return s


# ---------------------------------------------------------------------------------------------
# primitives


class VQueue:
    """queue.Queue / multiprocessing.Queue look-alike. `mp=True` pickles payloads (process isolation)
    and, with the scheduler's flush_delay, serialises them at a separately scheduled flush step."""

    def __init__(self, maxsize: int = 0, mp: bool = False, name: str = ""):
        self.s = S()
        self.queue = collections.deque()
        self.maxsize = maxsize
        self.mp = mp
        self.pending = collections.deque()
        self.s.objs += 1
        self.name = name or f"q{self.s.objs}"
        self.closed_ = False

    # --- queue.Queue API
    def qsize(self):
        return len(self.queue)

    def empty(self):
        self.s.switch()
        return len(self.queue) == 0

    def full(self):
        return 0 < self.maxsize <= len(self.queue)

    def put(self, item, block=True, timeout=None):
        s = self.s
        if self.mp:
            if s.flush_delay and not s.closed:
                self.pending.append(item)
                if self not in s.pending_flush:
                    s.pending_flush.append(self)
                s.ev("put", self.name, "pending")
                s.switch()
                return
            item = pickle.loads(pickle.dumps(item))
        if self.maxsize > 0 and len(self.queue) >= self.maxsize:
            if not block:
                raise _rq.Full
            ok = s.switch(lambda: len(self.queue) < self.maxsize, timeout)
            if not ok:
                raise _rq.Full
        self.queue.append(item)
        s.ev("put", self.name, _short(item))
        s.switch()

    def flush_one(self):
        if self.pending:
            item = self.pending.popleft()
            try:
                item = pickle.loads(pickle.dumps(item))
            except Exception as e:  # unpicklable payload: drop with a marker, like a feeder thread error
                item = ("<unpicklable>", repr(e))
            self.queue.append(item)
        if not self.pending and self in self.s.pending_flush:
            self.s.pending_flush.remove(self)

    def put_nowait(self, item):
        return self.put(item, block=False)

    def get(self, block=True, timeout=None):
        s = self.s
        if not block:
            s.switch()
            if not self.queue:
                s.ev("get", self.name, "empty")
                raise _rq.Empty
        else:
            ok = s.switch(lambda: len(self.queue) > 0, timeout)
            if not ok or not self.queue:
                s.ev("get", self.name, "empty")
                raise _rq.Empty
        item = self.queue.popleft()
        s.ev("get", self.name, _short(item))
        return item

    def get_nowait(self):
        # used by QueueSnapshotStore.pop_version under its lock; not a switch point
        if not self.queue:
            raise _rq.Empty
        return self.queue.popleft()

    def task_done(self):
        pass

    # --- multiprocessing.Queue extras
    def cancel_join_thread(self):
        pass

    def join_thread(self):
        pass

    def close(self):
        self.closed_ = True


class VSemaphore:
    def __init__(self, value: int = 1):
        self.s = S()
        self._value = value
        self._initial_value = value
        self.s.objs += 1
        self.name = f"sem{self.s.objs}"
        self.bounded = False

    def acquire(self, blocking=True, timeout=None):
        s = self.s
        if not blocking:
            s.switch()
            if self._value > 0:
                self._value -= 1
                s.ev("acquire", self.name, True)
                return True
            s.ev("acquire", self.name, False)
            return False
        ok = s.switch(lambda: self._value > 0, timeout)
        if ok and self._value > 0:
            self._value -= 1
            s.ev("acquire", self.name, True)
            return True
        s.ev("acquire", self.name, False)
        return False

    def release(self, n=1):
        if self.bounded and self._value + n > self._initial_value:
            raise ValueError("Semaphore released too many times")
        self._value += n
        self.s.ev("release", self.name, self._value)
        self.s.switch()

    __enter__ = acquire

    def __exit__(self, *a):
        self.release()


class VBoundedSemaphore(VSemaphore):
    def __init__(self, value: int = 1):
        super().__init__(value)
        self.bounded = True


class VEvent:
    def __init__(self):
        self.s = S()
        self._flag = False
        self.s.objs += 1
        self.name = f"ev{self.s.objs}"

    def is_set(self):
        self.s.switch()
        self.s.ev("is_set", self.name, self._flag)
        return self._flag

    def set(self):
        self._flag = True
        self.s.ev("set", self.name)
        self.s.switch()

    def clear(self):
        self._flag = False
        self.s.switch()

    def wait(self, timeout=None):
        self.s.switch(lambda: self._flag, timeout)
        return self._flag


class VLock:
    def __init__(self):
        self.s = S()
        self.locked_ = False

    def acquire(self, blocking=True, timeout=-1):
        if self.locked_:
            if not blocking:
                return False
            ok = self.s.switch(lambda: not self.locked_, None if timeout in (-1, None) else timeout)
            if not ok or self.locked_:
                return False
        self.locked_ = True
        return True

    def release(self):
        self.locked_ = False

    def locked(self):
        return self.locked_

    def __enter__(self):
        self.acquire()
        return self

    def __exit__(self, *a):
        self.release()


class VThread:
    def __init__(self, group=None, target=None, name=None, args=(), kwargs=None, daemon=None):
        self.s = S()
        self._target, self._args, self._kwargs = target, args, kwargs or {}
        self.s.objs += 1
        self.name = name or f"Thread-{self.s.objs}"
        self.daemon = daemon
        self.vt: Optional[VT] = None

    def start(self):
        self.vt = self.s.spawn(self.name, lambda: self._target(*self._args, **self._kwargs))
        self.s.ev("start", self.name)
        self.s.switch()

    def is_alive(self):
        return self.vt is not None and self.vt.state != "done"

    def join(self, timeout=None):
        if self.vt is None:
            raise RuntimeError("cannot join thread before it is started")
        self.s.switch(lambda: self.vt.state == "done", timeout)
        self.s.ev("join", self.name, self.vt.state == "done")

    @property
    def ident(self):
        return id(self)


class VProcess:
    """Virtual process: a VT running `target` on a deep copy of `args` (virtual queues / events are
    shared by identity), in its own process domain."""

    def __init__(self, group=None, target=None, name=None, args=(), kwargs=None, daemon=None):
        self.s = S()
        self._target, self._args, self._kwargs = target, args, kwargs or {}
        self.s.objs += 1
        self.name = name or f"Process-{self.s.objs}"
        self.daemon = daemon
        self.vt: Optional[VT] = None
        self.pid = None
        self._terminated = False

    def start(self):
        s = self.s
        memo = {}
        for a in _walk_shared(self._args):
            memo[id(a)] = a
        args = copy.deepcopy(self._args, memo)
        kwargs = copy.deepcopy(self._kwargs, memo)
        dom = s.next_domain
        s.next_domain += 1
        self.pid = s.next_pid
        s.next_pid += 1
        target = self._target

        def run():
            if getattr(target, "__name__", "") == "_worker_loop" and len(args) >= 12:
                # torch's own worker loop writes the module global `_worker_info` with a `global`
                # statement, which would be shared by all virtual processes: give this one its own.
                try:
                    from torch.utils.data._utils.worker import WorkerInfo
                    _tls.worker_info = WorkerInfo(id=args[10], num_workers=args[11], seed=args[8] + args[10], dataset=args[1])
                except Exception:
                    pass
            target(*args, **kwargs)

        self.vt = s.spawn(self.name, run, domain=dom, is_proc=True)
        self.vt.pid = self.pid
        s.ev("pstart", self.name)
        s.switch()

    def is_alive(self):
        return self.vt is not None and self.vt.state != "done"

    @property
    def exitcode(self):
        return None if self.vt is None or self.vt.state != "done" else self.vt.exitcode

    def join(self, timeout=None):
        assert self.vt is not None, "can only join a started process"
        self.s.switch(lambda: self.vt.state == "done", timeout)

    def terminate(self):
        self._terminated = True
        if self.vt is not None and self.vt.state != "done":
            self.s.ev("terminate", self.name)
            self.s.kill(self.vt)

    kill = terminate

    def close(self):
        pass


def _walk_shared(obj, depth=0, out=None):
    """objects inside args that must be shared by identity with the child (virtual primitives)."""
    if out is None:
        out = []
    if isinstance(obj, (VQueue, VEvent, VSemaphore, VLock)):
        out.append(obj)
    elif isinstance(obj, (tuple, list)) and depth < 4:
        for x in obj:
            _walk_shared(x, depth + 1, out)
    elif isinstance(obj, dict) and depth < 4:
        for x in obj.values():
            _walk_shared(x, depth + 1, out)
    return out


def _short(item):
    try:
        r = repr(item)
    except Exception:
        r = "<?>"
    return r[:80]


for _cls in (VQueue, VEvent, VSemaphore, VBoundedSemaphore, VLock):
    # shared by identity across virtual processes
    _cls.__deepcopy__ = lambda self, memo: self  # type: ignore


# ---------------------------------------------------------------------------------------------
# module shims


class _VTime(types.ModuleType):
    def __init__(self):
        super().__init__("vtime")

    def time(self):
        return S().clock if CUR is not None and not CUR.closed else _rtime.time()

    monotonic = time
    perf_counter = time

    def sleep(self, d):
        if CUR is None or CUR.closed:
            return
        S().switch(lambda: False, d)


class _VThreading(types.ModuleType):
    def __init__(self):
        super().__init__("vthreading")
        self.Thread = VThread
        self.Event = VEvent
        self.Semaphore = VSemaphore
        self.BoundedSemaphore = VBoundedSemaphore
        self.Lock = VLock
        self.RLock = VLock
        self.current_thread = _rt.current_thread
        self.get_ident = _rt.get_ident
        self.local = _rt.local


class _VQueueMod(types.ModuleType):
    def __init__(self):
        super().__init__("vqueue")
        self.Queue = VQueue
        self.Empty = _rq.Empty
        self.Full = _rq.Full


class VCtx(_mpc.BaseContext):
    """Virtual multiprocessing context; passes torch's isinstance(BaseContext) check."""

    _name = "virtual"
    fail_start_at = None  # class-level defaults: subclasses with their own __init__ need not know about them
    n_started = 0

    def __init__(self, fail_start_at=None):
        super().__init__()
        # the `fail_start_at`-th Process.start() of this context raises (fork/spawn can fail: EAGAIN, ENOMEM, pickling)
        self.fail_start_at = fail_start_at
        self.n_started = 0

    def Queue(self, maxsize=0):
        return VQueue(maxsize, mp=True)

    def SimpleQueue(self):
        return VQueue(0, mp=True)

    def Event(self):
        return VEvent()

    def Process(self, *a, **k):
        p = VProcess(*a, **k)
        if self.fail_start_at is not None:
            ctx, real_start = self, p.start

            def start():
                i = ctx.n_started
                ctx.n_started += 1
                if i == ctx.fail_start_at:
                    raise OSError("planned failure of Process.start()")
                return real_start()

            p.start = start
        return p

    def get_context(self, method=None):
        return self


class _VMp(types.ModuleType):
    def __init__(self):
        super().__init__("vmp")
        self._ctx = VCtx()
        self.Queue = self._ctx.Queue
        self.Event = self._ctx.Event
        self.Process = self._ctx.Process

    def get_context(self, method=None):
        return self._ctx


vtime, vthreading, vqueue, vmp = _VTime(), _VThreading(), _VQueueMod(), _VMp()

_NODE_MODULES = ["torchdata.nodes.map", "torchdata.nodes._populate_queue", "torchdata.nodes._apply_udf",
                 "torchdata.nodes.snapshot_store", "torchdata.nodes.pin_memory"]
_installed: Dict[str, Dict[str, Any]] = {}


def install_nodes():
    """Replace threading/queue/time/mp names inside the torchdata.nodes modules (this process only)."""
    import importlib
    for mn in _NODE_MODULES:
        try:
            m = importlib.import_module(mn)
        except Exception:
            continue
        if mn in _installed:
            continue
        saved = {}
        for attr, shim in (("threading", vthreading), ("queue", vqueue), ("time", vtime), ("mp", vmp)):
            if hasattr(m, attr):
                saved[attr] = getattr(m, attr)
                setattr(m, attr, shim)
        _installed[mn] = saved


def uninstall_nodes():
    import importlib
    for mn, saved in list(_installed.items()):
        m = importlib.import_module(mn)
        for attr, val in saved.items():
            setattr(m, attr, val)
        del _installed[mn]


_wi_installed = False


def install_worker_info():
    """Make torch's per-process `_worker_info` global per virtual process (thread-local)."""
    global _wi_installed
    if _wi_installed:
        return
    import torch.utils.data
    import torch.utils.data._utils.worker as W
    import torch.utils.data.dataloader as DL

    class _M(types.ModuleType):
        @property
        def _worker_info(self):
            return getattr(_tls, "worker_info", None)

        @_worker_info.setter
        def _worker_info(self, v):
            _tls.worker_info = v

    W.__dict__.pop("_worker_info", None)
    W.__class__ = _M

    def get_worker_info():
        return getattr(_tls, "worker_info", None)

    W.get_worker_info = get_worker_info
    torch.utils.data.get_worker_info = get_worker_info
    DL.get_worker_info = get_worker_info
    try:
        import torch.utils.data._utils as U
        U.worker.get_worker_info = get_worker_info
    except Exception:
        pass
    try:
        import torchdata.stateful_dataloader.stateful_dataloader as SDLM
        SDLM.get_worker_info = get_worker_info
        import torchdata.stateful_dataloader as SD
        if hasattr(SD, "get_worker_info"):
            SD.get_worker_info = get_worker_info
    except Exception:
        pass
    _wi_installed = True


def get_worker_info():
    return getattr(_tls, "worker_info", None)


class Session:
    """`with Session(seed, ...) as s:` runs one case under a fresh scheduler."""

    def __init__(self, seed=0, **kw):
        self.seed, self.kw = seed, kw
        self.s: Optional[Sched] = None

    def __enter__(self) -> Sched:
        global CUR
        import gc
        install_nodes()
        install_worker_info()
        # Cyclic garbage collection is switched off inside a session: a collection at an arbitrary allocation
        # would run `__del__` (= shutdown of an abandoned iterator, with switch points) at a schedule-dependent
        # moment and make runs irreproducible.  Harness code calls gc.collect() at explicit points instead.
        self._gc_was = gc.isenabled()
        gc.collect()
        gc.disable()
        self.s = Sched(self.seed, **self.kw)
        CUR = self.s
        return self.s

    def __exit__(self, et, ev, tb):
        if et is not None and self.s is not None and self.s.logging:
            import sys as _s
            print("LAST EVENTS", self.s.events[-40:], file=_s.stderr)
            print("ALIVE", [(v.name, v.state) for v in self.s.vts if v.state != "done"], file=_s.stderr)
        global CUR
        import gc
        try:
            try:
                gc.collect()  # finalise abandoned iterators while their virtual threads can still be scheduled
            except BaseException:
                pass
            self.s.close()
        finally:
            CUR = None
            if self._gc_was:
                gc.enable()
        return False
