"""K-D leg for the reference-level model `TDV.Alias` (Lean: Model/Alias.lean, Props/C08.lean).

For every site where a mutable bookkeeping object sits behind `state_dict()` / `reset(initial_state)`:

  weighted   MultiNodeWeightedSampler._datasets_exhausted      <->  sd["datasets_exhausted"]
  unbatcher  Unbatcher._cached_state_dict                      <->  sd["source"]
  prefetch   Prefetcher._it._snapshot (_SingleThreadedMapper)  <->  sd["snapshot"]  (threads under the virtual scheduler)
  sdl_sp     StatefulDataLoader(num_workers=0): the dataset's live, in-place mutated state (user dataset returning its
             own list from state_dict(), copying on load)          <->  sd["dataset_state"]["buf"]
  pmapper    ParallelMapper._it._snapshot (_ParallelMapperIter, thread workers) <-> sd[...]["snapshot"]

a random history of next / reset() / state_dict() / reset(dict the user holds) / deepcopy-of-a-held-dict is run on the
REAL object.  After every operation the harness observes object identities (`is`) and canonical contents and
  1. maps every live update to the model's `rebind` (the field points to another object afterwards) or `step` (same
     object, other content) and infers the site's policy (copyOut: is the returned sub-object the live one?  copyIn: is the live object the loaded
     one?  inPlace: did the content of the live object change while its identity stayed?) — a harmless rewrite that moves a
     site to another SAFE policy is therefore not an alarm;
  2. runs the Lean model with that policy on the same history and compares, step by step, the live content, which held
     dicts ARE the live object, the content of every held dict and the `intact` flag;
  3. asks the model whether the policy is `Safe` (theorem `immutable_of_safe`); when it is not, theorem `unsafe_mutates`
     names the history that alters a held dict ([get, step] / [new, load, step]) and the harness runs exactly that on the
     real object: a changed dict is a concrete failing input (ctx.fail), otherwise the broken correspondence is reported.
The whole-dict image of every held dict is compared too (the property itself) so that any other sub-object that changes
is a failing input as well.
"""
from __future__ import annotations

import copy
import json
import random
from typing import Any, Dict, List, Optional, Tuple

from ..core import Ctx
from ..leanbridge import Driver
from . import sdl_ko

LEG = "kd_alias"
THEOREMS = [
    "TDV.Alias.immutable_of_safe",
    "TDV.Alias.unsafe_mutates",
    "TDV.Alias.immutable_iff_safe",
    "TDV.Alias.load_same_continuation",
    "TDV.Alias.get_transparent",
    "TDV.Alias.get_returns_content",
]
LEAN_MODULES = ["TorchDataVerif.Props.C08"]
SITES = ["weighted", "unbatcher", "prefetch", "pmapper", "sdl_sp"]


class _SDLAdapter:
    """StatefulDataLoader (num_workers=0) over a dataset whose state_dict() returns its LIVE, in-place mutated bookkeeping
    (harness.sdl.IterDsState(inplace=True)) behind the node interface used by run_real: reset() = a new iter(),
    reset(sd) = load_state_dict(sd) + iter()."""

    def __init__(self, case):
        from .. import sdl
        self.loader = sdl.build({"kind": "iter_inplace", "sizes": [case["n"]], "W": 0, "bs": case["bsz"],
                                 "interval": case["freq"]})
        self.ds = self.loader.dataset
        self.it = None

    def reset(self, sd=None):
        if sd is not None:
            self.loader.load_state_dict(sd)
        self.it = iter(self.loader)

    def __next__(self):
        return next(self.it)

    def state_dict(self):
        return self.loader.state_dict()


def canon(x) -> str:
    return json.dumps(sdl_ko.canon_sd(x), sort_keys=True, default=repr)


# ------------------------------------------------------------------------------------------------ sites


def build_site(case) -> Tuple[Any, Any, Any]:
    """-> (node, field(node) -> live object, of_dict(sd) -> the sub-object of a state dict)"""
    from torchdata.nodes import Batcher, IterableWrapper, MultiNodeWeightedSampler, ParallelMapper, Prefetcher, Unbatcher
    from torchdata.nodes.samplers.stop_criteria import StopCriteria
    site = case["site"]
    if site == "sdl_sp":
        return _SDLAdapter(case), (lambda a: a.ds.buf), (lambda sd: sd["dataset_state"]["buf"])
    if site == "weighted":
        lens = case["lens"]
        crit = getattr(StopCriteria, case["crit"])
        srcs = {f"d{k}": IterableWrapper([100 * k + i for i in range(n)]) for k, n in enumerate(lens)}
        node = MultiNodeWeightedSampler(srcs, {f"d{k}": float(k + 1) for k in range(len(lens))}, stop_criteria=crit,
                                        seed=case["seed"], rank=0, world_size=1)
        return node, (lambda n: n._datasets_exhausted), (lambda sd: sd["datasets_exhausted"])
    src = IterableWrapper(list(range(case["n"])))
    if site == "unbatcher":
        node = Unbatcher(Batcher(src, case["bs"], drop_last=False))
        return node, (lambda n: n._cached_state_dict), (lambda sd: sd["source"])
    if site == "prefetch":
        node = Prefetcher(src, prefetch_factor=case["pf"], snapshot_frequency=case["freq"])
        return node, (lambda n: n._it._snapshot), (lambda sd: sd["snapshot"])
    if site == "pmapper":
        node = ParallelMapper(src, _double, num_workers=case["nw"], method="thread", in_order=True,
                              snapshot_frequency=case["freq"])
        return node, (lambda n: n._it._it._snapshot), (lambda sd: sd[ParallelMapper.IT_STATE_KEY]["snapshot"])
    raise ValueError(site)


def _double(x):
    return 2 * x


def gen_case(rng: random.Random, i: int) -> Dict[str, Any]:
    site = SITES[i % len(SITES)]
    case: Dict[str, Any] = {"site": site, "sseed": rng.randrange(1 << 30)}
    if site == "weighted":
        case["lens"] = [rng.randrange(1, 5) for _ in range(rng.randrange(2, 4))]
        case["crit"] = rng.choice(["ALL_DATASETS_EXHAUSTED", "FIRST_DATASET_EXHAUSTED", "CYCLE_UNTIL_ALL_DATASETS_EXHAUSTED"])
        case["seed"] = rng.randrange(100)
    else:
        case["n"] = rng.randrange(3, 12)
        case["bs"] = rng.randrange(1, 4)
        case["pf"] = rng.randrange(1, 4)
        case["nw"] = rng.randrange(1, 3)
        case["freq"] = rng.randrange(1, 4)
        case["bsz"] = rng.choice([None, 1, 2, 3])
    ops: List[List[Any]] = []
    held = 0
    for _ in range(rng.randrange(6, 22)):
        x = rng.random()
        if x < 0.45:
            ops.append(["next"])
        elif x < 0.5:
            ops.append(["reset"])
        elif x < 0.75 or held == 0:
            ops.append(["get"])
            held += 1
        elif x < 0.93:
            ops.append(["load", rng.randrange(held)])
        else:
            ops.append(["new", rng.randrange(held)])
            held += 1
    case["ops"] = ops
    return case


# ------------------------------------------------------------------------------------------------ the real side


class _Codes:
    def __init__(self):
        self.t: Dict[str, int] = {}

    def __call__(self, obj) -> int:
        return self.t.setdefault(canon(obj), len(self.t) + 1)


def run_real(case) -> Dict[str, Any]:
    """Runs the history on the real object (threads of the threaded sites are virtual: harness.vsched, one schedule per
    case seed). Returns the model ops (with contents from the real run), the observed policy bits and the per-operation
    observations."""
    from .. import vsched
    with vsched.Session(case.get("sseed", 0)) as s:
        return _run_real(case, s)


def _run_real(case, s) -> Dict[str, Any]:
    node, field, of_dict = build_site(case)
    s.begin_op()
    code = _Codes()
    node.reset()
    keep = [field(node)]            # every object the field ever pointed to stays alive: identities are never reused
    held: List[Any] = []            # the dicts the user holds (whole state dicts)
    images: List[str] = []          # their canonical whole-dict images at hand-over
    v0 = code(field(node))
    mops: List[Dict[str, Any]] = []
    marks: List[int] = []           # index of the last model op of each real op (-1: none so far)
    obs: List[Dict[str, Any]] = []
    pol = {"copyOut": [], "copyIn": [], "inPlace": []}
    outcomes: List[str] = []
    for op in case["ops"]:
        s.begin_op()
        before = field(node)
        before_c = code(before)
        if op[0] in ("next", "reset"):
            try:
                if op[0] == "next":
                    next(node)
                    outcomes.append("item")
                else:
                    node.reset()
                    outcomes.append("reset")
            except StopIteration:
                outcomes.append("stop")
            after = field(node)
            if after is not before:
                mops.append({"op": "rebind", "v": code(after)})
                pol["inPlace"].append(False)
            elif code(after) != before_c:
                mops.append({"op": "step", "v": code(after)})
                pol["inPlace"].append(True)
        elif op[0] == "get":
            sd = node.state_dict()
            after = field(node)
            if after is not before:     # lazily materialised bookkeeping (Unbatcher): a rebinding update, then the get
                mops.append({"op": "rebind", "v": code(after)})
                pol["inPlace"].append(False)
            elif code(after) != before_c:
                mops.append({"op": "step", "v": code(after)})
                pol["inPlace"].append(True)
            held.append(sd)
            images.append(canon(sd))
            pol["copyOut"].append(of_dict(sd) is not after)
            mops.append({"op": "get"})
            outcomes.append("get")
        elif op[0] == "load":
            sd = held[op[1]]
            node.reset(sd)
            after = field(node)
            pol["copyIn"].append(after is not of_dict(sd))
            mops.append({"op": "load", "h": op[1]})
            outcomes.append("load")
        elif op[0] == "new":
            sd = copy.deepcopy(held[op[1]])
            held.append(sd)
            images.append(canon(sd))
            mops.append({"op": "new", "v": code(of_dict(sd))})
            outcomes.append("new")
        live = field(node)
        keep.append(live)
        marks.append(len(mops) - 1)
        obs.append({"content": code(live), "alias": [of_dict(d) is live for d in held],
                    "user": [code(of_dict(d)) for d in held],
                    "whole_intact": [canon(d) == im for d, im in zip(held, images)]})
    return {"v0": v0, "mops": mops, "marks": marks, "obs": obs, "pol": pol, "outcomes": outcomes}


def infer_policy(pol) -> Tuple[Dict[str, bool], List[str]]:
    """A copy bit is true only when EVERY observation copied, inPlace when ANY update was in place (the unsafe direction);
    bits never observed default to the safe side and are reported."""
    mixed = [k for k, v in pol.items() if len(set(v)) > 1]
    p = {"copyOut": all(pol["copyOut"]) if pol["copyOut"] else True,
         "copyIn": all(pol["copyIn"]) if pol["copyIn"] else True,
         "inPlace": any(pol["inPlace"])}
    return p, mixed


def request_for(case, real) -> Dict[str, Any]:
    p, _ = infer_policy(real["pol"])
    return {"m": "alias", "v0": real["v0"], "ops": real["mops"], **p}


def compare(case, real, ans) -> Optional[str]:
    if "error" in ans:
        return "driver: " + str(ans["error"])
    steps = ans["steps"]
    for i, (m, o) in enumerate(zip(real["marks"], real["obs"])):
        if m < 0:
            continue
        st = steps[m]
        for k in ("content", "alias", "user"):
            if st[k] != o[k]:
                return (f"after op #{i} {case['ops'][i]}: model {k}={st[k]} but the real object shows {k}={o[k]} "
                        f"(policy {infer_policy(real['pol'])[0]})")
        if st["intact"] != all(a == b for a, b in zip(o["user"], _images(real, i))):
            return f"after op #{i}: model intact={st['intact']} disagrees with the held dicts of the real object"
    return None


def _images(real, i) -> List[int]:
    """content code of every held dict at its hand-over = the code it had in the first observation it appears in"""
    out: List[int] = []
    for j in range(i + 1):
        u = real["obs"][j]["user"]
        while len(out) < len(u):
            out.append(u[len(out)])
    return out[:len(real["obs"][i]["user"])]


def witness_history(p: Dict[str, bool]) -> Optional[List[List[Any]]]:
    """the history of theorem `unsafe_mutates` for an unsafe policy, in real operations (the live update is whatever the
    next next() calls do, so several of them)"""
    if not p["inPlace"]:
        return None
    if not p["copyOut"]:
        return [["get"]] + [["next"]] * 12
    if not p["copyIn"]:
        return [["get"], ["new", 0], ["load", 1]] + [["next"]] * 12
    return None


def _real(sub: Ctx, case):
    return run_real(case)


def check_one(ctx: Ctx, case, real, ans):
    p, mixed = infer_policy(real["pol"])
    ctx.count("alias_site:" + case["site"])
    ctx.count("alias_policy:%s:%s" % (case["site"], "".join(k[4] if k != "inPlace" else "P" for k, v in p.items() if v) or "-"))
    for o in real["outcomes"]:
        ctx.count("alias_op:" + o)
    shared = any(any(o["alias"]) for o in real["obs"])
    if shared:
        ctx.count("alias_history_with_shared_object")
    ctx.case(LEG, [case["site"], {k: v for k, v in case.items() if k != "site"}], shared or p["inPlace"])
    # the property itself on this history
    for i, o in enumerate(real["obs"]):
        if not all(o["whole_intact"]):
            h = o["whole_intact"].index(False)
            ctx.fail("C08:alias_altered", case, f"{case['site']}: the state dict #{h} the user holds was altered by op #{i} {case['ops'][i]}")
            return
    if mixed:
        ctx.count("alias_mixed_policy_bits:" + ",".join(mixed))
    d = compare(case, real, ans)
    if d is None and not ans.get("safe", False):
        # unsafe policy: theorem unsafe_mutates gives the history; run it on the real object
        wh = witness_history(p)
        wcase = dict(case, ops=wh)
        wreal = run_real(wcase)
        for i, o in enumerate(wreal["obs"]):
            if not all(o["whole_intact"]):
                ctx.fail("C08:alias_altered", wcase, f"{case['site']}: follows the unsafe policy {p}; on the history of TDV.Alias.unsafe_mutates "
                         f"the held state dict #{o['whole_intact'].index(False)} was altered by op #{i}")
                return
        d = f"{case['site']} follows the policy {p}, which is not Safe (TDV.Alias.immutable_of_safe does not apply)"
    if d is not None:
        ctx.diverge(LEG, case, d)


def run_kd(ctx: Ctx, nq: int = 120, nt: int = 2000):
    import torch
    torch.set_num_threads(1)
    n = ctx.n(nq, nt)
    cases = [gen_case(ctx.rng, i) for i in range(n)]
    ctx.sample({"part": LEG, "case": cases[0]})
    reals = ctx.pmap(_real, cases)
    pairs = [(c, r) for c, r in zip(cases, reals) if r is not None]
    answers = Driver().run([request_for(c, r) for c, r in pairs])
    for (case, real), ans in zip(pairs, answers):
        check_one(ctx, case, real, ans)
    ctx.model_lines += len(pairs)


def replay_kd(ctx: Ctx, payload) -> Tuple[bool, str]:
    case = payload["input"] if "input" in payload else payload
    sub = Ctx(ctx.prop, ctx.tier, ctx.seed)
    real = run_real(case)
    ans = Driver().run([request_for(case, real)])[0]
    check_one(sub, case, real, ans)
    if sub.failures:
        return False, sub.failures[0].what
    if sub.divergences:
        return False, sub.divergences[0].detail
    return True, "model and implementation agree; every held dict intact"
