"""C13 — iter(), state_dict() and load_state_dict() compose as documented in any order.

Legs
  kd_loader   K-D: random API histories on the real `torchdata.nodes.Loader` vs the Lean model `TDV.Loader`
              (Main/loader.lean, facade "loader").
  kd_sdl      K-D: the same for the `StatefulDataLoader` facade vs `TDV.SDLApi` (facade "sdl"); the number of
              iterator constructions is compared too (harness-side subclass counting `_get_iterator`).
  ko_loader   K-O: the real Loader against an independent list-based reference written from the property text.
  ko_sdl      K-O: the real StatefulDataLoader against the same reference (load drops the current iterator).
  ko_peek     K-O (C08 part proved here): removing every discarded state_dict() call ("peek") from a history
              leaves all other observations of the real code unchanged.

A history is an explicit JSON-able script:
  {"facade": "loader", "root": {"kind": "list", "items": [...]} | {"kind": "sampler", "n": k}, "restart": bool, "ops": OPS}
  {"facade": "sdl", "factory": "nw0", "ds": {"kind": "map" | "iter", "n": k}, "bs": 1 | 2, "ops": OPS}
  OPS: ["iter"] | ["next", j] | ["exhaust"] | ["sd"] | ["peek"] | ["load", token index] | ["abandon"] | ["fresh"]
`peek` is state_dict() whose result is thrown away.
`fresh` replaces the loader by a newly built identical one (tokens survive): "load into a fresh loader".
Observations, one per op: "ok" | ["items", [...], stopped] | ["tok", id] | "nohandle" | ["error", kind].
"""
from __future__ import annotations

import logging
import warnings
from typing import Any, Callable, Dict, List, Optional, Tuple

from ..core import Ctx, Failure
from ..leanbridge import Driver

THEOREMS = [
    "TDV.Loader.refines_ref",
    "TDV.Loader.refines_ref_statement_false",
    "TDV.Loader.refines_ref_partial",
    "TDV.Loader.refines_ref_partial_for_loops",
    "TDV.Loader.epoch_counter",
    "TDV.Loader.resume_exact",
    "TDV.Loader.resume_exact_obs",
    "TDV.Loader.resume_exact_end",
    "TDV.Loader.get_transparent",
    "TDV.Loader.load_idempotent",
    "TDV.SDLApi.refines_ref",
    "TDV.SDLApi.refines_ref_statement_false",
    "TDV.SDLApi.refines_ref_partial",
    "TDV.SDLApi.state_dict_before_iter_single_start",
]
LEAN_MODULES = ["TorchDataVerif.Props.C13"]
RULE = ("API histories (length <= 14) are generated from one PRNG over {iter, next x j, exhaust, state_dict, discarded state_dict, "
        "load_state_dict(any earlier token), abandon, fresh object}; roots: IterableWrapper over lists of length 0..5 with "
        "None/0/[] items, SamplerWrapper over a set_epoch sampler whose items encode the epoch; StatefulDataLoader with "
        "num_workers=0 over map/iterable datasets of length 0..5, batch_size 1/2. A history is non-trivial when it contains "
        "a load_state_dict that is later applied by an iter()/state_dict() and at least one item request after it, or a "
        "state_dict() before the first iter(); distinct by the canonical form of the whole history.")
EXPLANATION = ("Lean: the flag-based Loader / StatefulDataLoader facades refine a list-based reference for every op sequence "
               "(TDV.Loader.refines_ref, TDV.SDLApi.refines_ref; the reference's one open choice each is the code's, the strict "
               "readings are refuted on decided witnesses = known findings F1/F2 and proved on the histories where the choice is "
               "invisible), resume is a bisimulation (resume_exact*), extra state_dict() calls are "
               "transparent (get_transparent, full strength since the F3 repair), loading is repeatable (load_idempotent). Tie: the same random "
               "histories through the real classes and the Lean models, and the Lean reference against the Python reference; "
               "oracle: the real classes against an independent Python reference written from the property text.")
ASSUMPTIONS = [
    "the root node is Lawful (property C02/C04, proved separately for every pipeline) and delivers `epochs e` after a plain reset",
    "the StatefulDataLoader iterator is an epoch stream with exact state/load (property C01); only the facade is modelled",
    "multi-worker StatefulDataLoader factories are plugged in through `sdl_factories` (virtual scheduler), not run here",
    "equivalence theorems (resume_exact, get_transparent, load_idempotent) assume the root raises nothing but StopIteration "
    "(NoError) and cover an iter() that starts a new epoch only after a next() since the last (re)start (NodeCore's ghost bit)",
    "the iterable-style dataset of the StatefulDataLoader leg has a Stateful iterator (no fast-forward: that path is C01's)",
]

LIMIT = 40  # more items than any epoch of any generated source has


# ------------------------------------------------------------------------------------------------
# sources


def epoch_items(root: Dict[str, Any], e: int) -> List[Any]:
    """The item list of epoch `e` of a nodes root description (what the property calls the epoch's list)."""
    if root["kind"] == "list":
        return list(root["items"])
    return [100 * e + i for i in range(root["n"])]


def sdl_items(hist: Dict[str, Any]) -> List[Any]:
    n, bs = hist["ds"]["n"], hist["bs"]
    return [list(range(i, min(i + bs, n))) for i in range(0, n, bs)]


class EpochSampler:
    """A sampler with set_epoch; the items encode the epoch they were drawn in."""

    def __init__(self, n: int):
        self.n = n
        self.epoch = 0
        self.seen: List[int] = []

    def set_epoch(self, e: int):
        self.epoch = e
        self.seen.append(e)

    def __iter__(self):
        return iter([100 * self.epoch + i for i in range(self.n)])

    def __len__(self):
        return self.n


def make_root(root: Dict[str, Any]):
    from torchdata.nodes import IterableWrapper, SamplerWrapper
    if root["kind"] == "list":
        return IterableWrapper(list(root["items"]))
    return SamplerWrapper(EpochSampler(root["n"]))


_sdl_classes: Dict[str, Any] = {}


def _sdl_cls():
    """Dataset / loader classes, defined once (new classes per call defeat the abc caches of isinstance)."""
    if _sdl_classes:
        return _sdl_classes
    import torch
    from torchdata.stateful_dataloader import StatefulDataLoader

    class MapDS(torch.utils.data.Dataset):
        def __init__(self, n):
            self.n = n

        def __len__(self):
            return self.n

        def __getitem__(self, i):
            return i

    class StatefulIt:
        """Stateful iterator of the iterable dataset, so that a resume restores the position exactly
        instead of fast-forwarding (exactness of the iterator is property C01, not this one); one object
        per iter(dataset), so abandoned iterators share nothing with later ones."""

        def __init__(self, n):
            self.n = n
            self.i = 0

        def __iter__(self):
            return self

        def __next__(self):
            if self.i >= self.n:
                raise StopIteration
            self.i += 1
            return self.i - 1

        def state_dict(self):
            return {"i": self.i}

        def load_state_dict(self, sd):
            self.i = sd["i"]

    class IterDS(torch.utils.data.IterableDataset):
        def __init__(self, n):
            self.n = n

        def __iter__(self):
            return StatefulIt(self.n)

    class Counting(StatefulDataLoader):
        created = 0

        def _get_iterator(self):
            self.created += 1
            return super()._get_iterator()

    _sdl_classes.update(MapDS=MapDS, IterDS=IterDS, Counting=Counting)
    return _sdl_classes


def make_sdl_nw0(hist: Dict[str, Any]):
    c = _sdl_cls()
    n = hist["ds"]["n"]
    ds = c["MapDS"](n) if hist["ds"]["kind"] == "map" else c["IterDS"](n)
    with warnings.catch_warnings():
        warnings.simplefilter("ignore")
        return c["Counting"](ds, batch_size=hist["bs"], num_workers=0)


# (name, factory(history) -> StatefulDataLoader-like object with an optional `created` counter).  Multi-worker
# factories running under the virtual scheduler are appended here by the owner of harness/vsched.py; a history
# may carry "persistent": true, which is passed on to the model (`persistent_workers`).
sdl_factories: List[Tuple[str, Callable[[Dict[str, Any]], Any]]] = [("nw0", make_sdl_nw0)]


def canon_item(v):
    try:
        import torch
        if isinstance(v, torch.Tensor):
            return v.tolist()
    except Exception:
        pass
    if isinstance(v, (list, tuple)):
        return [canon_item(x) for x in v]
    return v


# ------------------------------------------------------------------------------------------------
# the real code


DENOTE_CAP = 8


def _maker(hist: Dict[str, Any]):
    logging.getLogger("torchdata.stateful_dataloader.stateful_dataloader").setLevel(logging.ERROR)
    if hist["facade"] == "loader":
        from torchdata.nodes import Loader

        def mk():
            return Loader(make_root(hist["root"]), restart_on_stop_iteration=hist["restart"])
    else:
        fac = dict(sdl_factories)[hist.get("factory", "nw0")]

        def mk():
            return fac(hist)
    return mk


def denote_real(hist: Dict[str, Any], mk, token) -> List[Any]:
    """What a state dict denotes on the real code: loaded into a freshly built identical loader, the items of
    the first epoch (at most DENOTE_CAP), whether it ended, and for the epoch-dependent root the epoch the
    sampler was given.  Makes a wrong token visible at the moment it is taken."""
    try:
        ld = mk()
        ld.load_state_dict(token)
        it = iter(ld)
        epoch = ld.root.sampler.epoch if hist["facade"] == "loader" and hist["root"]["kind"] == "sampler" else None
        items, stopped = [], False
        for _ in range(DENOTE_CAP):
            try:
                items.append(canon_item(next(it)))
            except StopIteration:
                stopped = True
                break
        return [items, stopped, epoch]
    except Exception as e:
        return ["error", type(e).__name__]


def run_real(hist: Dict[str, Any], created: Optional[List[int]] = None) -> List[Any]:
    """Observations of the history on the real code. If `created` is a list it receives, per op, the number
    of `_get_iterator` calls of the current loader object (SDL; a K-D observable only)."""
    mk = _maker(hist)
    obj = mk()
    handle = None
    toks: List[Any] = []
    obs: List[Any] = []
    for op in hist["ops"]:
        try:
            if op[0] == "iter":
                handle = iter(obj)  # if it raises, the user keeps what he had
                obs.append("ok")
            elif op[0] in ("next", "exhaust"):
                if handle is None:
                    obs.append("nohandle")
                else:
                    items, stopped = [], False
                    for _ in range(op[1] if op[0] == "next" else LIMIT):
                        try:
                            items.append(canon_item(next(handle)))
                        except StopIteration:
                            stopped = True
                            break
                    obs.append(["items", items, stopped])
            elif op[0] == "sd":
                tok = obj.state_dict()
                toks.append(tok)
                obs.append(["tok", len(toks) - 1, denote_real(hist, mk, tok)])
            elif op[0] == "peek":
                tok = obj.state_dict()
                obs.append(["tok", len(toks), denote_real(hist, mk, tok)])
            elif op[0] == "load":
                obj.load_state_dict(toks[op[1]])
                obs.append("ok")
            elif op[0] == "abandon":
                handle = None
                obs.append("ok")
            elif op[0] == "fresh":
                handle = None
                obj = mk()
                obs.append("ok")
            else:
                raise ValueError(op)
        except Exception as e:  # any exception other than StopIteration: kind only
            obs.append(["error", type(e).__name__])
        if created is not None:
            created.append(getattr(obj, "created", 0))
    return obs


# ------------------------------------------------------------------------------------------------
# the reference, written from the property text (NOT from the implementation)


class _RefIter:
    """One requested iterator of the reference: epoch index, position in that epoch's list, and whether
    an item was requested from it."""

    def __init__(self, e: int, p: int):
        self.e, self.p, self.req = e, p, False


class Reference:
    """List-based reference loader.

    * each iter() starts a new full epoch unless a state was loaded since the last iter(), in which
      case it starts from that state;
    * state_dict() refers to the most recently requested iterator; if none exists it creates one (exactly
      as iter() would) which the next iter() reuses exactly once and which a load_state_dict invalidates;
    * a state taken after the last item resumes into the next epoch (restart=True) or an empty one;
    * the epoch index advances by exactly one per epoch in which at least one item was requested, and is
      the saved epoch after a resume.
    `drops`: load_state_dict drops the current iterator (StatefulDataLoader) or keeps it (nodes Loader).
    """

    def __init__(self, epochs: Callable[[int], List[Any]], restart: bool, drops: bool, show_epoch: bool = False):
        self.epochs, self.restart, self.drops, self.show_epoch = epochs, restart, drops, show_epoch
        self.toks: List[Tuple[int, int]] = []
        self.fresh()

    def fresh(self):
        self.cur: Optional[_RefIter] = None  # the most recently requested iterator, if it still exists
        self.last: Optional[_RefIter] = None  # the most recently started epoch (for the epoch index)
        self.pending: Optional[Tuple[int, int]] = None
        self.reuse = False
        self.handle: Optional[_RefIter] = None

    def _start(self):
        if self.pending is not None:
            e, p = self.pending
            self.pending = None
            if p >= len(self.epochs(e)) and self.restart:
                e, p = e + 1, 0
            it = _RefIter(e, p)
        elif self.last is None:
            it = _RefIter(0, 0)
        else:
            it = _RefIter(self.last.e + (1 if self.last.req else 0), 0)
        self.cur = self.last = it

    def iter(self):
        if self.reuse and self.cur is not None:
            self.reuse = False
        else:
            self._start()
        self.handle = self.cur

    def take(self, j: int):
        if self.handle is None:
            return "nohandle"
        h, items, stopped = self.handle, [], False
        for _ in range(j):
            h.req = True
            lst = self.epochs(h.e)
            if h.p < len(lst):
                items.append(lst[h.p])
                h.p += 1
            else:
                stopped = True
                break
        return ["items", items, stopped]

    def denote(self, i: int) -> List[Any]:
        """What token i stands for: the rest of its epoch, or the next epoch if it was taken after the last
        item (restart), as the items a loader resumed from it delivers first."""
        e, p = self.toks[i]
        if p >= len(self.epochs(e)) and self.restart:
            e, p = e + 1, 0
        rest = self.epochs(e)[p:]
        return [rest[:DENOTE_CAP], len(rest) < DENOTE_CAP, e if self.show_epoch else None]

    def state_dict(self):
        if self.cur is None:
            self._start()
            self.reuse = True
        self.toks.append((self.cur.e, self.cur.p))
        return ["tok", len(self.toks) - 1, self.denote(len(self.toks) - 1)]

    def peek(self):
        r = self.state_dict()
        self.toks.pop()
        return r

    def load(self, i: int):
        self.pending = self.toks[i]
        if self.drops or self.reuse:  # an iterator created only by state_dict() is invalidated: it is gone
            self.cur = None
        self.reuse = False


def run_reference(hist: Dict[str, Any]) -> List[Any]:
    return _drive_reference(_make_reference(hist), hist)


def _make_reference(hist):
    if hist["facade"] == "loader":
        return Reference(lambda e: epoch_items(hist["root"], e), hist["restart"], drops=False,
                         show_epoch=hist["root"]["kind"] == "sampler")
    items = sdl_items(hist)
    return Reference(lambda e: items, True, drops=True)


# ------------------------------------------------------------------------------------------------
# generator


ITEM_POOL = [None, 0, 1, 2, 3, 4, [], [0], [None, 1]]


def gen_ops(rng, maxlen: int = 14) -> List[List[Any]]:
    ops: List[List[Any]] = []
    ntok = 0
    n = rng.randrange(2, maxlen + 1)
    while len(ops) < n:
        r = rng.random()
        if r < 0.20:
            ops.append(["iter"])
        elif r < 0.42:
            ops.append(["next", rng.randrange(1, 4)])
        elif r < 0.54:
            ops.append(["exhaust"])
        elif r < 0.66:
            ops.append(["sd"])
            ntok += 1
        elif r < 0.72:
            ops.append(["peek"])
        elif r < 0.90:
            if ntok:
                ops.append(["load", rng.randrange(ntok)])
        elif r < 0.94:
            ops.append(["abandon"])
        else:
            ops.append(["fresh"])
    return ops


def gen_loader_history(rng) -> Dict[str, Any]:
    if rng.random() < 0.5:
        root = {"kind": "list", "items": [rng.choice(ITEM_POOL) for _ in range(rng.randrange(0, 6))]}
    else:
        root = {"kind": "sampler", "n": rng.randrange(0, 6)}
    return {"facade": "loader", "root": root, "restart": rng.random() < 0.6, "ops": gen_ops(rng)}


def gen_sdl_history(rng) -> Dict[str, Any]:
    return {"facade": "sdl", "factory": rng.choice([name for name, _ in sdl_factories]), "ds": {"kind": rng.choice(["map", "iter"]), "n": rng.randrange(0, 6)},
            "bs": rng.choice([1, 2]), "ops": gen_ops(rng)}


def nontrivial(hist: Dict[str, Any]) -> bool:
    ops = hist["ops"]
    seen_iter = False
    for i, op in enumerate(ops):
        if op[0] in ("sd", "peek") and not seen_iter:
            return True
        if op[0] == "iter":
            seen_iter = True
        if op[0] == "load":
            rest = ops[i + 1:]
            k = next((j for j, o in enumerate(rest) if o[0] in ("iter", "sd", "peek")), None)
            if k is not None and any(o[0] in ("next", "exhaust") for o in rest[k + 1:]):
                return True
    return False


def first_diff(a: List[Any], b: List[Any]) -> Optional[int]:
    for i, (x, y) in enumerate(zip(a, b)):
        if x != y:
            return i
    return None if len(a) == len(b) else min(len(a), len(b))


# ------------------------------------------------------------------------------------------------
# the Lean side


def lean_request(hist: Dict[str, Any], strict_ref: bool = True) -> Dict[str, Any]:
    """Model request. With strict_ref the Lean reference is run in the strict reading (the Python
    reference's): a resumed epoch does not count as requested; 'after the last item' is positional."""
    if hist["facade"] == "loader":
        req = {"m": "loader", "facade": "loader", "restart": hist["restart"], "root": hist["root"], "ops": hist["ops"]}
        if strict_ref:
            req["resumeReq"] = False
    else:
        req = {"m": "loader", "facade": "sdl", "persistent": bool(hist.get("persistent", False)), "items": sdl_items(hist),
               "ops": hist["ops"]}
        if strict_ref:
            req["endByStop"] = False
    return req


# ------------------------------------------------------------------------------------------------
# known-finding regions (classifiers receive a Failure)


def _liberal_loader_obs(hist):
    """The reference with the other reading of the one point the text leaves open: a resumed epoch that
    still has an item counts as requested (what the look-ahead of Loader.__iter__ amounts to)."""

    class Q(Reference):
        def _start(self):
            had = self.pending
            super()._start()
            if had is not None and self.restart and had[1] < len(self.epochs(had[0])):
                self.cur.req = True

    ref = Q(lambda e: epoch_items(hist["root"], e), hist["restart"], drops=False,
            show_epoch=hist["root"]["kind"] == "sampler")
    return _drive_reference(ref, hist)


def _liberal_sdl_obs(hist):
    """'after the last item' read as 'after StopIteration was delivered'."""

    class Q(Reference):
        def __init__(self, *a, **k):
            super().__init__(*a, **k)
            self.stopped_toks: List[bool] = []

        def take(self, j):
            r = super().take(j)
            if isinstance(r, list) and r[2]:
                self.handle.stopped = True
            return r

        def denote(self, i):
            e, p = self.toks[i]
            if self.stopped_toks[i]:
                e, p = e + 1, 0
            rest = self.epochs(e)[p:]
            return [rest[:DENOTE_CAP], len(rest) < DENOTE_CAP, None]

        def state_dict(self):
            if self.cur is None:
                self._start()
                self.reuse = True
            self.stopped_toks.append(getattr(self.cur, "stopped", False))
            self.toks.append((self.cur.e, self.cur.p))
            return ["tok", len(self.toks) - 1, self.denote(len(self.toks) - 1)]

        def peek(self):
            r = self.state_dict()
            self.toks.pop()
            self.stopped_toks.pop()
            return r

        def load(self, i):
            super().load(i)
            self._pending_stopped = self.stopped_toks[i]

        def _start(self):
            if self.pending is not None:
                e, p = self.pending
                self.pending = None
                if getattr(self, "_pending_stopped", False):
                    it = _RefIter(e + 1, 0)
                else:
                    it = _RefIter(e, p)
                self.cur = self.last = it
            else:
                super()._start()

    items = sdl_items(hist)
    ref = Q(lambda e: items, True, drops=True)
    return _drive_reference(ref, hist)


def _drive_reference(ref: "Reference", hist) -> List[Any]:
    obs: List[Any] = []
    for op in hist["ops"]:
        if op[0] == "iter":
            ref.iter()
            obs.append("ok")
        elif op[0] == "next":
            obs.append(ref.take(op[1]))
        elif op[0] == "exhaust":
            obs.append(ref.take(LIMIT))
        elif op[0] == "sd":
            obs.append(ref.state_dict())
        elif op[0] == "peek":
            obs.append(ref.peek())
        elif op[0] == "load":
            ref.load(op[1])
            obs.append("ok")
        elif op[0] == "abandon":
            ref.handle = None
            obs.append("ok")
        elif op[0] == "fresh":
            ref.fresh()
            obs.append("ok")
    return obs


def is_lookahead_request(f: Failure) -> bool:
    """Loader(restart_on_stop_iteration=True): load; iter; iter moves an epoch-dependent root to the next
    epoch although nothing was requested since the resume."""
    h = f.inp
    return (f.kind == "api_history" and h.get("facade") == "loader" and h.get("restart") is True
            and run_real(h) == _liberal_loader_obs(h))


def is_sdl_end_before_stop(f: Failure) -> bool:
    """StatefulDataLoader: a state taken after the last batch but before StopIteration resumes into an
    empty epoch."""
    h = f.inp
    return f.kind == "api_history" and h.get("facade") == "sdl" and run_real(h) == _liberal_sdl_obs(h)


def erase_peeks(hist):
    return dict(hist, ops=[op for op in hist["ops"] if op[0] != "peek"])


def peek_transparent(hist, real=None) -> Tuple[bool, str]:
    """Real code: the observations other than those of the peeks are the same with and without the peeks."""
    with_p = [o for op, o in zip(hist["ops"], real if real is not None else run_real(hist)) if op[0] != "peek"]
    without = run_real(erase_peeks(hist))
    if with_p != without:
        k = first_diff(with_p, without)
        return False, f"non-peek op {k}: with the extra state_dict() calls {with_p[k:k + 2]}, without {without[k:k + 2]}"
    return True, "extra state_dict() calls change nothing"


KNOWN = {
    "lookahead-counts-as-request": is_lookahead_request,
    "sdl-end-before-stop": is_sdl_end_before_stop,
}


# ------------------------------------------------------------------------------------------------


def check_history(ctx: Ctx, hist: Dict[str, Any], reqs: List[Any], metas: List[Any]):
    fac = hist["facade"]
    made: Optional[List[int]] = [] if fac == "sdl" else None
    real = run_real(hist, made)
    ref = run_reference(hist)
    nt = nontrivial(hist)
    ctx.case("ko_" + fac, hist, nt)
    for op in hist["ops"]:
        ctx.count(f"{fac}:op:{op[0]}")
    if fac == "loader":
        ctx.count(f"loader:root:{hist['root']['kind']}:restart={hist['restart']}")
    else:
        ctx.count(f"sdl:ds:{hist['ds']['kind']}:bs={hist['bs']}")
    if real != ref:
        k = first_diff(real, ref)
        ctx.fail("api_history", hist, f"op {k} {hist['ops'][k] if k < len(hist['ops']) else '?'}: real code gives {real[k:k + 2]} "
                 f"but the reference gives {ref[k:k + 2]}")
    if any(op[0] == "peek" for op in hist["ops"]):
        ok, msg = peek_transparent(hist, real)
        ctx.case("ko_peek", hist, any(op[0] in ("next", "exhaust") for op in hist["ops"]))
        if not ok:
            ctx.fail("peek_transparency", hist, msg)
    reqs.append(lean_request(hist))
    metas.append((hist, real, ref, made, nt))


def compare_with_model(ctx: Ctx, answers, metas):
    for ans, (hist, real, ref, made, nt) in zip(answers, metas):
        ctx.model_lines += 1
        fac = hist["facade"]
        if "error" in ans:
            ctx.diverge("kd_" + fac, hist, "model driver error: " + str(ans["error"]))
            continue
        ctx.case("kd_" + fac, hist, nt)
        if ans["obs"] != real:
            k = first_diff(ans["obs"], real)
            ctx.diverge("kd_" + fac, hist, f"op {k}: model {ans['obs'][k:k + 2]} real code {real[k:k + 2]}")
        elif made is not None and ans.get("made") != made:
            ctx.diverge("kd_sdl", hist, f"_get_iterator calls per op: model {ans.get('made')} real code {made}")
        if ans["ref"] != ref:
            k = first_diff(ans["ref"], ref)
            ctx.diverge("kd_ref_" + fac, hist, f"op {k}: Lean reference {ans['ref'][k:k + 2]} Python reference {ref[k:k + 2]}")


def run(ctx: Ctx):
    warnings.simplefilter("ignore")
    drv = Driver()
    reqs: List[Any] = []
    metas: List[Any] = []
    n = ctx.n(2500, 20000)
    for i in range(n):
        hist = gen_loader_history(ctx.rng)
        check_history(ctx, hist, reqs, metas)
        if i < 2:
            ctx.sample({"leg": "loader", "history": hist})
    for i in range(ctx.n(2000, 15000)):
        hist = gen_sdl_history(ctx.rng)
        check_history(ctx, hist, reqs, metas)
        if i < 2:
            ctx.sample({"leg": "sdl", "history": hist})
    answers = drv.run(reqs)
    compare_with_model(ctx, answers, metas)


def escalate(ctx: Ctx):
    run(ctx)


def replay(ctx: Ctx, payload) -> Tuple[bool, str]:
    kind, inp = payload["kind"], payload["input"]
    warnings.simplefilter("ignore")
    if kind in ("api_history", "loader_history"):
        real, ref = run_real(inp), run_reference(inp)
        if real != ref:
            k = first_diff(real, ref)
            return False, f"op {k} {inp['ops'][k] if k < len(inp['ops']) else '?'}: real code {real[k:k + 2]} reference {ref[k:k + 2]}"
        exp = inp.get("expect")
        if exp is not None and real != exp:
            k = first_diff(real, exp)
            return False, f"op {k}: real code {real[k:k + 2]} recorded expectation {exp[k:k + 2]}"
        return True, "real code equals the reference on this history"
    if kind == "peek_transparency":
        return peek_transparent(inp)
    return True, "unknown kind"


# ------------------------------------------------------------------------------------------------
from . import _compose, e2en_parts  # noqa: E402

_compose.extend(globals(), [
    _compose.theorem_part("e2en", e2en_parts.THEOREMS_BY_PROP.get("C13", []), e2en_parts.LEAN_MODULES),
])
