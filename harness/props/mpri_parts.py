"""Theorems contributed by lean Props/C01MPI.lean (namespace TDV.MPR, helper lemmas TDV.MPRI in Proofs/MPRI*.lean):
the iterable-dataset statements of Props/C01MP.lean that were open for snapshot intervals >= 1, now proved at full
strength (in_order=True, no failing fetch, every schedule, any number of workers retired inside the snapshot).

No Python leg of its own: the model is unchanged (Model/MP.lean + Model/MPRestore.lean), so the K-D leg of
harness/props/mpr_kd.py (real StatefulDataLoader vs `idealAt` / `restore`, every k, iterable kinds with retirement and
intervals) is the correspondence check for these theorems too.
"""
from __future__ import annotations

LEAN_MODULES = ["TorchDataVerif.Props.C01MPI"]
T = "TDV.MPR."
THEOREMS = [T + n for n in (
    "snapshot_sound_iter",   # every reachable state: stored snapshot = idealAt c (stepOf c n) (up to the sampler position)
    "restore_ideal_iter",    # restore(idealAt c m) behaves as the original after m yields; its own snapshots sound again
    "resume_exact_iter",     # state_dict after any k, restored under any schedule: consumer gets exactly drop k stream
    "chain_iter",            # checkpoint of a resumed iterator = checkpoint of the uninterrupted run (chains)
    "exIt_hyps",             # non-vacuity instance (uneven shards, retired worker inside the snapshot, interval 3)
)]
THEOREMS_BY_PROP = {"C01": list(THEOREMS)}
# statements of Props/C01MP.lean that these theorems discharge
CLOSES = {
    "TDV.MPR.snapshot_sound_iter_statement": "TDV.MPR.snapshot_sound_iter",
    "TDV.MPR.restore_ideal_iter_statement": "TDV.MPR.restore_ideal_iter",
    "TDV.MPR.resume_exact_iter_statement": "TDV.MPR.resume_exact_iter",
    "TDV.MPR.chain_iter_statement": "TDV.MPR.chain_iter",
}
