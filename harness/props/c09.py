"""C09 — see harness/props/sdl_ko.py (check_c09) for the oracle on the real StatefulDataLoader under the virtual
scheduler; the Lean theorems and the trace-validation leg are listed in THEOREMS / run()."""
from __future__ import annotations

from typing import Tuple

from ..core import Ctx
from . import sdl_ko

THEOREMS: list = []
LEAN_MODULES: list = []
RULE = ""
EXPLANATION = ""
ASSUMPTIONS = ["worker processes are virtual processes under harness/vsched.py (real _worker_loop, deep-copied arguments, pickled queue payloads)"]
KNOWN: dict = {}
NQ, NT = 150, 3000


def extra_legs(ctx: Ctx):
    pass


def run(ctx: Ctx):
    import torch
    torch.set_num_threads(1)
    jobs = sdl_ko.gen_c09(ctx, ctx.n(NQ, NT))
    for j in jobs[:2]:
        ctx.sample(j)
    ctx.pmap(sdl_ko.check_c09, jobs)
    extra_legs(ctx)


def escalate(ctx: Ctx):
    run(ctx)


def replay(ctx: Ctx, payload) -> Tuple[bool, str]:
    sub = Ctx(ctx.prop, ctx.tier, ctx.seed)
    sdl_ko.check_c09(sub, payload["input"])
    if sub.failures:
        return False, sub.failures[0].what
    return True, "property holds on this input"
