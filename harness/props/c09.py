"""C09 - oracle: harness/props/sdl_ko.py (check_c09) on the real StatefulDataLoader under the virtual scheduler;
theorems and correspondence legs come from the SP / MP model parts."""
from __future__ import annotations

from . import _compose, sdl_ko

RULE = "multi-worker configurations x victim worker x kill point (the victim's n-th switch point: start-up, idle wait, after get, mid-fetch, before/after put) x optional checkpoint before the death; outcome classes: prefix+error, complete epoch, never hang / early stop / wrong data. Non-trivial: the kill actually happened before the epoch ended; distinct by (configuration, victim, kill point)."
EXPLANATION = 'Lean: TDV.MP.kill_safe / kill_detected on the protocol model with kill actions. Tie: MP K-T leg. Oracle: virtual SIGKILL at enumerated switch points of the real _worker_loop. Partial: SIGCHLD delivery and queue corruption by a kill mid-write are OS behaviour the model cannot exhibit.'
ASSUMPTIONS = ["worker processes are virtual processes under harness/vsched.py (real _worker_loop, deep-copied arguments, pickled queue payloads)"]

PARTS = [_compose.ko_part("ko", sdl_ko.gen_c09, sdl_ko.check_c09, 200, 4000, known=None)]

def _real_slice(ctx):
    # real OS processes: thorough tier only (wall-clock bound, a few seconds per case)
    if ctx.tier != "thorough":
        return
    jobs = sdl_ko.gen_c09_real(ctx, 24)
    ctx.pmap(sdl_ko.check_c09_real, jobs, nproc=6)


def _real_replay(ctx, payload):
    from ..core import Ctx
    sub = Ctx(ctx.prop, ctx.tier, ctx.seed)
    sdl_ko.check_c09_real(sub, payload["input"])
    return (False, sub.failures[0].what) if sub.failures else (True, "ok")


PARTS.append(_compose.Part("real", _real_slice, _real_replay))
try:
    from . import mp_parts
    PARTS += mp_parts.parts("C09")
except ImportError:
    pass
_compose.assemble(globals(), PARTS, RULE, EXPLANATION, ASSUMPTIONS)
