"""K-D correspondence leg for the Lean model `TDV.MPR` (what a checkpoint of the multi-process iterator means,
and the restore constructor): `Model/MPRestore.lean`, theorems in `Props/C01MP.lean`.

For a generated configuration (W >= 1, in_order, no failing fetch) one saving run of the real
`StatefulDataLoader` under a virtual schedule takes `state_dict()` after EVERY number k of batches of the first
epoch.  For every k the model (`Main/mpr.lean`) is asked for `idealAt cfg (snapshot step after k yields)`,
`steps_since_snapshot`, and for the batches a model run of `restore cfg (idealAt ..)` yields; compared with the
real code:

  * `_snapshot_step`, `_steps_since_snapshot`, `_last_yielded_worker_id` and (map-style) `_sampler_iter_yielded`;
  * the per-worker states of the real snapshot, read as (number of fetches done, fetcher ended) through the dataset's own
    state (`calls` of the stateful map dataset, position `i` of the stateful iterable datasets / iterators);
  * the stream of a freshly built real loader that loads that state_dict (other schedule) against the model's resumed
    yields after the constructor's replay.

The model's batches are opaque codes; code <-> real batch goes through the position in the uninterrupted real stream.
`ended` of the model means "the end-of-shard notice was consumed"; the real `fetcher_ended` is additionally set by the
fetch that produced a short last batch (auto-collation, shard size not a multiple of batch_size, drop_last=False) —
`_expected_real_ended` states that rule, it is not hidden.
"""
from __future__ import annotations

import pickle
from typing import Any, Dict, List, Optional, Tuple

from .. import sdl, vsched
from ..core import Ctx
from ..leanbridge import Driver

LEG = "kd_mpr"
LEAN_MODULES = ["TorchDataVerif.Props.C01MP"]
T = "TDV.MPR."
THEOREMS = [T + t for t in (
    "snapshot_sound_map", "snapshot_denotes_map", "restore_ideal_map", "resume_exact_map", "chain_map",
    "snapshot_sound_iter_partial", "restore_ideal_iter_partial", "resume_exact_iter_partial", "chain_iter_partial",
    "resume_exact_iter_of",
)]
KINDS = ["map", "map_stateful", "iter_ds_state", "iter_it_state", "iter_selfiter", "iter_ds_eager"]
RULE = ("K-D MPR: configurations from harness.sdl.gen_cfg restricted to W 1-3, in_order, sequential sampler, dataset kinds whose "
        "worker state shows the fetch position (" + ", ".join(KINDS) + "), every k of the first epoch. A (configuration, k) case "
        "is non-trivial when k is strictly between two snapshots (steps_since_snapshot > 0) or some worker of an iterable "
        "dataset had retired before k; distinct by (configuration, k).")


# ------------------------------------------------------------------------------------------------


def gen(rng) -> Dict[str, Any]:
    cfg = sdl.gen_cfg(rng, kinds=KINDS, max_w=3, allow_shuffle=False)
    cfg["W"] = max(1, cfg["W"])
    cfg.setdefault("pf", rng.choice([1, 2, 2, 3]))
    cfg["persistent"] = False
    if sdl.is_iter(cfg):
        sizes = list(cfg["sizes"])
        while len(sizes) < cfg["W"]:
            sizes.append(rng.choice([0, 1, 2, 3, 5]))
        cfg["sizes"] = sizes[:cfg["W"]]
    else:
        cfg["sampler"] = "seq"
    return cfg


def nbatches(size: int, bs: Optional[int], drop_last: bool) -> int:
    if bs is None:
        return size
    return size // bs if drop_last else -(-size // bs)


def model_cfg(cfg) -> Dict[str, Any]:
    it = sdl.is_iter(cfg)
    bs, dl = cfg["bs"], cfg.get("drop_last", False)
    shards = [[1000 * w + j for j in range(nbatches(sz, bs, dl))] for w, sz in enumerate(cfg["sizes"])] if it else []
    batches = [] if it else list(range(nbatches(cfg["n"], bs, dl)))
    return {"W": cfg["W"], "P": cfg.get("pf", 2), "interval": cfg.get("interval") or 0, "in_order": True, "iterable": it,
            "persistent": False, "shards": shards, "batches": batches}


def model_stream(mc) -> List[int]:
    """Ref.interleave of the model configuration (codes)."""
    if not mc["iterable"]:
        return list(mc["batches"])
    out, k = [], 0
    while any(k < len(sh) for sh in mc["shards"]):
        out += [sh[k] for sh in mc["shards"] if k < len(sh)]
        k += 1
    return out


def _items(b) -> List[int]:
    return [int(x) for x in b] if isinstance(b, list) else [int(b)]


def real_run(cfg, seed) -> Tuple[List[Any], Dict[int, bytes]]:
    """One epoch with a state_dict before every next(): (observations, {k: pickled state_dict after k batches})."""
    import torch
    sds: Dict[int, bytes] = {}
    obs: List[Any] = []
    with vsched.Session(seed) as s:
        torch.manual_seed(1)
        loader = sdl.build(cfg)
        it = iter(loader)
        while True:
            s.begin_op()
            sds[len(obs)] = pickle.dumps(loader.state_dict())
            o = sdl.take(it, s)
            if o[0] != "item":
                obs.append(o)
                break
            obs.append(o)
        del it, loader
    return obs, sds


def real_resume(cfg, sd_bytes, seed, limit) -> List[Any]:
    import torch
    out: List[Any] = []
    with vsched.Session(seed) as s:
        torch.manual_seed(2)
        loader = sdl.build(cfg)
        loader.load_state_dict(pickle.loads(sd_bytes))
        try:
            it = iter(loader)
            while len(out) < limit:
                o = sdl.take(it, s)
                out.append(o)
                if o[0] != "item":
                    break
            del it
        except vsched.VHang as e:
            out.append(("hang", str(e)))
        except Exception as e:  # the restore constructor raised
            out.append(("error", type(e).__name__ + ": " + str(e)[:100]))
        del loader
    return out


def _find_pos(ws: Dict[str, Any]) -> Optional[int]:
    """The dataset's own position inside one real worker state, if it shows one."""
    for d in (ws.get("dataset_state"), (ws.get("fetcher_state") or {}).get("dataset_iter_state")):
        if isinstance(d, dict):
            if "i" in d:
                return int(d["i"])
            if "calls" in d:
                return int(d["calls"])
    return None


def _expected_real_pos(cfg, stream_items, w, pos, ended) -> int:
    """Items the dataset of worker w has produced after `pos` fetches (`ended`: notice consumed)."""
    bs = cfg["bs"]
    if sdl.is_iter(cfg):
        size = cfg["sizes"][w]
        return size if ended else min(pos * (bs or 1), size)
    # map-style: worker w fetched tasks w, w+W, ...: __getitem__ calls = sizes of those batches
    W = cfg["W"]
    return sum(len(stream_items[w + W * j]) for j in range(pos))


def _expected_real_ended(cfg, w, pos, ended) -> bool:
    if not sdl.is_iter(cfg):
        return False
    bs, size = cfg["bs"], cfg["sizes"][w]
    short_last = bs is not None and not cfg.get("drop_last", False) and size % bs != 0
    return ended or (short_last and pos == nbatches(size, bs, False))


def compare(cfg, k, real_sd, real_resumed, stream, ans) -> Optional[str]:
    """None if the real code and the model agree on case (cfg, k)."""
    if "error" in ans:
        return "driver: " + str(ans["error"])
    if ans.get("assertion"):
        return "the model run hit the _take_snapshot assertion"
    snap = real_sd["_snapshot"]
    got = (snap["_snapshot_step"], real_sd["_steps_since_snapshot"], snap["_last_yielded_worker_id"])
    want = (ans["step"], ans["steps"], ans["ideal"]["lastW"])
    if got != want:
        return f"(snapshot_step, steps_since_snapshot, last_yielded_worker_id): real {got}, model {want}"
    if not sdl.is_iter(cfg):
        y = snap["_main_snapshot"]["_sampler_iter_yielded"]
        if y != ans["ideal"]["main"]:
            return f"_sampler_iter_yielded in the snapshot: real {y}, model {ans['ideal']['main']}"
    if ans.get("saved") is not None:
        sv = ans["saved"]
        if (sv["step"], sv["steps"], sv["lastW"], sv["ws"]) != (ans["step"], ans["steps"], ans["ideal"]["lastW"], ans["ideal"]["ws"]):
            return f"model saving run {sv} differs from idealAt {ans['ideal']} (snapshot_sound fails IN THE MODEL)"
    items = [_items(o[1]) for o in stream if o[0] == "item"]
    for w, (pos, ended) in enumerate(ans["ideal"]["ws"]):
        ws = snap["_worker_snapshots"][f"worker_{w}"]
        rp = _find_pos(ws)
        if rp is not None:
            ep = _expected_real_pos(cfg, items, w, pos, ended)
            if rp != ep:
                return f"worker {w} state: real dataset position {rp}, model (fetches {pos}, ended {ended}) means {ep}"
        if sdl.is_iter(cfg) and ws.get("fetcher_state") is not None:
            re_ = bool(ws["fetcher_state"]["fetcher_ended"])
            ee = _expected_real_ended(cfg, w, pos, ended)
            if re_ != ee:
                return f"worker {w} fetcher_ended: real {re_}, model (fetches {pos}, ended {ended}) means {ee}"
    # resumed stream: model codes -> positions in the reference stream -> real batches
    mstream = model_stream(model_cfg(cfg))
    where = {code: i for i, code in enumerate(mstream)}
    seen = ans["resumed"][ans["steps"]:]
    want_obs = [stream[where[code]] for code in seen] + ([("stop",)] if ans["stop"] else [])
    if real_resumed != want_obs:
        d = next((i for i, (a, b) in enumerate(zip(real_resumed, want_obs)) if a != b), min(len(real_resumed), len(want_obs)))
        return f"resumed stream differs at +{d}: real {real_resumed[d:d + 3]}, model {want_obs[d:d + 3]}"
    return None


def _retired_before(cfg, stream, k) -> bool:
    if not sdl.is_iter(cfg) or cfg["W"] < 2:
        return False
    seen = [0] * cfg["W"]
    for o in stream[:k]:
        for x in _items(o[1]):
            seen[x // 1000] += 1
    bs = cfg["bs"] or 1
    for w, sz in enumerate(cfg["sizes"]):
        eff = sz - (sz % bs if cfg.get("drop_last") else 0)
        if seen[w] >= eff and eff < max(cfg["sizes"]):
            return True
    return False


def one_cfg(cfg, seed) -> Tuple[Optional[str], List[Tuple[int, Dict[str, Any], List[Any], Dict[str, Any]]], List[Any]]:
    """Runs the real side for every k: (problem, [(k, real_sd, real_resumed, request)], stream)."""
    stream, sds = real_run(cfg, seed)
    if not stream or stream[-1][0] != "stop":
        return f"uninterrupted run does not complete: {stream[-1:]}", [], stream
    mc = model_cfg(cfg)
    nb = len(stream) - 1
    if nb != len(model_stream(mc)):
        return f"epoch has {nb} batches, the model configuration {len(model_stream(mc))}", [], stream
    cases = []
    for k in range(nb + 1):
        resumed = real_resume(cfg, sds[k], seed + 101 + k, nb + 2)
        req = {"m": "mpr", "cfg": mc, "k": k, "seed": seed % 9973 + k}
        cases.append((k, pickle.loads(sds[k]), resumed, req))
    return None, cases, stream


def run_kd(ctx: Ctx, nq: int = 14, nt: int = 250):
    import torch
    torch.set_num_threads(1)
    rng = ctx.sub_rng(LEG)
    n = ctx.n(nq, nt)
    todo = []
    for i in range(n):
        cfg = gen(rng)
        seed = rng.randrange(1 << 30)
        problem, cases, stream = one_cfg(cfg, seed)
        ctx.count("kd_mpr:kind:" + cfg["kind"])
        ctx.count("kd_mpr:interval:" + str(cfg.get("interval")))
        if problem is not None:
            ctx.diverge(LEG, {"cfg": cfg, "seed": seed}, problem)
            continue
        for k, sd, resumed, req in cases:
            todo.append((cfg, seed, k, sd, resumed, req, stream))
    answers = Driver().run([t[5] for t in todo])
    for (cfg, seed, k, sd, resumed, req, stream), ans in zip(todo, answers):
        ctx.model_lines += 1
        between = bool(sd.get("_steps_since_snapshot"))
        retired = _retired_before(cfg, stream, k)
        ctx.case(LEG, [cfg, k], between or retired)
        if between:
            ctx.count("kd_mpr:between_snapshots")
        if retired:
            ctx.count("kd_mpr:after_worker_retired")
        d = compare(cfg, k, sd, resumed, stream, ans)
        if d is not None:
            ctx.diverge(LEG, {"cfg": cfg, "seed": seed, "k": k}, d)
    if todo:
        cfg, seed, k, sd, resumed, req, stream = todo[len(todo) // 2]
        ctx.sample({"leg": LEG, "cfg": cfg, "k": k, "request": req})


def replay_kd(ctx: Ctx, payload) -> Tuple[bool, str]:
    inp = payload.get("input", payload)
    cfg, seed = inp["cfg"], inp["seed"]
    problem, cases, stream = one_cfg(cfg, seed)
    if problem is not None:
        return False, problem
    if "k" in inp:
        cases = [c for c in cases if c[0] == inp["k"]]
    answers = Driver().run([c[3] for c in cases])
    for (k, sd, resumed, req), ans in zip(cases, answers):
        d = compare(cfg, k, sd, resumed, stream, ans)
        if d is not None:
            return False, f"k={k}: {d}"
    return True, "model and implementation agree"
