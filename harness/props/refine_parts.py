"""Theorems contributed by lean Props/Refine.lean: the formal link between the two levels of the node development.

Sequential level: `TDV.Node.buffered sf src` (Model/Nodes.lean; theorems in Props/C02, Props/C04).
Protocol level: the Prefetcher (`TDV.PF`) and ParallelMapper (`TDV.PM`) thread protocols (Props/PF, Props/PM).
Props/Refine.lean proves that, for every interleaving, the results the consumer sees from a protocol run
(`next()` -> item / StopIteration / error, `get_state()` -> (snapshot position, steps)) EQUAL the results of the same
consumer operations on `buffered sf (listSource l)` resp. `buffered sf (mapper f (listSource l))` through `rnext`/`rget`
(observation functions `TDV.Refine.pfObs` / `pmObs` / `seqRun`), for a generation started by `reset(None)` and for a
generation created by `reset((j, k))`; and states the transfer of `buffered` theorems to the protocols
(`threaded_pipeline_sound`, concrete instance `pf_checkpoint_resume_exact` = C02 `buffered_lawful_partial` + C04
`buffered_denote` read on two Prefetcher runs).

No Python legs of their own: the protocol models are tied to the code by pf_trace.py / pm_trace.py (K-T), the sequential
model by the K-D legs of c02.py / c04.py; this module only adds machine-checked theorems.

Scope (hypotheses of the theorems): source = finite list ending in StopIteration whose state after i items is i
(`IterableWrapper(list)`); ParallelMapper in order, thread workers (`proc = false`), `map_fn` total; one generation per
statement (a new generation's source is assumed to be the reset list, i.e. no abandoned reader still drives it: C12)."""
from __future__ import annotations

LEAN_MODULES = ["TorchDataVerif.Props.Refine"]
T = "TDV.Refine."
THEOREMS_BY_PROP = {
    "C02": [T + n for n in (
        "pf_resume_refines", "pm_resume_refines", "pf_checkpoint_in_range", "pm_checkpoint_in_range",
        "pf_checkpoint_resume_exact", "threaded_pipeline_sound", "threaded_pipeline_sound_pm")],
    "C04": [T + n for n in (
        "pf_refines_buffered", "pm_refines_buffered_mapper", "pf_checkpoint_resume_exact",
        "threaded_pipeline_sound", "threaded_pipeline_sound_pm")],
    "C06": [T + n for n in (
        "pf_refines_buffered", "pm_refines_buffered_mapper", "pf_resume_refines", "pm_resume_refines",
        "pf_checkpoint_in_range", "pm_checkpoint_in_range")],
}
