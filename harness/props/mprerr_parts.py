"""C01 / C10 part: checkpoints of the multi-process map-style iterator taken in runs WITH failing fetches.

Lean: `Props/C01MPErr.lean` (namespace TDV.MPR, helpers `Proofs/MPRErr*.lean`), driver `Drv/MPRErr.lean`
(`Main/mprerr.lean`).  What is a theorem and what is refuted:

  * `snapshot_sound_map_err`      state_dict() after k outcomes (batches or raised errors) = `ckpt c k`: the snapshot of
                                  position m = lastDue c k (last flagged task <= k that did not fail), snapshot_step = yields
                                  up to m, steps_since_snapshot = yields since; every schedule, every failing set.
  * `restore_ideal_map_err`       the restore constructor applied to a snapshot of position m delivers the outcomes from m
                                  on, errors at their positions; later state_dicts equal the uninterrupted ones except for
                                  the worker states.
  * `resume_restart_map_err`      hence a resume restarts at m, unconditionally.
  * `resume_exact_map_err_partial` no failing task in the window [m, k)  =>  the consumer of the resumed loader gets exactly
                                  the remaining outcome stream (remaining batches AND errors), the replay raises nothing.
  * `resume_exact_map_err_false`  the full statement is FALSE (witness `exE`): a failing task in the window is raised a
                                  second time - inside the constructor if a yielded batch of the window follows it.
  * `chain_map_err_partial` / `chain_map_err_false`  state_dicts along a chain agree except for the worker states (a
                                  failing fetch sends no state delta: witness `c10a`).

K-D leg `run_kd`: generated map-style configurations WITH failing items; one real saving run (catch-and-continue consumer,
virtual schedule) takes `state_dict()` after every number k of outcomes; for every k a freshly built real loader loads it and
is consumed to the end under another schedule (a raising constructor is an observation, not a crash).  Compared with the
model (one model saving run + one model resumed run per k): snapshot_step, steps_since_snapshot, last_yielded_worker_id,
sampler position, the workers' dataset positions (stateful map dataset: `calls`), and the whole resumed outcome sequence
including re-raised errors and "constructor raised".
"""
from __future__ import annotations

import pickle
from typing import Any, Dict, List, Optional, Tuple

from .. import sdl, vsched
from ..core import Ctx
from ..leanbridge import Driver
from . import _compose

LEG = "kd_mprerr"
LEAN_MODULES = ["TorchDataVerif.Props.C01MPErr"]
T = "TDV.MPR."
THEOREMS = [T + t for t in (
    "snapshot_sound_map_err", "restore_ideal_map_err", "resume_restart_map_err", "resume_exact_map_err_partial",
    "resume_exact_map_err_false", "chain_map_err_partial", "chain_map_err_false", "exE_save", "exE_resume",
)]
KINDS = ["map", "map_stateful"]
RULE = ("K-D MPRErr: map-style configurations from harness.sdl.gen_cfg (kinds " + ", ".join(KINDS) + "), W 1-3, in_order, "
        "sequential sampler, 1-3 failing items, every number k of outcomes of the first epoch. A (configuration, k) case is "
        "non-trivial when a failing batch precedes k (the checkpoint is taken after an error was raised); distinct by "
        "(configuration, failing set, k).")

# the negation witness `TDV.MPR.exE` of resume_exact_map_err_statement as a real configuration (batch 3 fails)
EXE_CFG = {"kind": "map", "n": 6, "bs": 1, "drop_last": False, "W": 2, "pf": 2, "persistent": False, "interval": 2,
           "sampler": "seq", "fail": [3]}


def gen(rng) -> Dict[str, Any]:
    cfg = sdl.gen_cfg(rng, kinds=KINDS, max_w=3, allow_shuffle=False)
    cfg["W"] = max(1, cfg["W"])
    cfg.setdefault("pf", rng.choice([1, 2, 2, 3]))
    cfg["persistent"] = False
    cfg["sampler"] = "seq"
    if rng.random() < 0.6:
        cfg["interval"] = rng.choice([2, 2, 3, 4])
    items = list(range(cfg["n"]))
    if items:
        cfg["fail"] = sorted(rng.sample(items, min(len(items), rng.choice([1, 1, 2, 3]))))
    return cfg


def batches_of(cfg) -> List[List[int]]:
    n, bs, dl = cfg["n"], cfg["bs"], cfg.get("drop_last", False)
    if bs is None:
        return [[i] for i in range(n)]
    out = [list(range(i, min(i + bs, n))) for i in range(0, n, bs)]
    if dl and out and len(out[-1]) < bs:
        out.pop()
    return out


def model_cfg(cfg) -> Dict[str, Any]:
    fail = set(cfg.get("fail", ()))
    batches = [None if any(x in fail for x in b) else t for t, b in enumerate(batches_of(cfg))]
    return {"W": cfg["W"], "P": cfg.get("pf", 2), "interval": cfg.get("interval") or 0, "in_order": True, "iterable": False,
            "persistent": False, "shards": [], "batches": batches}


def calls_of(cfg, t: int) -> int:
    """`__getitem__` calls of the fetch of task t (a failing fetch stops at its first failing item)."""
    fail = set(cfg.get("fail", ()))
    b = batches_of(cfg)[t]
    for j, x in enumerate(b):
        if x in fail:
            return j + 1
    return len(b)


def real_run(cfg, seed) -> Tuple[List[Any], Dict[int, bytes]]:
    """One epoch, catch-and-continue, state_dict before every next(): (outcomes + final stop, {k: pickled state_dict})."""
    import torch
    sds: Dict[int, bytes] = {}
    obs: List[Any] = []
    limit = len(batches_of(cfg)) + 3
    with vsched.Session(seed) as s:
        torch.manual_seed(1)
        loader = sdl.build(cfg)
        it = iter(loader)
        while len(obs) < limit:
            s.begin_op()
            sds[len(obs)] = pickle.dumps(loader.state_dict())
            o = sdl.take(it, s)
            obs.append(o)
            if o[0] in ("stop", "hang"):
                break
        del it, loader
    return obs, sds


def real_resume(cfg, sd_bytes, seed, limit) -> List[Any]:
    import torch
    out: List[Any] = []
    with vsched.Session(seed) as s:
        torch.manual_seed(2)
        loader = sdl.build(cfg)
        loader.load_state_dict(pickle.loads(sd_bytes))
        it = None
        try:
            s.begin_op()
            it = iter(loader)
        except vsched.VHang as e:
            out.append(("hang", str(e)))
        except Exception as e:  # the restore constructor raised
            out.append(("ctor-error", type(e).__name__))
        if it is not None:
            while len(out) < limit:
                o = sdl.take(it, s)
                out.append(o)
                if o[0] in ("stop", "hang"):
                    break
            del it
        del loader
    return out


def expected_resumed(ans, stream) -> List[Any]:
    """What the real resumed loader must show according to the model's resumed outcome sequence: the constructor consumes
    outcomes until `steps` batches were yielded (an error on the way = the constructor raises); the rest goes to the consumer."""
    R, steps = list(ans["resumed"]), ans["saved"]["steps"]
    i = got = 0
    while got < steps:
        if i >= len(R):
            return [("model-replay-incomplete",)]
        if R[i] is None:
            return [("ctor-error", "ValueError")]
        got += 1
        i += 1
    out = [("error", "ValueError") if code is None else stream[code] for code in R[i:]]
    return out + ([("stop",)] if ans["stop"] else [])


def compare(cfg, k, real_sd, real_resumed, stream, ans) -> Optional[str]:
    if "error" in ans:
        return "driver: " + str(ans["error"])
    if ans.get("assertion"):
        return "the model run hit the _take_snapshot assertion"
    sv = ans.get("saved")
    if sv is None:
        return "the model saving run did not reach k outcomes"
    snap = real_sd["_snapshot"]
    got = (snap["_snapshot_step"], real_sd["_steps_since_snapshot"], snap["_last_yielded_worker_id"],
           snap["_main_snapshot"]["_sampler_iter_yielded"])
    want = (sv["step"], sv["steps"], sv["lastW"], sv["main"])
    if got != want:
        return f"(snapshot_step, steps_since_snapshot, last_yielded_worker_id, _sampler_iter_yielded): real {got}, model {want}"
    for w, (pos, _ended) in enumerate(sv["ws"]):
        d = snap["_worker_snapshots"][f"worker_{w}"].get("dataset_state")
        if isinstance(d, dict) and "calls" in d:
            ep = sum(calls_of(cfg, w + cfg["W"] * j) for j in range(pos))
            if int(d["calls"]) != ep:
                return f"worker {w} state: real calls {d['calls']}, model (fetches {pos}) means {ep}"
    want_obs = expected_resumed(ans, stream)
    if real_resumed != want_obs:
        d = next((i for i, (a, b) in enumerate(zip(real_resumed, want_obs)) if a != b), min(len(real_resumed), len(want_obs)))
        return f"resumed outcomes differ at +{d}: real {real_resumed[d:d + 3]}, model {want_obs[d:d + 3]}"
    return None


def one_cfg(cfg, seed):
    stream, sds = real_run(cfg, seed)
    if not stream or stream[-1][0] != "stop":
        return f"uninterrupted run does not complete: {stream[-2:]}", [], stream
    mc = model_cfg(cfg)
    nb = len(stream) - 1
    if nb != len(mc["batches"]):
        return f"epoch has {nb} outcomes, the model configuration {len(mc['batches'])} tasks", [], stream
    for t, (o, b) in enumerate(zip(stream, mc["batches"])):
        if (o[0] == "item") != (b is not None):
            return f"saving run: outcome {t} is {o}, the model configuration says {'batch' if b is not None else 'error'}", [], stream
    cases = []
    for k in range(nb + 1):
        resumed = real_resume(cfg, sds[k], seed + 101 + k, nb + 3)
        req = {"m": "mprerr", "cfg": mc, "k": k, "seed": seed % 9973 + k}
        cases.append((k, pickle.loads(sds[k]), resumed, req))
    return None, cases, stream


def run_kd(ctx: Ctx, nq: int = 12, nt: int = 200):
    import torch
    torch.set_num_threads(1)
    rng = ctx.sub_rng(LEG)
    n = ctx.n(nq, nt)
    todo = []
    jobs = [(gen(rng), rng.randrange(1 << 30)) for _ in range(n)]
    jobs[0] = (dict(EXE_CFG), jobs[0][1])  # the Lean negation witness is always among the cases
    for cfg, seed in jobs:
        problem, cases, stream = one_cfg(cfg, seed)
        ctx.count("kd_mprerr:kind:" + cfg["kind"])
        ctx.count("kd_mprerr:interval:" + str(cfg.get("interval")))
        if problem is not None:
            ctx.diverge(LEG, {"cfg": cfg, "seed": seed}, problem)
            continue
        for k, sd, resumed, req in cases:
            todo.append((cfg, seed, k, sd, resumed, req, stream))
    answers = Driver().run([t[5] for t in todo])
    for (cfg, seed, k, sd, resumed, req, stream), ans in zip(todo, answers):
        ctx.model_lines += 1
        after_error = any(o[0] == "error" for o in stream[:k])
        ctx.case(LEG, [cfg, k], after_error)
        if after_error:
            ctx.count("kd_mprerr:checkpoint_after_error")
        if resumed and resumed[0][0] == "ctor-error":
            ctx.count("kd_mprerr:constructor_raises")
        main = sd["_snapshot"]["_main_snapshot"]["_sampler_iter_yielded"]
        if any(o[0] == "error" for o in stream[main:k]):
            ctx.count("kd_mprerr:error_in_replay_window")
        d = compare(cfg, k, sd, resumed, stream, ans)
        if d is not None:
            ctx.diverge(LEG, {"cfg": cfg, "seed": seed, "k": k}, d)
    if todo:
        cfg, seed, k, sd, resumed, req, stream = todo[len(todo) // 2]
        ctx.sample({"leg": LEG, "cfg": cfg, "k": k, "request": req})


def replay_kd(ctx: Ctx, payload) -> Tuple[bool, str]:
    inp = payload.get("input", payload)
    cfg, seed = inp["cfg"], inp["seed"]
    problem, cases, stream = one_cfg(cfg, seed)
    if problem is not None:
        return False, problem
    if "k" in inp:
        cases = [c for c in cases if c[0] == inp["k"]]
    answers = Driver().run([c[3] for c in cases])
    for (k, sd, resumed, req), ans in zip(cases, answers):
        d = compare(cfg, k, sd, resumed, stream, ans)
        if d is not None:
            return False, f"k={k}: {d}"
    return True, "model and implementation agree"


def replay_exE(seed: int = 7) -> Tuple[bool, str]:
    """The Lean negation witness on the real code: checkpoint after `0,1,2,error` -> the resumed consumer gets the error
    AGAIN; after `0,1,2,error,4` -> the restore constructor raises.  Returns (the real code shows both, description)."""
    stream, sds = real_run(EXE_CFG, seed)
    r4 = real_resume(EXE_CFG, sds[4], seed + 1, 9)
    r5 = real_resume(EXE_CFG, sds[5], seed + 2, 9)
    ok = r4[:1] == [("error", "ValueError")] and r5[:1] == [("ctor-error", "ValueError")]
    return ok, f"saving run {stream}; resumed after 4 outcomes {r4}; resumed after 5 outcomes {r5}"


def parts():
    return [_compose.Part("mprerr_kd", run_kd, replay_kd, theorems=THEOREMS, modules=LEAN_MODULES)]
