def run(ctx):
    pass
def replay(inp):
    return True, "stub"
