"""C07 integration leg: `_worker_snapshots` inside every StatefulDataLoader checkpoint equals the state the
worker's dataset (or dataset iterator) had right after producing the last of its batches handed to the user
as of the checkpoint's snapshot step.  Datasets whose state evolves IN PLACE (a growing list, a tensor
counter) are used so that aliasing / late serialisation shows; the expected value is computed from the
number of items of that worker yielded so far (the datasets' states are functions of their position)."""
from __future__ import annotations

import gc
import pickle
import random
from typing import Any, Dict, List

import torch

from .. import sdl, vsched
from ..core import Ctx
from . import sdl_ko


def expected_state(cfg, w: int, c: int, gen: int = 0):
    k = cfg["kind"]
    if k == "iter_bump":
        return ("dataset_state", {"i": c, "gen": gen})
    if k == "iter_inplace":
        return ("dataset_state", {"i": c, "buf": list(range(c)), "t": [c]})
    if k in ("iter_ds_state", "iter_selfiter", "iter_ds_eager"):
        return ("dataset_state", {"i": c})
    if k == "iter_it_state":
        return ("iter_state", {"i": c, "nested": {"half": c // 2} if c % 3 else {}})
    if k == "map_stateful":
        return ("dataset_state", {"calls": c})
    return None


def _canon(x):
    if isinstance(x, torch.Tensor):
        return x.tolist()
    if isinstance(x, dict):
        return {k: _canon(v) for k, v in x.items() if k != "done"}
    if isinstance(x, list):
        return [_canon(v) for v in x]
    return x


def _verify(cfg, sd, yielded, W, epoch, gen, resumed_from=None):
    snap = sd["_snapshot"]
    n_s = snap["_snapshot_step"]
    counts = [0] * W
    if sdl.is_iter(cfg):
        for b in yielded[:n_s]:
            for x in b:
                counts[x // 1000] += 1
    else:
        # map-style: task t goes to worker t % W (all workers live), batch sizes known
        for t, b in enumerate(yielded[:n_s]):
            counts[t % W] += len(b)
    base = None
    if resumed_from is not None:
        base = [0] * W
        for t, b in enumerate(resumed_from):
            for x in b:
                base[x // 1000 if sdl.is_iter(cfg) else t % W] += 1 if sdl.is_iter(cfg) else 0
            if not sdl.is_iter(cfg):
                base[t % W] += len(b)
    for w in range(W):
        exp = expected_state(cfg, w, counts[w], gen)
        if exp is None:
            continue
        if base is not None and counts[w] <= base[w] and cfg["kind"] != "iter_bump":
            continue  # no batch of this worker was handed out since the resume: its pre-batch state is dataset specific (re-arming)
        ws = snap["_worker_snapshots"]["worker_%d" % w]
        got = ws["dataset_state"] if exp[0] == "dataset_state" else (ws["fetcher_state"] or {}).get("dataset_iter_state")
        if cfg["kind"] == "map_stateful" and (cfg.get("persistent") and epoch > 0 or gen > 0):
            continue  # call counter keeps growing across epochs on persistent workers / is restored on resume
        if epoch > 0 and counts[w] == 0 and cfg.get("persistent"):
            continue  # a reused worker's dataset re-arms itself lazily: its pre-epoch state is its previous end state
        if _canon(got) != exp[1]:
            return (epoch, len(yielded), w, _canon(got), exp[1], n_s)
    return None


def check(ctx: Ctx, job):
    cfg, seed, pol = job["cfg"], job["seed"], job["policy"]
    W = cfg["W"]
    sess = sdl_ko.session_for(pol, seed, W)
    bad = None
    resume_at = job.get("resume_at")
    saved = None
    with sess as s:
        torch.manual_seed(5)
        loader = sdl.build(cfg)
        for epoch in range(2):
            it = iter(loader)
            sdl_ko._apply_starve(sess, s)
            yielded: List[List[int]] = []  # per yield: items
            while True:
                s.begin_op()
                sd = loader.state_dict()
                bad = _verify(cfg, sd, yielded, W, epoch, 0)
                if bad:
                    break
                if epoch == 0 and resume_at is not None and len(yielded) == resume_at:
                    saved = (pickle.dumps(sd), list(yielded))
                o = sdl.take(it, s)
                if o[0] != "item":
                    break
                b = o[1] if isinstance(o[1], list) else [o[1]]
                yielded.append(b)
            if bad:
                break
        del loader, it
        gc.collect()
    # second lifetime: resume from the checkpoint taken at `resume_at` and keep checking every checkpoint
    if bad is None and saved is not None:
        with vsched.Session(seed + 1, adversarial=(pol == "adversarial")) as s:
            torch.manual_seed(6)
            loader = sdl.build(cfg)
            loader.load_state_dict(pickle.loads(saved[0]))
            yielded = list(saved[1])
            try:
                it = iter(loader)
                while True:
                    s.begin_op()
                    sd = loader.state_dict()
                    bad = _verify(cfg, sd, yielded, W, 0, 1, resumed_from=saved[1])
                    if bad:
                        bad = ("after resume at %d" % resume_at,) + bad[1:]
                        break
                    o = sdl.take(it, s)
                    if o[0] != "item":
                        break
                    yielded.append(o[1] if isinstance(o[1], list) else [o[1]])
            except Exception:
                pass  # resume failures are C01's business
            del loader
            it = None
            gc.collect()
    ctx.case("ko_loader_snapshots", [cfg, pol, resume_at], W >= 2 and cfg["kind"] in ("iter_inplace", "iter_it_state", "iter_bump"))
    ctx.count("loader_kind:" + cfg["kind"])
    if bad:
        ctx.fail("loader_snapshot", job,
                 f"epoch {bad[0]}, after {bad[1]} batches (snapshot step {bad[5]}): checkpoint holds {bad[3]} for worker {bad[2]} but that worker's state after its last yielded batch was {bad[4]}")


def run(ctx: Ctx):
    jobs = []
    for i in range(ctx.n(60, 1200)):
        cfg = sdl.gen_cfg(ctx.rng, kinds=["iter_inplace", "iter_inplace", "iter_it_state", "iter_ds_state", "map_stateful", "iter_ds_eager", "iter_bump", "iter_bump"], allow_shuffle=False)
        if cfg["W"] == 0:
            cfg["W"] = ctx.rng.choice([1, 2, 3])
            cfg["pf"] = ctx.rng.choice([1, 2, 3])
            cfg["persistent"] = False
            if sdl.is_iter(cfg):
                cfg["sizes"] = (cfg["sizes"] * 4)[: cfg["W"]]
        if cfg["kind"] == "map_stateful":
            cfg["sampler"] = "seq"
            if cfg["bs"] is None:
                cfg["bs"] = 2
        if cfg.get("drop_last"):
            cfg["drop_last"] = False  # with drop_last a worker pulls items it never yields: position != yielded items
        jobs.append({"cfg": cfg, "seed": ctx.rng.randrange(1 << 30), "policy": ctx.rng.choice(sdl_ko.POLICIES),
                     "resume_at": ctx.rng.choice([None, 0, 1, 2, 3, 4])})
    ctx.pmap(check, jobs)


def replay(inp):
    sub = Ctx("C07", "quick", 0)
    check(sub, inp)
    if sub.failures:
        return False, sub.failures[0].what
    return True, "worker snapshots equal the reported states"
