"""ParallelMapper thread protocol (model `TDV.PM`): trace validation (K-T) and oracles on the real threads (K-O).

Called from the C04 / C06 / C11 / C12 / C17 check modules:

    from . import pm_trace
    pm_trace.run_kt(ctx)      # K-T: real `ParallelMapper` under the virtual scheduler -> event trace -> Lean acceptor
    pm_trace.run_ko(ctx)      # K-O: oracles C04 / C06 / C11 / C12 / C17 under many schedules per case
    pm_trace.replay(ctx, payload_input)   # re-runs one failing input (`{"kind":…, "case":…}` as stored by ctx.fail)
    KNOWN, THEOREMS, LEAN_MODULES, RULE, EXPLANATION, ASSUMPTIONS

A *case* is a JSON-able dict
    {"N","mc"(None|int),"f","in_order","method","items":[ints],"term":"stop"|"error","fail":[item values on which map_fn raises],
     "hist":[op,…], "sched":{"seed","adv","starve":None|worker index}, "kill":None|{"worker":i,"at":k}}
ops:  "next" | "sd" (state_dict, remembered) | "reset" (node.reset(): new epoch mid-stream) |
      "reload" (fresh node, reset(last remembered state_dict)) | "del" (drop the node)

Instrumentation (nothing in /repo is modified): the virtual scheduler logs every primitive operation; in addition,
for the duration of a case, `VQueue.empty` and `QueueSnapshotStore.pop_version` are wrapped so that they log their result
(they are operations on shared objects which the scheduler does not log), and `_ParallelMapperIter.__init__` is wrapped
to remember the names of the queues / events / threads of each iterator generation.
"""
from __future__ import annotations

import re
import sys
import weakref
from typing import Any, Dict, List, Optional, Tuple

sys.path.insert(0, __import__("os").environ.get("VERIF_REPO", "/repo"))

from ..core import Ctx, Failure
from ..leanbridge import Driver
from .. import vsched
from ..vsched import Session, VHang, S

THEOREMS_BY_PROPERTY = {
    "C04": ["TDV.PM.bookkeeping", "TDV.PM.delivered_prefix", "TDV.PM.delivered_prefix_total", "TDV.PM.complete",
            "TDV.PM.unordered_perm"],
    "C06": ["TDV.PM.state_tracks_consumer"],
    "C11": ["TDV.PM.error_after_prefix", "TDV.PM.progress", "TDV.PM.variant", "TDV.PM.next_after_end_prompt",
            "TDV.PM.early_stop_prompt", "TDV.PM.next_after_source_error_prompt", "TDV.PM.worker_death_detected",
            "TDV.PM.early_stop_sound", "TDV.PM.runtime_error_sound"],
    "C12": ["TDV.PM.readahead_bound", "TDV.PM.readahead_bound_returned", "TDV.PM.release_never_overflows"],
    "C17": ["TDV.PM.released_reader", "TDV.PM.released_worker", "TDV.PM.released_sorter", "TDV.PM.stop_stays",
            "TDV.PM.Gen.released"],
}
THEOREMS = ["TDV.PM.inv_reachable"] + [t for ts in THEOREMS_BY_PROPERTY.values() for t in ts]
LEAN_MODULES = ["TorchDataVerif.Props.PM"]
RULE = ("cases are generated from one PRNG: num_workers 1-3, max_concurrent None or 1..N, snapshot_frequency 0-3, in_order both, "
        "method thread (K-T, K-O) and process (K-O kill sweep), sources of 0-8 ints ending in StopIteration or an exception, "
        "map_fn raising on chosen items, consumer histories (next, state_dict at every position, exhaustion, extra next() after the "
        "end, reset mid-epoch, load into a new node), schedules: seeded random, adversarial timeouts, starve-one-worker. "
        "A validated trace is non-trivial when at least one result arrived out of order at the sorter or at least one timeout "
        "fired; distinct by (configuration, history, schedule).")
EXPLANATION = ("Lean: TDV.PM is a small-step transition system of reader, N workers, sorter, consumer (one action per shared-object "
               "operation + timeout variants); one invariant `Inv` proved for every action sequence gives the bookkeeping, ordering, "
               "completeness, read-ahead bound and checkpoint closed form; progress (full strength since the repair of the two C11 hangs: "
               "after the reader is gone with nothing in flight, or after a worker died, ONE timeout step of the consumer puts next() on "
               "its return path) and variant give termination of next(); early_stop_sound / runtime_error_sound say the new exits cannot "
               "lose items or cry wolf. Tie: every event trace of the real threads under the virtual "
               "scheduler is replayed by the model as an acceptor (payloads, semaphore values, timeouts, flags, popped versions, return "
               "values, get_state). Oracles: the same properties measured directly on the real threads under many schedules.")
ASSUMPTIONS = [
    "threads are interleaved at the granularity of operations on shared objects (queue/semaphore/event/snapshot store/source); "
    "the virtual scheduler runs the real code at exactly that granularity",
    "the source's state_dict after j items is truthy and determines position j; map_fn is deterministic (value, or raises)",
    "a timed wait only times out when the resource is unavailable at the deadline (CPython queue.Queue / Semaphore semantics)",
    "0 < max_concurrent and 1 <= num_workers for progress (max_concurrent=0 is accepted by the constructor and can never make progress)",
    "a thread's is_alive() turns false exactly when its target function has returned (reader: after the terminal was put; "
    "workers: never before a stop event is set, unless the process died)",
    "C06 closed form is stated for streams on which no error has been raised to the consumer",
]

# --------------------------------------------------------------------------------------------------------------
# user code under test: source and map function


class SrcErr(RuntimeError):
    pass


class MapErr(ArithmeticError):
    pass


import queue as _real_queue  # noqa: E402


class MapErrEmpty(MapErr, _real_queue.Empty):
    """a user map function may raise anything - also `queue.Empty` (e.g. it polls a queue of its own); the workers use that
    very exception type for their own polling"""


def _base_node():
    from torchdata.nodes import BaseNode
    return BaseNode


_SRC_CLS = None


def Src(items, term, delay=0.0, first_delay=None):
    """Instrumented source node: logs enter/leave of next(), counts concurrent entries and results handed out."""
    global _SRC_CLS
    if _SRC_CLS is None:
        BaseNode = _base_node()

        class _Src(BaseNode):
            def __init__(self, items, term, delay, first_delay):
                super().__init__()
                self.items, self.term, self.delay, self.first_delay = list(items), term, delay, first_delay
                self.pos = 0
                self.inside = 0
                self.max_inside = 0
                self.pulled_by: Dict[int, int] = {}  # id(VT) -> results handed out (items and the terminal)
                self.calls = 0

            def reset(self, initial_state=None):
                super().reset(initial_state)
                s = vsched.CUR
                live = s is not None and not s.closed and s.me() is not None
                self.inside += 1
                self.max_inside = max(self.max_inside, self.inside)
                try:
                    if live:
                        s.switch()
                    self.pos = 0 if (initial_state is None or getattr(self, "replay_only", False)) else initial_state["pos"]
                finally:
                    self.inside -= 1

            def next(self):
                s = S()
                me = s.me()
                self.inside += 1
                self.max_inside = max(self.max_inside, self.inside)
                s.ev("src", "enter", id(me))
                self.calls += 1
                d = self.delay if (self.first_delay is None or self.calls > 1) else self.first_delay
                try:
                    if d > 0:
                        s.switch(lambda: False, d)
                    else:
                        s.switch()
                    self.pulled_by[id(me)] = self.pulled_by.get(id(me), 0) + 1
                    if self.pos < len(self.items):
                        v = self.items[self.pos]
                        self.pos += 1
                        s.ev("src", "leave", id(me), 0, v)
                        return v
                    if self.term == "error":
                        s.ev("src", "leave", id(me), 2, 0)
                        raise SrcErr("source failed")
                    s.ev("src", "leave", id(me), 1, 0)
                    raise StopIteration()
                finally:
                    self.inside -= 1

            def get_state(self):
                if getattr(self, "replay_only", False):
                    # a source that keeps no position of its own: {} as state, every reset() restarts the deterministic
                    # stream; a checkpoint above it can only be honoured by replaying the items already received
                    return {}
                return {"pos": self.pos}

        _SRC_CLS = _Src
    return _SRC_CLS(items, term, delay, first_delay)


MUL, ADD = 3, 1


class MapFn:
    """deep-copyable map function with a switch point inside (user code runs between the worker's get and put)."""

    def __init__(self, fail, slow=(), empty=False):
        self.fail, self.slow, self.empty = list(fail), list(slow), empty

    def __call__(self, x):
        s = vsched.CUR
        if s is not None and not s.closed:
            s.switch()
            if x in self.slow:
                # user code slower than the consumer's poll timeout: the item stays in flight across queue.Empty polls
                s.switch(lambda: False, SLOW_MAP)
        if x in self.fail:
            raise (MapErrEmpty if getattr(self, "empty", False) else MapErr)(f"map_fn fails on {x}")
        return x * MUL + ADD


SLOW_MAP = 0.25  # virtual seconds; QUEUE_TIMEOUT of the real code is 0.1


def ref_results(case) -> List[Tuple[str, int]]:
    """in-order reference: the sequence of results of successive next() calls up to and including the terminal."""
    out = []
    for v in case["items"]:
        out.append(("e", 0) if v in case["fail"] else ("i", v * MUL + ADD))
    out.append(("e", 0) if case["term"] == "error" else ("s", 0))
    return out


def max_tasks(case) -> int:
    return 2 * case["N"] if case["mc"] is None else case["mc"]


# --------------------------------------------------------------------------------------------------------------
# instrumentation


class Gen:
    """names of the shared objects and threads of one `_ParallelMapperIter`"""

    def __init__(self, idx):
        self.idx = idx
        self.names: Dict[str, str] = {}
        self.wnames: Dict[str, int] = {}
        self.vts: List[Any] = []
        self.reader_vt = None
        self.base = 0
        self.ref = None
        self.complete = False

    def vts_early(self):
        return self.vts


class Instr:
    """context manager: wraps the three unlogged operations for the duration of a case"""

    def __init__(self):
        self.gens: List[Gen] = []
        self.pnames: Dict[str, Tuple[int, int]] = {}  # virtual process name -> (generation, worker id)

    def __enter__(self):
        import torchdata.nodes.map as M
        import torchdata.nodes.snapshot_store as SS
        self.M, self.SS = M, SS
        self.o_init = M._ParallelMapperIter.__init__
        self.o_pop = SS.QueueSnapshotStore.pop_version
        self.o_empty = vsched.VQueue.empty
        self.o_pinit = vsched.VProcess.__init__
        self.o_popq = M._populate_queue
        instr = self

        def populate_queue(*a, **k):
            # `_ParallelMapperIter.__next__` tests `self._read_thread.is_alive()`: the moment the reader's function
            # returns is an observable of the protocol, so it is logged (from inside the reader thread)
            try:
                return instr.o_popq(*a, **k)
            finally:
                sc = vsched.CUR
                if sc is not None and not sc.closed and sc.me() is not None:
                    sc.ev("src", "exit", id(sc.me()))

        def pinit(proc, *a, **k):
            instr.o_pinit(proc, *a, **k)
            tgt = k.get("target")
            args = k.get("args", ())
            if getattr(tgt, "__name__", "") == "_apply_udf" and instr.gens:
                instr.pnames[proc.name] = (len(instr.gens) - 1, args[0])
                instr.gens[-1].wnames[proc.name] = args[0]

        def init(it, *a, **k):
            g = Gen(len(instr.gens))
            instr.gens.append(g)
            ist = k.get("initial_state", a[8] if len(a) > 8 else None)
            g.base = -1 if ist is None else ist["snapshot"].get("pos", 0)
            s = vsched.CUR
            if s is not None:
                s.ev("gen", g.idx)
            try:
                return instr.o_init(it, *a, **k)
            finally:
                instr.capture(g, it)

        def pop_version(store, version):
            r = instr.o_pop(store, version)
            s = vsched.CUR
            if s is not None and not s.closed:
                s.ev("pop", store._q.name, version, None if r is None else r["pos"])
            return r

        def empty(q):
            r = instr.o_empty(q)
            s = vsched.CUR
            if s is not None and not s.closed:
                s.ev("empty", q.name, r)
            return r

        M._ParallelMapperIter.__init__ = init
        SS.QueueSnapshotStore.pop_version = pop_version
        vsched.VQueue.empty = empty
        vsched.VProcess.__init__ = pinit
        M._populate_queue = populate_queue
        return self

    def capture(self, g: Gen, it):
        def nm(attr):
            o = getattr(it, attr, None)
            return getattr(o, "name", None)
        g.names = {}
        for role, attr in (("inq", "_in_q"), ("mid", "_intermed_q"), ("sq", "_sort_q"), ("sem", "_sem"), ("stop", "_stop"),
                           ("mpstop", "_mp_stop")):
            n = nm(attr)
            if n is not None:
                g.names[n] = role
        st = getattr(it, "_snapshot_store", None)
        if st is not None:
            g.names[st._q.name] = "store"
        rt = getattr(it, "_read_thread", None)
        if rt is not None and getattr(rt, "vt", None) is not None:
            g.reader_vt = rt.vt
            g.vts.append(rt.vt)
        for i, w in enumerate(getattr(it, "_workers", []) or []):
            g.wnames[w.name] = i
            if getattr(w, "vt", None) is not None:
                g.vts.append(w.vt)
        stt = getattr(it, "_sort_thread", None)
        if stt is not None and getattr(stt, "vt", None) is not None:
            g.vts.append(stt.vt)

    def __exit__(self, *a):
        self.M._ParallelMapperIter.__init__ = self.o_init
        self.SS.QueueSnapshotStore.pop_version = self.o_pop
        vsched.VQueue.empty = self.o_empty
        vsched.VProcess.__init__ = self.o_pinit
        self.M._populate_queue = self.o_popq
        return False


_PAY = re.compile(r"^\((.*), (\d+)\)$", re.S)


def parse_payload(txt: str) -> Optional[Tuple[int, int, int]]:
    """'(item, idx)' as logged by the scheduler -> (kind, value, idx); kind 0 item, 1 StopIteration, 2 ExceptionWrapper"""
    m = _PAY.match(txt)
    if not m:
        return None
    body, idx = m.group(1), int(m.group(2))
    if body.startswith("StopIteration"):
        return (1, 0, idx)
    if "ExceptionWrapper" in body:
        return (2, 0, idx)
    try:
        return (0, int(body), idx)
    except ValueError:
        return None


_STORE = re.compile(r"^\((-?\d+), \{'pos': (\d+)\}\)$")


def translate(events: List[tuple], gens: List[Gen], in_order: bool):
    """scheduler events -> one model trace per iterator generation"""
    by_name: Dict[str, Tuple[int, str]] = {}
    by_vt: Dict[int, int] = {}
    wk: Dict[Tuple[int, str], int] = {}
    for g in gens:
        for n, role in g.names.items():
            by_name[n] = (g.idx, role)
        if g.reader_vt is not None:
            by_vt[id(g.reader_vt)] = g.idx
        for n, i in g.wnames.items():
            wk[(g.idx, n)] = i
    traces: List[List[list]] = [[] for _ in gens]
    bad: List[str] = []
    stale: set = set()
    cur_gen = -1

    def thread(gi, tname):
        if tname == "main":
            return "c"
        if tname.startswith("read_thread"):
            return "r"
        if tname.startswith("sort_thread"):
            return "s"
        if tname.startswith("worker_thread_"):
            return "w" + tname[len("worker_thread_"):].split("(")[0]
        if (gi, tname) in wk:
            return "w%d" % wk[(gi, tname)]
        return "?"

    for e in events:
        tname, op = e[0], e[1]
        if op == "abort":
            break  # what follows is the harness tearing the node down from inside an unfinished next()
        if op == "gen":
            cur_gen = e[2]
            continue
        if op in ("start", "pstart", "join", "terminate"):
            continue
        if op == "src":
            gi = by_vt.get(e[3])
            if gi is None:
                bad.append("source driven by an unknown thread: %r" % (e,))
                continue
            if e[2] == "exit":
                traces[gi].append(["r", "exit"])
                continue
            if gi != cur_gen:
                stale.add(gi)  # a reader of an old generation drives the source after a newer iterator was created
            traces[gi].append(["r", "enter"] if e[2] == "enter" else ["r", "leave", e[4], e[5]])
            continue
        if op in ("ret", "state"):
            if 0 <= cur_gen < len(traces):
                traces[cur_gen].append(["c", op] + list(e[2:]))
            continue
        if op == "die":
            gi = e[2]
            traces[gi].append(["w%d" % e[3], "die"])
            continue
        obj = e[2]
        if obj not in by_name:
            continue  # objects of other nodes
        gi, role = by_name[obj]
        th = thread(gi, tname)
        tr = traces[gi]
        if role == "store":
            if op == "put":
                m = _STORE.match(e[3])
                if not m:
                    bad.append("unparsed store payload %r" % (e,))
                elif int(m.group(1)) == -1:
                    tr.append(["r", "init"])
                else:
                    tr.append(["r", "append", int(m.group(1)), int(m.group(2))])
            elif op == "get":
                tr.append(["c", "boot", 0 if e[3] == "empty" else 1])
            elif op == "pop":
                tr.append(["c", "pop", e[3], 0 if e[4] is None else 1, 0 if e[4] is None else e[4]])
        elif role in ("stop", "mpstop"):
            if op == "is_set":
                if th == "c":
                    tr.append(["c", "isset" if role == "stop" else "mpisset", int(e[3])])
                else:
                    tr.append([th, "isset", int(e[3])])
            elif op == "set":
                tr.append(["c", "set" if role == "stop" else "mpset"])
        elif role == "sem":
            if op == "acquire":
                tr.append(["r", "acq", int(e[3])])
            elif op == "release":
                tr.append(["c", "release", e[3]])
        elif role in ("inq", "mid", "sq"):
            if op == "empty":
                tr.append([th, "empty", int(e[3])])
                continue
            if e[3] == "empty":
                tr.append([th, "get", 3])
                continue
            if e[3] == "pending":
                continue
            p = parse_payload(e[3])
            if p is None:
                bad.append("unparsed payload %r" % (e,))
                continue
            tr.append([th, op, p[0], p[1], p[2]])
    if bad:
        for tr in traces:
            tr.append(["?", "; ".join(bad)[:300]])
    return traces, stale


# --------------------------------------------------------------------------------------------------------------
# running one case on the real code


def build_node(case, src):
    from torchdata.nodes import ParallelMapper
    return ParallelMapper(src, MapFn(case["fail"], case.get("slow", ()), case.get("fail_empty", False)), num_workers=case["N"], in_order=case["in_order"], method=case["method"],
                          max_concurrent=case["mc"], snapshot_frequency=case["f"])


class Run:
    """result of one case"""

    def __init__(self):
        self.obs: List[Any] = []          # per op: ("i", y) | ("e", kind) | ("s",) | ("sd", pos, steps) | ("reset",) | ("hang",) …
        self.events: List[tuple] = []
        self.gens: List[Gen] = []
        self.hang: Optional[str] = None
        self.max_held = 0
        self.held_at: Optional[str] = None
        self.max_inside = 0
        self.leaks: List[str] = []
        self.sds: List[Any] = []
        self.n_timeouts = 0
        self.n_switch = 0
        self.killed = False
        self.internal: Optional[str] = None


def _err_kind(e: BaseException) -> str:
    if isinstance(e, SrcErr):
        return "src"
    if isinstance(e, MapErr):
        return "map"
    return type(e).__name__


def run_case(case, log=True, probe_held=False, check_release=False, delay=0.0, op_budget=30.0) -> Run:
    """Runs the consumer history of `case` on the real ParallelMapper under the virtual scheduler."""
    r = Run()
    sc = case["sched"]
    weights = None
    if sc.get("starve") is not None:
        weights = {("worker_thread_%d" % sc["starve"]): 0.05}
    kill = case.get("kill")
    import gc
    gc_was = gc.isenabled()
    _freeze_heap()
    gc.disable()  # a cyclic-GC run may call `_ParallelMapperIter.__del__` (=> switch points) at arbitrary places; collect at op boundaries
    try:
        return _run_case(case, r, sc, weights, kill, probe_held, check_release, delay, op_budget)
    finally:
        if gc_was:
            gc.enable()


_frozen = False


def _freeze_heap():
    """torch's import leaves a very large heap; a full collection costs ~80 ms.  Move what exists now to the permanent
    generation once per process so that the explicit collections at operation boundaries only look at the case's objects."""
    global _frozen
    if not _frozen:
        import gc
        import torch  # noqa: F401  (import everything heavy BEFORE freezing)
        import torchdata.nodes  # noqa: F401
        import torchdata.nodes.map  # noqa: F401
        gc.collect()
        gc.freeze()
        _frozen = True


class _Benign:
    """`with _Benign(s):` — timeouts fire only when nothing can run (no adversarial inflation of virtual time): used around
    reset()/del, whose timed joins (0.5 s) would otherwise "give up" on a reader that is merely not scheduled."""

    def __init__(self, s):
        self.s = s

    def __enter__(self):
        self.adv = self.s.adversarial
        self.s.adversarial = False

    def __exit__(self, *a):
        self.s.adversarial = self.adv
        return False


def _run_case(case, r, sc, weights, kill, probe_held, check_release, delay, op_budget):
    delay = case.get("delay", delay)
    import gc
    with Instr() as instr:
        with Session(sc["seed"], adversarial=bool(sc.get("adv")), log=True, weights=weights, op_budget=op_budget) as s:
            src = Src(case["items"], case["term"], delay=delay)
            src.replay_only = bool(case.get("replay_only"))
            node = build_node(case, src)
            state = {"ev_i": 0, "taken": {}, "gen_of_q": {}}

            if kill is not None:
                cnt = {"n": 0}

                def plan(sched, me):
                    g = instr.gens[-1] if instr.gens else None
                    if g is None or r.killed:
                        return False
                    # worker `kill["worker"]` of the live generation dies at its `at`-th switch point
                    wi = g.wnames.get(me.name)
                    if wi is None:
                        nm = me.name
                        if nm.startswith("worker_thread_") and me in g.vts_early():
                            wi = int(nm[len("worker_thread_"):].split("(")[0])
                    if wi != kill["worker"]:
                        return False
                    cnt["n"] += 1
                    if cnt["n"] == kill["at"]:
                        r.killed = True
                        sched.ev("die", g.idx, wi)
                        return True
                    return False

                s.kill_plan = plan

            if probe_held:
                mx = max_tasks(case)

                def hook(sched):
                    # held = results handed out by the source to this generation's reader − messages the consumer took
                    evs = sched.events
                    i = state["ev_i"]
                    while i < len(evs):
                        e = evs[i]
                        i += 1
                        if e[0] == "main" and e[1] == "get" and len(e) > 3 and e[3] != "empty":
                            state["taken"][e[2]] = state["taken"].get(e[2], 0) + 1
                    state["ev_i"] = i
                    for g in instr.gens:
                        if g.reader_vt is None:
                            continue
                        outq = None
                        for n, role in g.names.items():
                            if role == ("sq" if case["in_order"] else "mid"):
                                outq = n
                        pulled = src.pulled_by.get(id(g.reader_vt), 0)
                        h = pulled - state["taken"].get(outq, 0)
                        if h > r.max_held:
                            r.max_held = h
                            if h > mx and r.held_at is None:
                                r.held_at = f"generation {g.idx}: {pulled} results pulled, {state['taken'].get(outq, 0)} taken by the consumer, max_concurrent={mx}"

                s.hooks.append(hook)

            def old_alive(upto):
                out = []
                for g in instr.gens[:upto]:
                    for vt in g.vts:
                        if vt.state != "done":
                            out.append(f"gen{g.idx}:{vt.name}")
                return out

            try:
                for op in case["hist"]:
                    gc.collect()
                    s.begin_op()
                    if node is None and op != "reload":
                        r.obs.append(("skip",))
                        continue
                    if op == "next":
                        try:
                            y = next(node)
                            s.ev("ret", 0, y)
                            r.obs.append(("i", y))
                        except StopIteration:
                            s.ev("ret", 1, 0)
                            r.obs.append(("s",))
                        except VHang:
                            raise
                        except Exception as e:  # noqa: BLE001
                            s.ev("ret", 2, 0)
                            r.obs.append(("e", _err_kind(e)))
                    elif op == "nexterr":
                        # next() until it raises anything (the following op then runs right after the error)
                        for _ in range(len(case["items"]) + 3):
                            try:
                                y = next(node)
                                s.ev("ret", 0, y)
                                r.obs.append(("i", y))
                            except StopIteration:
                                s.ev("ret", 1, 0)
                                r.obs.append(("s",))
                                break
                            except VHang:
                                raise
                            except Exception as e:  # noqa: BLE001
                                s.ev("ret", 2, 0)
                                r.obs.append(("e", _err_kind(e)))
                                break
                    elif op == "sd":
                        sd = node.state_dict()
                        it = sd["it_state"]
                        snap = it["snapshot"]
                        s.ev("state", snap.get("pos", -1), it["steps_since_snapshot"])
                        r.sds.append(sd)
                        r.obs.append(("sd", snap.get("pos", -1), it["steps_since_snapshot"]))
                    elif op == "idle":
                        # the consumer pauses: every background thread runs until it blocks (read-ahead reaches its maximum)
                        with _Benign(s):
                            s.switch(lambda: False, 0.35)
                        r.obs.append(("idle",))
                    elif op == "reset":
                        n_before = len(instr.gens)
                        with _Benign(s):
                            node.reset()
                        r.obs.append(("reset",))
                        if check_release:
                            s.idle_until_quiet_old = True
                            _wait_old(s, instr, n_before, 5.0)
                            la = old_alive(n_before)
                            if la:
                                r.leaks.append("after reset: " + ",".join(la))
                    elif op == "reload":
                        n_before = len(instr.gens)
                        sd = r.sds[-1] if r.sds else None
                        if node is not None:
                            with _Benign(s):
                                del node
                        node = None
                        src = Src(case["items"], case["term"], delay=delay)
                        src.replay_only = bool(case.get("replay_only"))
                        node = build_node(case, src)
                        try:
                            node.reset(sd)
                            r.obs.append(("reload",))
                        except VHang:
                            raise
                        except Exception as e:  # noqa: BLE001
                            r.obs.append(("reload_err", _err_kind(e)))
                            node = None  # a raising reset() leaves a half-initialised node: end of this node's history
                    elif op == "del":
                        n_before = len(instr.gens)
                        with _Benign(s):
                            del node
                        node = None
                        r.obs.append(("del",))
                        if check_release:
                            _wait_old(s, instr, n_before, 5.0)
                            la = old_alive(n_before)
                            if la:
                                r.leaks.append("after del: " + ",".join(la))
                    if check_release and r.obs and r.obs[-1] == ("s",) and instr.gens:
                        _wait_old(s, instr, len(instr.gens), 5.0)
                        la = old_alive(len(instr.gens))
                        if la:
                            r.leaks.append("after exhaustion: " + ",".join(la))
            except VHang as h:
                r.hang = str(h)
                r.obs.append(("hang",))
                s.ev("abort")  # the harness unwinds the consumer out of next(): its later events are not the protocol's
            r.events = list(s.events)
            r.n_timeouts = s.n_timeouts
            r.n_switch = s.n_switch
            r.max_inside = src.max_inside
            r.gens = instr.gens
            node = None
    return r


def _wait_old(s, instr, upto, limit):
    """consumer idles (virtual time passes) until every thread of generations < upto has exited, or `limit` seconds"""
    end = s.clock + limit
    s.begin_op()

    def alive():
        return any(vt.state != "done" for g in instr.gens[:upto] for vt in g.vts)

    # While the consumer idles, time passes only when nothing can run (benign timeouts, no starvation): a thread that is
    # still alive after `limit` virtual seconds has then really had every chance to exit.
    adv, w = s.adversarial, s.weights
    s.adversarial, s.weights = False, {}
    try:
        while alive() and s.clock < end and s.hang is None:
            s.switch(lambda: False, min(0.5, end - s.clock))
            s.begin_op()
    finally:
        s.adversarial, s.weights = adv, w


# --------------------------------------------------------------------------------------------------------------
# generators


def gen_case(rng, method="thread", allow_reset=True) -> Dict[str, Any]:
    N = rng.choice([1, 1, 2, 2, 3])
    mc = None if rng.random() < 0.5 else rng.randrange(1, N + 1)
    n = rng.choice([0, 1, 2, 3, 4, 5, 6, 7, 8])
    items = list(range(10, 10 + n))
    term = "error" if rng.random() < 0.25 else "stop"
    fail = sorted(rng.sample(items, rng.choice([0, 0, 0, 1, 2]) if n >= 2 else 0)) if items else []
    f = rng.choice([0, 1, 1, 2, 3])
    in_order = rng.random() < 0.7
    hist: List[str] = []
    total = n + 1
    style = rng.choice(["exhaust", "exhaust", "sd_every", "partial_reset", "reload"]) if allow_reset else rng.choice(["exhaust", "sd_every"])
    if style == "exhaust":
        hist = ["next"] * (total + rng.choice([0, 1, 2]))
    elif style == "sd_every":
        hist = ["sd"]
        for _ in range(total + 1):
            hist += ["next", "sd"]
    elif style == "partial_reset":
        k = rng.randrange(0, total + 1)
        hist = ["next"] * k + ["reset"] + ["next"] * (total + 1)
    else:
        k = rng.randrange(0, total + 1)
        hist = ["next"] * k + ["sd", "reload", "sd"] + ["next"] * (total + 1 - min(k, total))
    if term == "error" or fail:
        # after a SOURCE error the next next() hangs (known defect C11-a): stop the history at the error for K-T cases
        pass
    sched = {"seed": rng.randrange(1 << 30), "adv": rng.random() < 0.4, "starve": (rng.randrange(N) if rng.random() < (0.45 if N >= 2 else 0.1) else None)}
    slow = sorted(rng.sample(items, rng.choice([1, 1, 2]))) if (len(items) >= 2 and rng.random() < 0.3) else []
    return {"N": N, "mc": mc, "f": f, "in_order": in_order, "method": method, "items": items, "term": term, "fail": fail,
            "hist": hist, "sched": sched, "kill": None, "slow": slow, "fail_empty": bool(fail) and rng.random() < 0.3}


def model_cfg(case, g: Gen) -> Dict[str, Any]:
    base = 0 if g.base < 0 else g.base
    return {"N": case["N"], "max": max_tasks(case), "f": case["f"], "in_order": case["in_order"], "proc": case["method"] == "process",
            "src": case["items"][base:], "term": case["term"], "mul": MUL, "add": ADD, "fail": case["fail"], "base": base}


# --------------------------------------------------------------------------------------------------------------
# K-T


def _kt_one(ctx: Ctx, case) -> Optional[Dict[str, Any]]:
    r = run_case(case, op_budget=4.0)
    traces, stale = translate(r.events, r.gens, case["in_order"])
    reqs = []
    for g, tr in zip(r.gens, traces):
        reqs.append({"m": "pm", "cfg": model_cfg(case, g), "trace": tr})
    return {"case": case, "reqs": reqs, "hang": r.hang, "obs": r.obs, "tmo": r.n_timeouts,
            "overlap": r.max_inside > 1 or bool(stale)}


def run_kt(ctx: Ctx, n_quick: int = 700, n_thorough: int = 8000):
    """K-T leg: every event trace of the real threads must be accepted by the Lean model."""
    _freeze_heap()  # in the parent, so that the forked workers inherit the loaded (and frozen) torch heap
    n = ctx.n(n_quick, n_thorough)
    rng = ctx.sub_rng("kt_pm")
    cases = [gen_case(rng) for _ in range(n)]
    # method="process" with a worker killed at some switch point (the model's wDie), about one case in ten
    for c in gen_kill_jobs(rng, max(1, n // 60), 6):
        cases.append(c)
    results = ctx.pmap(_kt_one, cases)
    reqs, metas = [], []
    for res in results:
        if res is None:
            continue
        if res["overlap"]:
            ctx.count("kt_pm:skipped_two_threads_in_source")
            continue
        for gi, q in enumerate(res["reqs"]):
            reqs.append(q)
            metas.append((res, gi))
    answers = Driver().run(reqs) if reqs else []
    for (res, gi), q, ans in zip(metas, reqs, answers):
        case = res["case"]
        ctx.model_lines += len(q["trace"])
        if "error" in ans:
            ctx.diverge("kt_pm", {"case": case, "gen": gi}, "model driver error: " + str(ans["error"]))
            continue
        if not ans.get("ok"):
            at = ans.get("at", 0)
            ctx.diverge("kt_pm", {"case": case, "gen": gi}, f"{ans.get('why')} ; context: {q['trace'][max(0, at - 6):at + 1]}")
            continue
        ctx.traces_validated += 1
        nontriv = ans.get("ooo", 0) > 0 or ans.get("tmo", 0) > 0
        ctx.case("kt_pm", {"case": case, "gen": gi}, nontriv)
        ctx.count("kt_pm:N=%d" % case["N"])
        ctx.count("kt_pm:in_order=%s" % case["in_order"])
        ctx.count("kt_pm:f=%d" % case["f"])
        ctx.count("kt_pm:sched=%s" % ("adv" if case["sched"]["adv"] else "starve" if case["sched"]["starve"] is not None else "random"))
        if ans.get("ooo", 0) > 0:
            ctx.count("kt_pm:out_of_order_at_sorter")
        if ans.get("tmo", 0) > 0:
            ctx.count("kt_pm:timeout_fired")
        ctx.count("kt_pm:events", len(q["trace"]))
        if len(ctx.samples) < 2:
            ctx.sample({"leg": "kt_pm", "case": case, "gen": gi, "events": len(q["trace"]), "answer": ans})


# --------------------------------------------------------------------------------------------------------------
# K-O: the properties measured directly on the real threads


# Both C11 hangs of ParallelMapper were repaired in /repo (commits f3c1516, ac1bf0c): nothing is a known finding any more.
# A hang that returns is a VIOLATION; the two regression witnesses live in corpus/C11/fixed-pm-*.json.
KNOWN: Dict[str, Any] = {}


def _classify_hang(ctx: Ctx, case, r: Run, oracle: str):
    inp = {"oracle": oracle, "case": case}
    seen = [o for o in r.obs if o != ("hang",)]
    if r.killed:
        ctx.fail("C11:hang_after_worker_death", inp,
                 f"method=process: worker {case['kill']['worker']} was killed at its switch point {case['kill']['at']}; a later next() "
                 f"polls forever ({r.hang}); results before the hang: {seen[-4:]}")
    elif ("e", "src") in r.obs:
        ctx.fail("C11:hang_after_source_error", inp,
                 f"the source raised, next() re-raised it once, and the following next() polls forever ({r.hang}); "
                 f"results before the hang: {seen[-4:]}")
    else:
        # adversarial timeouts inflate virtual time: confirm with a budget of 400 virtual seconds before reporting
        r2 = run_case(case, op_budget=400.0)
        if r2.hang is not None:
            ctx.fail("C11:hang", inp, f"next() did not return within 400 virtual seconds ({r2.hang}); results so far: {seen[-6:]}")
        else:
            ctx.count("ko_pm:slow_only_under_adversarial_timeouts")


def check_stream(ctx: Ctx, case, r: Run, oracle: str):
    """C04 / C11 on the observed result sequence of a history made of next() calls only."""
    inp = {"oracle": oracle, "case": case}
    ref = ref_results(case)
    obs = [o for o in r.obs if o[0] in ("i", "e", "s")]
    canon = [("i", o[1]) if o[0] == "i" else ("e", 0) if o[0] == "e" else ("s", 0) for o in obs]
    if case["in_order"] and not r.killed:
        # results must be the reference sequence, then StopIteration for ever
        # … the reference sequence, then StopIteration for ever (also after a source error: the stream is over)
        exp = list(ref) + [("s", 0)] * max(0, len(canon) - len(ref))
        if canon[:len(exp)] != exp[:len(canon)]:
            k = next((j for j, (a, b) in enumerate(zip(canon, exp)) if a != b), min(len(canon), len(exp)))
            ctx.fail("C04:stream_differs", inp, f"result {k} of successive next() calls is {canon[k:k + 2]}, reference {exp[k:k + 2]}")
    elif not r.killed:
        items = sorted(o[1] for o in canon if o[0] == "i")
        ref_items = sorted(o[1] for o in ref if o[0] == "i")
        n_err = sum(1 for o in canon if o[0] == "e")
        exp_err = len(case["fail"]) + (1 if case["term"] == "error" else 0)
        if ("s", 0) in canon:
            first_stop = canon.index(("s", 0))
            if any(o != ("s", 0) for o in canon[first_stop:]):
                ctx.fail("C11:item_after_stop", inp, f"a result after StopIteration: {canon[first_stop:first_stop + 3]}")
            if case["term"] != "stop" and ("e", "src") not in obs[:first_stop]:
                ctx.fail("C11:stop_instead_of_error", inp, "StopIteration was raised although the source ended with an exception that was never raised")
            elif items != ref_items or n_err != exp_err:
                ctx.fail("C04:multiset_differs", inp, f"at StopIteration delivered items {items}, errors {n_err}; reference {ref_items}, {exp_err}")
        else:
            bad = [x for x in items if x not in ref_items] or len(items) != len(set(items))
            if bad:
                ctx.fail("C04:multiset_differs", inp, f"delivered {items} is not a sub-multiset of the reference {ref_items}")
    # errors carry the right kind
    for o in r.obs:
        if o[0] == "e" and o[1] not in ("src", "map") and not (r.killed and o[1] == "RuntimeError"):
            ctx.fail("C11:unexpected_exception", inp, f"next() raised {o[1]}")
    if r.killed and r.hang is None and ("s", 0) in canon and ("e", "RuntimeError") not in r.obs:
        # a worker died: a clean end of stream is acceptable only if nothing was lost
        items = sorted(o[1] for o in canon if o[0] == "i")
        ref_items = sorted(o[1] for o in ref if o[0] == "i")
        if items != ref_items:
            ctx.fail("C11:stop_after_worker_death_without_error", inp,
                     f"a worker process was killed, items {sorted(set(ref_items) - set(items))} were never delivered, and next() raised StopIteration without any error")
    if r.hang is not None:
        _classify_hang(ctx, case, r, oracle)


def _ko_stream(ctx: Ctx, case):
    r = run_case(case, probe_held=True, check_release=True, op_budget=4.0)
    check_stream(ctx, case, r, "stream")
    inp = {"oracle": "stream", "case": case}
    mx = max_tasks(case)
    if r.held_at is not None:
        ctx.fail("C12:held_exceeds", inp, r.held_at)
    if r.max_inside > 1:
        ctx.fail("C12:two_threads_in_source", inp, f"{r.max_inside} threads were inside the source's next() / reset() at the same time")
    for l in r.leaks:
        ctx.fail(_leak_kind(l), inp, f"still alive after 5 virtual seconds of idling {l}")
    ctx.case("ko_pm_stream", case, r.n_timeouts > 0 or len(case["items"]) > 1)
    ctx.count("ko_pm:max_held=%d/%d" % (r.max_held, mx))
    ctx.count("ko_pm:hang" if r.hang else "ko_pm:no_hang")
    return None


def _ko_resume(ctx: Ctx, job):
    """C06: state_dict at consumer position k under one schedule -> fresh node, reset(sd) under another schedule -> remainder"""
    case, k, sched2 = job
    c1 = dict(case)
    c1["hist"] = ["next"] * k + ["sd"]
    r1 = run_case(c1, op_budget=4.0)
    inp = {"oracle": "resume", "case": case, "k": k, "sched2": sched2}
    if r1.hang is not None or not r1.sds:
        if r1.hang is not None:
            _classify_hang(ctx, c1, r1, "resume")
        return None
    ref = ref_results(case)
    if any(o[0] == "e" for o in r1.obs):
        return None  # C06 is stated for streams on which no error has been raised
    sd = r1.sds[-1]
    delivered = sum(1 for o in r1.obs if o[0] == "i")
    it = sd["it_state"]
    f = case["f"]
    jstar = (delivered // f) * f if f > 0 else 0
    if case.get("replay_only"):
        if (it["snapshot"], it["steps_since_snapshot"]) != ({}, delivered):
            ctx.fail("C06:state_not_closed_form", inp,
                     f"replay-only source: after {delivered} items state_dict() = (snapshot {it['snapshot']}, steps {it['steps_since_snapshot']}), "
                     f"expected the initial (empty) snapshot and {delivered} steps")
    elif (it["snapshot"]["pos"], it["steps_since_snapshot"]) != (jstar, delivered - jstar):
        ctx.fail("C06:state_not_closed_form", inp,
                 f"after {delivered} items state_dict() = (source position {it['snapshot']['pos']}, steps {it['steps_since_snapshot']}), "
                 f"closed form ({jstar}, {delivered - jstar})")
    c2 = dict(case)
    c2["sched"] = sched2
    rest = len(ref) - delivered
    c2["hist"] = ["next"] * (rest if ref[-1] == ("e", 0) else rest + 1)
    r2 = _run_resumed(c2, sd)
    got = [("i", o[1]) if o[0] == "i" else ("e", 0) if o[0] == "e" else ("s", 0) for o in r2.obs if o[0] in ("i", "e", "s")]
    exp = ref[min(delivered, len(ref)):] if delivered < len(ref) else [("s", 0)]
    if ref[-1] == ("s", 0):
        exp = exp + [("s", 0)]
    if r2.hang is None and got[:len(exp)] != exp[:len(got)] or (r2.hang is None and len(got) < min(len(exp), len(c2["hist"]))):
        ctx.fail("C06:resume_differs", inp, f"state taken after {delivered} items; resumed stream {got}, reference remainder {exp}")
    if r2.obs and r2.obs[0][0] == "reload_err":
        ctx.fail("C06:resume_raises", inp, f"reset(state_dict) raised {r2.obs[0][1]}")
    ctx.case("ko_pm_resume", inp, delivered > 0 and delivered % max(f, 1) != 0 or r1.n_timeouts > 0)
    ctx.count("ko_pm:resume_pos_mod_f=%s" % ("boundary" if f > 0 and delivered % f == 0 else "inside" if f > 0 else "f0"))
    return None


def _run_resumed(case, sd) -> Run:
    r = Run()
    import gc
    gc_was = gc.isenabled()
    _freeze_heap()
    gc.disable()
    try:
        sc = case["sched"]
        with Instr() as instr:
            with Session(sc["seed"], adversarial=bool(sc.get("adv")), log=False, op_budget=4.0) as s:
                src = Src(case["items"], case["term"])
                src.replay_only = bool(case.get("replay_only"))
                node = build_node(case, src)
                try:
                    s.begin_op()
                    try:
                        node.reset(sd)
                    except VHang:
                        raise
                    except Exception as e:  # noqa: BLE001
                        r.obs.append(("reload_err", _err_kind(e)))
                        node = None
                    for _op in case["hist"]:
                        if node is None:
                            break
                        s.begin_op()
                        try:
                            r.obs.append(("i", next(node)))
                        except StopIteration:
                            r.obs.append(("s",))
                        except VHang:
                            raise
                        except Exception as e:  # noqa: BLE001
                            r.obs.append(("e", _err_kind(e)))
                except VHang as h:
                    r.hang = str(h)
                node = None
    finally:
        if gc_was:
            gc.enable()
    return r


JOIN_TIMEOUT = 0.5  # `_shutdown`: `self._read_thread.join(timeout=QUEUE_TIMEOUT * 5)`


def _leak_kind(l: str) -> str:
    return "C17:workers_not_released" if ("worker_thread" in l or "Process-" in l) else "C17:thread_not_released"


def _ko_lifecycle(ctx: Ctx, case):
    """C17 / C12 / C04 across reset / del / exhaustion (also after errors, also method="process", also slow sources):
    threads and worker processes of an abandoned generation exit within 5 virtual seconds; no reader of an abandoned
    generation touches the source once a newer iterator is being constructed; the epoch after a reset is the reference."""
    slow = case.get("delay", 0.0) > 0
    r = run_case(case, probe_held=True, check_release=True, op_budget=40.0 if slow else 8.0)
    inp = {"oracle": "lifecycle", "case": case}
    for l in r.leaks:
        ctx.fail(_leak_kind(l), inp, f"still alive after 5 virtual seconds of idling {l}")
    if r.held_at is not None:
        ctx.fail("C12:held_exceeds", inp, r.held_at)
    if r.hang is not None:
        _classify_hang(ctx, case, r, "lifecycle")
    _tr, stale = translate(r.events, r.gens, case["in_order"])
    if stale:
        ctx.fail("C12:abandoned_reader_drives_source", inp,
                 f"the reader thread of iterator generation(s) {sorted(stale)} called the source after the constructor of a newer "
                 f"iterator had started (source delay {case.get('delay', 0.0)} s, join timeout {JOIN_TIMEOUT} s)")
        ctx.count("ko_pm:old_reader_after_reset")
    if r.max_inside > 1:
        ctx.fail("C12:two_threads_in_source", inp, f"{r.max_inside} threads were inside the source's next() / reset() at the same time")
    # the epoch after a reset starts from the first item again and is complete (in order).  With a source slower than the
    # join timeout the known C12 defect also damages the epoch: that region is reported under C12 only.
    if "reset" in case["hist"] and case["in_order"] and r.hang is None and case.get("delay", 0.0) <= JOIN_TIMEOUT:
        ref = ref_results(case)
        segs, cur = [], None
        for o in r.obs:
            if o == ("reset",):
                cur = []
                segs.append(cur)
            elif cur is not None and o[0] in ("i", "e", "s"):
                cur.append(("i", o[1]) if o[0] == "i" else ("e", 0) if o[0] == "e" else ("s", 0))
        for canon in segs:
            exp = list(ref) + [("s", 0)] * max(0, len(canon) - len(ref))
            if canon[:len(exp)] != exp[:len(canon)]:
                ctx.fail("C04:epoch_incomplete_after_reset", inp, f"after reset() the stream is {canon[:6]}, reference {exp[:6]}")
                break
    ctx.case("ko_pm_lifecycle", case, True)
    ctx.count("ko_pm:lifecycle:%s%s" % (case["method"], ":slow" if slow else ""))
    return None


def is_reset_while_reader_in_slow_source(f: Failure) -> bool:
    """Known C12 region, and nothing broader: `_shutdown`'s timed join of the reader gave up because the reader was inside a
    source whose next() takes longer than the join timeout."""
    case = f.inp.get("case", {}) if isinstance(f.inp, dict) else {}
    return (f.kind in ("C12:two_threads_in_source", "C12:abandoned_reader_drives_source")
            and case.get("delay", 0.0) > JOIN_TIMEOUT)


KNOWN_C12 = {"reset-while-reader-in-slow-source": is_reset_while_reader_in_slow_source}


def gen_kill_jobs(rng, n_cfg: int, max_at: int):
    jobs = []
    for _ in range(n_cfg):
        N = rng.choice([1, 2])
        n = rng.choice([1, 2, 3])
        case0 = {"N": N, "mc": None, "f": rng.choice([0, 1, 2]), "in_order": rng.random() < 0.6, "method": "process",
                 "items": list(range(10, 10 + n)), "term": "stop", "fail": [], "hist": ["next"] * (n + 2),
                 "sched": {"seed": rng.randrange(1 << 30), "adv": False, "starve": None}}
        w = rng.randrange(N)
        for at in range(1, max_at + 1):
            c = dict(case0)
            c["kill"] = {"worker": w, "at": at}
            jobs.append(c)
    return jobs


def _ko_kill(ctx: Ctx, case):
    r = run_case(case, op_budget=4.0)
    check_stream(ctx, case, r, "kill")
    ctx.case("ko_pm_kill", case, r.killed)
    ctx.count("ko_pm:kill:" + ("not_reached" if not r.killed else "hang" if r.hang else "survived"))
    return None


def witness_cases():
    """The two `decide`-proved stuck states of the model (TDV.PM.cfgA / cfgB), as cases for the real code."""
    a = {"N": 1, "mc": None, "f": 1, "in_order": True, "method": "thread", "items": [], "term": "error", "fail": [],
         "hist": ["next", "next", "next"], "sched": {"seed": 1, "adv": False, "starve": None}, "kill": None}
    # worker 0's third switch point is the one inside map_fn: it dies holding item 0
    b = {"N": 1, "mc": None, "f": 0, "in_order": True, "method": "process", "items": [5], "term": "stop", "fail": [],
         "hist": ["next", "next", "next"], "sched": {"seed": 1, "adv": False, "starve": None}, "kill": {"worker": 0, "at": 3}}
    return a, b


def replay_witnesses(ctx: Ctx):
    """the two situations that used to hang (fixed in /repo): they must not hang, the usual oracles apply"""
    a, b = witness_cases()
    _ko_stream(ctx, a)
    _ko_kill(ctx, b)


def run_ko(ctx: Ctx, scale: float = 1.0):
    """K-O legs: C04 outputs vs reference, C06 resume at every position, C11 extra next() / hangs, C12 held <= max at every
    switch point, C17 threads released, C11-b process worker killed at enumerated switch points."""
    _freeze_heap()
    rng = ctx.sub_rng("ko_pm")
    replay_witnesses(ctx)
    # stream cases, several schedules each
    stream = []
    for _ in range(int(ctx.n(220, 2000) * scale)):
        c = gen_case(rng, allow_reset=False)
        total = len(c["items"]) + 1
        c["hist"] = ["next"] * (total + 2)
        if c["fail"] or rng.random() < 0.3:
            # the consumer pauses after every result: the read-ahead runs to its limit (C12, also after a caught map_fn error)
            c["hist"] = [x for _ in range(total + 2) for x in ("next", "idle")]
        for k in range(ctx.n(2, 4)):
            c2 = dict(c)
            c2["sched"] = {"seed": rng.randrange(1 << 30), "adv": k % 2 == 1, "starve": (rng.randrange(c["N"]) if k == 2 else None)}
            stream.append(c2)
    ctx.pmap(_ko_stream, stream)
    # resume at every position
    jobs = []
    for _ in range(int(ctx.n(90, 800) * scale)):
        c = gen_case(rng, allow_reset=False)
        c["in_order"] = True
        c["fail"] = []
        c["replay_only"] = rng.random() < 0.2
        total = len(c["items"])
        ks = list(range(total + 2))
        if len(ks) > ctx.n(4, 10):
            ks = sorted(rng.sample(ks, ctx.n(4, 10)))
        for k in ks:
            jobs.append((c, k, {"seed": rng.randrange(1 << 30), "adv": rng.random() < 0.5, "starve": None}))
    ctx.pmap(_ko_resume, jobs)
    # lifecycles
    life = []
    for _ in range(int(ctx.n(140, 1000) * scale)):
        c = gen_case(rng, allow_reset=False)
        total = len(c["items"]) + 1
        k = rng.randrange(0, total + 1)
        tail = rng.choice([["reset"] + ["next"] * (total + 1), ["del"], ["reset", "next", "reset"] + ["next"] * total + ["del"]])
        c["hist"] = ["next"] * k + tail
        if c["term"] == "error" and k >= total:
            c["hist"] = ["next"] * (total - 1) + tail
        life.append(c)
    # method="process" (and thread) after an error: error -> reset / del / exhaust (C17: the workers must be released)
    for _ in range(int(ctx.n(36, 400) * scale)):
        c = gen_case(rng, allow_reset=False)
        c["method"] = rng.choice(["process", "process", "thread"])
        n = max(2, len(c["items"]))
        c["items"] = list(range(10, 10 + n))
        if rng.random() < 0.5:
            c["term"], c["fail"] = "stop", [rng.choice(c["items"][:-1])]
            k = c["items"].index(c["fail"][0]) + 1 if c["in_order"] else n
        else:
            c["term"], c["fail"] = "error", []
            k = n + 1
        tail = rng.choice([["reset"] + ["next"] * (n + 2), ["del"], ["next"] * (n + 3)])
        c["hist"] = ["next"] * k + tail
        c["sched"]["adv"] = False
        life.append(c)
    # sources slower than the join timeout, reset mid-epoch (the known C12 region), and a bit faster (must be clean)
    for d in (0.7, 0.3):
        for _ in range(int(ctx.n(4, 40) * scale) or 1):
            c = gen_case(rng, allow_reset=False)
            n = max(3, min(5, len(c["items"])))
            c.update({"items": list(range(10, 10 + n)), "term": "stop", "fail": [], "delay": d, "in_order": True})
            c["sched"] = {"seed": rng.randrange(1 << 30), "adv": False, "starve": None}
            c["hist"] = ["next"] * rng.randrange(1, n) + ["reset"] + ["next"] * (n + 2)
            life.append(c)
    # a process worker dies while the reader is inside a moderately slow source (below the join timeout), then reset():
    # next() itself sets the stop flags when it reports the death, and the reset must still wait for the reader
    for _ in range(int(ctx.n(16, 120) * scale) or 1):
        N = rng.choice([1, 2])
        n = rng.choice([4, 5, 6])
        c = {"N": N, "mc": None, "f": rng.choice([0, 1, 2]), "in_order": True, "method": "process",
             "items": list(range(10, 10 + n)), "term": "stop", "fail": [], "delay": rng.choice([0.25, 0.3, 0.4]),
             "hist": ["nexterr", "reset"] + ["next"] * (n + 2),
             "sched": {"seed": rng.randrange(1 << 30), "adv": False, "starve": None},
             "kill": {"worker": rng.randrange(N), "at": rng.randrange(2, 14)}}
        life.append(c)
    ctx.pmap(_ko_lifecycle, life)
    # process workers killed at every switch point
    kills = gen_kill_jobs(rng, int(ctx.n(14, 80) * scale) or 1, ctx.n(20, 40))
    ctx.pmap(_ko_kill, kills)


# --------------------------------------------------------------------------------------------------------------
# replay of one failing input


def replay(ctx: Ctx, inp: Dict[str, Any]):
    """Re-runs the oracle named in a failing input (as stored by ctx.fail / ctx.diverge)."""
    case = inp["case"]
    o = inp.get("oracle")
    if o == "resume":
        return _ko_resume(ctx, (case, inp["k"], inp["sched2"]))
    if o == "lifecycle":
        return _ko_lifecycle(ctx, case)
    if o == "kill":
        return _ko_kill(ctx, case)
    if o == "stream":
        return _ko_stream(ctx, case)
    # a K-T divergence
    res = _kt_one(ctx, case)
    answers = Driver().run(res["reqs"])
    for gi, (q, ans) in enumerate(zip(res["reqs"], answers)):
        if not ans.get("ok"):
            ctx.diverge("kt_pm", {"case": case, "gen": gi}, str(ans.get("why")))
