"""C08 — a state_dict is an immutable, reusable value and taking it changes nothing.

Oracle = the property itself, on the real code:
  * every returned state dict is pickled at creation (so it can be pickled); after every later operation of the
    producing object, after loading it, and after iterating the loaded object, the dict is compared with its
    creation-time image (deep canonical comparison);
  * the same dict OBJECT loaded a second time gives the same continuation;
  * the item stream with state_dict() calls inserted at every position equals the stream without them.
Covered objects: StatefulDataLoader (all configurations of harness.sdl, virtual workers), nodes pipelines behind a
Loader and as bare BaseNodes (generator of harness/props/nodes_common.py), MultiNodeWeightedSampler.
Lean: transparency / idempotence theorems of the models (L1 of `Lawful`, Loader.get_transparent_partial,
Loader.load_idempotent, Weighted.node_resume_exact, Incr.* for value semantics of worker states).
"""
from __future__ import annotations

import copy
import gc
import pickle
import random
from typing import Any, Dict, List, Tuple

import torch

from .. import sdl, vsched
from ..core import Ctx, Failure
from . import c01 as C01
from . import sdl_ko

THEOREMS = [
    "TDV.Node.built_lawful",
    "TDV.Loader.get_transparent",
    "TDV.Loader.load_idempotent",
    "TDV.Weighted.node_resume_exact",
    "TDV.Incr.lossless_state",
]
LEAN_MODULES = ["TorchDataVerif.Props.C02", "TorchDataVerif.Props.C13", "TorchDataVerif.Props.C14", "TorchDataVerif.Props.C07"]
RULE = ("SDL configurations from harness.sdl.gen_cfg and nodes pipelines from nodes_common.gen_pipe (+ weighted sampler "
        "pipelines); for each, state dicts are taken at every position of one epoch and checked for immutability under "
        "further iteration, load, iteration of the loaded object and a second load. Non-trivial: the position is strictly "
        "inside an epoch and the object has internal mutable bookkeeping reachable from the dict (workers, caches, "
        "exhausted maps); distinct by (configuration, position).")
EXPLANATION = ("In the functional Lean models state dicts are values; the property's content there is transparency of get "
               "(L1 of Lawful, proved per combinator), idempotence of load and exact resume. Aliasing between live state and a "
               "returned/loaded dict is modelled at the reference level by TDV.Alias (heap of objects, one live bookkeeping "
               "object per component, policy = copy on the way out / copy on the way in / in-place updates): "
               "immutable_of_safe proves for EVERY history that no held dict changes under a safe policy, unsafe_mutates that "
               "every other policy has a mutating history, load_same_continuation that every load continues from the content at "
               "hand-over. The K-D leg `alias` observes object identities on the real weighted sampler, Unbatcher, Prefetcher "
               "and ParallelMapper, infers each site's policy and replays the history in the model. Sites outside that leg "
               "(StatefulDataLoader's snapshots, Loader) are decided by the byte-wise oracle on the real objects.")
ASSUMPTIONS = ["deep comparison canonicalises tensors to lists and dict order; pickle is the serialisation the property names"]


def canon(x):
    return sdl_ko.canon_sd(x)


# ------------------------------------------------------------------------------------------------ SDL


def check_sdl(ctx: Ctx, job):
    cfg, seed = job["cfg"], job["seed"]
    det = cfg.get("sampler", "seq") != "shuffle"
    with vsched.Session(seed) as s:
        torch.manual_seed(7)
        loader = sdl.build(cfg)
        live: Dict[int, Any] = {}   # position -> the very dict object handed out
        image: Dict[int, Any] = {}  # position -> canonical image at creation
        stream: List[Any] = []
        for _ in range(2):
            it = iter(loader)
            while True:
                p = len(stream)
                s.begin_op()
                try:
                    sd = loader.state_dict()
                    pickle.dumps(sd)
                except Exception as e:
                    ctx.fail("C08:not_picklable", job, f"state_dict() at position {p} cannot be pickled: {type(e).__name__}: {e}")
                    return
                live[p] = sd
                image[p] = canon(copy.deepcopy(sd))
                o = sdl.take(it, s)
                stream.append(o)
                if o[0] != "item":
                    break
            if stream and stream[-1][0] == "stop":
                # the state of the FINISHED iterator (between StopIteration and the next iter()); key = -position
                s.begin_op()
                sd = loader.state_dict()
                live[-len(stream)] = sd
                image[-len(stream)] = canon(copy.deepcopy(sd))
        # 1. not altered by later iteration of the producer
        for p, sd in live.items():
            if canon(sd) != image[p]:
                ctx.fail("C08:altered_by_producer", job, f"the dict returned at position {p} was altered by later iteration: {sdl_ko._diff_sd(canon(sd), image[p])}")
                return
        del loader, it
        gc.collect()
    # 2. loading + iterating does not alter it; 3. the same object loaded twice gives the same continuation
    r = random.Random(seed)
    # (with RNG-driven items a finished state resumes into a NEW epoch whose worker seeds come from the ambient RNG)
    ends = [k for k in live if k < 0] if cfg["kind"] != "map_rng" else []
    pool = sorted(k for k in live if k >= 0)
    picks = r.sample(pool, min(3, len(pool))) + (r.sample(ends, 1) if ends else [])
    for key in picks:
        sd = live[key]
        p = abs(key)
        conts = []
        for rep in range(2):
            with vsched.Session(seed + 1 + rep) as s:
                torch.manual_seed(100 + rep)
                l2 = sdl.build(cfg)
                l2.load_state_dict(sd)
                try:
                    cont = C01._consume(l2, len(stream) - p, s)
                except Exception as e:
                    cont = [("error", type(e).__name__)]
                del l2
                gc.collect()
            conts.append(cont)
            if canon(sd) != image[key]:
                ctx.fail("C08:altered_by_load", job, f"the dict taken at position {key} was altered by loading it and iterating (load #{rep+1}): {sdl_ko._diff_sd(canon(sd), image[key])}")
                return
        ctx.case("ko_c08_sdl", [cfg, key], cfg["W"] > 0 and 0 < p)
        with vsched.Session(seed + 5) as s:
            torch.manual_seed(100)
            l3 = sdl.build(cfg)
            l3.load_state_dict(sd)
            try:
                s.begin_op()
                iter(l3)
                l3.load_state_dict(sd)
                cont3 = C01._consume(l3, len(stream) - p, s)
            except Exception as e:
                cont3 = [("error", type(e).__name__)]
            del l3
            gc.collect()
        with vsched.Session(seed + 6) as s:
            torch.manual_seed(100)
            l4 = sdl.build(cfg)
            l4.load_state_dict(sd)
            try:
                s.begin_op()
                l4.state_dict()  # an extra state_dict() between load and the first iter() must change nothing
                cont4 = C01._consume(l4, len(stream) - p, s)
            except Exception as e:
                cont4 = [("error", type(e).__name__)]
            del l4
            gc.collect()
        with vsched.Session(seed + 7) as s:
            # the same dict loaded into a loader of the same configuration that has ALREADY ADVANCED (its dataset, sampler and
            # iterator hold a different position): the continuation is the same again
            torch.manual_seed(100)
            l5 = sdl.build(cfg)
            try:
                it5 = iter(l5)
                for _ in range(r.choice([1, 2, 3])):
                    if sdl.take(it5, s)[0] != "item":
                        break
                s.begin_op()
                l5.load_state_dict(sd)
                del it5
                cont5 = C01._consume(l5, len(stream) - p, s)
            except Exception as e:
                cont5 = [("error", type(e).__name__)]
            del l5
            gc.collect()
        if cfg["kind"] == "map_rng":
            # the worker seeds of LATER epochs come from the loading process' ambient RNG (a fresh base seed per
            # iterator), not from the checkpoint: only the resumed epoch is comparable
            def _first_epoch(c):
                out = []
                for o in c:
                    out.append(o)
                    if o[0] != "item":
                        break
                return out
            conts = [_first_epoch(c) for c in conts]
            cont3, cont4, cont5 = _first_epoch(cont3), _first_epoch(cont4), _first_epoch(cont5)
        if cont5 != conts[0] and cfg.get("sampler") not in ("shuffle",):
            d = C01._first_diff(cont5, conts[0])
            ctx.fail("C08:load_into_advanced_loader_differs", job, f"the dict of position {p} loaded into a loader that had already delivered batches: +{d}: {cont5[d:d+3]} vs {conts[0][d:d+3]} when loaded into a fresh loader")
            return
        if cont4 != conts[0] and cfg.get("sampler") not in ("shuffle",):
            d = C01._first_diff(cont4, conts[0])
            ctx.fail("C08:state_dict_after_load_perturbs", job, f"load (position {p}); state_dict(); iterate: +{d}: {cont4[d:d+3]} vs {conts[0][d:d+3]} without the state_dict() call")
            return
        if cont3 != conts[0] and cfg.get("sampler") not in ("shuffle",):
            d = C01._first_diff(cont3, conts[0])
            ctx.fail("C08:reload_same_object_differs", job, f"load; iter(); load (same dict, position {p}); iterate: +{d}: {cont3[d:d+3]} vs {conts[0][d:d+3]} when loaded into a fresh loader")
            return
        if conts[0] != conts[1]:
            d = C01._first_diff(conts[0], conts[1])
            ctx.fail("C08:second_load_differs", job, f"loading the same dict (position {p}) twice gives different continuations at +{d}: {conts[0][d:d+3]} vs {conts[1][d:d+3]}")
            return


# ------------------------------------------------------------------------------------------------ nodes


def _weighted_pipe(rng):
    from torchdata.nodes import IterableWrapper, MultiNodeWeightedSampler, Prefetcher, Batcher
    from torchdata.nodes.samplers.stop_criteria import StopCriteria
    ns = rng.randrange(2, 4)
    lens = [rng.randrange(1, 6) for _ in range(ns)]
    crit = rng.choice([StopCriteria.ALL_DATASETS_EXHAUSTED, StopCriteria.FIRST_DATASET_EXHAUSTED, StopCriteria.CYCLE_UNTIL_ALL_DATASETS_EXHAUSTED])
    seed = rng.randrange(100)
    wrap = rng.choice(["none", "batch", "prefetch"])

    def mk():
        srcs = {f"d{k}": IterableWrapper([100 * k + i for i in range(lens[k])]) for k in range(ns)}
        node = MultiNodeWeightedSampler(srcs, {f"d{k}": float(k + 1) for k in range(ns)}, stop_criteria=crit, seed=seed, rank=0, world_size=1)
        if wrap == "batch":
            node = Batcher(node, 2, drop_last=False)
        elif wrap == "prefetch":
            node = Prefetcher(node, 2)
        return node
    return mk, {"weighted": {"lens": lens, "crit": crit, "seed": seed, "wrap": wrap}}


def check_nodes(ctx: Ctx, job):
    from torchdata.nodes import Loader
    from . import nodes_common as nc

    if "weighted" in job:
        r = random.Random(job["wseed"])
        mk, desc = _weighted_pipe(r)
        build = mk
    else:
        desc = job["pipe"]
        build = lambda: nc.build_real(desc)
    use_loader = job["loader"]
    with vsched.Session(job["seed"]) as s:
        def fresh():
            n = build()
            return (Loader(n), n) if use_loader else (n, n)

        def drive(obj, first_reset=None, limit=40):
            """iterate one epoch; yields observation list"""
            out = []
            s.begin_op()
            if use_loader:
                it = iter(obj)
            else:
                obj.reset(first_reset)
                it = obj
            while len(out) < limit:
                s.begin_op()
                try:
                    out.append(("item", nc.canon_item(next(it))))
                except StopIteration:
                    out.append(("stop",))
                    break
                except vsched.VHang as e:
                    out.append(("hang", str(e)))
                    break
                except Exception as e:
                    out.append(("error", type(e).__name__))
                    break
            return out

        obj, node = fresh()
        # reference epoch without state_dict calls
        ref = drive(obj)
        nc.shutdown(node)
        if any(o[0] in ("error", "hang") for o in ref):
            return
        obj, node = fresh()
        live, image, out = {}, {}, []
        s.begin_op()
        if use_loader:
            it = iter(obj)
        else:
            obj.reset()
            it = obj
        while len(out) < 40:
            p = len(out)
            s.begin_op()
            try:
                sd = obj.state_dict()
                pickle.dumps(sd)
            except Exception as e:
                ctx.fail("C08:not_picklable", job, f"state_dict() at position {p}: {type(e).__name__}: {e}")
                nc.shutdown(node)
                return
            live[p], image[p] = sd, canon(copy.deepcopy(sd))
            s.begin_op()
            try:
                out.append(("item", nc.canon_item(next(it))))
            except StopIteration:
                out.append(("stop",))
                break
        nc.shutdown(node)
        if out != ref:
            d = C01._first_diff(out, ref)
            ctx.fail("C08:state_dict_perturbs", job, f"with state_dict() before every item the stream differs at {d}: {out[d:d+3]} vs {ref[d:d+3]}")
            return
        for p, sd in live.items():
            if canon(sd) != image[p]:
                ctx.fail("C08:altered_by_producer", job, f"dict taken at position {p} altered by later iteration: {sdl_ko._diff_sd(canon(sd), image[p])}")
                return
        r = random.Random(job["seed"])
        for p in r.sample(sorted(live), min(3, len(live))):
            sd = live[p]
            conts = []
            for rep in range(2):
                obj2, node2 = fresh()
                if use_loader:
                    obj2.load_state_dict(sd)
                    cont = drive(obj2)
                else:
                    cont = drive(obj2, first_reset=sd)
                nc.shutdown(node2)
                conts.append(cont)
                if canon(sd) != image[p]:
                    ctx.fail("C08:altered_by_load", job, f"dict taken at position {p} altered by load #{rep+1} + iteration: {sdl_ko._diff_sd(canon(sd), image[p])}")
                    return
            ctx.case("ko_c08_nodes", [desc, use_loader, p], 0 < p < len(out) - 1)
            if use_loader:
                # the same dict loaded twice into the SAME loader, the first time without consuming anything
                obj3, node3 = fresh()
                obj3.load_state_dict(sd)
                s.begin_op()
                try:
                    iter(obj3)
                    obj3.load_state_dict(sd)
                    cont3 = drive(obj3)
                except vsched.VHang as e:
                    cont3 = [("hang", str(e))]
                except Exception as e:
                    cont3 = [("error", type(e).__name__)]
                nc.shutdown(node3)
                if cont3 != conts[0]:
                    d = C01._first_diff(cont3, conts[0])
                    ctx.fail("C08:reload_same_object_differs", job, f"load; iter(); load (same dict, position {p}); iterate: +{d}: {cont3[d:d+3]} vs {conts[0][d:d+3]} when loaded into a fresh loader")
                    return
            if conts[0] != conts[1]:
                d = C01._first_diff(conts[0], conts[1])
                ctx.fail("C08:second_load_differs", job, f"same dict (position {p}) loaded twice: +{d}: {conts[0][d:d+3]} vs {conts[1][d:d+3]}")
                return
            if conts[0] != ref[p:] and not use_loader:
                pass  # exact resume is C02's business


KNOWN: dict = {}


def run(ctx: Ctx):
    from . import nodes_common as nc
    torch.set_num_threads(1)
    jobs = []
    for i in range(ctx.n(80, 1200)):
        cfg = sdl.gen_cfg(ctx.rng)
        if sdl.is_iter(cfg) and ctx.rng.random() < 0.3:
            cfg["kind"] = "iter_inplace"
        if not sdl.is_iter(cfg) and cfg["W"] > 0 and ctx.rng.random() < 0.4:
            cfg["kind"] = "map_rng"  # items drawn from the per-worker RNG: reloading must reproduce them
        elif not sdl.is_iter(cfg) and ctx.rng.random() < 0.3:
            cfg["kind"] = "map_falsy"  # dataset state that is falsy ({}) before the first fetch; items depend on the state
        jobs.append(("sdl", {"cfg": cfg, "seed": ctx.rng.randrange(1 << 30)}))
    for i in range(ctx.n(120, 2400)):
        if i % 4 == 0:
            jobs.append(("nodes", {"weighted": True, "wseed": ctx.rng.randrange(1 << 30), "loader": ctx.rng.random() < 0.6, "seed": ctx.rng.randrange(1 << 30)}))
        else:
            pipe = nc.gen_pipe(ctx.rng, ctx.rng.randrange(0, 4), allow_err=False)
            jobs.append(("nodes", {"pipe": pipe, "loader": ctx.rng.random() < 0.6, "seed": ctx.rng.randrange(1 << 30)}))
    for j in jobs[:2]:
        ctx.sample(j)
    ctx.pmap(_dispatch, jobs)


def _dispatch(ctx: Ctx, tj):
    t, j = tj
    ctx.count("object:" + t)
    (check_sdl if t == "sdl" else check_nodes)(ctx, j)


def escalate(ctx: Ctx):
    run(ctx)


def replay(ctx: Ctx, payload) -> Tuple[bool, str]:
    sub = Ctx(ctx.prop, ctx.tier, ctx.seed)
    inp = payload["input"]
    (check_sdl if "cfg" in inp else check_nodes)(sub, inp)
    if sub.failures:
        return False, sub.failures[0].what
    return True, "state dicts unchanged and reusable on this input"


# ------------------------------------------------------------------------------------------------
from . import _compose, alias_kd, e2en_parts  # noqa: E402

_compose.extend(globals(), [
    _compose.theorem_part("e2en", e2en_parts.THEOREMS_BY_PROP.get("C08", []), e2en_parts.LEAN_MODULES),
    # reference level: heap model TDV.Alias (policy-parametrised immutability theorems) tied to the real objects by identity
    _compose.Part("alias", alias_kd.run_kd, alias_kd.replay_kd, theorems=alias_kd.THEOREMS, modules=alias_kd.LEAN_MODULES),
])
