"""K-D correspondence leg for the Lean model `TDV.Ctor` (C16: compatibility checks executed while an iterator of
StatefulDataLoader is built from a loaded state).

A case is a loader under test (`Wl` workers, persistent or not) and a script of façade operations

    ["load", ws, k]            load_state_dict(state of a loader with ws workers after k calls of next)
    ["raw", ws, k, nw, keys]   the same state with `_num_workers` forged to nw and its worker keys renamed to worker_<keys[i]>
    ["empty"]                  load_state_dict({})
    ["iter"]                   iter(loader)
    ["sd"]                     loader.state_dict()

run on the real loader (virtual worker processes, harness/vsched.py) and through `Main/ctor.lean`.  After every operation the
two sides are compared on: outcome kind / exception type, number of worker processes started during the operation, whether
`next_iter_state` is pending, whether `_iterator` is set, `_initial_iter_for_state_dict`, `_num_yielded` of the stored
iterator, number of the loader's worker processes still alive once everything unreferenced was released (by reference
counting; the cycle collector is run only if that was not enough, and counted: `kd_release_needed_cycle_collector`) - must
be 0 when no iterator is stored, at most / for map-style datasets exactly num_workers otherwise - and, read off the
half-built iterator in the traceback, whether the start-up handshake had completed and how many entries the merged
worker-state dict has.
"""
from __future__ import annotations

import gc
import pickle
from typing import Any, Dict, List, Optional, Tuple

from .. import sdl, vsched
from ..core import Ctx
from ..leanbridge import Driver

LEG = "kd_ctor"
LEAN_MODULES = ["TorchDataVerif.Props.C16"]
T = "TDV.Ctor."
THEOREMS = [T + t for t in (
    "reject_mismatch", "reject_stage", "release_covers_started", "accept_match", "empty_is_fresh", "empty_keeps_pending",
    "not_empty_always_fresh", "empty_always_fresh_partial", "usable_after_reject", "state_dict_rejects_too")]
RULE_KD = ("K-D ctor: every ordered pair (saving num_workers, loading num_workers) in 0..4 x 0..4 (diagonal included), k in "
           "{0,1,2,3,5,len,len+1}, dataset kinds and batch settings from harness.sdl.gen_cfg, persistent or not; scripts of "
           "load / forged load / load {} / iter / state_dict. A case is non-trivial when at least one construction was "
           "rejected or a finished state was loaded; distinct by (configuration, Wl, script).")


# ------------------------------------------------------------------------------------------------
# configurations


def cfg_for(base: Dict[str, Any], W: int, persistent: bool = False) -> Dict[str, Any]:
    """`base` with num_workers = W (one shard per worker for the iterable kinds, as check_c16 does)."""
    c = dict(base)
    c["W"] = W
    if sdl.is_iter(base):
        c["sizes"] = (list(base["sizes"]) * 5)[: max(W, 1)]
    if W == 0:
        c.pop("pf", None)
        c.pop("persistent", None)
    else:
        c["pf"] = base.get("pf", 2)
        c["persistent"] = persistent
    return c


def epoch_len(cfg: Dict[str, Any]) -> int:
    """Number of batches of one epoch (each worker batches its own shard for the iterable kinds)."""
    bs, drop = cfg["bs"], cfg.get("drop_last", False)

    def nb(n):
        if bs is None:
            return n
        return n // bs if drop else -(-n // bs)

    if sdl.is_iter(cfg):
        return sum(nb(s) for s in cfg["sizes"])
    n = cfg["n"]
    if cfg.get("sampler_len") is not None and cfg.get("sampler") in ("custom_plain", "custom_stateful"):
        n = min(n, cfg["sampler_len"])  # a user sampler over a subset of the dataset
    return nb(n)


# ------------------------------------------------------------------------------------------------
# the real side


def _nprocs(s) -> int:
    return len([v for v in s.vts if v.is_proc])


def _probe_half_built(e: BaseException) -> Tuple[Optional[int], bool]:
    """(entries of `_worker_snapshots`, start-up handshake completed) of the half-built multi-process iterator whose
    `__init__` raised `e`; (None, False) when there is none or it had not got that far.  Only `__init__` frames are
    inspected (touching f_locals of a live frame would cache a reference to the exception and keep the iterator alive)."""
    entries, hs = None, False
    tb = e.__traceback__
    while tb is not None:
        fr = tb.tb_frame
        if fr.f_code.co_name == "__init__":
            slf = fr.f_locals.get("self")
            if type(slf).__name__ == "_StatefulMultiProcessingDataLoaderIter":
                ws = getattr(slf, "_worker_snapshots", None)
                entries = len(ws) if ws is not None else None
                hs = bool(getattr(slf, "_snapshot", None))
            slf = None
        tb = tb.tb_next
    return entries, hs


def _settle(s, procs, held: int, limit: float = 60.0) -> int:
    """Lets background VTs run (consumer idle, like Sched.idle_until_quiet) until at most `held` of `procs` are alive or
    `limit` virtual seconds passed; unreferenced objects are released by reference counting, and only if that was not
    enough is the cycle collector run (once) and the wait repeated.  Returns the number of `procs` still alive."""
    def alive():
        return len([v for v in procs if v.state != "done"])

    for attempt in (0, 1):
        end = s.clock + limit
        s.begin_op()
        while alive() > held and s.clock < end:
            s.switch(lambda: False, min(0.5, end - s.clock))
            s.begin_op()
        if alive() <= held or attempt == 1:
            break
        gc.collect()
        NEEDED_GC[0] += 1
    return alive()


NEEDED_GC = [0]


def _saved_state(base, ws, k, s):
    """state_dict of a fresh loader with ws workers after k calls of next (pickled round trip); also (#batches, stopped)."""
    cfg_s = cfg_for(base, ws)
    n0 = len(s.vts)
    saver = sdl.build(cfg_s)
    it = iter(saver)
    n, stopped = 0, False
    for _ in range(k):
        o = sdl.take(it, s)
        if o[0] == "item":
            n += 1
        else:
            stopped = o[0] == "stop"
            break
    s.begin_op()
    sd = pickle.loads(pickle.dumps(saver.state_dict()))
    del saver, it
    _settle(s, [v for v in s.vts[n0:] if v.is_proc], 0)
    return sd, n, stopped


def _forge(sd, nw, keys):
    snap = sd["_snapshot"]
    snap["_main_snapshot"]["_num_workers"] = nw
    old = list(snap["_worker_snapshots"].items())
    snap["_worker_snapshots"] = {"worker_%d" % keys[i]: v for i, (_, v) in enumerate(old[: len(keys)])}
    return sd


def run_real(case) -> Dict[str, Any]:
    """Runs the script on the real loader; returns {"steps": [...], "saved": [[n, stopped] per load op], "skip": reason|None}."""
    base, Wl, ops = case["cfg"], case["Wl"], case["ops"]
    cfg_l = cfg_for(base, Wl, case.get("persistent", False))
    steps: List[Dict[str, Any]] = []
    saved: List[Any] = []
    gc0 = NEEDED_GC[0]
    with vsched.Session(case["seed"]) as s:
        loader = sdl.build(cfg_l)
        mine: List[Any] = []  # worker VTs started by operations of the loader under test
        for op in ops:
            st: Dict[str, Any] = {"outcome": None}
            if op[0] in ("load", "raw"):
                sd, n, stopped = _saved_state(base, op[1], op[2], s)
                saved.append([n, stopped])
                if op[0] == "raw":
                    sd = _forge(sd, op[3], op[4])
                loader.load_state_dict(sd)
                sd = None
            elif op[0] == "empty":
                loader.load_state_dict({})
            else:
                n0 = len(s.vts)
                s.begin_op()
                try:
                    if op[0] == "iter":
                        it = iter(loader)
                    else:
                        loader.state_dict()
                        it = loader._iterator
                    st["outcome"] = "ok"
                    st["handshake"] = bool(getattr(it, "_snapshot", None))
                    it = None
                except vsched.VHang as e:
                    st["outcome"] = "hang"
                except Exception as e:  # noqa
                    st["outcome"] = type(e).__name__
                    st["entries"], st["handshake"] = _probe_half_built(e)
                new = [v for v in s.vts[n0:] if v.is_proc]
                st["started"] = len(new)
                mine.extend(new)
            st["pending"] = loader.next_iter_state is not None
            st["iterator"] = loader._iterator is not None
            st["flag"] = bool(loader._initial_iter_for_state_dict)
            st["yielded"] = loader._iterator._num_yielded if loader._iterator is not None else None
            held = len(getattr(loader._iterator, "_workers", ())) if loader._iterator is not None else 0
            st["live"] = _settle(s, mine, held)
            steps.append(st)
        del loader
        left = _settle(s, [v for v in s.vts if v.is_proc], 0)
    return {"steps": steps, "saved": saved, "left_at_end": left, "needed_gc": NEEDED_GC[0] - gc0}


# ------------------------------------------------------------------------------------------------
# the model side and the comparison


def request_for(case) -> Dict[str, Any]:
    base, ops = case["cfg"], case["ops"]
    out = []
    for op in ops:
        if op[0] == "load":
            out.append({"op": "load", "ws": op[1], "k": op[2], "len": epoch_len(cfg_for(base, op[1]))})
        elif op[0] == "raw":
            L = epoch_len(cfg_for(base, op[1]))
            out.append({"op": "raw", "nw": op[3], "keys": list(op[4]), "y": min(op[2], L), "fin": L < op[2]})
        else:
            out.append({"op": op[0]})
    return {"m": "ctor", "wl": case["Wl"], "persistent": bool(case.get("persistent", False)), "ops": out}


FIELDS = ["outcome", "pending", "iterator", "flag", "yielded"]


def compare(case, real, ans) -> Optional[str]:
    """None when model and implementation agree, else a description of the first difference."""
    if "error" in ans:
        return "driver: " + str(ans["error"])
    # the saving runs must have produced the states the request describes (epoch length formula)
    li = 0
    for op in case["ops"]:
        if op[0] in ("load", "raw"):
            L = epoch_len(cfg_for(case["cfg"], op[1]))
            n, stopped = real["saved"][li]
            li += 1
            if n != min(op[2], L) or stopped != (L < op[2]):
                return f"saving run {op}: {n} batches, stopped={stopped}; expected epoch length {L}"
    for i, (op, r, m) in enumerate(zip(case["ops"], real["steps"], ans["steps"])):
        for f in FIELDS:
            if r.get(f) != m.get(f):
                return f"step {i} {op}: {f}: implementation {r.get(f)!r}, model {m.get(f)!r} (implementation {r}, model { {k: v for k, v in m.items() if k != 'calls'} })"
        # workers of a stored iterator may have retired already (exhausted shard of an iterable dataset); none may outlive
        # an iterator that is not stored
        live_ok = r["live"] == m["live"] if (m["live"] == 0 or not sdl.is_iter(case["cfg"])) else r["live"] <= m["live"]
        if not live_ok:
            return f"step {i} {op}: worker processes alive afterwards: implementation {r['live']}, model {m['live']}"
        if op[0] in ("iter", "sd"):
            if r["started"] != m["started"]:
                return f"step {i} {op}: worker processes started: implementation {r['started']}, model {m['started']}"
            last = m["calls"][-1] if m["calls"] else None
            if last is not None:
                if r["handshake"] != last["handshake"]:
                    return f"step {i} {op}: start-up handshake completed: implementation {r['handshake']}, model {last['handshake']} ({last['stages']})"
                if r["outcome"] != "ok" and r.get("entries") != last["entries"]:
                    return f"step {i} {op}: entries of the merged worker-state dict: implementation {r.get('entries')}, model {last['entries']}"
                if r["outcome"] != "ok" and last["release"] != last["started"]:
                    return f"step {i} {op}: model releases {last['release']} of {last['started']} started workers"
    if real["left_at_end"]:
        return f"{real['left_at_end']} worker processes alive after the loader was dropped"
    return None


# ------------------------------------------------------------------------------------------------
# generator, leg, replay

PAIRS = [(a, b) for a in range(5) for b in range(5)]
# the two witnesses of TDV.Ctor.not_empty_always_fresh, always replayed on the real loader
WITNESS_CFG = {"kind": "map", "bs": 2, "drop_last": False, "n": 10, "sampler": "seq", "interval": 1}
WITNESSES = [
    {"cfg": WITNESS_CFG, "Wl": 2, "persistent": False, "seed": 1, "ops": [["load", 0, 1], ["iter"], ["empty"], ["iter"]]},
    {"cfg": WITNESS_CFG, "Wl": 2, "persistent": False, "seed": 1, "ops": [["load", 2, 1], ["empty"], ["iter"]]},
]


def _pick_k(rng, base, ws):
    L = epoch_len(cfg_for(base, ws))
    return rng.choice([0, 1, 2, 3, 5, L, L + 1, L + 1])


def gen_case(rng, i: int) -> Dict[str, Any]:
    ws, wl = PAIRS[i % len(PAIRS)]
    base = sdl.gen_cfg(rng, allow_shuffle=False)
    for key in ("W", "persistent", "in_order"):
        base.pop(key, None)
    if sdl.is_iter(base):
        base["sizes"] = (list(base["sizes"]) * 5)[:5]
    persistent = wl > 0 and rng.random() < 0.3
    ops: List[Any] = []
    r = rng.random()
    if r < 0.08:
        ops.append(["empty"])
    elif r < 0.12:
        ops.append(["iter"])
    ops.append(["load", ws, _pick_k(rng, base, ws)])
    ops.append(["iter"] if rng.random() < 0.8 else ["sd"])
    for _ in range(rng.choice([0, 1, 1, 2, 3])):
        r = rng.random()
        if r < 0.3:
            ops.append(["iter"])
        elif r < 0.45:
            ops.append(["sd"])
        elif r < 0.65:
            ops.append(["empty"])
        elif r < 0.9:
            w2 = wl if rng.random() < 0.6 else rng.randrange(5)
            ops.append(["load", w2, _pick_k(rng, base, w2)])
        else:
            # forged multi-process state: broken worker-key set, or a recorded num_workers that is not the truth
            w2 = rng.choice([1, 2, 3])
            if rng.random() < 0.5:
                keys = list(range(w2))
                keys[-1] += rng.choice([1, 2])
                ops.append(["raw", w2, _pick_k(rng, base, w2), w2, keys])
            else:
                ops.append(["raw", w2, _pick_k(rng, base, w2), w2 + rng.choice([1, 3]), list(range(w2))])
    if ops[-1][0] not in ("iter", "sd"):
        ops.append(["iter"])
    return {"cfg": base, "Wl": wl, "persistent": persistent, "seed": rng.randrange(1 << 30), "ops": ops}


def _real(sub: Ctx, case):
    return run_real(case)


def run_kd(ctx: Ctx, nq: int = 100, nt: int = 1500):
    import torch
    torch.set_num_threads(1)
    n = ctx.n(nq, nt)
    cases = list(WITNESSES) + [gen_case(ctx.rng, i) for i in range(n)]
    ctx.sample({"part": LEG, "case": cases[2]})
    reals = ctx.pmap(_real, cases)
    answers = Driver().run([request_for(c) for c in cases])
    for idx, (case, real, ans) in enumerate(zip(cases, reals, answers)):
        if real is None:
            continue  # internal error, already noted by pmap
        rejected = [st["outcome"] for st in real["steps"] if st["outcome"] not in (None, "ok")]
        finished = any(stopped for _, stopped in real["saved"])
        ctx.case(LEG, [case["cfg"], case["Wl"], case.get("persistent"), case["ops"]], bool(rejected) or finished)
        first = next(op for op in case["ops"] if op[0] in ("load", "raw"))
        ctx.count("kd_pair:%d->%d" % (first[1], case["Wl"]))
        for x in rejected:
            ctx.count("kd_rejected:" + x)
        d = compare(case, real, ans)
        if real.get("needed_gc"):
            ctx.count("kd_release_needed_cycle_collector", real["needed_gc"])
        if d is not None:
            ctx.diverge(LEG, case, d)
        elif idx < len(WITNESSES):
            ctx.count("kd_witness_empty_keeps_pending_reproduced")
    ctx.model_lines += len(cases)


def replay_kd(ctx: Ctx, payload) -> Tuple[bool, str]:
    case = payload["input"] if "input" in payload else payload
    real = run_real(case)
    ans = Driver().run([request_for(case)])[0]
    d = compare(case, real, ans)
    return (d is None), (d or "model and implementation agree")
