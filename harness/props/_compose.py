"""Assemble a per-property check module from reusable parts (oracle legs, correspondence legs, theorem lists)
that live in shared modules (sdl_ko, pf_trace, pm_trace, mp_trace, sp_kd, ...).

Each part's failures are tagged `<part>|<kind>` so that `--replay` and the known-finding classifiers can be routed
back to the part that produced them.
"""
from __future__ import annotations

from typing import Any, Callable, Dict, List, Optional, Tuple

from ..core import Ctx, Failure


class Part:
    def __init__(self, name: str, run: Callable[[Ctx], None], replay: Optional[Callable[[Ctx, dict], Tuple[bool, str]]] = None,
                 theorems=(), modules=(), known: Optional[Dict[str, Callable[[Failure], bool]]] = None):
        self.name, self.run, self.replay = name, run, replay
        self.theorems, self.modules, self.known = list(theorems), list(modules), dict(known or {})


class _Tagged:
    """Ctx proxy that tags failure kinds / divergence legs with the part name."""

    def __init__(self, ctx: Ctx, tag: str):
        object.__setattr__(self, "_c", ctx)
        object.__setattr__(self, "_t", tag)

    def __getattr__(self, k):
        return getattr(self._c, k)

    def __setattr__(self, k, v):
        setattr(self._c, k, v)

    def fail(self, kind, inp, what):
        self._c.fail(self._t + "|" + kind, inp, what)

    def diverge(self, leg, inp, detail):
        self._c.diverge(self._t + "|" + leg, inp, detail)

    def pmap(self, fn, items, nproc=None):
        tag = self._t
        return self._c.pmap(_TaggedFn(fn, tag), items, nproc)


class _TaggedFn:
    def __init__(self, fn, tag):
        self.fn, self.tag = fn, tag

    def __call__(self, sub, item):
        return self.fn(_Tagged(sub, self.tag), item)


def assemble(g: Dict[str, Any], parts: List[Part], rule: str = "", explanation: str = "", assumptions=()):
    theorems, modules = [], []
    for p in parts:
        for t in p.theorems:
            if t not in theorems:
                theorems.append(t)
        for m in p.modules:
            if m not in modules:
                modules.append(m)
    known: Dict[str, Callable[[Failure], bool]] = {}
    for p in parts:
        for fid, clf in p.known.items():
            r = _route_clf(p.name, clf)
            known[fid] = _or_clf(known[fid], r) if fid in known else r  # several parts may describe one finding

    def run(ctx: Ctx):
        import torch
        torch.set_num_threads(1)
        import time as _time
        for p in parts:
            t0 = _time.time()
            p.run(_Tagged(ctx, p.name))
            ctx.hist["wall_s:" + p.name] = round(_time.time() - t0, 1)

    def replay(ctx: Ctx, payload) -> Tuple[bool, str]:
        kind = payload.get("kind", "")
        leg = payload.get("leg", "")
        tag, _, rest = (kind or leg).partition("|")
        for p in parts:
            if p.name == tag and p.replay is not None:
                q = dict(payload)
                if kind:
                    q["kind"] = rest
                else:
                    q["leg"] = rest
                return p.replay(ctx, q)
        # untagged payloads (corpus files written before the module was assembled from parts) go to the first part
        if "|" not in (kind or leg) and parts and parts[0].replay is not None:
            return parts[0].replay(ctx, payload)
        return True, "no part handles this payload"

    g.update(THEOREMS=theorems, LEAN_MODULES=modules, KNOWN=known, RULE=rule, EXPLANATION=explanation,
             ASSUMPTIONS=list(assumptions), run=run, escalate=run, replay=replay)


def _or_clf(a, b):
    return lambda fl: a(fl) or b(fl)


def _route_clf(tag, clf):
    def f(fl: Failure) -> bool:
        if "|" not in fl.kind:
            return bool(clf(fl))  # untagged (corpus witness of an older format)
        t, _, rest = fl.kind.partition("|")
        if t != tag:
            return False
        return clf(Failure(rest, fl.inp, fl.what))
    return f


def extend(g: Dict[str, Any], extra_parts: List[Part]):
    """Turn a self-contained check module (own THEOREMS / run / replay / KNOWN) into an assembled one with
    additional (typically theorem-only) parts."""
    main = Part("main", g["run"], g.get("replay"), theorems=g.get("THEOREMS", []), modules=g.get("LEAN_MODULES", []),
                known=g.get("KNOWN"))
    assemble(g, [main] + list(extra_parts), g.get("RULE", ""), g.get("EXPLANATION", ""), g.get("ASSUMPTIONS", []))


def theorem_part(name: str, theorems, modules) -> Part:
    return Part(name, lambda ctx: None, None, theorems=theorems, modules=modules)


def ko_part(name: str, gen, check, nq: int, nt: int, known=None) -> Part:
    """A part from a (generator, per-job oracle) pair of sdl_ko-style functions."""
    def run(ctx):
        jobs = gen(ctx, ctx.n(nq, nt))
        for j in jobs[:1]:
            ctx.sample({"part": name, "job": j})
        ctx.pmap(check, jobs)

    def replay(ctx, payload):
        sub = Ctx(ctx.prop, ctx.tier, ctx.seed)
        check(sub, payload["input"])
        if sub.failures:
            return False, sub.failures[0].what
        return True, "property holds on this input"

    return Part(name, run, replay, known=known)
