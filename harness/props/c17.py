"""C17 - nodes thread protocols: parts from the Prefetcher (PF) and ParallelMapper (PM) protocol models: theorems over every
interleaving, trace validation of the real threads under the virtual scheduler (K-T), and oracles on the real code (K-O)."""
from __future__ import annotations

from . import _compose, pf_parts

RULE = 'nodes: histories of exhaustion / del / reset / load; old-generation threads must have exited within 5 virtual seconds. Loader: histories of full/partial epochs, abandon+collect, load, new loader, with persistent and non-persistent workers; the virtual process table is inspected after every step. Non-trivial: history has >= 3 steps (loader) or a reset/del with work in flight (nodes); distinct by (configuration, history).'
EXPLANATION = 'Lean: PF.released / reader_never_stuck (after shutdown the reader exits within 7 of its own steps), PM.released; MP shutdown model. Oracle: virtual thread/process table after each history step. Partial: real OS thread/process exit and queued-item memory are runtime facts outside the model; sampled by the thorough tier with real threads.'
ASSUMPTIONS = ["the real reader/worker/sorter threads run on virtual threading/queue/time primitives (harness/vsched.py); virtual time only"]

PARTS = pf_parts.parts("C17")
from . import sdl_ko
PARTS.append(_compose.ko_part("sdl_ko", sdl_ko.gen_c17, sdl_ko.check_c17, 80, 1500))
try:
    from . import pm_parts
    PARTS += pm_parts.parts("C17")
except ImportError:
    pass
_compose.assemble(globals(), PARTS, RULE, EXPLANATION, ASSUMPTIONS)
