"""C17 - nodes thread protocols: parts from the Prefetcher (PF) and ParallelMapper (PM) protocol models: theorems over every
interleaving, trace validation of the real threads under the virtual scheduler (K-T), and oracles on the real code (K-O)."""
from __future__ import annotations

from . import _compose, pf_parts

RULE = 'nodes: histories of exhaustion / del / reset / load; old-generation threads must have exited within 5 virtual seconds. Loader: histories of full/partial epochs, abandon+collect, load, new loader, with persistent and non-persistent workers; the virtual process table is inspected after every step. Non-trivial: history has >= 3 steps (loader) or a reset/del with work in flight (nodes); distinct by (configuration, history).'
EXPLANATION = 'Lean: PF.released / reader_never_stuck (after shutdown the reader exits within 7 of its own steps), PM.released; MP shutdown model. Oracle: virtual thread/process table after each history step. Partial: real OS thread/process exit and queued-item memory are runtime facts outside the model; sampled by the thorough tier with real threads.'
ASSUMPTIONS = ["the real reader/worker/sorter threads run on virtual threading/queue/time primitives (harness/vsched.py); virtual time only"]

PARTS = pf_parts.parts("C17")
from . import sdl_ko
PARTS.append(_compose.ko_part("sdl_ko", sdl_ko.gen_c17, sdl_ko.check_c17, 80, 1500))
def _real_threads_case(ctx, job):
    """REAL threads (thorough tier): after exhaustion / del / reset the background threads of the old iterator
    must be gone from threading.enumerate() within a wall-clock bound, and repeated histories must not accumulate."""
    import gc
    import threading
    import time
    from .. import vsched
    vsched.uninstall_nodes()
    from torchdata.nodes import IterableWrapper, ParallelMapper, Prefetcher

    def bg():
        return [t.name for t in threading.enumerate() if any(k in t.name for k in ("read_thread", "worker_thread", "sort_thread"))]

    def mk():
        src = IterableWrapper(list(range(job["n"])))
        if job["op"] == "prefetch":
            return Prefetcher(src, job["pf"], snapshot_frequency=job["sf"])
        return ParallelMapper(src, _twice, num_workers=job["nw"], in_order=job["in_order"], snapshot_frequency=job["sf"])

    base = len(bg())
    worst = 0
    for rep in range(job["reps"]):
        node = mk()
        for op in job["history"]:
            try:
                if op[0] == "take":
                    node.reset() if rep == 0 and op[1] < 0 else None
                    for _ in range(max(op[1], 0)):
                        next(node)
                elif op[0] == "exhaust":
                    for _ in node:
                        pass
                elif op[0] == "reset":
                    node.reset()
                elif op[0] == "state_reload":
                    sd = node.state_dict()
                    node.reset(sd)
            except StopIteration:
                pass
        del node
        gc.collect()
        t0 = time.time()
        while len(bg()) > base and time.time() - t0 < 4.0:
            time.sleep(0.05)
        worst = max(worst, len(bg()) - base)
    ctx.case("real_threads", job, True)
    if worst > 0:
        ctx.fail("C17:real_threads_left", job, f"{worst} background threads still alive 4 s after the node was dropped: {bg()}")


def _twice(x):
    return 2 * x


def _real_threads(ctx):
    if ctx.tier != "thorough":
        return
    jobs = []
    for i in range(18):
        r = ctx.rng
        hist = []
        for _ in range(r.randrange(1, 4)):
            hist.append(r.choice([["take", r.randrange(0, 5)], ["exhaust"], ["reset"], ["state_reload"]]))
        jobs.append({"op": r.choice(["prefetch", "pmap"]), "n": r.randrange(0, 9), "pf": r.randrange(1, 4), "sf": r.randrange(0, 3),
                     "nw": r.randrange(1, 4), "in_order": r.random() < 0.7, "history": hist, "reps": 3})
    ctx.pmap(_real_threads_case, jobs, nproc=6)


def _real_threads_replay(ctx, payload):
    from ..core import Ctx
    sub = Ctx(ctx.prop, ctx.tier, ctx.seed)
    _real_threads_case(sub, payload["input"])
    return (False, sub.failures[0].what) if sub.failures else (True, "ok")


PARTS.append(_compose.Part("real_threads", _real_threads, _real_threads_replay))
try:
    from . import pm_parts
    PARTS += pm_parts.parts("C17")
except ImportError:
    pass
try:
    from . import mph_parts
    PARTS += mph_parts.parts()
except ImportError:
    pass
_compose.assemble(globals(), PARTS, RULE, EXPLANATION, ASSUMPTIONS)
