"""C07 (wrapper level) — `_IncrementalWorkerState` and the worker/main hand-shakes vs Lean `TDV.IncrW`.

Leg
  kd_incrw   K-D: generated hand-shake histories (fresh start, per-task deltas, tasks without a snapshot flag,
             epoch resume of a persistent worker, restore with an `is_delta` start-up ack) driven through real
             `_IncrementalWorkerState` objects on a worker side and a main side (pickle round trip in between), and
             through the Lean driver "incrw"; `get_state()` of both sides and the shipped delta (as a map) are
             compared after every op.

`replay_fetcher_none_witness` replays, on the real classes and on the model, the witness of
`TDV.IncrW.wrapper_lossless_statement_false` / `restore_delta_sound_statement_false`.
"""
from __future__ import annotations

import copy
import pickle
import random
from typing import Any, Dict, List, Optional, Tuple

from ..core import Ctx
from ..leanbridge import Driver
from .c07 import Enc, _deep_eq, _mutate, _rand_val, _show, _sorted_val

LEG = "kd_incrw"
THEOREMS = [
    "TDV.IncrW.wrapper_state_exact",
    "TDV.IncrW.wrapper_lossless_statement_false",
    "TDV.IncrW.wrapper_lossless_partial",
    "TDV.IncrW.wrapper_skipped_irrelevant",
    "TDV.IncrW.restore_delta_sound_statement_false",
    "TDV.IncrW.restore_delta_sound_partial",
]
LEAN_MODULES = ["TorchDataVerif.Props.C07W"]
RULE = ("hand-shake histories of one worker are generated from one PRNG: ops restart / report / skip / resume / restore over "
        "worker state dicts whose dataset state and iterator state are None or values of c07's generator (nested dicts, "
        "scalar/str/list/None/{}/tensor leaves, mutated in place between reports). A history is non-trivial when at least one "
        "shipped delta changes the main side AND the history contains a None<->value transition of the dataset or iterator "
        "state, a key deletion, a leaf<->dict change, an in-place mutation, a report after a skipped report, or a restore "
        "whose start-up state differs from the saved one; distinct by the canonical form of the encoded history.")
EXPLANATION = ("Lean: what the main-side wrapper holds after every hand-shake history (TDV.IncrW.wrapper_state_exact), losslessness "
               "when fetcher_state never turns from a dict into None (wrapper_lossless_partial), irrelevance of reports without a "
               "delta, soundness of the restore hand-shake. Tie: differential run of real _IncrementalWorkerState pairs against the "
               "model's get_state() on both sides and the shipped deltas-as-maps after every op.")
ASSUMPTIONS = [
    "leaf equality is Python `==` (torch.equal for tensors); leaves are opaque codes in the model, None is code 0",
    "pickle round trip stands for the multiprocessing queue / process-argument transport",
    "one worker at a time: wrappers of different workers share nothing (`_worker_snapshots` is a dict keyed by worker)",
]

OPS = ("report", "skip", "restart", "resume", "restore")


# ------------------------------------------------------------------------------------------------
# generated histories on the real classes


def gen_desc(rng) -> Dict[str, Any]:
    """Replayable description (sub-seed + explicit shape parameters; the ops act on live objects that are mutated in
    place, so the history itself is regenerated from the sub-seed, independently of the check's generator)."""
    return {"sub_seed": rng.randrange(1 << 30), "nops": rng.randrange(2, 9), "iterable": rng.random() < 0.65,
            "none_p": rng.choice([0.0, 0.15, 0.15, 0.4]), "kind_flip": rng.random() < 0.08}


def _wrapper_cls():
    from torchdata.stateful_dataloader.incremental_state import _IncrementalWorkerState
    return _IncrementalWorkerState


def _ship(x):
    return pickle.loads(pickle.dumps(x))


def run_history(desc: Dict[str, Any]) -> Dict[str, Any]:
    """Runs one generated history on real wrapper objects. Returns {"steps": [...], "tags": set}; each step holds deep
    copies taken at the time of the op: op, report, saved (restore only), delta (after transport), main, worker."""
    W = _wrapper_cls()
    rng = random.Random(desc["sub_seed"])
    wid = rng.randrange(4)
    live: Dict[str, Any] = {"ds": None, "it": None}
    worker, main = W(None), W(None)
    steps: List[Dict[str, Any]] = []
    tags = set()

    def nxt(cur):
        if rng.random() < desc["none_p"]:
            return None
        if cur is None:
            return _rand_val(rng, 2)
        new, tag = _mutate(rng, cur)
        tags.add(tag)
        return new

    def iterable_now():
        it = desc["iterable"]
        if desc["kind_flip"] and rng.random() < 0.35:
            it = not it
        return it

    def mk(ended=None):
        fs = None
        if iterable_now():
            fs = {"dataset_iter_state": live["it"], "fetcher_ended": (rng.random() < 0.3) if ended is None else ended}
        return {"worker_id": wid, "dataset_state": live["ds"], "fetcher_state": fs}

    def observe(op, state, delta=None, saved=None):
        steps.append({"op": op, "report": copy.deepcopy(state), "saved": saved, "delta": delta,
                      "main": copy.deepcopy(main.get_state()), "worker": copy.deepcopy(worker.get_state())})

    for i in range(desc["nops"]):
        if i == 0:
            op = rng.choice(["restart", "restart", "restart", "restore", "report"])
        else:
            op = rng.choices(OPS, weights=[50, 20, 5, 10, 15])[0]
        if op in ("report", "skip"):
            live["ds"], live["it"] = nxt(live["ds"]), nxt(live["it"])
            state = mk()
            if op == "skip":
                observe(op, state)
                continue
            reported = copy.deepcopy(state)
            delta = _ship(worker.generate_delta(state))
            main.apply_delta(delta)
            observe(op, reported, delta)
        elif op in ("restart", "resume"):
            # a fresh fetcher / a dataset that starts an epoch: new state objects
            live["ds"], live["it"] = nxt(None), nxt(None)
            state = mk(ended=False if rng.random() < 0.8 else None)
            worker = W(state)
            main = W(_ship(state))
            observe(op, state)
        else:
            cur = main.get_state()
            if cur["worker_id"] is not None and rng.random() < 0.8:
                saved = copy.deepcopy(cur)
            else:
                live["ds"], live["it"] = nxt(None), nxt(None)
                saved = copy.deepcopy(mk())
            worker, main = W(_ship(saved)), W(copy.deepcopy(saved))
            fs = saved["fetcher_state"]
            live["ds"] = copy.deepcopy(saved["dataset_state"])
            live["it"] = copy.deepcopy(fs["dataset_iter_state"]) if fs is not None else None
            r = rng.random()
            ended = None
            if r < 0.4:
                ended = fs["fetcher_ended"] if fs is not None else None  # restored exactly
            elif r < 0.75:
                live["ds"], live["it"] = nxt(live["ds"]), nxt(live["it"])
            else:
                live["ds"], live["it"] = nxt(None), nxt(None)  # nothing could be restored
            state = mk(ended=ended)
            reported = copy.deepcopy(state)
            delta = _ship(worker.generate_delta(state))
            main.apply_delta(delta)
            observe(op, reported, delta, saved=saved)
    return {"steps": steps, "tags": tags}


# ------------------------------------------------------------------------------------------------
# encoding to the model (reuses c07's `Enc`; None is pre-registered as leaf code 0 = `TDV.IncrW.noneC`)


def new_enc() -> Enc:
    enc = Enc()
    assert enc.leaf(None) == 0
    return enc


def enc_opt(enc: Enc, v):
    return None if v is None else enc.val(v)


def enc_report(enc: Enc, st: Dict[str, Any]):
    fs = st["fetcher_state"]
    return {"w": st["worker_id"], "ds": enc_opt(enc, st["dataset_state"]),
            "f": None if fs is None else {"e": bool(fs["fetcher_ended"]), "it": enc_opt(enc, fs["dataset_iter_state"])}}


def canon_opt(v):
    return None if v is None else _sorted_val(v)


def canon_state(s):
    """canonical form of an encoded get_state(): dict order is not part of the observation (deltas are unordered)"""
    f = s["f"]
    return {"w": s["w"], "ds": canon_opt(s["ds"]), "f": None if f is None else {"e": f["e"], "it": canon_opt(f["it"])}}


def enc_state(enc: Enc, st: Dict[str, Any]):
    return canon_state(enc_report(enc, st))


def _impl_flat_delta(enc: Enc, d):
    from torchdata.stateful_dataloader.incremental_state import _Tombstone
    if d is None:
        return None
    return {repr([enc.key(k) for k in path]): (None if isinstance(x, _Tombstone) else enc.leaf(x)) for path, x in d.items()}


def enc_impl_delta(enc: Enc, d: Dict[str, Any]):
    fs = d.get("fetcher_state", None)
    return {"w": d["worker_id"], "ds": _impl_flat_delta(enc, d.get("dataset_state", None)),
            "f": None if fs is None else {"e": bool(fs["fetcher_ended"]), "it": _impl_flat_delta(enc, fs.get("dataset_iter_state", None))}}


def _model_flat_delta(d):
    return None if d is None else {repr(p): c for p, c in d}


def canon_model_delta(d):
    f = d["f"]
    return {"w": d["w"], "ds": _model_flat_delta(d["ds"]),
            "f": None if f is None else {"e": f["e"], "it": _model_flat_delta(f["it"])}}


def build_request(obs) -> Tuple[Dict[str, Any], Enc]:
    enc = new_enc()
    ops = []
    for s in obs["steps"]:
        o = {"op": s["op"], "r": enc_report(enc, s["report"])}
        if s["op"] == "restore":
            o["s"] = enc_report(enc, s["saved"])
        ops.append(o)
    return {"m": "incrw", "ops": ops}, enc


def compare(obs, enc: Enc, ans) -> Optional[str]:
    if not isinstance(ans, dict) or "steps" not in ans:
        return "model driver: " + str(ans)[:300]
    if len(ans["steps"]) != len(obs["steps"]):
        return f"model answered {len(ans['steps'])} steps for {len(obs['steps'])} ops"
    for i, (st, mst) in enumerate(zip(obs["steps"], ans["steps"])):
        for side in ("main", "worker"):
            impl, model = enc_state(enc, st[side]), canon_state(mst[side])
            if impl != model:
                return (f"op {i} ({st['op']} {_show(st['report'])}): {side}.get_state() real={_show(st[side])} "
                        f"encoded {impl} model {model}")
        if (st["delta"] is None) != (mst["delta"] is None):
            return f"op {i} ({st['op']}): delta shipped real={st['delta'] is not None} model={mst['delta'] is not None}"
        if st["delta"] is not None:
            impl, model = enc_impl_delta(enc, st["delta"]), canon_model_delta(mst["delta"])
            if impl != model:
                return f"op {i} ({st['op']} {_show(st['report'])}): delta real {impl} model {model}"
    return None


# ------------------------------------------------------------------------------------------------
# non-triviality (RULE) and the leg


def _features(obs, enc: Enc) -> Tuple[bool, List[str]]:
    from .c07 import NONTRIVIAL_TAGS
    feats = set(t for t in obs["tags"] if t in NONTRIVIAL_TAGS)
    changed = False
    prev_main, prev_synced, skipped = None, None, False
    for st in obs["steps"]:
        cur_main = enc_state(enc, st["main"])
        if st["op"] == "skip":
            skipped = True
        else:
            base = enc_state(enc, st["saved"]) if st["op"] == "restore" else prev_main
            if st["delta"] is not None and base is not None and cur_main != base:
                changed = True
                if st["op"] == "restore":
                    feats.add("restore_differs")
                if st["op"] == "report" and skipped:
                    feats.add("report_after_skip")
            r = st["report"]
            if prev_synced is not None and st["delta"] is not None:
                p = st["saved"] if st["op"] == "restore" else prev_synced
                if (p["dataset_state"] is None) != (r["dataset_state"] is None):
                    feats.add("ds_none_flip")
                pf, rf = p["fetcher_state"], r["fetcher_state"]
                if pf is not None and rf is not None and (pf["dataset_iter_state"] is None) != (rf["dataset_iter_state"] is None):
                    feats.add("iter_none_flip")
                if (pf is None) != (rf is None):
                    feats.add("fetcher_none_flip")
            prev_synced = r
            skipped = False
        prev_main = cur_main
    return (changed and bool(feats)), sorted(feats)


def one_case(desc):
    obs = run_history(desc)
    req, enc = build_request(obs)
    return obs, req, enc


def run_kd(ctx: Ctx, n_quick: int = 1600, n_thorough: int = 16000):
    import torch
    torch.set_num_threads(1)
    rng = ctx.sub_rng(LEG)
    n = ctx.n(n_quick, n_thorough)
    cases = []
    for i in range(n):
        desc = gen_desc(rng)
        try:
            obs, req, enc = one_case(desc)
        except Exception as e:  # the real wrapper raised on a legal history: not a property verdict here, but never silent
            ctx.diverge(LEG, desc, f"_IncrementalWorkerState raised {type(e).__name__}: {e}")
            continue
        cases.append((desc, obs, req, enc))
    answers = Driver().run([c[2] for c in cases])
    for (desc, obs, req, enc), ans in zip(cases, answers):
        ctx.model_lines += 1
        nt, feats = _features(obs, enc)
        ctx.case(LEG, req["ops"], nt)
        for s in obs["steps"]:
            ctx.count("kd_incrw:op:" + s["op"])
        for f in feats:
            ctx.count("kd_incrw:feat:" + f)
        d = compare(obs, enc, ans)
        if d is not None:
            ctx.diverge(LEG, desc, d)
    if cases:
        desc, obs, req, enc = cases[0]
        ctx.sample({"leg": LEG, "desc": desc, "ops": [[s["op"], _show(s["report"])] for s in obs["steps"]][:6]})
    ok, msg = replay_fetcher_none_witness(ctx)
    ctx.count("kd_incrw:witness_fetcher_none:" + ("shown" if ok else "NOT_shown"))
    if not ok:
        ctx.diverge(LEG, {"script": WITNESS_SCRIPT}, "known-exception witness no longer behaves as the model says: " + msg)


def replay_kd(ctx: Ctx, payload) -> Tuple[bool, str]:
    """Re-runs one recorded case (generated description, or an explicit script) on the real code and the model."""
    inp = payload.get("input", payload)
    if "script" in inp:
        obs = run_script(inp["script"])
        req, enc = build_request(obs)
    else:
        obs, req, enc = one_case(inp)
    ans = Driver().run([req])[0]
    d = compare(obs, enc, ans)
    return (d is None), (d or "model and implementation agree")


# ------------------------------------------------------------------------------------------------
# explicit scripts (witnesses that do not depend on the generator)


def run_script(script: List[List[str]]) -> Dict[str, Any]:
    """script = [[op, REPORT_SRC] | ["restore", REPORT_SRC, SAVED_SRC], ...]; the sources are Python literals of worker
    state dicts, evaluated with `tensor` bound to torch.tensor.  Same observations as `run_history`."""
    import torch
    W = _wrapper_cls()
    lit = lambda src: eval(src, {"tensor": torch.tensor})
    worker, main = W(None), W(None)
    steps: List[Dict[str, Any]] = []
    for item in script:
        op, state = item[0], lit(item[1])
        delta = saved = None
        if op == "report":
            delta = _ship(worker.generate_delta(state))
            main.apply_delta(delta)
        elif op in ("restart", "resume"):
            worker, main = W(state), W(_ship(state))
        elif op == "restore":
            saved = lit(item[2])
            worker, main = W(_ship(saved)), W(copy.deepcopy(saved))
            delta = _ship(worker.generate_delta(state))
            main.apply_delta(delta)
        elif op != "skip":
            raise ValueError("unknown op " + op)
        steps.append({"op": op, "report": copy.deepcopy(state), "saved": saved, "delta": delta,
                      "main": copy.deepcopy(main.get_state()), "worker": copy.deepcopy(worker.get_state())})
    return {"steps": steps, "tags": set()}


# TDV.IncrW.losslessWitness and the witness of restore_delta_sound_statement_false
WITNESS_SCRIPT = [
    ["restart", "{'worker_id': 0, 'dataset_state': None, 'fetcher_state': {'dataset_iter_state': {'a': 5}, 'fetcher_ended': False}}"],
    ["report", "{'worker_id': 0, 'dataset_state': {'b': 6}, 'fetcher_state': None}"],
    ["restore", "{'worker_id': 0, 'dataset_state': None, 'fetcher_state': None}",
     "{'worker_id': 0, 'dataset_state': None, 'fetcher_state': {'dataset_iter_state': None, 'fetcher_ended': True}}"],
]


def replay_fetcher_none_witness(ctx: Ctx) -> Tuple[bool, str]:
    """A `fetcher_state` that turns from a dict into None is not transferred.  Returns (the real classes show the
    exception AND the model reproduces the real observations, detail)."""
    obs = run_script(WITNESS_SCRIPT)
    req, enc = build_request(obs)
    ans = Driver().run([req])[0]
    d = compare(obs, enc, ans)
    if d is not None:
        return False, "model does not reproduce the real run: " + d
    stale = [i for i, s in enumerate(obs["steps"])
             if s["delta"] is not None and s["report"]["fetcher_state"] is None and s["main"]["fetcher_state"] is not None]
    return stale == [1, 2], (f"ops whose report has fetcher_state None while main keeps one: {stale}; "
                             f"main after op 1: {_show(obs['steps'][1]['main'])}")
