"""Parts contributed by the Prefetcher protocol model (harness/props/pf_trace.py, lean Model/PF.lean)."""
from __future__ import annotations

from . import _compose, pf_trace


def parts(prop: str, kt: bool = True):
    out = []
    if kt:
        out.append(_compose.Part("pf_kt", lambda ctx: pf_trace.run_kt(ctx, ctx.n(120, 3000)), pf_trace.replay,
                                 theorems=pf_trace.THEOREMS_BY_PROP.get(prop, []), modules=pf_trace.LEAN_MODULES))
    known = pf_trace.KNOWN if prop == "C12" else None
    out.append(_compose.Part("pf_ko", lambda ctx: pf_trace.run_ko(ctx, only=prop, n=ctx.n(160, 4000)), pf_trace.replay,
                             theorems=pf_trace.THEOREMS_BY_PROP.get(prop, []), modules=pf_trace.LEAN_MODULES, known=known))
    return out
