"""C11 oracle: ParallelMapper over a source whose `state_dict()` RAISES where a snapshot is due (or at position 0 = the
reader's start-up).  `_populate_queue` must wrap the exception and ship it in-band: the consumer gets the mapped items
preceding the failed one, the error exactly once, then StopIteration for ever; `next()` never polls for ever.

    run_ko(ctx)               num_workers 1-3, method thread, in_order both, snapshot_frequency 1-3, random/adversarial schedules
    replay(ctx, payload)      re-runs one stored input ({"kind":…, "input": case})

A case is {"N","f","in_order","items","sfail","extra","sched":{"seed","adv"}}; the history is reset() then len(items)+extra next().
in_order=True: exact sequence  mapped(items[:p-1]), error, stop….  in_order=False: results of other workers may overtake the
error, so: exactly one error, the items returned (before or after it) are mapped(items[:p-1]) as a multiset, then stop for ever.
"""
from __future__ import annotations

import gc
from typing import Any, Dict, List, Optional, Tuple

from ..core import Ctx
from .. import vsched
from ..vsched import Session, VHang
from . import pf_trace
from .pf_trace import SdErr, Src

MUL, ADD = 3, 1


class MapFn:
    """map function with a switch point inside (user code runs between a worker's get and put)"""

    def __call__(self, x):
        s = vsched.CUR
        if s is not None and not s.closed:
            s.switch()
        return x * MUL + ADD


def run_case(case, op_budget=120.0) -> Tuple[List[tuple], Optional[str]]:
    from torchdata.nodes import ParallelMapper
    obs: List[tuple] = []
    hang = None
    sc = case["sched"]
    with Session(sc["seed"], adversarial=bool(sc.get("adv")), log=False, op_budget=op_budget) as s:
        gc.collect()
        gc.disable()
        try:
            src = Src(case["items"], "stop", 0.0, case["sfail"])
            node = ParallelMapper(src, MapFn(), num_workers=case["N"], in_order=case["in_order"], method="thread",
                                  snapshot_frequency=case["f"])
            try:
                s.begin_op()
                try:
                    node.reset()
                    obs.append(("reset",))
                except SdErr:
                    obs.append(("reset-error", "sd"))
                else:
                    for _ in range(len(case["items"]) + case["extra"]):
                        s.begin_op()
                        try:
                            obs.append(("i", next(node)))
                        except StopIteration:
                            obs.append(("s",))
                        except SdErr:
                            obs.append(("e", "sd"))
                        except Exception as e:  # noqa
                            obs.append(("e", type(e).__name__))
            except VHang as h:
                hang = str(h)
            node = None
            gc.collect()
        finally:
            gc.enable()
    return obs, hang


def check(case, obs, hang) -> List[Tuple[str, str]]:
    p, items = case["sfail"], case["items"]
    if hang is not None:
        return [("C11:hang", f"next() #{len(obs)} did not return ({hang}); results so far: {obs[-5:]}")]
    if p == 0:
        return [] if obs == [("reset-error", "sd")] else [("C11:wrong_terminal", f"reset(): expected the state_dict error, got {obs[:2]}")]
    pre = [("i", v * MUL + ADD) for v in items[:p - 1]]
    body = obs[1:]
    if obs[:1] != [("reset",)]:
        return [("C11:wrong_terminal", f"reset() failed: {obs[:1]}")]
    if case["in_order"]:
        exp = pre + [("e", "sd")]
        exp += [("s",)] * (len(body) - len(exp))
        if body != exp:
            return [("C11:wrong_terminal", f"expected {exp}, got {body}")]
        return []
    k = 0
    while k < len(body) and body[k] != ("s",):
        k += 1
    head, tail = body[:k], body[k:]
    bad = None
    if head.count(("e", "sd")) != 1:
        bad = "the state_dict error must be raised exactly once"
    elif sorted(x for x in head if x[0] == "i") != sorted(pre) or any(x[0] not in ("i", "e") for x in head):
        bad = f"the items returned must be the mapped prefix {pre}"
    elif not tail or any(x != ("s",) for x in tail):
        bad = "StopIteration must follow and persist"
    return [("C11:wrong_terminal", f"{bad}; got {body}")] if bad else []


def gen_case(rng) -> Dict[str, Any]:
    f = rng.choice([1, 1, 2, 3])
    n = rng.choice([1, 2, 3, 4, 5, 6, 8])
    cands = [p for p in range(1, n + 1) if p % f == 0]
    p = 0 if (not cands or rng.random() < 0.12) else rng.choice(cands)
    return {"N": rng.choice([1, 2, 3]), "f": f, "in_order": rng.random() < 0.6, "items": [rng.randrange(0, 50) for _ in range(n)],
            "sfail": p, "extra": rng.randrange(2, 5), "sched": {"seed": rng.randrange(1 << 30), "adv": rng.random() < 0.4}}


def _job(ctx: Ctx, case):
    obs, hang = run_case(case)
    if hang is not None and case["sched"].get("adv"):
        # adversarial timeouts inflate virtual time: confirm with a larger budget before reporting
        obs2, hang2 = run_case(case, op_budget=600.0)
        if hang2 is None:
            ctx.count("ko_pm_sf.slow_only_under_adversarial_timeouts")
            obs, hang = obs2, hang2
    fails = check(case, obs, hang)
    for kind, what in fails:
        ctx.fail(kind, case, "ParallelMapper over a source whose state_dict() raises at position %d: %s" % (case["sfail"], what))
    ctx.case("ko_pm_statefail", [case[k] for k in ("N", "f", "in_order", "items", "sfail", "sched")], case["sfail"] > 0)
    ctx.count("ko_pm_sf.N=%d" % case["N"])
    ctx.count("ko_pm_sf.in_order=%s" % case["in_order"])
    ctx.count("ko_pm_sf.startup" if case["sfail"] == 0 else "ko_pm_sf.midstream")
    return None


def run_ko(ctx: Ctx, n: Optional[int] = None):
    n = n if n is not None else ctx.n(70, 1500)
    rng = ctx.sub_rng("pm_statefail")
    jobs = [gen_case(rng) for _ in range(n)]
    ctx.sample({"leg": "ko_pm_statefail", "case": jobs[0]}, limit=8)
    ctx.pmap(_job, jobs)


def replay(ctx: Ctx, payload) -> Tuple[bool, str]:
    case = payload.get("input", payload)
    obs, hang = run_case(case)
    fails = check(case, obs, hang)
    return (not fails), ("; ".join(f"{k}: {w}" for k, w in fails) or "property holds on this input")
